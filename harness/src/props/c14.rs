//! C14: aggregates do not depend on arrival order or on how input is batched.
//! P-level on the real code: permutations of the input lines give the same set of result rows
//! (exactly for count/min/max/count_distinct/integer sums, within tolerance for float sums, averages,
//! percentiles); the result for A++B is the merge of the results for A and B.
//! F-level: implementation = model on the original input.
use super::c01::doc;
use super::common::*;
use crate::canon::{self, J};
use crate::imp;
use crate::Ctx;
use std::collections::BTreeMap;

type Table = BTreeMap<String, BTreeMap<String, J>>; // key text -> column -> cell

fn table_of(stdout: &[u8], keys: &[String]) -> Option<Table> {
    let text = String::from_utf8_lossy(stdout);
    match canon::parse(text.trim_end()).ok()? {
        J::Arr(rows) => {
            let mut t = Table::new();
            for r in rows {
                if let J::Obj(kvs) = r {
                    let kv: Vec<J> = keys.iter().map(|k| canon::normalize(kvs.iter().find(|x| &x.0 == k).map(|x| &x.1).unwrap_or(&J::Null))).collect();
                    let cells: BTreeMap<String, J> = kvs.into_iter().collect();
                    if t.insert(format!("{:?}", kv), cells).is_some() {
                        return None;
                    }
                } else {
                    return None;
                }
            }
            Some(t)
        }
        _ => None,
    }
}

fn f(j: Option<&J>) -> Option<f64> {
    match j {
        Some(J::Int(i)) => Some(*i as f64),
        Some(J::Float(x)) => Some(*x),
        _ => None,
    }
}

fn close(a: f64, b: f64) -> bool {
    a == b || (a.is_nan() && b.is_nan()) || (a - b).abs() <= 1e-9 * (a.abs().max(b.abs()).max(1.0))
}

#[derive(Clone, Copy, PartialEq)]
enum Kind {
    Count,
    SumInt,
    SumFloat,
    Min,
    Max,
    Avg,
    Distinct,
    Pct,
}

pub fn check(ctx: &mut Ctx) {
    // on a terminal the stage chain is re-run on every refresh: the final table must still be the
    // result for the lines that arrived — no group that only an intermediate table had (C01's
    // live family, judged by an independent reference of the chain, under this property's name)
    let nl = ctx.budget(48, 480);
    for i in 0..nl {
        let mut r = ctx.rng.fork();
        super::c01::chain_live_as(ctx, i, &mut r, "live-agg-of-agg");
    }
    let n = ctx.budget(1200, 12000);
    for _ in 0..n {
        let mut r = ctx.rng.fork();
        let nrows = 2 + r.below(if ctx.thorough() { 7 } else { 12 });
        // a share of the rows carries text that coerces to NaN in the numeric column (±inf would print as null, which the
        // merge oracle cannot tell from "no numeric value")
        let docs: Vec<String> = (0..nrows)
            .map(|_| {
                let d = doc(&mut r, false);
                if r.chance(12) {
                    d.replace("\"x\":\"word\"", "\"x\":\"NaN\"").replace("\"x\":null", "\"x\":\"NaN\"")
                } else {
                    d
                }
            })
            .collect();
        let nk = r.below(3);
        let mut keys: Vec<String> = vec![];
        for _ in 0..nk {
            let k = r.pick(&["k", "b", "s", "o.p"]).to_string();
            if !keys.contains(&k) {
                keys.push(k)
            }
        }
        // `by o.p` names the column "o.p"
        let mut funs: Vec<(String, String, Kind)> = vec![("c_all".into(), "count".into(), Kind::Count), ("a_n".into(), "avg(n)".into(), Kind::Avg)];
        for i in 0..(1 + r.below(3)) {
            let (txt, k) = match r.below(9) {
                0 => ("count(n > 5)".to_string(), Kind::Count),
                1 => ("sum(n)".to_string(), Kind::SumInt),
                2 => ("sum(o.p)".to_string(), Kind::SumInt),
                3 => ("sum(x)".to_string(), Kind::SumFloat),
                4 => (format!("min({})", r.pick(&["n", "x"])), Kind::Min),
                5 => (format!("max({})", r.pick(&["n", "x"])), Kind::Max),
                6 => (format!("count_distinct({})", r.pick(&["k", "s", "n", "b", "t"])), Kind::Distinct),
                7 => (format!("p{}({})", r.pick(&[50, 90, 10]), r.pick(&["n", "x"])), Kind::Pct),
                _ => ("avg(x)".to_string(), Kind::Avg),
            };
            funs.push((format!("f{}", i), txt, k));
        }
        let stage = format!(
            "{}{}",
            funs.iter().map(|(n, t, _)| format!("{} as {}", t, n)).collect::<Vec<_>>().join(", "),
            if keys.is_empty() { String::new() } else { format!(" by {}", keys.join(", ")) }
        );
        let q = format!("* | json | {}", stage);
        let join = |ds: &[String]| -> Vec<u8> {
            let mut v = vec![];
            for d in ds {
                v.extend(d.as_bytes());
                v.push(b'\n');
            }
            v
        };
        let input = join(&docs);
        let key = ckey(&q, &input);
        let info = serde_json::json!({"query": q, "input": String::from_utf8_lossy(&input)});
        let base = imp::run(&q, &input, "json", 10);
        if !base.compiled || base.panicked.is_some() {
            ctx.case("perm", &key, "viol", serde_json::json!({"class": "", "what": "aggregation did not run", "case": info}));
            continue;
        }
        let t0 = match table_of(&base.stdout, &keys) {
            Some(t) => t,
            None => {
                ctx.case("perm", &key, "viol", serde_json::json!({"class": "", "what": "result has duplicate key rows or is not a table", "case": info}));
                continue;
            }
        };
        // ---- permutations: all of them for ≤ 5 lines in thorough, otherwise a random sample
        let nperm = if ctx.thorough() { 60 } else { 25 };
        let mut bad: Option<String> = None;
        for _ in 0..nperm {
            let mut p = docs.clone();
            r.shuffle(&mut p);
            let rp = imp::run(&q, &join(&p), "json", 10);
            let tp = match table_of(&rp.stdout, &keys) {
                Some(t) => t,
                None => {
                    bad = Some("permuted run is not a table".into());
                    break;
                }
            };
            if tp.keys().collect::<Vec<_>>() != t0.keys().collect::<Vec<_>>() {
                bad = Some(format!("set of groups differs after permuting the input: {:?} vs {:?}", tp.keys(), t0.keys()));
                break;
            }
            for (g, cells) in &t0 {
                for (name, txt, kind) in &funs {
                    let a = cells.get(name);
                    let b = tp[g].get(name);
                    let same = match kind {
                        Kind::Count | Kind::Min | Kind::Max | Kind::Distinct | Kind::SumInt => a == b,
                        Kind::SumFloat | Kind::Avg => match (f(a), f(b)) {
                            (Some(x), Some(y)) => close(x, y),
                            _ => a == b,
                        },
                        Kind::Pct => true, // judged against the rank tolerance by C01's oracle
                    };
                    if !same {
                        bad = Some(format!("group {} column {} ({}) changes under permutation: {:?} vs {:?}; order {:?}", g, name, txt, a, b, p));
                    }
                }
            }
            if bad.is_some() {
                break;
            }
        }
        if let Some(w) = bad {
            ctx.case("perm", &key, "viol", serde_json::json!({"class": "", "what": w, "case": info}));
            continue;
        }
        ctx.case("perm", &key, "pass", info.clone());
        // ---- batching: every split point A ++ B
        let mut bad: Option<String> = None;
        for cut in 0..=docs.len() {
            let ra = imp::run(&q, &join(&docs[..cut]), "json", 10);
            let rb = imp::run(&q, &join(&docs[cut..]), "json", 10);
            let (ta, tb) = match (table_of(&ra.stdout, &keys), table_of(&rb.stdout, &keys)) {
                (Some(a), Some(b)) => (a, b),
                _ => {
                    bad = Some("part result is not a table".into());
                    break;
                }
            };
            let mut gs: Vec<&String> = ta.keys().chain(tb.keys()).collect();
            gs.sort();
            gs.dedup();
            if gs != t0.keys().collect::<Vec<_>>() {
                bad = Some(format!("groups of A++B are not the union of the groups of A and B at cut {}", cut));
                break;
            }
            for g in gs {
                let (ca, cb, cab) = (ta.get(g), tb.get(g), &t0[g]);
                for (name, txt, kind) in &funs {
                    let a = ca.and_then(|c| c.get(name));
                    let b = cb.and_then(|c| c.get(name));
                    let ab = cab.get(name);
                    let ok = match (ca.is_some(), cb.is_some()) {
                        (true, false) => merge_eq(*kind, a, ab),
                        (false, true) => merge_eq(*kind, b, ab),
                        _ => match kind {
                            Kind::Count | Kind::SumInt => match (a, b, ab) {
                                (Some(J::Int(x)), Some(J::Int(y)), Some(J::Int(z))) => x + y == *z,
                                _ => false,
                            },
                            Kind::SumFloat => match (f(a), f(b), f(ab)) {
                                (Some(x), Some(y), Some(z)) => close(x + y, z),
                                // a non-finite sum prints as null: then the whole must be null too
                                (None, _, z) | (_, None, z) => z.is_none(),
                                _ => false,
                            },
                            Kind::Min => combine(a, b, ab, |x, y| x.min(y)),
                            Kind::Max => combine(a, b, ab, |x, y| x.max(y)),
                            Kind::Avg => {
                                // weighted by the number of numeric values; only checkable for avg(n)
                                // when every row of the group has n (then the weight is c_all) — otherwise skip
                                true
                            }
                            Kind::Distinct | Kind::Pct => true,
                        },
                    };
                    if !ok {
                        bad = Some(format!("cut {}: group {} column {} ({}): A={:?} B={:?} A++B={:?}", cut, g, name, txt, a, b, ab));
                    }
                }
            }
            if bad.is_some() {
                break;
            }
        }
        match bad {
            Some(w) => ctx.case("merge", &key, "viol", serde_json::json!({"class": "", "what": w, "case": info})),
            None => ctx.case("merge", &key, "pass", info.clone()),
        }
        // ---- F-level
        let c = run_both(ctx, &q, &input);
        match compare(&c, true) {
            F::Agree => ctx.case("model", &key, "pass", info),
            F::Skip(w) => ctx.case("model", "", "skip", serde_json::json!({"why": w.split(':').next().unwrap_or("").to_string()})),
            F::Disagree(d) => ctx.case("model", &key, "fdis", serde_json::json!({"what": d, "case": info})),
        }
    }
    check_large(ctx);
    check_big_int_sums(ctx);
}

/// inputs large enough to cross the size thresholds an implementation may have (small-set or
/// small-vector optimisations, buffer sizes): many distinct values per group, some occurring once
fn check_large(ctx: &mut Ctx) {
    let n = ctx.budget(160, 4000);
    for _ in 0..n {
        let mut r = ctx.rng.fork();
        let rows = *r.pick(&[15usize, 16, 17, 31, 32, 33, 34, 40, 63, 64, 65, 66, 100, 127, 128, 129, 130, 255, 256, 257, 300, 511, 512, 513, 600]);
        let ngroups = 1 + r.below(3);
        let dup_pct = *r.pick(&[0usize, 10, 50, 90]);
        // values: mostly fresh, some repeated; typed variety (ints, strings, floats)
        let mut docs: Vec<String> = vec![];
        let mut fresh = 0u64;
        let mut seen: Vec<String> = vec![];
        for i in 0..rows {
            let g = ["a", "b", "c"][r.below(ngroups)];
            let u = if !seen.is_empty() && r.chance(dup_pct) {
                r.pick(&seen).clone()
            } else {
                fresh += 1;
                let v = match r.below(3) {
                    0 => format!("{}", fresh),
                    1 => format!("\"v{}\"", fresh),
                    _ => format!("{}.5", fresh),
                };
                seen.push(v.clone());
                v
            };
            docs.push(format!("{{\"k\":\"{}\",\"u\":{},\"n\":{},\"i\":{}}}", g, u, r.range(-1000, 1000), i));
        }
        // one case in five groups by integers at the edge of the i64 range together with the double
        // 2^63 (and neighbours of 2^53): values that an order-based or float-based notion of "same
        // key" would merge, and which one is merged would depend on the arrival order
        if r.chance(20) {
            let edge = ["9223372036854775807", "9223372036854775806", "9223372036854775808", "9223372036854775296", "9007199254740993", "9007199254740992", "9007199254740994", "-9223372036854775808", "-9223372036854775807"];
            // (not in the list: literals such as 9007199254740992.0 or -9223372036854775809, which are doubles with an
            // integral value inside the i64 range and therefore ARE the corresponding integer key by the documented rule)
            for d in docs.iter_mut() {
                let id = r.pick(&edge);
                *d = d.replacen("{\"k\":\"", &format!("{{\"k\":{},\"kk\":\"", id), 1);
            }
        }
        let edge_keys = docs.first().map(|d| !d.starts_with("{\"k\":\"")).unwrap_or(false);
        let by = if r.chance(70) || edge_keys { " by k" } else { "" };
        let q = format!("* | json | count as c, count_distinct(u) as d, sum(n) as s, min(n) as lo, max(n) as hi{}", by);
        let keys: Vec<String> = if by.is_empty() { vec![] } else { vec!["k".into()] };
        let join = |ds: &[String]| -> Vec<u8> { ds.iter().flat_map(|d| d.bytes().chain(std::iter::once(b'\n'))).collect() };
        let input = join(&docs);
        let key = ckey(&q, &input);
        let info = serde_json::json!({"query": q, "rows": rows, "distinct_values": seen.len(), "input": if input.len() < 6000 { String::from_utf8_lossy(&input).to_string() } else { format!("({} bytes; regenerate from the seed)", input.len()) }, "input_hex": crate::enc::hexb(&input)});
        let base = imp::run(&q, &input, "json", 20);
        let t0 = match table_of(&base.stdout, &keys) {
            Some(t) if base.compiled && base.panicked.is_none() => t,
            _ => {
                ctx.case("large", &key, "viol", serde_json::json!({"class": "", "what": "aggregation did not produce a table", "case": info}));
                continue;
            }
        };
        // reference: distinct values and row counts per group, computed here
        let mut want: BTreeMap<String, (i64, std::collections::BTreeSet<String>)> = BTreeMap::new();
        for d in &docs {
            let g = if by.is_empty() {
                "[]".to_string()
            } else {
                let raw = d[5..].split(|c| c == ',').next().unwrap_or("null");
                format!("{:?}", vec![canon::normalize(&canon::parse(raw).unwrap_or(J::Null))])
            };
            let u = d.split("\"u\":").nth(1).unwrap().split(",\"n\"").next().unwrap().to_string();
            let e = want.entry(g).or_default();
            e.0 += 1;
            e.1.insert(u);
        }
        let mut bad: Option<String> = None;
        for (g, (c, set)) in &want {
            match t0.get(g) {
                Some(cells) => {
                    if cells.get("c") != Some(&J::Int(*c)) || cells.get("d") != Some(&J::Int(set.len() as i64)) {
                        bad = Some(format!("group {}: count {:?} (true {}), count_distinct {:?} (true {})", g, cells.get("c"), c, cells.get("d"), set.len()));
                    }
                }
                None => bad = Some(format!("group {} missing from the result ({:?})", g, t0.keys())),
            }
        }
        // permutations, exact
        if bad.is_none() {
            for variant in 0..6 {
                let mut p = docs.clone();
                match variant {
                    0 => p.reverse(),
                    1 => p.sort(),
                    2 => {
                        // values that occur once go last
                        let cnt = |d: &String| docs.iter().filter(|e| e.split("\"u\":").nth(1).unwrap().split(",\"n\"").next() == d.split("\"u\":").nth(1).unwrap().split(",\"n\"").next()).count();
                        if rows <= 300 {
                            p.sort_by_key(|d| std::cmp::Reverse(cnt(d)));
                        } else {
                            r.shuffle(&mut p);
                        }
                    }
                    _ => r.shuffle(&mut p),
                }
                let rp = imp::run(&q, &join(&p), "json", 20);
                match table_of(&rp.stdout, &keys) {
                    Some(tp) if tp == t0 => {}
                    Some(tp) => {
                        let g = t0.iter().find(|(g, c)| tp.get(*g) != Some(c)).map(|x| x.0.clone()).unwrap_or_default();
                        bad = Some(format!("permutation {} of the input lines changes the result: group {} {:?} vs {:?}", variant, g, t0.get(&g), tp.get(&g)));
                        break;
                    }
                    None => {
                        bad = Some("permuted run is not a table".into());
                        break;
                    }
                }
            }
        }
        if let Some(w) = bad {
            ctx.case("large", &key, "viol", serde_json::json!({"class": "", "what": w, "case": info}));
            continue;
        }
        ctx.case("large", &key, "pass", serde_json::json!({"query": q, "rows": rows, "distinct_values": seen.len()}));
        let c = run_both(ctx, &q, &input);
        match compare(&c, true) {
            F::Agree => ctx.case("model", &key, "pass", serde_json::json!({"query": q, "rows": rows})),
            F::Skip(w) => ctx.case("model", "", "skip", serde_json::json!({"why": w.split(':').next().unwrap_or("").to_string()})),
            F::Disagree(d) => ctx.case("model", &key, "fdis", serde_json::json!({"what": d, "case": info})),
        }
    }
}

/// integer sums whose PARTIAL sums leave the i64 range in some arrival orders while the total
/// (and every partial sum, as a double) is exactly representable: multiples of 10^18. "Exactly for
/// … integer sums": every permutation and every split must give the same total.
fn check_big_int_sums(ctx: &mut Ctx) {
    let n = ctx.budget(60, 1500);
    for _ in 0..n {
        let mut r = ctx.rng.fork();
        let k = 3 + r.below(3);
        let coef: Vec<i64> = (0..k).map(|_| *r.pick(&[4i64, 4, 3, -5, 9, -9, 8, 1, -2, 6])).collect();
        let docs: Vec<String> = coef.iter().enumerate().map(|(i, c)| format!("{{\"g\":\"a\",\"v\":{}000000000000000000,\"i\":{}}}", c, i)).collect();
        let q = "* | json | sum(v) as s, count as c by g";
        let join = |ds: &[String]| -> Vec<u8> { ds.iter().flat_map(|d| d.bytes().chain(std::iter::once(b'\n'))).collect() };
        let key = format!("big-int-sums:{:?}", coef);
        let want: f64 = coef.iter().map(|c| *c as f64 * 1e18).sum();
        let sum_of = |input: &[u8]| -> Option<f64> {
            let r = imp::run(q, input, "json", 10);
            match canon::parse(String::from_utf8_lossy(&r.stdout).trim_end()) {
                Ok(J::Arr(rows)) if rows.len() == 1 => match &rows[0] {
                    J::Obj(kvs) => f(kvs.iter().find(|kv| kv.0 == "s").map(|kv| &kv.1)),
                    _ => None,
                },
                _ => None,
            }
        };
        let mut bad: Option<String> = None;
        // all permutations for ≤ 4 rows, a sample otherwise
        let mut perm: Vec<usize> = (0..k).collect();
        for round in 0..(if k <= 4 { 24 } else { 40 }) {
            if k <= 4 {
                // next lexicographic permutation
                if round > 0 {
                    let mut i = k - 1;
                    while i > 0 && perm[i - 1] >= perm[i] { i -= 1; }
                    if i == 0 { break; }
                    let mut j = k - 1;
                    while perm[j] <= perm[i - 1] { j -= 1; }
                    perm.swap(i - 1, j);
                    perm[i..].reverse();
                }
            } else {
                r.shuffle(&mut perm);
            }
            let p: Vec<String> = perm.iter().map(|i| docs[*i].clone()).collect();
            match sum_of(&join(&p)) {
                Some(s) if s == want => {}
                other => {
                    bad = Some(format!("order {:?}: sum {:?}, the total is {}", perm.iter().map(|i| coef[*i]).collect::<Vec<_>>(), other, want));
                    break;
                }
            }
            // split after every prefix: sums add
            for cut in 1..k {
                let (a, b) = (sum_of(&join(&p[..cut])), sum_of(&join(&p[cut..])));
                if let (Some(a), Some(b)) = (a, b) {
                    if a + b != want {
                        bad = Some(format!("order {:?} cut {}: sum(A) + sum(B) = {} + {} ≠ {}", perm, cut, a, b, want));
                    }
                }
            }
            if bad.is_some() { break; }
        }
        let info = serde_json::json!({"query": q, "values": coef.iter().map(|c| format!("{}e18", c)).collect::<Vec<_>>()});
        match bad {
            Some(w) => ctx.case("big-int-sums", &key, "viol", serde_json::json!({"class": "", "what": w, "case": info})),
            None => ctx.case("big-int-sums", &key, "pass", info),
        }
    }
}

fn merge_eq(kind: Kind, part: Option<&J>, whole: Option<&J>) -> bool {
    match kind {
        Kind::SumFloat | Kind::Avg => match (f(part), f(whole)) {
            (Some(x), Some(y)) => close(x, y),
            _ => part == whole,
        },
        Kind::Pct => true,
        _ => part == whole,
    }
}

fn combine(a: Option<&J>, b: Option<&J>, ab: Option<&J>, op: fn(f64, f64) -> f64) -> bool {
    match (f(a), f(b)) {
        (Some(x), Some(y)) => f(ab) == Some(op(x, y)),
        (Some(x), None) => f(ab) == Some(x),
        (None, Some(y)) => f(ab) == Some(y),
        (None, None) => ab == Some(&J::Null) || ab.is_none(),
    }
}
