//! DISPLAY: `impl Display for Value` (src/data.rs) against the model's `Ag.Value.display`
//! (AgModel/Display.lean) — the text `concat`, `contains`, `length`, `substring`, `toLowerCase`,
//! `toUpperCase`, `parseHex`, `parseDate` see for a value of any variant.
//! F-level only: `format!("{}", v)` of a typed `ag::data::Value` versus `DISPLAY <tokens>`.
//!
//! Families
//!   random      values of every variant, arrays / objects nested to depth 3
//!   codepoints  every Unicode scalar value, in runs of 256, inside an array element and as an object
//!               key (the two places where `str`'s Debug escaping applies)
//!   strings     hand-picked and random strings (quotes, backslashes, controls, non-ASCII, combining marks)
//!   floats      specials, integral, tiny, huge, the 1e-4 / 1e16 switch points and their neighbours,
//!               random bit patterns; top level (`{}`) and as an array element (`{:?}`)
//!   dates       `DateTime::<Utc>::from_timestamp(secs, nanos)` over chrono's whole range
//!   durations   positive / negative, with sub-second parts, up to chrono's bounds
use crate::enc;
use crate::rng::Rng;
use crate::vals;
use crate::Ctx;
use ag::data::Value;
use ordered_float::OrderedFloat;

fn fl(x: f64) -> Value {
    Value::Float(OrderedFloat(x))
}
fn st(x: &str) -> Value {
    Value::Str(x.to_string())
}
fn obj(kvs: Vec<(String, Value)>) -> Value {
    let mut m = im::HashMap::new();
    for (k, v) in kvs {
        m.insert(k, v);
    }
    Value::Obj(m)
}

/// chrono's `DateTime<Utc>` range in seconds (years −262143 ..= 262142)
const DATE_MIN_S: i64 = -8_334_601_228_800;
const DATE_MAX_S: i64 = 8_210_266_876_799;

fn rand_string(r: &mut Rng) -> String {
    const FIXED: &[&str] = &[
        "", "a", "plain text", "q\"uote", "it's", "back\\slash", "\\\"", "tab\there", "line\nfeed", "cr\rlf\n", "nul\0byte",
        "\u{1}\u{2}\u{1f}", "\u{7f}", "\u{80}\u{9f}", "\u{a0}nbsp", "soft\u{ad}hyphen", "héllo", "日本語", "ß", "Ω≈ç√", "e\u{301}",
        "\u{300}lead", "\u{200b}zwsp", "\u{200d}", "\u{feff}bom", "\u{2028}\u{2029}", "\u{3000}", "😀", "👍🏽", "🇩🇪", "\u{e000}",
        "\u{fffd}", "\u{ffff}", "\u{10ffff}", "\u{1d11e}", "\u{e0100}", "{}", "[1, 2]", "Str(\"x\")", "{\"k\": 1}", " ", "  two  ",
        "a\u{0}b\u{7}c\u{1b}[0m", "\\u{41}", "\\n", "'", "''", "\"", "%s {} {:?}", "ａｂｃ", "\u{9}\u{a}\u{b}\u{c}\u{d}",
    ];
    if r.chance(55) {
        return r.pick(FIXED).to_string();
    }
    let n = r.below(9);
    let mut s = String::new();
    for _ in 0..n {
        let cp: u32 = match r.below(12) {
            0 | 1 | 2 | 3 => r.range(0x20, 0x7e) as u32,
            4 => r.range(0, 0x1f) as u32,
            5 => r.range(0x7f, 0xff) as u32,
            6 => *r.pick(&[0x22u32, 0x27, 0x5c, 0x0a, 0x09, 0x0d, 0x00]),
            7 => r.range(0x100, 0x36f) as u32,
            8 => r.range(0x370, 0x2fff) as u32,
            9 => r.range(0x3000, 0xffff) as u32,
            10 => r.range(0x10000, 0x3ffff) as u32,
            _ => r.range(0xe0000, 0x10ffff) as u32,
        };
        if let Some(c) = char::from_u32(cp) {
            s.push(c)
        }
    }
    s
}

fn rand_float(r: &mut Rng) -> f64 {
    const FIXED: &[f64] = &[
        0.0, -0.0, 1.0, -1.0, 1.5, -2.25, 0.1, 0.2, 0.30000000000000004, 100.0, 1e3, 123456.0, 1e15, 9007199254740992.0,
        9007199254740993.0, 9999999999999998.0, 1e16, 1.0000000000000002e16, 1e17, 1.2345e20, 1e21, 1e22, 1e23, 1e100, 1e300,
        1.7976931348623157e308, 1e-3, 1e-4, 0.00010000000000000002, 0.00009999999999999999, 9.99e-5, 1e-5, 1.5e-7, 1e-10, 2.2250738585072014e-308,
        2.225073858507201e-308, 5e-324, 1e-323, 0.5, 0.25, 3.141592653589793, 2.718281828459045, 42.5, 41.99, 1e9, 4294967296.0,
        9223372036854775807.0, -9223372036854775808.0, 18446744073709551615.0, 0.3, 1.0e-4 * 3.0, 12345.678, 1e7, 1.25e-5,
        f64::NAN, f64::INFINITY, f64::NEG_INFINITY, f64::MAX, f64::MIN, f64::MIN_POSITIVE, f64::EPSILON,
    ];
    match r.below(11) {
        10 => {
            // binades where one ulp is 1/2 … 1/16: the exact value often lies half-way between two
            // equally short decimals (1000000000000000.25 → `.3`, the tie goes up)
            let d = *r.pick(&[2.0f64, 4.0, 8.0, 16.0]);
            let n = r.range(1i64 << 52, (1i64 << 53) - 1);
            let x = n as f64 / d;
            if r.chance(30) { -x } else { x }
        }
        0 | 1 | 2 => {
            let x = *r.pick(FIXED);
            if r.chance(25) { -x } else { x }
        }
        3 => {
            // neighbours of the two switch points of `{:?}` and of other powers of ten
            let base = *r.pick(&[1e-4f64, 1e16, 1e-5, 1e15, 1e17, 1e-3, 1.0, 1e22, 1e23]);
            let d = r.range(-3, 3);
            let x = f64::from_bits((base.to_bits() as i64 + d) as u64);
            if r.chance(30) { -x } else { x }
        }
        4 => r.range(-1_000_000, 1_000_000) as f64,
        5 => (r.range(-100_000_000, 100_000_000) as f64) / *r.pick(&[10.0, 100.0, 1000.0, 8.0, 3.0, 1e7, 1e12]),
        6 => {
            // integral and huge
            let m = r.range(1, 999_999) as f64;
            m * 10f64.powi(r.range(0, 300) as i32)
        }
        7 => {
            // tiny
            let m = r.range(1, 999_999) as f64;
            m * 10f64.powi(-(r.range(0, 320) as i32))
        }
        _ => {
            let x = f64::from_bits(r.next());
            if x.is_nan() { f64::NAN } else { x }
        }
    }
}

fn rand_date(r: &mut Rng) -> Value {
    let secs = match r.below(10) {
        0 => *r.pick(&[0i64, 7, -1, 1_600_000_000, 1_609_459_207, 951_782_400, 951_868_799, 4_102_444_800, -62_135_596_800, -62_135_596_801,
            -62_167_219_200, -62_167_219_201, 253_402_300_799, 253_402_300_800, DATE_MIN_S, DATE_MAX_S, 86_399, 86_400, -86_400, -86_401]),
        1 | 2 | 3 => r.range(-2_000_000_000, 4_200_000_000),
        4 | 5 => r.range(-62_200_000_000, 253_500_000_000),
        _ => r.range(DATE_MIN_S, DATE_MAX_S),
    };
    let nanos: u32 = match r.below(8) {
        0 | 1 => 0,
        2 => (r.below(1000) * 1_000_000) as u32,
        3 => (r.below(1_000_000) * 1000) as u32,
        4 => *r.pick(&[1u32, 999_999_999, 500_000_000, 1000, 1_000_000, 999_000_000, 100, 10]),
        _ => r.below(1_000_000_000) as u32,
    };
    match chrono::DateTime::<chrono::Utc>::from_timestamp(secs, nanos) {
        Some(dt) => Value::DateTime(dt),
        None => Value::DateTime(chrono::DateTime::<chrono::Utc>::from_timestamp(0, nanos).unwrap()),
    }
}

fn rand_dur(r: &mut Rng) -> Value {
    let max_s: i64 = i64::MAX / 1000;
    let secs = match r.below(8) {
        0 => *r.pick(&[0i64, 5, -5, 1, -1, -2, 59, 60, 3600, 86_400, 604_800, -604_800, i64::MAX / 1000 - 1, -(i64::MAX / 1000) + 1]),
        1 | 2 | 3 => r.range(-100_000, 100_000),
        4 | 5 => r.range(-10_000_000_000, 10_000_000_000),
        _ => r.range(-max_s + 1, max_s - 1),
    };
    let nanos: u32 = match r.below(6) {
        0 | 1 => 0,
        2 => (r.below(1000) * 1_000_000) as u32,
        3 => *r.pick(&[1u32, 999_999_999, 500_000_000, 1000, 1_000_000]),
        _ => r.below(1_000_000_000) as u32,
    };
    match chrono::Duration::new(secs, nanos) {
        Some(d) => Value::Duration(if r.chance(15) { -d } else { d }),
        None => Value::Duration(chrono::Duration::milliseconds(-1500)),
    }
}

fn rand_int(r: &mut Rng) -> i64 {
    match r.below(6) {
        0 => *r.pick(&[0i64, 1, -1, i64::MAX, i64::MIN, i64::MAX - 1, 9007199254740993, -9007199254740993, 2147483648, 10, -10]),
        1 | 2 => r.range(-1000, 1000),
        3 => r.range(-1_000_000_000_000, 1_000_000_000_000),
        _ => r.next() as i64,
    }
}

fn rand_scalar(r: &mut Rng) -> Value {
    match r.below(16) {
        0 => Value::None,
        1 => Value::Bool(r.chance(50)),
        2 | 3 => Value::Int(rand_int(r)),
        4 | 5 | 6 => fl(rand_float(r)),
        7 | 8 | 9 | 10 => Value::Str(rand_string(r)),
        11 | 12 => rand_date(r),
        13 | 14 => rand_dur(r),
        _ => vals::random_scalar(r),
    }
}

fn rand_key(r: &mut Rng) -> String {
    if r.chance(70) {
        r.pick(&["p", "q", "r", "k", "a", "B", "key with space", "", "é", "z\"q", "b\\s", "10", "9", "日本", "n\nl", "_x"]).to_string()
    } else {
        rand_string(r)
    }
}

pub fn rand_value(r: &mut Rng, depth: usize) -> Value {
    if depth == 0 || r.chance(45) {
        return rand_scalar(r);
    }
    if r.chance(50) {
        let n = r.below(5);
        Value::Array((0..n).map(|_| rand_value(r, depth - 1)).collect())
    } else {
        let n = r.below(5);
        obj((0..n).map(|_| (rand_key(r), rand_value(r, depth - 1))).collect())
    }
}

fn short(s: &str) -> String {
    if s.chars().count() > 400 {
        let t: String = s.chars().take(400).collect();
        format!("{}…", t)
    } else {
        s.to_string()
    }
}

fn key_of(tokens: &str) -> String {
    use std::hash::{Hash, Hasher};
    let mut h = std::collections::hash_map::DefaultHasher::new();
    tokens.hash(&mut h);
    format!("{:016x}", h.finish())
}

/// first position (in chars) where two texts differ, with the code point the implementation has there
fn first_diff(a: &str, b: &str) -> serde_json::Value {
    let (x, y): (Vec<char>, Vec<char>) = (a.chars().collect(), b.chars().collect());
    let i = x.iter().zip(y.iter()).take_while(|(p, q)| p == q).count();
    serde_json::json!({"at_char": i,
        "impl_from_there": x[i.min(x.len())..].iter().take(24).collect::<String>(),
        "model_from_there": y[i.min(y.len())..].iter().take(24).collect::<String>()})
}

/// one comparison; `trivial` = do not count the case as a distinct non-trivial one
fn one(ctx: &mut Ctx, family: &str, v: &Value, trivial: bool) {
    let tokens = vals::tokens(v);
    let real = format!("{}", v);
    let ans = ctx.drv.ask(&format!("DISPLAY\t{}", tokens));
    let key = if trivial { String::new() } else { key_of(&tokens) };
    if let Some(h) = ans.strip_prefix("TEXT") {
        let bytes = enc::unhex(h.trim());
        if bytes == real.as_bytes() {
            ctx.case(family, &key, "pass", serde_json::json!({"value": short(&format!("{:?}", v)), "text": short(&real)}));
        } else {
            let model = String::from_utf8_lossy(&bytes).to_string();
            ctx.case(
                family,
                &key_of(&tokens),
                "fdis",
                serde_json::json!({"what": "Display text differs", "tokens": tokens, "impl": short(&real), "model": short(&model),
                    "diff": first_diff(&real, &model)}),
            );
        }
    } else if let Some(w) = ans.strip_prefix("SKIP") {
        ctx.case(family, "", "skip", serde_json::json!({"why": w.trim(), "tokens": short(&tokens)}));
    } else {
        ctx.case(family, &key_of(&tokens), "fdis", serde_json::json!({"what": "unexpected driver answer", "answer": short(&ans), "tokens": short(&tokens)}));
    }
}

pub fn check(ctx: &mut Ctx) {
    // replay of one value: the file holds the protocol tokens; only the model side can be replayed
    // from tokens, so print its answer for inspection
    if let Some(path) = ctx.replay.clone() {
        if let Ok(t) = std::fs::read_to_string(&path) {
            let ans = ctx.drv.ask(&format!("DISPLAY\t{}", t.trim()));
            ctx.case("replay", "", "skip", serde_json::json!({"why": "replay prints the model's answer only", "answer": ans}));
        }
        return;
    }

    // --- random values of every variant, nested to depth 3
    let n = ctx.budget(6000, 400_000);
    for _ in 0..n {
        let mut r = ctx.rng.fork();
        let v = match r.below(10) {
            0 | 1 => rand_scalar(&mut r),
            2 => Value::Array(vec![rand_scalar(&mut r)]),
            _ => rand_value(&mut r, 3),
        };
        let trivial = matches!(v, Value::None | Value::Bool(_));
        one(ctx, "random", &v, trivial);
    }

    // --- every scalar value of Unicode, 256 at a time, where `str` Debug applies
    let run: u32 = 256;
    let nruns = (0x110000u32 / run) as usize;
    for i in 0..nruns {
        if i % ctx.nshards != ctx.shard {
            continue;
        }
        let s: String = (i as u32 * run..(i as u32 + 1) * run).filter_map(char::from_u32).collect();
        if s.is_empty() {
            continue;
        }
        // as an element and as a key; alternate so that both are covered over the whole range in the
        // thorough tier and on alternating runs in the quick tier
        if ctx.thorough() || i % 2 == 0 {
            one(ctx, "codepoints", &Value::Array(vec![Value::Str(s.clone())]), false);
        }
        if ctx.thorough() || i % 2 == 1 {
            one(ctx, "codepoints", &obj(vec![(s.clone(), Value::None)]), false);
        }
        // the bare string is the text itself
        if i % 64 == 0 {
            one(ctx, "codepoints", &Value::Str(s), false);
        }
    }

    // --- strings
    let n = ctx.budget(1500, 60_000);
    for _ in 0..n {
        let mut r = ctx.rng.fork();
        let s = rand_string(&mut r);
        let v = match r.below(4) {
            0 => Value::Str(s),
            1 => Value::Array(vec![Value::Str(s)]),
            2 => obj(vec![(s, Value::Int(1))]),
            _ => Value::Array(vec![obj(vec![(rand_string(&mut r), Value::Str(s))])]),
        };
        one(ctx, "strings", &v, false);
    }

    // --- floats: `{}` at top level, `{:?}` as an element
    let n = ctx.budget(3000, 300_000);
    for _ in 0..n {
        let mut r = ctx.rng.fork();
        let x = rand_float(&mut r);
        let v = if r.chance(75) { Value::Array(vec![fl(x)]) } else { fl(x) };
        one(ctx, "floats", &v, false);
    }

    // --- dates and durations
    let n = ctx.budget(1500, 100_000);
    for _ in 0..n {
        let mut r = ctx.rng.fork();
        let d = rand_date(&mut r);
        let v = if r.chance(40) { Value::Array(vec![d]) } else { d };
        one(ctx, "dates", &v, false);
        let d = rand_dur(&mut r);
        let v = if r.chance(40) { obj(vec![("d".to_string(), d)]) } else { d };
        one(ctx, "durations", &v, false);
    }

    // --- fixed witnesses (shard 0): the formats named in the documentation of the model
    if ctx.shard == 0 {
        let date = |s: i64, n: u32| Value::DateTime(chrono::DateTime::<chrono::Utc>::from_timestamp(s, n).unwrap());
        let fixed: Vec<(Value, &str)> = vec![
            (Value::Array(vec![]), "[]"),
            (obj(vec![]), "{}"),
            (Value::Array(vec![Value::Int(1), st("a\"b")]), "[Int(1), Str(\"a\\\"b\")]"),
            (obj(vec![("k2".into(), Value::None), ("k".into(), fl(1.0))]), "{\"k\": Float(OrderedFloat(1.0)), \"k2\": None}"),
            (date(1_609_459_207, 0), "2021-01-01T00:00:07Z"),
            (date(1_609_459_207, 500_000_000), "2021-01-01T00:00:07.500Z"),
            (Value::Duration(chrono::Duration::seconds(5)), "TimeDelta { secs: 5, nanos: 0 }"),
            (Value::Duration(chrono::Duration::milliseconds(-1500)), "TimeDelta { secs: -2, nanos: 500000000 }"),
            (Value::Array(vec![fl(1e16), fl(1.5e-7), fl(-0.0), fl(f64::NAN), fl(1e-4)]),
             "[Float(OrderedFloat(1e16)), Float(OrderedFloat(1.5e-7)), Float(OrderedFloat(-0.0)), Float(OrderedFloat(NaN)), Float(OrderedFloat(0.0001))]"),
            (Value::Array(vec![st("it's\n\0\u{7f}é\u{301}")]), "[Str(\"it's\\n\\0\\u{7f}é\\u{301}\")]"),
            (Value::Array(vec![Value::Array(vec![Value::Bool(true)]), obj(vec![("o".into(), obj(vec![]))])]), "[Array([Bool(true)]), Obj({\"o\": Obj({})})]"),
        ];
        for (v, want) in fixed {
            // the harness's own reading of the format is checked first: a mismatch here is a harness
            // bug or a change of the pinned toolchain / chrono, not a model defect
            let real = format!("{}", v);
            if real != want {
                ctx.case("fixed", want, "fdis", serde_json::json!({"what": "the implementation's text is not the documented one", "impl": real, "documented": want}));
                continue;
            }
            one(ctx, "fixed", &v, false);
        }
    }
}
