//! C09: sorting returns an ordered permutation under one total value order.
use super::common::*;
use crate::canon::{self, J};
use crate::gen;
use crate::imp;
use crate::vals;
use crate::Ctx;
use ag::data::Value;
use std::cmp::Ordering;

fn rank(j: &J) -> u8 {
    match j {
        J::Null => 0,
        J::Bool(_) => 1,
        J::Int(_) | J::Float(_) => 2,
        J::Str(_) => 3,
        J::Arr(_) => 6,
        J::Obj(_) => 7,
    }
}

/// the documented order on the values that JSON output can show
fn jcmp(a: &J, b: &J) -> Ordering {
    match (a, b) {
        (J::Bool(x), J::Bool(y)) => x.cmp(y),
        (J::Int(x), J::Int(y)) => x.cmp(y),
        // numbers compare by VALUE: an integer against a double exactly (not through `as f64`)
        (J::Int(x), J::Float(y)) => int_vs_float(*x, *y),
        (J::Float(x), J::Int(y)) => int_vs_float(*y, *x).reverse(),
        (J::Float(x), J::Float(y)) => x.partial_cmp(y).unwrap_or(Ordering::Equal),
        (J::Str(x), J::Str(y)) => x.cmp(y),
        _ => rank(a).cmp(&rank(b)),
    }
}

/// exact order of an integer and a (non-NaN) double, by their mathematical values
fn int_vs_float(i: i64, f: f64) -> Ordering {
    if f.is_nan() {
        return Ordering::Less;
    }
    if f >= 9223372036854775808.0 {
        return Ordering::Less;
    }
    if f < -9223372036854775808.0 {
        return Ordering::Greater;
    }
    // |f| < 2^63: floor is exact; compare i with floor(f), then a positive remainder decides
    let fl = f.floor();
    match (i as i128).cmp(&(fl as i128)) {
        Ordering::Equal => if f > fl { Ordering::Less } else { Ordering::Equal },
        o => o,
    }
}

fn is_scalar_in_domain(v: &Value) -> bool {
    match v {
        Value::Int(_) => true, // (was |i| ≤ 2^53 while integers were compared with doubles through f64; exact since /repo 8e2945c)
        Value::Float(f) => !f.0.is_nan(),
        Value::Obj(_) => false,
        _ => true,
    }
}

/// the implicit order of an aggregation at the end of a query or directly before `limit`
fn check_implicit_sort(ctx: &mut Ctx) {
    let n = ctx.budget(240, 6000);
    for _ in 0..n {
        let mut r = ctx.rng.fork();
        let nrows = 3 + r.below(25);
        let input = agg_docs(&mut r, nrows);
        let ts = r.chance(60);
        let pre = if ts { format!("* | json | timeslice(parseDate(ts)) {}", r.pick(&["5m", "10m", "1h"])) } else { "* | json".to_string() };
        let (aggs, cols): (&str, Vec<&str>) = r.pick(&[("count", vec!["_count"]), ("count, sum(n)", vec!["_count", "_sum"]), ("sum(m) as s, count as c", vec!["s", "c"]), ("max(n) as hi", vec!["hi"])]).clone();
        let keys = if ts { *r.pick(&["_timeslice, k", "k, _timeslice", "_timeslice", "_timeslice, k, n"]) } else { *r.pick(&["k", "k, n", "n"]) };
        let agg = format!("{} by {}", aggs, keys);
        // (the implicit order in front of a limit holds whatever comes later — also another sort)
        let tail = *r.pick(&["", "", " | limit 1", " | limit 3", " | limit -2", " | limit 2 | limit 1", " | limit 2 | sort by k", " | limit 1 | sort", " | limit -2 | where 1 == 1 | sort by k desc", " | limit 3 | fields except nosuch | sort by k", " | limit 2 | sort by k | count"]);
        let key = ckey(&format!("{} | {}{}", pre, agg, tail), &input);
        match implicit_sort_equiv(&pre, &agg, &cols, ts, tail, &input) {
            None => ctx.case("implicit-sort", &key, "pass", serde_json::json!({"query": format!("{} | {}{}", pre, agg, tail)})),
            Some((q1, q2, o1, o2)) => ctx.case("implicit-sort", &key, "viol", serde_json::json!({"class": "", "what": "an aggregation at the end of the query (or before limit) is not in the documented implicit order: it differs from the same query with that sort written out",
                "query": q1, "query_with_explicit_sort": q2, "got": o1, "expected": o2, "input": String::from_utf8_lossy(&input)})),
        }
        // F-level on the implicit form
        let q1 = format!("{} | {}{}", pre, agg, tail);
        let c = run_both(ctx, &q1, &input);
        match compare(&c, true) {
            F::Disagree(d) => ctx.case("model", &key, "fdis", serde_json::json!({"what": d, "query": q1, "input": String::from_utf8_lossy(&input)})),
            F::Agree => ctx.case("model", &key, "pass", serde_json::json!({"query": q1})),
            F::Skip(w) => ctx.case("model", "", "skip", serde_json::json!({"why": w.split(':').next().unwrap_or("").to_string()})),
        }
    }
}

/// `sort … | limit n` prints the first n rows (`limit -n`: the last n) of what `sort …` alone
/// prints — whatever the sorter does to save work when a limit follows.  Raw rows with FEW distinct
/// key values, so that the cut falls inside a group of rows that tie on the sort key and the
/// documented tie-break (the remaining columns) decides which of them are kept.
pub fn check_sort_then_limit(ctx: &mut Ctx, fam: &str) {
    let n = ctx.budget(160, 5000);
    for _ in 0..n {
        let mut r = ctx.rng.fork();
        let rows = 3 + r.below(14);
        let dom = 1 + r.below(3);
        let input: String = (0..rows)
            .map(|_| {
                let name: String = (0..1 + r.below(3)).map(|_| *r.pick(&['a', 'b', 'c', 'x', 'y', 'z', 'Q', '0'])).collect();
                format!("{{\"k\":{},\"g\":\"{}\",\"name\":\"{}\",\"n\":{}}}\n", r.below(dom), r.pick(&["u", "v"]), name, r.range(-5, 5))
            })
            .collect();
        let pre = *r.pick(&["", "", "", "where n > -4 | ", "fields k, g, name, n | ", "n + 1 as m | "]);
        let sortq = *r.pick(&["sort by k", "sort by k", "sort by k desc", "sort by k desc", "sort by k, g", "sort by g desc, k", "sort by k + 0", "sort by k * 2 desc", "sort by g", "sort by n", "sort by n desc", "sort by k asc, g desc"]);
        let lim: i64 = if r.chance(25) { -(1 + r.below(rows + 1) as i64) } else { 1 + r.below(rows + 1) as i64 };
        let post = *r.pick(&["", "", "", " | fields name, k", " | where k >= 0", " | n as z"]);
        let q_full = format!("* | json | {}{}", pre, sortq);
        let q_lim = format!("{} | limit {}{}", q_full, lim, post);
        let q_ref = format!("{}{}", q_full, post);
        let key = ckey(&q_lim, input.as_bytes());
        let info = serde_json::json!({"query": q_lim, "reference_query": q_ref, "input": input});
        let (a, b) = (imp::run(&q_lim, input.as_bytes(), "json", 10), imp::run(&q_ref, input.as_bytes(), "json", 10));
        if !a.compiled || !b.compiled || a.panicked.is_some() || b.panicked.is_some() || a.hung || b.hung {
            ctx.case(fam, "", "skip", serde_json::json!({"why": "rejected or crashed (judged elsewhere)", "case": info}));
            continue;
        }
        let table = |out: &[u8]| -> Option<Vec<J>> {
            match canon::parse(String::from_utf8_lossy(out).trim_end()) {
                Ok(J::Arr(rows)) => Some(rows.iter().map(canon::normalize).collect()),
                _ => None,
            }
        };
        let (got, all) = match (table(&a.stdout), table(&b.stdout)) {
            (Some(x), Some(y)) => (x, y),
            _ => {
                ctx.case(fam, "", "skip", serde_json::json!({"why": "output is not one JSON table", "case": info}));
                continue;
            }
        };
        // row-wise stages after the limit keep one row per row here (`where k >= 0` keeps all)
        let m = lim.unsigned_abs() as usize;
        let want: Vec<J> = if lim > 0 { all.iter().take(m).cloned().collect() } else { all.iter().skip(all.len().saturating_sub(m)).cloned().collect() };
        if got == want {
            ctx.case(fam, &key, "pass", info);
        } else {
            ctx.case(fam, &key, "viol", serde_json::json!({"class": "", "what": format!("`… | limit {}` does not print the {} {} rows of the sorted table", lim, if lim > 0 { "first" } else { "last" }, m),
                "got": format!("{:?}", got), "want": format!("{:?}", want), "case": info}));
        }
    }
}

pub fn check(ctx: &mut Ctx) {
    check_implicit_sort(ctx);
    check_sort_then_limit(ctx, "sort-then-limit");
    // ---- 1. order laws on all triples of the pool (real `Ord for Value`), and model = implementation
    let pool = vals::pool();
    let np = pool.len();
    let mut idx = 0usize;
    for i in 0..np {
        for j in 0..np {
            idx += 1;
            if idx % ctx.nshards != ctx.shard {
                continue;
            }
            let (a, b) = (&pool[i], &pool[j]);
            let o = a.cmp(b);
            let key = format!("pair:{}:{}", i, j);
            // F-level: the model's cmp (objects: the real order iterates hash maps — not compared)
            if !matches!((a, b), (Value::Obj(_), Value::Obj(_))) {
                let m = ctx.drv.ask(&format!("VALOP\tcmp\t{}\t{}", vals::tokens(a), vals::tokens(b)));
                let want = match o {
                    Ordering::Less => "ORD lt",
                    Ordering::Equal => "ORD eq",
                    Ordering::Greater => "ORD gt",
                };
                if m != want {
                    ctx.case("cmp-model", &key, "fdis", serde_json::json!({"what": format!("Value::cmp: implementation {:?}, model {}", o, m), "a": format!("{:?}", a), "b": format!("{:?}", b)}));
                } else {
                    ctx.case("cmp-model", &key, "pass", serde_json::json!({"a": format!("{:?}", a), "b": format!("{:?}", b), "cmp": format!("{:?}", o)}));
                }
            }
            // P-level: integers compare exactly, whatever their magnitude
            if let (Value::Int(x), Value::Int(y)) = (a, b) {
                if o != x.cmp(y) {
                    ctx.case("order-laws", &key, "viol", serde_json::json!({"class": "", "what": "two integers do not compare by their exact value", "a": format!("{:?}", a), "b": format!("{:?}", b)}));
                }
            }
            // P-level laws on the stated domain
            if is_scalar_in_domain(a) && is_scalar_in_domain(b) {
                let mut bad: Option<String> = None;
                if b.cmp(a) != o.reverse() {
                    bad = Some("cmp(a,b) is not the reverse of cmp(b,a)".into());
                }
                if i == j && o != Ordering::Equal {
                    bad = Some("cmp(a,a) is not Equal".into());
                }
                if a.rank() < b.rank() && o != Ordering::Less {
                    bad = Some("type order violated".into());
                }
                for c in pool.iter().filter(|c| is_scalar_in_domain(c)) {
                    if o != Ordering::Greater && b.cmp(c) != Ordering::Greater && a.cmp(c) == Ordering::Greater {
                        bad = Some(format!("not transitive with c = {:?}", c));
                    }
                }
                match bad {
                    Some(w) => ctx.case("order-laws", &key, "viol", serde_json::json!({"class": "", "what": w, "a": format!("{:?}", a), "b": format!("{:?}", b)})),
                    None => ctx.case("order-laws", &key, "pass", serde_json::json!({"a": format!("{:?}", a), "b": format!("{:?}", b)})),
                }
            }
        }
    }

    // ---- 2. end-to-end sorts
    let n = ctx.budget(1500, 60000);
    for _ in 0..n {
        let mut r = ctx.rng.fork();
        let nk = 1 + r.below(3);
        let mut cols: Vec<String> = vec![];
        for _ in 0..nk {
            let c = r.pick(&["n", "x", "s", "k", "b", "o.p"]).to_string();
            if !cols.contains(&c) {
                cols.push(c)
            }
        }
        let dir = *r.pick(&["", " asc", " desc"]);
        let desc = dir == " desc";
        let after_agg = r.chance(30);
        let q = if after_agg {
            // sort a table: keys of the aggregation are the sortable columns
            format!("* | json | count, sum(n) as sn by k, b | sort by {}{}", r.pick(&["k", "b", "_count", "sn", "k, b", "sn, _count"]), dir)
        } else {
            format!("* | json | sort by {}{}", cols.join(", "), dir)
        };
        let sort_cols: Vec<String> = q.split("sort by ").nth(1).unwrap().trim_end_matches(" asc").trim_end_matches(" desc").split(", ").map(|s| s.trim().to_string()).collect();
        // mostly small inputs; one case in eight has a size around the thresholds a sort
        // implementation may switch algorithms at (20/21, 32, 64, 128 …)
        let rows = if r.chance(12) { *r.pick(&[19usize, 20, 21, 22, 31, 32, 33, 63, 64, 65, 100, 128, 129, 257, 400]) } else { r.below(if ctx.thorough() { 200 } else { 30 }) };
        let dense = r.chance(40);
        let input = if dense { gen::dense_input(&mut r, rows) } else { gen::json_input(&mut r, rows, &gen::DocCfg { key_domain: 3, numeric_only: false }, 3) };
        let key = ckey(&q, &input);
        let info = serde_json::json!({"query": q, "input": String::from_utf8_lossy(&input)});
        let c = run_both(ctx, &q, &input);
        if !c.imp.compiled {
            ctx.case("sort", "", "skip", serde_json::json!({"why": "query rejected"}));
            continue;
        }
        if let Some(p) = &c.imp.panicked {
            ctx.case("sort", &key, "viol", serde_json::json!({"class": "C09/missing-key-comparator-panic", "what": format!("sort panicked: {}", p), "case": info}));
            continue;
        }
        let text = String::from_utf8_lossy(&c.imp.stdout).to_string();
        let out_rows = match canon::parse(text.trim_end()) {
            Ok(J::Arr(rows)) => rows,
            _ => {
                ctx.case("sort", &key, "viol", serde_json::json!({"class": "", "what": "output is not a JSON array", "case": info}));
                continue;
            }
        };
        // permutation: same multiset of rows as the unsorted pipeline
        let unsorted_q = q.split(" | sort by").next().unwrap().to_string();
        let base = imp::run(&unsorted_q, &input, "json", 10);
        let base_rows: Vec<J> = if after_agg {
            match canon::parse(String::from_utf8_lossy(&base.stdout).trim_end()) {
                Ok(J::Arr(rows)) => rows,
                _ => vec![],
            }
        } else {
            canon::normalized_lines(&base.stdout).unwrap_or_default()
        };
        let strip = |j: &J| -> String {
            match canon::normalize(j) {
                J::Obj(kvs) => format!("{:?}", kvs.into_iter().filter(|kv| kv.1 != J::Null).collect::<Vec<_>>()),
                o => format!("{:?}", o),
            }
        };
        let mut a: Vec<String> = out_rows.iter().map(strip).collect();
        let mut b: Vec<String> = base_rows.iter().map(strip).collect();
        a.sort();
        b.sort();
        let mut problem: Option<(String, &str)> = None;
        if a != b {
            problem = Some(("sorted output is not a permutation of the rows that reached the sort".into(), ""));
        }
        // reference: stable sort of the rows reaching the sort by the key tuple under the documented
        // order; a row on which a key cannot be evaluated goes after every row that has a value
        let keyval = |row: &J, col: &str| -> Option<J> {
            let mut cur = row.clone();
            for part in col.split('.') {
                cur = match &cur {
                    J::Obj(kvs) => kvs.iter().rev().find(|kv| kv.0 == part).map(|kv| kv.1.clone())?,
                    _ => return None,
                };
            }
            Some(cur)
        };
        let kcmp = |a: &Option<J>, b: &Option<J>| -> Ordering {
            match (a, b) {
                (Some(x), Some(y)) => jcmp(x, y),
                (Some(_), None) => Ordering::Less,
                (None, Some(_)) => Ordering::Greater,
                (None, None) => Ordering::Equal,
            }
        };
        if problem.is_none() {
            let src: Vec<J> = if after_agg {
                base_rows.clone()
            } else {
                // every line that is JSON reaches the sort; a non-object root yields a row without fields
                input
                    .split(|b| *b == b'\n')
                    .filter_map(|l| std::str::from_utf8(l).ok())
                    .filter_map(|l| canon::parse(l).ok())
                    .map(|j| if matches!(j, J::Obj(_)) { j } else { J::Obj(vec![]) })
                    .collect()
            };
            let mut tuples: Vec<Vec<Option<J>>> = src.iter().map(|row| sort_cols.iter().map(|c| keyval(row, c).map(|v| canon::normalize(&v))).collect()).collect();
            tuples.sort_by(|a, b| {
                let mut o = Ordering::Equal;
                for (x, y) in a.iter().zip(b.iter()) {
                    o = kcmp(x, y);
                    if o != Ordering::Equal {
                        break;
                    }
                }
                if desc { o.reverse() } else { o }
            });
            let shown = |t: &Vec<Option<J>>| -> Vec<J> { t.iter().map(|x| x.clone().unwrap_or(J::Null)).collect() };
            let want: Vec<Vec<J>> = tuples.iter().map(shown).collect();
            let got: Vec<Vec<J>> = out_rows.iter().map(|row| sort_cols.iter().map(|c| keyval(row, c).map(|v| canon::normalize(&v)).unwrap_or(J::Null)).collect()).collect();
            // numbers: 1 and 1.0 are the same key
            let same = want.len() == got.len() && want.iter().zip(got.iter()).all(|(a, b)| a.iter().zip(b.iter()).all(|(x, y)| jcmp(x, y) == Ordering::Equal && rank(x) == rank(y)));
            if !same {
                let missing = tuples.iter().any(|t| t.iter().any(|x| x.is_none()));
                problem = Some((format!("key sequence of the output is not the sorted key sequence: want {:?} got {:?}", want, got), if missing { "C09/missing-sort-key-breaks-order" } else { "" }));
            }
        }
        // determinism of ties: a shuffled input gives the same output
        // (only for inputs whose rows all have the same fields: the tie-break walks the column
        // list, and for heterogeneous records that list is built in arrival order)
        if problem.is_none() && !after_agg && rows > 1 && dense {
            let mut lines: Vec<Vec<u8>> = input.split_inclusive(|b| *b == b'\n').map(|l| {
                let mut v = l.to_vec();
                if v.last() != Some(&b'\n') { v.push(b'\n'); }
                v
            }).collect();
            r.shuffle(&mut lines);
            let sh: Vec<u8> = lines.concat();
            let r2 = imp::run(&q, &sh, "json", 10);
            let t2 = canon::parse(String::from_utf8_lossy(&r2.stdout).trim_end()).ok();
            let same = match t2 {
                Some(J::Arr(rows2)) => rows2.iter().map(|x| canon::normalize(x)).collect::<Vec<_>>() == out_rows.iter().map(|x| canon::normalize(x)).collect::<Vec<_>>(),
                _ => false,
            };
            // rows that tie on every column under the comparator keep their arrival order (stable
            // sort): arrays and objects all compare equal, so only scalar-only rows are judged here
            let has_arr_obj = out_rows.iter().any(|row| matches!(row, J::Obj(kvs) if kvs.iter().any(|kv| matches!(kv.1, J::Arr(_) | J::Obj(_)))));
            if !same && !has_arr_obj {
                problem = Some(("the sorted order depends on the arrival order of the rows (ties are not broken by the remaining columns)".into(), ""));
            }
        }
        match problem {
            Some((w, class)) => {
                ctx.case("sort", &key, "viol", serde_json::json!({"class": class, "what": w, "got": text, "case": info}));
                continue;
            }
            None => ctx.case("sort", &key, "pass", info.clone()),
        }
        match compare(&c, true) {
            F::Agree => ctx.case("sort-model", &key, "pass", info),
            F::Skip(w) => ctx.case("sort-model", "", "skip", serde_json::json!({"why": w.split(':').next().unwrap_or("").to_string()})),
            F::Disagree(d) => ctx.case("sort-model", &key, "fdis", serde_json::json!({"what": d, "case": info})),
        }
    }

    // ---- 3. implicit sort of a final / limit-followed aggregation
    let n3 = ctx.budget(300, 6000);
    for _ in 0..n3 {
        let mut r = ctx.rng.fork();
        let rows = 2 + r.below(25);
        let input = gen::dense_input(&mut r, rows);
        let (q, cols): (String, Vec<&str>) = match r.below(4) {
            0 => ("* | json | count by k".into(), vec!["_count"]),
            1 => ("* | json | count, sum(n) by s".into(), vec!["_count", "_sum"]),
            2 => ("* | json | max(n) as m by k, b | limit 3".into(), vec!["m"]),
            _ => ("* | json | sum(n) as t, count by b".into(), vec!["t", "_count"]),
        };
        let key = ckey(&q, &input);
        let res = imp::run(&q, &input, "json", 10);
        let rows_out = match canon::parse(String::from_utf8_lossy(&res.stdout).trim_end()) {
            Ok(J::Arr(rows)) => rows,
            _ => vec![],
        };
        let mut bad = false;
        for w in rows_out.windows(2) {
            let mut o = Ordering::Equal;
            for c in &cols {
                let get = |row: &J| match row {
                    J::Obj(kvs) => kvs.iter().find(|kv| kv.0 == *c).map(|kv| kv.1.clone()).unwrap_or(J::Null),
                    _ => J::Null,
                };
                o = jcmp(&get(&w[0]), &get(&w[1]));
                if o != Ordering::Equal {
                    break;
                }
            }
            if o == Ordering::Less {
                bad = true;
            }
        }
        if bad {
            ctx.case("implicit-sort", &key, "viol", serde_json::json!({"class": "", "what": "final aggregation is not ordered by its aggregate columns descending", "query": q, "got": String::from_utf8_lossy(&res.stdout)}));
        } else {
            ctx.case("implicit-sort", &key, "pass", serde_json::json!({"query": q}));
        }
    }
}
