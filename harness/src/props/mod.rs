//! Per-property correspondence (F-level) and oracle (P-level) checks.
use crate::Ctx;

pub mod common;
pub mod kwgen;
pub mod c02;
pub mod c07;
pub mod c06;
pub mod c18;
pub mod c16;
pub mod c19;
pub mod run;
pub mod c15;
pub mod c17;
pub mod c01;
pub mod c03;
pub mod c05;
pub mod c08;
pub mod c09;
pub mod c10;
pub mod parse;
pub mod c04;
pub mod c20;
pub mod c11;
pub mod c12;
pub mod c13;
pub mod c14;
pub mod display;

pub fn dispatch(ctx: &mut Ctx) {
    match ctx.prop.as_str() {
        "RUN" => run::generic(ctx),
        "C02" => c02::check(ctx),
        "C07" => c07::check(ctx),
        "C01" => c01::check(ctx),
        "C03" => c03::check(ctx),
        "C05" => c05::check(ctx),
        "C08" => c08::check(ctx),
        "C09" => c09::check(ctx),
        "C10" => c10::check(ctx),
        "PARSE" => parse::check(ctx),
        "C04" => c04::check(ctx),
        "C20" => c20::check(ctx),
        "C11" => c11::check(ctx),
        "C12" => c12::check(ctx),
        "C13" => c13::check(ctx),
        "C14" => c14::check(ctx),
        "C16" => c16::check(ctx),
        "C19" => c19::check(ctx),
        "C15" => c15::check(ctx),
        "C17" => c17::check(ctx),
        "C06" => c06::check(ctx),
        "C18" => c18::check(ctx),
        "DISPLAY" => display::check(ctx),
        other => {
            ctx.case("harness", "", "viol", serde_json::json!({"what": format!("unknown property {}", other)}));
        }
    }
}
