//! Per-property correspondence (F-level) and oracle (P-level) checks.
use crate::Ctx;

pub mod common;
pub mod run;
pub mod c10;
pub mod c12;

pub fn dispatch(ctx: &mut Ctx) {
    match ctx.prop.as_str() {
        "RUN" => run::generic(ctx),
        "C10" => c10::check(ctx),
        "C12" => c12::check(ctx),
        other => {
            ctx.case("harness", "", "viol", serde_json::json!({"what": format!("unknown property {}", other)}));
        }
    }
}
