//! C16: the live terminal view converges to the true result for any refresh schedule.
//!
//! The tty branch of `Renderer::render` and the real `render_aggregate` loop are driven in-process
//! through the hooks `ag::verif::renderer` / `Pipeline::verif_new_with_terminal` (terminal size and
//! `is_tty` given, refresh decision scripted), writing into a recording sink.
//!
//! F-level: (1) the emitted bytes replayed through the harness's emulator and through the Lean
//! model's emulator (`TERM`) leave the same screen; (2) the bytes are what the model's renderer
//! (`TERMR`) writes for the same sequence of frames.
//! P-level: the final screen shows exactly the final table (the text a non-terminal run prints, up
//! to column padding / ellipsis, clipped to h−1 lines) and nothing else: no residue of earlier
//! frames.  Non-terminal: exactly one write, at end of input, without ESC.
use super::c19::{self, gen_table, mutate_table, CellCfg, Shape, Table};
use crate::enc;
use crate::imp::{self, Recorder, SharedBuf};
use crate::rng::Rng;
use crate::Ctx;
use ag::data::Row;
use ag::pipeline::{OutputMode, Pipeline, QueryContainer};
use ag::verif::Pretty;
use std::io::{BufRead, Read, Write};
use std::panic::{catch_unwind, AssertUnwindSafe};
use std::sync::atomic::{AtomicUsize, Ordering};
use std::sync::{mpsc, Arc, Mutex};
use std::time::Duration;

/* ---------- the harness's own terminal emulator ---------- */

#[derive(Clone, Debug, PartialEq)]
pub struct Screen {
    pub w: usize,
    pub h: usize,
    pub rows: Vec<Vec<char>>,
    pub cr: usize,
    pub cc: usize,
    /// lines that left the screen at the top (a line feed on the last row scrolls)
    pub scrolled: usize,
}

impl Screen {
    pub fn blank(w: usize, h: usize) -> Screen {
        Screen { w, h, rows: vec![vec![' '; w]; h], cr: 0, cc: 0, scrolled: 0 }
    }
    fn line_feed(&mut self) {
        if self.cr + 1 < self.h {
            self.cr += 1;
        } else if !self.rows.is_empty() {
            self.scrolled += 1;
            self.rows.remove(0);
            self.rows.push(vec![' '; self.w]);
        }
    }
    fn put(&mut self, c: char) {
        if self.cc >= self.w {
            self.line_feed();
            self.cc = 0;
        }
        if self.cr < self.rows.len() && self.cc < self.w {
            self.rows[self.cr][self.cc] = c;
        }
        self.cc += 1;
    }
    /// feeds program output (the tty turns `\n` into `\r\n`); None = outside the emulator
    pub fn display(&mut self, text: &str) -> Option<()> {
        let cs: Vec<char> = text.chars().collect();
        let mut i = 0;
        while i < cs.len() {
            let c = cs[i];
            if c == '\n' {
                self.cc = 0;
                self.line_feed();
                i += 1;
            } else if c == '\r' {
                self.cc = 0;
                i += 1;
            } else if c == '\x1b' {
                if i + 3 < cs.len() && cs[i + 1] == '[' && cs[i + 2] == '2' && cs[i + 3] == 'K' {
                    if self.cr < self.rows.len() {
                        self.rows[self.cr] = vec![' '; self.w];
                    }
                    i += 4;
                } else if i + 3 < cs.len() && cs[i + 1] == '[' && cs[i + 2] == '1' && cs[i + 3] == 'A' {
                    self.cr = self.cr.saturating_sub(1);
                    self.cc = self.cc.min(self.w.saturating_sub(1));
                    i += 4;
                } else {
                    return None;
                }
            } else if (c as u32) >= 32 && c as u32 != 127 {
                self.put(c);
                i += 1;
            } else {
                return None;
            }
        }
        Some(())
    }
    pub fn row_strings(&self) -> Vec<String> {
        self.rows.iter().map(|r| r.iter().collect()).collect()
    }
}

fn model_screen(ctx: &mut Ctx, w: usize, h: usize, bytes: &[u8]) -> Option<(usize, usize, Vec<String>)> {
    let ans = ctx.drv.ask(&format!("TERM\t{} {}\t{}", w, h, enc::hexb(bytes)));
    parse_scr(&ans.split(' ').collect::<Vec<_>>())
}

fn parse_scr(toks: &[&str]) -> Option<(usize, usize, Vec<String>)> {
    if toks.first() != Some(&"SCR") || toks.len() < 3 {
        return None;
    }
    let cr = toks[1].parse().ok()?;
    let cc = toks[2].parse().ok()?;
    let rows = toks[3..].iter().map(|t| String::from_utf8_lossy(&enc::unhex(&t[1..])).into_owned()).collect();
    Some((cr, cc, rows))
}

/// `BYTES <hex> SCR …` of the model's renderer for the frames
fn model_render(ctx: &mut Ctx, w: usize, h: usize, frames: &[String]) -> Option<(Vec<u8>, Option<(usize, usize, Vec<String>)>)> {
    let fs: Vec<String> = frames.iter().map(|f| format!("F{}", enc::hex(f))).collect();
    let ans = ctx.drv.ask(&format!("TERMR\t{} {}\t{}", w, h, fs.join(" ")));
    let toks: Vec<&str> = ans.split(' ').collect();
    if toks.first() != Some(&"BYTES") || toks.len() < 2 {
        return None;
    }
    let (bytes, rest) = if toks.len() >= 3 && toks[2] == "SCR" || toks.len() >= 3 && toks[2] == "NONE" { (enc::unhex(toks[1]), &toks[2..]) } else { (vec![], &toks[1..]) };
    Some((bytes, parse_scr(rest)))
}

/// what the screen should show for the final frame
fn expected_rows(w: usize, h: usize, frame: &str) -> Vec<String> {
    let body = frame.strip_suffix('\n').unwrap_or(frame);
    let mut rows: Vec<String> = body
        .split('\n')
        .map(|l| {
            let n = l.chars().count();
            format!("{}{}", l, " ".repeat(w.saturating_sub(n)))
        })
        .collect();
    while rows.len() < h {
        rows.push(" ".repeat(w));
    }
    rows
}

/// class of a screen that is not the final frame
fn residue_class(w: usize, frames: &[String], screen: &[String], want: &[String]) -> &'static str {
    if frames.iter().any(|f| f.split('\n').any(|l| l.chars().count() > w)) {
        return "C16/frame-line-wider-than-terminal";
    }
    let differing: Vec<usize> = (0..screen.len().min(want.len())).filter(|i| screen[*i] != want[*i]).collect();
    if screen.len() == want.len() && differing == vec![0] {
        "C16/row0-residue"
    } else {
        "C16/residue-other"
    }
}

/* ---------- level 1: Renderer::render on arbitrary frame sequences ---------- */

struct RenderRun {
    bytes: Vec<u8>,
    writes: usize,
    panicked: Option<String>,
}

#[derive(Clone, Default)]
struct CountingBuf {
    buf: SharedBuf,
    writes: Arc<AtomicUsize>,
}
impl Write for CountingBuf {
    fn write(&mut self, b: &[u8]) -> std::io::Result<usize> {
        self.writes.fetch_add(1, Ordering::SeqCst);
        self.buf.write(b)
    }
    fn flush(&mut self) -> std::io::Result<()> {
        Ok(())
    }
}

/// drive the real renderer: table i is rendered when `print[i]` (the last one as `last_row`)
fn run_renderer(size: Option<(u16, u16)>, is_tty: bool, tables: &[Table], print: &[bool]) -> RenderRun {
    let sink = CountingBuf::default();
    let script: Arc<Mutex<bool>> = Arc::new(Mutex::new(true));
    let s2 = script.clone();
    let refresh: ag::verif::VerifRefresh = Box::new(move || *s2.lock().unwrap());
    let out = sink.clone();
    let r = catch_unwind(AssertUnwindSafe(|| {
        let mut rend = ag::verif::renderer(out, &OutputMode::Legacy, size, is_tty, Some(refresh)).expect("renderer");
        for (i, t) in tables.iter().enumerate() {
            let last = i + 1 == tables.len();
            *script.lock().unwrap() = print[i];
            let row = Row::Aggregate(t.to_aggregate());
            // `render_aggregate` only calls `render` when `should_print()`; the final one always
            if last || rend.should_print() {
                let _ = rend.render(&row, last);
            }
        }
    }));
    let bytes = sink.buf.0.lock().unwrap().clone();
    RenderRun { bytes, writes: sink.writes.load(Ordering::SeqCst), panicked: r.err().map(|_| imp::LAST_PANIC.lock().map(|g| g.clone()).unwrap_or_default()) }
}

fn level1(ctx: &mut Ctx, idx: usize, r: &mut Rng, clean: bool) {
    let cfg = CellCfg { wide: false, control: false, long: r.chance(30), blanks: r.chance(30) };
    // (at least 8 columns: `No data` itself needs 7)
    let mut w = match r.below(6) {
        0 => 8 + r.below(8) as u16,
        1 => 10 + r.below(30) as u16,
        _ => 40 + r.below(211) as u16,
    };
    let h = match r.below(5) {
        0 => 2 + r.below(3) as u16,
        _ => 4 + r.below(57) as u16,
    };
    let max_cols = if r.chance(70) { 4 } else { 12 };
    let n = 1 + r.below(8);
    let tables = if clean {
        // away from C19's defect classes: every frame line fits the terminal
        let (tables, used) = c19::clean_sequence(r, &cfg, max_cols, 60, n);
        w = w.max(8 * used as u16);
        tables
    } else {
        let mut t = gen_table(r, &cfg, Shape::Regular, max_cols, 40);
        let mut tables = vec![];
        for _ in 0..n {
            tables.push(t.clone());
            t = mutate_table(r, &cfg, &t, 60);
        }
        tables
    };
    let density = *r.pick(&[0usize, 30, 70, 100, 100]);
    let mut print: Vec<bool> = (0..n).map(|_| r.chance(density)).collect();
    print[0] = true; // `last_print` is None: the first iteration always prints
    let run = run_renderer(Some((w, h)), true, &tables, &print);
    let info = serde_json::json!({"level": "renderer", "size": [w, h], "print": print, "tables": tables.iter().map(|t| t.to_json()).collect::<Vec<_>>()});
    let key = format!("renderer:{}", idx);
    let family = if clean { "renderer" } else { "renderer-any" };
    if let Some(p) = run.panicked {
        // the printer's own panics are C19's findings (judged there); here they end the run before the final frame
        let class = c19::panic_class(&p);
        if class != "C19/panic-other" {
            ctx.case(family, "", "skip", serde_json::json!({"why": format!("printer panicked: {} (judged by C19)", class), "case": info}));
        } else {
            ctx.case(family, &key, "viol", serde_json::json!({"class": "C16/panic", "what": format!("rendering panicked: {}", c19::clip(&p, 200)), "case": info}));
        }
        return;
    }
    // the frames the printer produces for the printed tables (same deterministic printer, same calls)
    let mut pp = Pretty::new(Some((w, h)), 4, 8);
    let mut frames: Vec<String> = vec![];
    for (i, t) in tables.iter().enumerate() {
        if print[i] || i + 1 == tables.len() {
            frames.push(pp.format_aggregate(&t.to_aggregate()));
        }
    }
    // the partial theorem's hypothesis: the first line never gets shorter (then no residue is possible)
    let first_len = |f: &String| f.split('\n').next().unwrap_or("").chars().count();
    let monotone = frames.windows(2).all(|p| first_len(&p[0]) <= first_len(&p[1]));
    let family = if clean && monotone { "renderer-first-line-grows" } else { family };
    judge_bytes(ctx, family, &key, w as usize, h as usize, &run.bytes, &frames, info);
}

/// F: emulators agree, bytes = model renderer's; P: final screen = final frame, nothing else
fn judge_bytes(ctx: &mut Ctx, family: &str, key: &str, w: usize, h: usize, bytes: &[u8], frames: &[String], info: serde_json::Value) {
    let mut tap = VerdictTap::default();
    judge_bytes_tap(ctx, &mut tap, w, h, bytes, frames);
    let (verdict, mut payload) = tap.0.take().unwrap_or(("fdis".into(), serde_json::json!({"what": "no verdict"})));
    if verdict == "pass" {
        ctx.case(family, key, "pass", serde_json::json!({"size": [w, h], "frames": frames.len(), "bytes": bytes.len()}));
    } else {
        payload["case"] = info;
        ctx.case(family, if verdict == "skip" { "" } else { key }, &verdict, payload);
    }
}

/* ---------- level 2: the real pipeline with its renderer thread ---------- */

/// a reader that hands out the input in bursts, sleeping between them
struct BurstReader {
    data: Vec<u8>,
    pos: usize,
    /// byte offsets before which the reader sleeps (ms)
    pauses: Vec<(usize, u64)>,
}
impl Read for BurstReader {
    fn read(&mut self, buf: &mut [u8]) -> std::io::Result<usize> {
        let n = {
            let b = self.fill_buf()?;
            let n = b.len().min(buf.len());
            buf[..n].copy_from_slice(&b[..n]);
            n
        };
        self.consume(n);
        Ok(n)
    }
}
impl BufRead for BurstReader {
    fn fill_buf(&mut self) -> std::io::Result<&[u8]> {
        if let Some(i) = self.pauses.iter().position(|p| p.0 == self.pos) {
            let (_, ms) = self.pauses.remove(i);
            std::thread::sleep(Duration::from_millis(ms));
        }
        // one line at a time, so that pauses fall between rows
        let rest = &self.data[self.pos..];
        let end = rest.iter().position(|b| *b == b'\n').map(|i| i + 1).unwrap_or(rest.len());
        Ok(&rest[..end])
    }
    fn consume(&mut self, amt: usize) {
        self.pos += amt;
    }
}

pub struct PipeRun {
    pub bytes: Vec<u8>,
    pub writes: usize,
    pub panicked: Option<String>,
    pub hung: bool,
    pub compiled: bool,
}

pub fn run_pipeline(query: &str, input: &[u8], size: Option<(u16, u16)>, is_tty: bool, seed: u64, density: usize, pauses: Vec<(usize, u64)>) -> PipeRun {
    run_pipeline_mode(query, input, OutputMode::Legacy, size, is_tty, seed, density, pauses)
}

#[allow(clippy::too_many_arguments)]
fn run_pipeline_mode(query: &str, input: &[u8], mode: OutputMode, size: Option<(u16, u16)>, is_tty: bool, seed: u64, density: usize, pauses: Vec<(usize, u64)>) -> PipeRun {
    let q = query.to_string();
    let inp = input.to_vec();
    let (tx, rx) = mpsc::channel();
    let panics_before = imp::PANICS.load(Ordering::SeqCst);
    std::thread::spawn(move || {
        let sink = CountingBuf::default();
        let out = sink.clone();
        let r = catch_unwind(AssertUnwindSafe(move || {
            let rec = Recorder::default();
            let qc = QueryContainer::new(q, Box::new(rec));
            // refresh decisions: a fixed pseudo-random sequence indexed by the number of the call
            let calls = AtomicUsize::new(0);
            let refresh: ag::verif::VerifRefresh = Box::new(move || {
                let i = calls.fetch_add(1, Ordering::SeqCst) as u64;
                let mut z = seed.wrapping_add(i.wrapping_mul(0x9E3779B97F4A7C15));
                z = (z ^ (z >> 30)).wrapping_mul(0xBF58476D1CE4E5B9);
                z = (z ^ (z >> 27)).wrapping_mul(0x94D049BB133111EB);
                ((z ^ (z >> 31)) % 100) < density as u64
            });
            match Pipeline::verif_new_with_terminal(&qc, out, mode, size, is_tty, Some(refresh)) {
                Ok(p) => {
                    p.process(BurstReader { data: inp, pos: 0, pauses });
                    true
                }
                Err(_) => false,
            }
        }));
        let bytes = sink.buf.0.lock().unwrap().clone();
        let _ = tx.send((r, bytes, sink.writes.load(Ordering::SeqCst)));
    });
    match rx.recv_timeout(Duration::from_secs(20)) {
        Ok((r, bytes, writes)) => {
            let mut panicked = match &r {
                Ok(_) => None,
                Err(_) => Some(imp::LAST_PANIC.lock().map(|g| g.clone()).unwrap_or_default()),
            };
            if imp::PANICS.load(Ordering::SeqCst) != panics_before && panicked.is_none() {
                panicked = Some(imp::LAST_PANIC.lock().map(|g| g.clone()).unwrap_or_default());
            }
            PipeRun { bytes, writes, panicked, hung: false, compiled: r.unwrap_or(false) }
        }
        Err(_) => PipeRun { bytes: vec![], writes: 0, panicked: None, hung: true, compiled: true },
    }
}

/// split the renderer's bytes into frames at the reset sequences
pub fn split_frames(text: &str) -> Vec<String> {
    let unit = "\x1b[2K\x1b[1A";
    let mut frames = vec![];
    let mut rest = text;
    loop {
        match rest.find(unit) {
            None => {
                if !rest.is_empty() {
                    frames.push(rest.to_string());
                }
                break;
            }
            Some(p) => {
                if p > 0 {
                    frames.push(rest[..p].to_string());
                }
                rest = &rest[p..];
                while let Some(r) = rest.strip_prefix(unit) {
                    rest = r;
                }
                // the reset sequence ends by erasing the line the cursor arrives on
                if let Some(r) = rest.strip_prefix("\x1b[2K") {
                    rest = r;
                }
            }
        }
    }
    frames
}

struct Q {
    query: &'static str,
    /// the row order of the result is fixed by the query (a final sort)
    ordered: bool,
}

const QUERIES: &[Q] = &[
    Q { query: "* | json | count by k", ordered: true },
    Q { query: "* | json | count by k, m", ordered: true },
    Q { query: "* | json | sum(n) as total, count by k", ordered: true },
    Q { query: "* | json | count by k | where _count < 3", ordered: false },
    Q { query: "* | json | count by k | where _count > 2", ordered: false },
    Q { query: "* | json | count by k | limit 3", ordered: true },
    Q { query: "* | json | count by k | sort by k", ordered: true },
    Q { query: "* | json | count by k | count", ordered: true },
    Q { query: "* | json | count as c by k | sort by c, k", ordered: true },
    Q { query: "* | json | sort by n, k", ordered: true },
    Q { query: "* | json | count", ordered: true },
    Q { query: "* | json | avg(n), max(n), min(n) by k, m | sort by k, m", ordered: true },
    Q { query: "* | json | count by a_rather_long_column_name_for_a_key, k | sort by k, a_rather_long_column_name_for_a_key", ordered: true },
];

fn gen_input(r: &mut Rng, rows: usize, full: bool) -> Vec<u8> {
    let ks = ["alpha", "beta", "gamma", "d", "eps", "zeta-zeta-zeta-zeta-zeta", "η", "th"];
    let ms = ["GET", "POST", "PUT"];
    let kd = 1 + r.below(ks.len());
    let mut s = String::new();
    for _ in 0..rows {
        let k = ks[r.below(kd)];
        let mut members = vec![format!("\"k\":\"{}\"", k)];
        if full || r.chance(90) {
            members.push(format!("\"m\":\"{}\"", ms[r.below(ms.len())]));
        }
        if full || r.chance(90) {
            members.push(format!("\"n\":{}", r.range(-50, 5000)));
        }
        if r.chance(30) {
            members.push(format!("\"a_rather_long_column_name_for_a_key\":\"{}\"", r.below(3)));
        }
        s.push_str(&format!("{{{}}}\n", members.join(",")));
    }
    s.into_bytes()
}

/// do two lines show the same cells? Blanks are padding (cells may even abut); a cell cut with
/// `…` stands for any longer text: the pieces between ellipses must occur in order, the first as a
/// prefix and the last as a suffix of the non-terminal line. (Cells contain no blanks in these inputs.)
fn same_cells(tty: &str, plain: &str) -> bool {
    let a: String = tty.chars().filter(|c| !c.is_whitespace()).collect();
    let b: String = plain.chars().filter(|c| !c.is_whitespace()).collect();
    let pieces: Vec<&str> = a.split('…').collect();
    if pieces.len() == 1 {
        return a == b;
    }
    let mut pos = 0usize;
    for (i, p) in pieces.iter().enumerate() {
        if i == 0 {
            if !b.starts_with(p) {
                return false;
            }
            pos = p.len();
        } else if i + 1 == pieces.len() {
            return b.len() >= pos + p.len() && b.ends_with(p);
        } else {
            match b[pos..].find(p) {
                Some(k) => pos += k + p.len(),
                None => return false,
            }
        }
    }
    true
}

/// does a legacy-mode frame drawn on a `w`×`h` terminal show the table `plain_text` (what a
/// non-terminal run prints), up to padding / ellipsis, clipped to h−1 lines?  None = yes.
pub fn frame_vs_plain(frame: &str, plain_text: &str, w: u16, h: u16, ordered: bool) -> Option<String> {
    let tty_lines: Vec<&str> = frame.strip_suffix('\n').unwrap_or(frame).split('\n').collect();
    let plain_lines: Vec<&str> = plain_text.strip_suffix('\n').unwrap_or(plain_text).split('\n').collect();
    let want_n = plain_lines.len().min((h as usize) - 1);
    if tty_lines.len() != want_n {
        return Some(format!("frame has {} lines, the non-terminal table {} (height {})", tty_lines.len(), plain_lines.len(), h));
    }
    if plain_text == "No data\n" || frame == "No data\n" {
        if plain_text != frame {
            return Some(format!("frame {:?} vs non-terminal {:?}", c19::clip(frame, 80), c19::clip(plain_text, 80)));
        }
        return None;
    }
    // header, separator, body.  With fewer than 2 cells per column some columns are narrower than
    // 2 and their cells are cut without an ellipsis: then only the shape is compared.
    let ncols = plain_lines[0].split_whitespace().count();
    let shape_only = tty_lines[0].chars().count() > w as usize || (w as usize) < 2 * ncols;
    for (i, l) in tty_lines.iter().enumerate() {
        if i == 1 {
            if !l.chars().all(|c| c == '-') {
                return Some("no separator line".into());
            }
            continue;
        }
        let ok = if ordered || i == 0 { same_cells(l, plain_lines[i]) } else { plain_lines[2..].iter().any(|p| same_cells(l, p)) };
        if !ok && !shape_only {
            return Some(format!("line {} of the frame {:?} does not show the cells of {:?}", i, c19::clip(l, 160), c19::clip(plain_lines.get(i).unwrap_or(&""), 160)));
        }
    }
    None
}

fn level2(ctx: &mut Ctx, idx: usize, r: &mut Rng, idle: bool) {
    let q = &QUERIES[r.below(QUERIES.len())];
    level2_case(ctx, idx, r, idle, q, None);
}

fn level2_case(ctx: &mut Ctx, idx: usize, r: &mut Rng, idle: bool, q: &Q, fixed: Option<(Vec<u8>, (u16, u16), Vec<(usize, u64)>)>) {
    let rows = match r.below(6) {
        0 => r.below(3),
        1 | 2 => 3 + r.below(20),
        _ => 20 + r.below(150),
    };
    // (a raw `sort` whose key is missing on some rows has no total order: C09's finding, not ours)
    let input = gen_input(r, rows, q.query.contains("sort by n"));
    let w = match r.below(12) {
        0 => 8 + r.below(20) as u16,
        1 => 28 + r.below(30) as u16,
        _ => 100 + r.below(151) as u16,
    };
    let h = match r.below(4) {
        0 => 2 + r.below(4) as u16,
        _ => 6 + r.below(55) as u16,
    };
    let density = *r.pick(&[0usize, 5, 30, 100]);
    let seed = r.next();
    let mut pauses = vec![];
    let (input, w, h) = match &fixed {
        Some((i, (w, h), _)) => (i.clone(), *w, *h),
        None => (input, w, h),
    };
    let rows = input.iter().filter(|b| **b == b'\n').count();
    if idle {
        // idle periods: the renderer's 50 ms timeout fires and redraws
        let line_starts: Vec<usize> = std::iter::once(0).chain(input.iter().enumerate().filter(|(_, b)| **b == b'\n').map(|(i, _)| i + 1)).collect();
        for _ in 0..1 + r.below(2) {
            pauses.push((*r.pick(&line_starts), 60 + r.below(70) as u64));
        }
        pauses.sort();
        pauses.dedup_by_key(|p| p.0);
    }
    if let Some((_, _, p)) = &fixed {
        pauses = p.clone();
    }
    let info = serde_json::json!({"level": "pipeline", "query": q.query, "size": [w, h], "refresh_density": density, "refresh_seed": seed, "pauses": pauses, "rows": rows, "input_hex": enc::hexb(&input)});
    let key = if fixed.is_some() { format!("pipeline-fixed:{}", idx) } else { format!("pipeline:{}", idx) };
    let family = if fixed.is_some() {
        "fixed"
    } else if idle {
        "pipeline-idle"
    } else if w < 100 {
        "pipeline-narrow"
    } else {
        "pipeline"
    };
    let tty = run_pipeline(q.query, &input, Some((w, h)), true, seed, density, pauses.clone());
    if tty.hung {
        ctx.case(family, &key, "viol", serde_json::json!({"class": "C16/hang", "what": "terminal run did not finish", "case": info}));
        return;
    }
    if let Some(p) = &tty.panicked {
        let class = c19::panic_class(p);
        if class != "C19/panic-other" {
            ctx.case(family, "", "skip", serde_json::json!({"why": format!("printer panicked: {} (judged by C19)", class), "case": info}));
        } else {
            ctx.case(family, &key, "viol", serde_json::json!({"class": "C16/panic", "what": format!("terminal run panicked: {}", c19::clip(p, 200)), "case": info}));
        }
        return;
    }
    if !tty.compiled {
        ctx.case(family, &key, "viol", serde_json::json!({"class": "C16/harness", "what": "query did not compile", "case": info}));
        return;
    }
    // non-terminal run of the same query and input: one write at the end, no control sequences
    let plain = run_pipeline(q.query, &input, None, false, seed, density, vec![]);
    let plain_text = String::from_utf8_lossy(&plain.bytes).into_owned();
    if plain.panicked.is_some() || plain.hung {
        ctx.case(family, &key, "viol", serde_json::json!({"class": "C16/non-tty-failed", "what": "non-terminal run panicked or hung", "case": info}));
        return;
    }
    if plain.writes != 1 || plain.bytes.contains(&0x1b) {
        ctx.case(family, &key, "viol", serde_json::json!({"class": "C16/non-tty-writes", "what": format!("non-terminal run wrote {} times{}", plain.writes, if plain.bytes.contains(&0x1b) { " and emitted ESC" } else { "" }), "case": info}));
        return;
    }
    let text = String::from_utf8_lossy(&tty.bytes).into_owned();
    let frames = split_frames(&text);
    // F-level + residue oracle
    let mut verdict_sink = VerdictTap::default();
    judge_bytes_tap(ctx, &mut verdict_sink, w as usize, h as usize, &tty.bytes, &frames);
    if let Some((verdict, payload)) = verdict_sink.0.take() {
        if verdict != "pass" {
            let mut payload = payload;
            payload["case"] = info;
            ctx.case(family, &key, &verdict, payload);
            return;
        }
    }
    // P-level: the final frame is the table a non-terminal run prints, clipped to h-1 lines
    let last = frames.last().cloned().unwrap_or_default();
    let bad = frame_vs_plain(&last, &plain_text, w, h, q.ordered);
    if let Some(what) = bad {
        ctx.case(family, &key, "viol", serde_json::json!({"class": "C16/final-frame-differs", "what": what, "final_frame": last, "non_tty": c19::clip(&plain_text, 2000), "case": info}));
        return;
    }
    ctx.case(family, &key, "pass", serde_json::json!({"query": q.query, "size": [w, h], "rows": rows, "frames": frames.len(), "refresh_density": density, "idle_pauses": pauses.len()}));
}

/* ---------- level 2b: aggregate of aggregate — downstream operators re-run on live state ---------- */

/// second-level aggregates grouped by a value that changes while the input streams in: a group of
/// the second level disappears again when no first-level row has that value any more
const AGG_OF_AGG: &[&str] = &[
    // (`count by _count` is rejected since 7200e5c: key and aggregate would share the name `_count`)
    "* | json | count by a | count as groups by _count",
    "* | json | count as hits by u | count as users by hits",
    "* | json | sum(n) as s by k | count as ks, sum(s) as total by s",
    "* | json | count as hits by u | count as users by hits | where hits > 1",
    "* | json | count as hits by u | count as users by hits | limit 2",
    "* | json | count as hits by u | count as users by hits | sort by hits",
    "* | json | count as hits by u | count as users by hits | total(users) as t",
    "* | json | count by a | count as groups by _count | count",
    "* | json | count as hits by u | max(hits) as top, count as users by hits | sort by top desc",
    "* | json | count as hits by u, a | count as pairs by hits | sort by pairs, hits",
];

fn agg_input(r: &mut Rng, rows: usize) -> Vec<u8> {
    // few distinct keys, so that every first-level count passes through 1, 2, 3, …
    let nu = 1 + r.below(4);
    let na = 1 + r.below(3);
    let mut s = String::new();
    for _ in 0..rows {
        s.push_str(&format!(
            "{{\"u\":\"user{}\",\"a\":\"{}\",\"k\":\"k{}\",\"n\":{}}}\n",
            r.below(nu),
            ["x", "y", "z"][r.below(na)],
            r.below(nu),
            r.range(1, 4)
        ));
    }
    s.into_bytes()
}

/// the model's table for `input` as one `AGG` call of the `TABLE` request (None: outside the model)
fn model_table_call(ctx: &mut Ctx, ast: &str, input: &[u8]) -> Result<String, String> {
    let ans = ctx.drv.ask(&format!("RUN\t{}\t{}", ast, enc::hexb(input)));
    // OUT E<k> TAB <nc> cols… <nr> rows…
    let toks: Vec<&str> = ans.split(' ').collect();
    if toks.len() >= 4 && toks[0] == "OUT" && toks[2] == "TAB" {
        Ok(format!("AGG {}", toks[3..].join(" ")))
    } else {
        Err(ans.chars().take(120).collect())
    }
}

/// F-level for a run with a frame after every row: the model predicts every frame — the model's
/// table (`RUN`) of prefix k, through the model's printer with its width memory (`TABLE`) — and the
/// frames must be the very text written.  None = agree.
fn agg_f_level(ctx: &mut Ctx, query: &str, input: &[u8], line_starts: &[usize], rows: usize, w: u16, h: u16, frames: &[String]) -> Option<(String, serde_json::Value)> {
    let ast = imp::parse(query).ok().and_then(|p| p.0).map(|q| enc::query(&q))?;
    let mut calls: Vec<String> = vec![];
    for k in (1..=rows).chain(std::iter::once(rows)) {
        match model_table_call(ctx, &ast, &input[..line_starts[k]]) {
            Ok(c) => calls.push(c),
            Err(e) => return Some(("skip".into(), serde_json::json!({"why": format!("model: {}", e.split(' ').take(6).collect::<Vec<_>>().join(" "))}))),
        }
    }
    let ans = ctx.drv.ask(&format!("TABLE\t{} {}\t4 8\t{}", w, h, calls.join("\t")));
    let model_frames: Vec<String> = ans.split(' ').filter_map(|t| t.strip_prefix('T').map(|hx| String::from_utf8_lossy(&enc::unhex(hx)).into_owned())).collect();
    if !ans.starts_with("OK") || model_frames.len() != frames.len() {
        return Some(("fdis".into(), serde_json::json!({"what": format!("model printer answered {}", c19::clip(&ans, 200))})));
    }
    if let Some(i) = (0..frames.len()).find(|i| frames[*i] != model_frames[*i]) {
        return Some(("fdis".into(), serde_json::json!({"what": format!("frame {} (after {} rows) differs from the model's frame", i, (i + 1).min(rows)), "impl_frame": frames[i], "model_frame": model_frames[i]})));
    }
    None
}

fn agg_of_agg(ctx: &mut Ctx, idx: usize, r: &mut Rng) {
    let query = AGG_OF_AGG[r.below(AGG_OF_AGG.len())];
    let rows = 4 + r.below(22);
    let input = agg_input(r, rows);
    let w = 60 + r.below(180) as u16;
    let h = 14 + r.below(40) as u16;
    // every row followed by a frame (density 100), or a random schedule with idle pauses
    let every = r.chance(60);
    let density = if every { 100 } else { *r.pick(&[30usize, 60, 100]) };
    let seed = r.next();
    let line_starts: Vec<usize> = std::iter::once(0).chain(input.iter().enumerate().filter(|(_, b)| **b == b'\n').map(|(i, _)| i + 1)).collect();
    let mut pauses = vec![];
    if !every {
        for _ in 0..r.below(3) {
            pauses.push((*r.pick(&line_starts), 60 + r.below(60) as u64));
        }
        pauses.sort();
        pauses.dedup_by_key(|p| p.0);
    }
    let family = if every { "agg-of-agg" } else { "agg-of-agg-bursts" };
    let key = format!("{}:{}", family, idx);
    let info = serde_json::json!({"level": "pipeline", "query": query, "size": [w, h], "refresh_density": density, "refresh_seed": seed, "pauses": pauses, "rows": rows, "input_hex": enc::hexb(&input)});
    let tty = run_pipeline(query, &input, Some((w, h)), true, seed, density, pauses.clone());
    if tty.hung || tty.panicked.is_some() || !tty.compiled {
        ctx.case(family, &key, "viol", serde_json::json!({"class": "C16/panic", "what": format!("terminal run failed: hung={} panic={:?} compiled={}", tty.hung, tty.panicked, tty.compiled), "case": info}));
        return;
    }
    let text = String::from_utf8_lossy(&tty.bytes).into_owned();
    let frames = split_frames(&text);
    // AGVERIF_F_FIRST=1: judge the model side before the oracles (what would the F-level alone say?)
    if std::env::var("AGVERIF_F_FIRST").is_ok() && every && frames.len() == rows + 1 {
        if let Some((verdict, mut payload)) = agg_f_level(ctx, query, &input, &line_starts, rows, w, h, &frames) {
            payload["case"] = info;
            ctx.case(family, if verdict == "skip" { "" } else { &key }, &verdict, payload);
            return;
        }
    }
    // the table of every prefix of the input, as a non-terminal run prints it
    let mut prefix_tables: Vec<String> = vec![];
    for k in 0..=rows {
        let p = run_pipeline(query, &input[..line_starts[k]], None, false, seed, density, vec![]);
        if p.panicked.is_some() || p.hung || p.writes != 1 {
            ctx.case(family, &key, "viol", serde_json::json!({"class": "C16/non-tty-failed", "what": "non-terminal run of a prefix failed", "prefix": k, "case": info}));
            return;
        }
        prefix_tables.push(String::from_utf8_lossy(&p.bytes).into_owned());
    }
    // P-level 1: every frame is the table of the rows received so far (prefixes never go back), the
    // last one the table of all rows
    let mut at = 0usize;
    for (fi, f) in frames.iter().enumerate() {
        let last = fi + 1 == frames.len();
        let found = if last { (rows..=rows).find(|k| frame_vs_plain(f, &prefix_tables[*k], w, h, true).is_none()) } else { (at..=rows).find(|k| frame_vs_plain(f, &prefix_tables[*k], w, h, true).is_none()) };
        match found {
            Some(k) => at = k,
            None => {
                let class = if last { "C16/final-frame-differs" } else { "C16/stale-downstream-state" };
                ctx.case(
                    family,
                    &key,
                    "viol",
                    serde_json::json!({"class": class, "what": format!("frame {} of {} is not the table of any prefix ≥ {} of the input{}: {}", fi, frames.len(), at, if last { " (final frame: not the table of all rows)" } else { "" },
                        frame_vs_plain(f, &prefix_tables[if last { rows } else { at }], w, h, true).unwrap_or_default()),
                        "frame": f, "expected_table": prefix_tables[if last { rows } else { at }], "case": info}),
                );
                return;
            }
        }
    }
    // P-level 2 + emulator agreement: final screen = final frame, no residue
    let mut tap = VerdictTap::default();
    judge_bytes_tap(ctx, &mut tap, w as usize, h as usize, &tty.bytes, &frames);
    if let Some((verdict, mut payload)) = tap.0.take() {
        if verdict != "pass" {
            payload["case"] = info;
            ctx.case(family, &key, &verdict, payload);
            return;
        }
    }
    // F-level (see `agg_f_level`)
    if every && frames.len() == rows + 1 {
        if let Some((verdict, mut payload)) = agg_f_level(ctx, query, &input, &line_starts, rows, w, h, &frames) {
            payload["case"] = info;
            ctx.case(family, if verdict == "skip" { "" } else { &key }, &verdict, payload);
            return;
        }
    }
    ctx.case(family, &key, "pass", serde_json::json!({"query": query, "size": [w, h], "rows": rows, "frames": frames.len(), "refresh_density": density, "idle_pauses": pauses.len()}));
}

/* ---------- level 2d: idle catch-up — the real loop with the real clock ---------- */

const IDLE_QUERIES: &[&str] = &["* | count", "* | json | count by k", "* | json | count by k | count", "* | json | sum(n) by k | sort by _sum"];

/// how long a stale screen is tolerated before it is judged stale (the refresh interval is 50 ms;
/// a loaded machine may be late, a loop that does not redraw on idle ticks never catches up)
const CATCH_UP_BOUND_MS: u64 = 2000;

/// The real `Pipeline::process` on a forced terminal with the REAL clock (no refresh override):
/// a burst of lines is released at once (so all but the first arrive inside the 50 ms throttle
/// window), the input is then held open and idle; after ≥ 6 refresh intervals the bytes drawn so
/// far, replayed through the emulator, must show the table of ALL lines released so far.
fn idle_catch_up(ctx: &mut Ctx, idx: usize, r: &mut Rng) {
    use super::c15::Gate;
    let query = IDLE_QUERIES[r.below(IDLE_QUERIES.len())];
    let w = 60 + r.below(140) as u16;
    let h = 20 + r.below(30) as u16;
    let nbursts = 2 + r.below(2);
    let mut bursts: Vec<Vec<u8>> = vec![];
    let mut burst_lines: Vec<usize> = vec![];
    for _ in 0..nbursts {
        let k = 2 + r.below(7);
        let mut b = String::new();
        for _ in 0..k {
            b.push_str(&format!("{{\"k\":\"k{}\",\"n\":{}}}\n", r.below(3), r.range(1, 50)));
        }
        bursts.push(b.into_bytes());
        burst_lines.push(k);
    }
    let idle_ms: Vec<u64> = (0..nbursts).map(|_| 300 + r.below(100) as u64).collect();
    let family = "idle-catch-up";
    let key = format!("{}:{}", family, idx);
    let info = serde_json::json!({"level": "pipeline, real clock", "query": query, "size": [w, h], "bursts": burst_lines, "idle_ms": idle_ms,
        "input_hex": enc::hexb(&bursts.concat())});
    let gate = Gate::default();
    let sink = CountingBuf::default();
    let (tx, rx) = mpsc::channel();
    {
        let q = query.to_string();
        let out = sink.clone();
        let reader = gate.reader();
        std::thread::spawn(move || {
            let res = catch_unwind(AssertUnwindSafe(move || {
                let qc = QueryContainer::new(q, Box::new(Recorder::default()));
                match Pipeline::verif_new_with_terminal(&qc, out, OutputMode::Legacy, Some((w, h)), true, None) {
                    Ok(p) => {
                        p.process(reader);
                        true
                    }
                    Err(_) => false,
                }
            }));
            let _ = tx.send(res.unwrap_or(false));
        });
    }
    let snapshot = |sink: &CountingBuf| -> Vec<u8> { sink.buf.0.lock().unwrap().clone() };
    // what the screen shows for the bytes drawn so far: the last frame, if the screen is exactly it
    let on_screen = |bytes: &[u8]| -> Option<String> {
        let text = String::from_utf8_lossy(bytes).into_owned();
        let mut scr = Screen::blank(w as usize, h as usize);
        scr.display(&text)?;
        let frames = split_frames(&text);
        let last = frames.last()?.clone();
        if scr.row_strings() == expected_rows(w as usize, h as usize, &last) {
            Some(last)
        } else {
            None
        }
    };
    let mut released: Vec<u8> = vec![];
    let mut released_lines = 0usize;
    let mut loop_req: Vec<String> = vec![];
    let mut clock = 0u64;
    let mut late_ms: Vec<u64> = vec![];
    for (bi, b) in bursts.iter().enumerate() {
        gate.release(b);
        released.extend_from_slice(b);
        released_lines += burst_lines[bi];
        // the model's schedule: the burst inside one throttle window, then six idle poll intervals
        for _ in 0..burst_lines[bi] {
            clock += 1;
            loop_req.push(format!("r{}:{}", clock, clock));
        }
        for _ in 0..6 {
            clock += 51;
            loop_req.push(format!("t{}:{}", clock, clock + 1));
            clock += 1;
        }
        loop_req.push("S".into());
        std::thread::sleep(Duration::from_millis(idle_ms[bi]));
        let plain = run_pipeline(query, &released, None, false, 0, 0, vec![]);
        let plain_text = String::from_utf8_lossy(&plain.bytes).into_owned();
        let t0 = std::time::Instant::now();
        let mut last_seen: Option<String>;
        loop {
            last_seen = on_screen(&snapshot(&sink));
            let ok = match &last_seen {
                Some(f) => frame_vs_plain(f, &plain_text, w, h, true).is_none(),
                None => false,
            };
            if ok {
                late_ms.push(t0.elapsed().as_millis() as u64);
                break;
            }
            if t0.elapsed() > Duration::from_millis(CATCH_UP_BOUND_MS) {
                // which prefix is on display?
                let line_starts: Vec<usize> = std::iter::once(0).chain(released.iter().enumerate().filter(|(_, c)| **c == b'\n').map(|(i, _)| i + 1)).collect();
                let shown = last_seen.as_ref().and_then(|f| {
                    (0..=released_lines).find(|k| {
                        let p = run_pipeline(query, &released[..line_starts[*k]], None, false, 0, 0, vec![]);
                        frame_vs_plain(f, &String::from_utf8_lossy(&p.bytes), w, h, true).is_none()
                    })
                });
                gate.eof();
                let _ = rx.recv_timeout(Duration::from_secs(20));
                ctx.case(
                    family,
                    &key,
                    "viol",
                    serde_json::json!({"class": "C16/idle-display-stale",
                        "what": format!("after burst {} ({} lines released in all) and {} ms of idle input the screen still shows {} instead of the table of all lines received",
                            bi, released_lines, idle_ms[bi] + CATCH_UP_BOUND_MS, match shown { Some(k) => format!("the table of the first {} lines", k), None => "something that is no prefix's table".to_string() }),
                        "screen_frame": last_seen, "expected_table": plain_text, "case": info}),
                );
                return;
            }
            std::thread::sleep(Duration::from_millis(40));
        }
    }
    gate.eof();
    let compiled = match rx.recv_timeout(Duration::from_secs(20)) {
        Ok(c) => c,
        Err(_) => {
            ctx.case(family, &key, "viol", serde_json::json!({"class": "C16/hang", "what": "the run did not end after end of input", "case": info}));
            return;
        }
    };
    if !compiled {
        ctx.case(family, &key, "viol", serde_json::json!({"class": "C16/panic", "what": "the run panicked or the query did not compile", "panic": imp::LAST_PANIC.lock().map(|g| g.clone()).unwrap_or_default(), "case": info}));
        return;
    }
    // end of input: the usual final-screen oracle and renderer F-level
    let bytes = snapshot(&sink);
    let text = String::from_utf8_lossy(&bytes).into_owned();
    let frames = split_frames(&text);
    let mut tap = VerdictTap::default();
    judge_bytes_tap(ctx, &mut tap, w as usize, h as usize, &bytes, &frames);
    if let Some((verdict, mut payload)) = tap.0.take() {
        if verdict != "pass" {
            payload["case"] = info;
            ctx.case(family, if verdict == "skip" { "" } else { &key }, &verdict, payload);
            return;
        }
    }
    let plain = run_pipeline(query, &released, None, false, 0, 0, vec![]);
    if let Some(bad) = frame_vs_plain(frames.last().map(|s| s.as_str()).unwrap_or(""), &String::from_utf8_lossy(&plain.bytes), w, h, true) {
        ctx.case(family, &key, "viol", serde_json::json!({"class": "C16/final-frame-differs", "what": bad, "case": info}));
        return;
    }
    // F-level: the model's loop (`Loop.step`, the object of `C16_idle_catch_up`) run on the same
    // release schedule predicts which prefix is on display at every sample: all lines released
    let ans = ctx.drv.ask(&format!("LOOP\t{}", loop_req.join(" ")));
    let mut want: Vec<String> = vec![];
    let mut acc = 0;
    for k in &burst_lines {
        acc += k;
        want.push(format!("{}/{}", acc, acc));
    }
    if ans != format!("L {}", want.join(" ")) {
        ctx.case(family, &key, "fdis", serde_json::json!({"what": format!("the model's loop predicts {} on display at the samples, the implementation showed {}", ans, want.join(" ")), "case": info}));
        return;
    }
    ctx.case(family, &key, "pass", serde_json::json!({"query": query, "size": [w, h], "bursts": burst_lines, "idle_ms": idle_ms, "caught_up_after_ms": late_ms, "frames": frames.len()}));
}

/* ---------- level 2e: cells with line breaks on a short terminal ---------- */

/// `count by msg` where msg is an exception message with stack frames (2–3 lines), more groups than
/// the terminal has rows: a table row takes several screen lines, so the frame must be clipped by
/// LINES.  Oracles: no frame taller than h−1 lines, nothing ever scrolled off the top, the final
/// screen is exactly the final frame (no residue), and that frame is the first h−1 lines of what a
/// non-terminal run prints (up to padding).
fn multiline_cells(ctx: &mut Ctx, idx: usize, r: &mut Rng) {
    let query = *r.pick(&["* | json | count by msg", "* | json | count by msg | sort by msg", "* | json | count by msg, k"]);
    let w = 100 + r.below(100) as u16;
    let h = 6 + r.below(7) as u16;
    let ngroups = 4 + r.below(10);
    let msgs: Vec<String> = (0..ngroups)
        .map(|i| {
            let nl = if r.chance(25) { "\\r\\n" } else { "\\n" };
            let mut m = format!("boom{:02}{}  at frame{:02}()", i, nl, i);
            if r.chance(50) {
                m.push_str(&format!("{}  at main()", nl));
            }
            if r.chance(15) {
                m.push_str(nl);
            }
            m
        })
        .collect();
    let rows = ngroups + r.below(30);
    let mut input = String::new();
    for i in 0..rows {
        let m = if i < ngroups { &msgs[i] } else { &msgs[r.below(ngroups)] };
        input.push_str(&format!("{{\"msg\":\"{}\",\"k\":\"k{}\"}}\n", m, r.below(2)));
    }
    let input = input.into_bytes();
    let density = *r.pick(&[30usize, 100, 100]);
    let seed = r.next();
    let line_starts: Vec<usize> = std::iter::once(0).chain(input.iter().enumerate().filter(|(_, b)| **b == b'\n').map(|(i, _)| i + 1)).collect();
    let mut pauses = vec![];
    for _ in 0..r.below(3) {
        pauses.push((*r.pick(&line_starts), 60 + r.below(40) as u64));
    }
    pauses.sort();
    pauses.dedup_by_key(|p| p.0);
    let family = "multiline-cells";
    let key = format!("{}:{}", family, idx);
    let info = serde_json::json!({"level": "pipeline", "query": query, "size": [w, h], "groups": ngroups, "rows": rows, "refresh_density": density, "refresh_seed": seed, "pauses": pauses, "input_hex": enc::hexb(&input)});
    let tty = run_pipeline(query, &input, Some((w, h)), true, seed, density, pauses.clone());
    let plain = run_pipeline(query, &input, None, false, seed, density, vec![]);
    if tty.hung || !tty.compiled || plain.hung || plain.panicked.is_some() {
        ctx.case(family, &key, "viol", serde_json::json!({"class": "C16/panic", "what": "run failed", "case": info}));
        return;
    }
    if let Some(p) = &tty.panicked {
        ctx.case(family, &key, "viol", serde_json::json!({"class": "C16/panic", "what": format!("terminal run panicked: {}", c19::clip(p, 200)), "case": info}));
        return;
    }
    let text = String::from_utf8_lossy(&tty.bytes).into_owned();
    let frames = split_frames(&text);
    // no frame taller than the screen
    if let Some((fi, f)) = frames.iter().enumerate().find(|(_, f)| f.matches('\n').count() > h as usize - 1) {
        ctx.case(family, &key, "viol", serde_json::json!({"class": "C16/frame-taller-than-terminal",
            "what": format!("frame {} of {} has {} lines on a terminal of height {}: a row whose cell contains a line break takes several lines, the frame must be clipped by lines", fi, frames.len(), f.matches('\n').count(), h),
            "frame": f, "case": info}));
        return;
    }
    // nothing scrolled off the top
    let mut scr = Screen::blank(w as usize, h as usize);
    if scr.display(&text).is_some() && scr.scrolled > 0 {
        ctx.case(family, &key, "viol", serde_json::json!({"class": "C16/frame-taller-than-terminal", "what": format!("{} lines were scrolled off the top of the screen while redrawing", scr.scrolled), "case": info}));
        return;
    }
    // emulators agree, bytes = model renderer's, final screen = final frame (no residue)
    let mut tap = VerdictTap::default();
    judge_bytes_tap(ctx, &mut tap, w as usize, h as usize, &tty.bytes, &frames);
    if let Some((verdict, mut payload)) = tap.0.take() {
        if verdict != "pass" {
            payload["case"] = info;
            ctx.case(family, if verdict == "skip" { "" } else { &key }, &verdict, payload);
            return;
        }
    }
    // the final frame is the first h−1 LINES of the non-terminal output, up to padding
    let plain_text = String::from_utf8_lossy(&plain.bytes).into_owned();
    let last = frames.last().cloned().unwrap_or_default();
    let tty_lines: Vec<&str> = last.strip_suffix('\n').unwrap_or(&last).split('\n').collect();
    let plain_lines: Vec<&str> = plain_text.strip_suffix('\n').unwrap_or(&plain_text).split('\n').collect();
    let want_n = plain_lines.len().min(h as usize - 1);
    let bad = if tty_lines.len() != want_n {
        Some(format!("final frame has {} lines, the first {} lines of the non-terminal output were expected", tty_lines.len(), want_n))
    } else {
        (0..want_n).find(|i| *i != 1 && !same_cells(tty_lines[*i], plain_lines[*i])).map(|i| format!("line {} of the final frame {:?} is not line {} of the non-terminal output {:?}", i, tty_lines[i], i, plain_lines[i]))
    };
    if let Some(what) = bad {
        ctx.case(family, &key, "viol", serde_json::json!({"class": "C16/final-frame-differs", "what": what, "final_frame": last, "non_tty": c19::clip(&plain_text, 1500), "case": info}));
        return;
    }
    ctx.case(family, &key, "pass", serde_json::json!({"query": query, "size": [w, h], "groups": ngroups, "rows": rows, "frames": frames.len(), "lines_of_full_table": plain_lines.len()}));
}

/* ---------- level 2f: phased inputs — cells that grow or shrink while the table keeps its shape ---------- */

/// An input delivered in 2–4 phases. Between two phases the table on display is redrawn several
/// times unchanged; the next phase then changes the WIDTH of cells (by +1 … +60 cells, or the
/// opposite) — where the scenario allows it without changing the table's shape (same number of
/// rows, same columns): a late long key entering a top-N table, a sum/max/min growing by many
/// digits, a group's aggregate growing, a late long row entering a raw top-N sort, a new group
/// sorting above rows already drawn.
struct Phased {
    kind: &'static str,
    query: String,
    /// the lines (without `\n`) of every phase
    phases: Vec<Vec<String>>,
}

/// +1 … +60 cells
fn grow_step(r: &mut Rng) -> usize {
    match r.below(3) {
        0 => 1 + r.below(8),
        1 => 9 + r.below(17),
        _ => 26 + r.below(35),
    }
}

/// the length of the cells introduced by phase 0, 1, …: growing (60%), shrinking (20%), unrelated (20%)
fn width_plan(r: &mut Rng, nphases: usize, first_max: usize, cap: usize) -> Vec<usize> {
    let dir = r.below(10);
    let mut v = vec![];
    if dir < 6 {
        let mut l = 1 + r.below(first_max);
        for _ in 0..nphases {
            v.push(l.min(cap));
            l += grow_step(r);
        }
    } else if dir < 8 {
        let mut l = cap / 3 + r.below(cap - cap / 3 + 1);
        for _ in 0..nphases {
            v.push(l.max(1));
            l = l.saturating_sub(grow_step(r));
        }
    } else {
        for _ in 0..nphases {
            v.push(1 + r.below(cap));
        }
    }
    v
}

/// a fresh key `/<rank><filler…>` of about `len` (≥ 2) cells without blanks, quotes or backslashes
fn key_text(r: &mut Rng, rank: char, len: usize, used: &mut std::collections::BTreeSet<String>) -> String {
    const CS: &[u8] = b"abcdefghijklmnopqrstuvwxyz0123456789/_.-";
    let mut len = len.max(2);
    loop {
        let mut s = String::from("/");
        s.push(rank);
        let mut cells = 2;
        while cells < len {
            if cells > 3 && r.chance(2) {
                s.push(*r.pick(&['é', 'η', 'ü']));
            } else {
                s.push(CS[r.below(CS.len())] as char);
            }
            cells += 1;
        }
        if used.insert(s.clone()) {
            return s;
        }
        len += 1;
    }
}

fn letter(r: &mut Rng) -> char {
    (b'a' + r.below(26) as u8) as char
}

/// an integer of exactly `digits` (1..=17) digits
fn with_digits(r: &mut Rng, digits: usize) -> i64 {
    let mut v: i64 = 1 + r.below(9) as i64;
    for _ in 1..digits.clamp(1, 17) {
        v = v * 10 + r.below(10) as i64;
    }
    v
}

fn number_text(r: &mut Rng, v: i64, float: bool) -> String {
    if float {
        format!("{}{}", v, r.pick(&[".25", ".5", ".75", ".125"]))
    } else {
        format!("{}", v)
    }
}

/// `count by url [| sort …] [| limit N]`: late keys of another length enter (or lead) the table
fn gen_topn(r: &mut Rng) -> Phased {
    let n = 1 + r.below(4);
    let (query, by_key, two_keys, limited) = match r.below(8) {
        0 | 1 => (format!("* | json | count by url | limit {}", n), false, false, true),
        2 => (format!("* | json | count as hits by url | sort by hits desc | limit {}", n), false, false, true),
        3 => (format!("* | json | count by url, m | limit {}", n), false, true, true),
        4 => (format!("* | json | count by url | sort by url | limit {}", n), true, false, true),
        5 => ("* | json | count by url | sort by url".to_string(), true, false, false),
        6 => (format!("* | json | count, sum(n) as bytes by url | sort by bytes desc | limit {}", n), false, false, true),
        _ => ("* | json | count by url".to_string(), false, false, false),
    };
    let nphases = 2 + r.below(3);
    let plan = width_plan(r, nphases, 12, 70);
    let mut used = std::collections::BTreeSet::new();
    let mut counts: Vec<(String, usize)> = vec![];
    let mut phases = vec![];
    for (p, want_len) in plan.iter().enumerate() {
        let fresh = if p == 0 {
            if limited {
                n + r.below(3)
            } else {
                1 + r.below(4)
            }
        } else {
            1 + r.below(2)
        };
        let mut rows: Vec<String> = vec![];
        let mut sorted: Vec<usize> = counts.iter().map(|c| c.1).collect();
        sorted.sort_by(|a, b| b.cmp(a));
        let top = sorted.first().copied().unwrap_or(0);
        let nth = sorted.get(n.min(sorted.len()).saturating_sub(1)).copied().unwrap_or(0);
        for j in 0..fresh {
            let rank = if by_key {
                // mostly a key that sorts ABOVE everything drawn so far
                if r.chance(75) {
                    (b'x' - 6 * p as u8 - r.below(5) as u8) as char
                } else {
                    *r.pick(&['y', 'z'])
                }
            } else {
                letter(r)
            };
            let len = want_len.saturating_sub(if j > 0 || p == 0 { r.below(3) } else { 0 });
            let key = key_text(r, rank, len, &mut used);
            let c = if p == 0 || by_key {
                1 + r.below(5)
            } else if r.chance(65) {
                top + 1 + r.below(2)
            } else {
                nth + 1
            };
            counts.push((key, c.min(24)));
            let (key, c) = counts.last().cloned().unwrap();
            let m = ["GET", "POST", "DELETE"][key.len() % 3];
            for _ in 0..c {
                rows.push(if two_keys { format!("{{\"url\":\"{}\",\"m\":\"{}\",\"n\":{}}}", key, m, r.range(1, 900)) } else { format!("{{\"url\":\"{}\",\"n\":{}}}", key, r.range(1, 900)) });
            }
        }
        if p > 0 && r.chance(40) {
            // a few more hits for keys already known
            for _ in 0..1 + r.below(3) {
                let i = r.below(counts.len());
                counts[i].1 += 1;
                let key = counts[i].0.clone();
                let m = ["GET", "POST", "DELETE"][key.len() % 3];
                rows.push(if two_keys { format!("{{\"url\":\"{}\",\"m\":\"{}\",\"n\":{}}}", key, m, r.range(1, 900)) } else { format!("{{\"url\":\"{}\",\"n\":{}}}", key, r.range(1, 900)) });
            }
        }
        r.shuffle(&mut rows);
        phases.push(rows);
    }
    Phased { kind: "top-n-by-key", query, phases }
}

/// `sum(n)`, `max(n)`, … without group-by: one row whose values gain (or lose) many digits
fn gen_scalar(r: &mut Rng) -> Phased {
    let query = *r.pick(&[
        "* | json | sum(n)",
        "* | json | max(n)",
        "* | json | min(n)",
        "* | json | sum(n), max(n)",
        "* | json | sum(n) as total, count",
        "* | json | max(n) as hi, min(n) as lo",
        "* | json | avg(n)",
        "* | json | sum(n) as total | sort by total",
    ]);
    let nphases = 2 + r.below(3);
    let plan = width_plan(r, nphases, 3, 17);
    // 0: positive values, 1: negative values, 2: later phases take most of the sum back
    let signs = r.below(3);
    let float = r.chance(25);
    let mut sum: i128 = 0;
    let mut phases = vec![];
    for (p, digits) in plan.iter().enumerate() {
        let mut rows = vec![];
        for _ in 0..1 + r.below(3) {
            let v = if signs == 2 && p > 0 && sum != 0 && r.chance(60) {
                (-sum + r.range(-99, 99) as i128).clamp(-(10i128.pow(17)), 10i128.pow(17)) as i64
            } else {
                let v = with_digits(r, *digits);
                if signs == 1 || (signs == 2 && r.chance(20)) {
                    -v
                } else {
                    v
                }
            };
            sum += v as i128;
            rows.push(format!("{{\"n\":{},\"k\":\"x\"}}", number_text(r, v, float)));
        }
        phases.push(rows);
    }
    Phased { kind: "scalar-aggregate", query: query.to_string(), phases }
}

/// numeric aggregates by a key: the set of groups is (mostly) complete after the first phase, later
/// phases make the aggregates of existing groups much wider
fn gen_grouped(r: &mut Rng) -> Phased {
    let n = 1 + r.below(4);
    let query = match r.below(8) {
        0 => "* | json | max(n) by k".to_string(),
        1 => "* | json | sum(n) by k".to_string(),
        2 => "* | json | count, max(n) as top by k | sort by k".to_string(),
        3 => "* | json | min(n), max(n) by k".to_string(),
        4 => format!("* | json | sum(n) as s by k | sort by s desc | limit {}", n),
        5 => format!("* | json | max(n) as m by k | sort by m desc | limit {}", n),
        6 => "* | json | avg(n) as mean, count by k | sort by k".to_string(),
        _ => format!("* | json | min(n) as lo by k | sort by lo | limit {}", n),
    };
    let nphases = 2 + r.below(3);
    let plan = width_plan(r, nphases, 3, 17);
    let negative = r.chance(30);
    let float = r.chance(25);
    let mut used = std::collections::BTreeSet::new();
    let ngroups = 2 + r.below(4);
    let mut groups: Vec<String> = vec![];
    for _ in 0..ngroups {
        let len = 2 + r.below(7);
        let rank = letter(r);
        groups.push(key_text(r, rank, len, &mut used));
    }
    let mut phases = vec![];
    for (p, digits) in plan.iter().enumerate() {
        let mut rows = vec![];
        let row = |r: &mut Rng, k: &str| {
            let v = with_digits(r, *digits);
            format!("{{\"k\":\"{}\",\"n\":{}}}", k, number_text(r, if negative { -v } else { v }, float))
        };
        if p == 0 {
            for g in &groups {
                for _ in 0..1 + r.below(2) {
                    rows.push(row(r, g));
                }
            }
        } else {
            for _ in 0..1 + r.below(ngroups) {
                let g = groups[r.below(groups.len())].clone();
                rows.push(row(r, &g));
            }
            if r.chance(25) {
                let len = 2 + r.below(29);
                let rank = letter(r);
                let g = key_text(r, rank, len, &mut used);
                rows.push(row(r, &g));
                groups.push(g);
            }
        }
        r.shuffle(&mut rows);
        phases.push(rows);
    }
    Phased { kind: "grouped-aggregate", query, phases }
}

/// a raw `sort … | limit N`: late rows with cells of another length enter the N rows on display
fn gen_raw_topn(r: &mut Rng) -> Phased {
    let n = 1 + r.below(4);
    let (query, asc) = match r.below(5) {
        0 | 1 => (format!("* | json | sort by n desc | limit {}", n), false),
        2 => (format!("* | json | fields url, n | sort by n desc | limit {}", n), false),
        3 => (format!("* | json | sort by n | limit {}", n), true),
        _ => (format!("* | json | fields msg, n, url | sort by n, url desc | limit {}", n), false),
    };
    let nphases = 2 + r.below(3);
    let url_plan = width_plan(r, nphases, 12, 60);
    let msg_plan = width_plan(r, nphases, 6, 20);
    let mut used = std::collections::BTreeSet::new();
    let mut taken = std::collections::BTreeSet::new();
    let mut phases = vec![];
    for p in 0..nphases {
        let mut rows = vec![];
        let nrows = if p == 0 { n + r.below(3) } else { 1 + r.below(3) };
        for j in 0..nrows {
            let rank = letter(r);
            let jitter = if j > 0 { r.below(3) } else { 0 };
            let url = key_text(r, rank, url_plan[p].saturating_sub(jitter), &mut used);
            let msg: String = (0..msg_plan[p].max(1)).map(|_| letter(r)).collect();
            // mostly a row that enters the rows on display (all sort keys distinct)
            let mut v = if p == 0 || r.chance(75) { 1000 * p as i64 + r.range(1, 999) } else { r.range(-500, 0) };
            while !taken.insert(v) {
                v += 1;
            }
            rows.push(format!("{{\"url\":\"{}\",\"n\":{},\"msg\":\"{}\"}}", url, if asc { -v } else { v }, msg));
        }
        phases.push(rows);
    }
    Phased { kind: "raw-top-n", query, phases }
}

/// Inputs whose EARLY rows hold a value much longer than anything in the final table, in a row that
/// later leaves the table (top-N by count / by a sum / by key, raw `sort … | limit N`), while
/// another column grows in the later phases.
fn gen_stale(r: &mut Rng) -> Phased {
    let n = 1 + r.below(3);
    // (query, raw rows, ordered by key, second text column, rank by a sum)
    let (query, raw, by_key, has_b, by_sum) = match r.below(9) {
        0 | 1 => (format!("* | json | count by a, b | limit {}", n), false, false, true, false),
        2 => (format!("* | json | count by a | limit {}", n), false, false, false, false),
        3 => (format!("* | json | count as hits by a, b | sort by hits desc | limit {}", n), false, false, true, false),
        4 => (format!("* | json | count by a | sort by a | limit {}", n), false, true, false, false),
        5 => (format!("* | json | count by a, b | sort by a | limit {}", n), false, true, true, false),
        6 => (format!("* | json | sort by n desc | limit {}", n), true, false, true, false),
        7 => (format!("* | json | fields a, n | sort by n desc | limit {}", n), true, false, false, false),
        _ => (format!("* | json | sum(n) as bytes, count by a | sort by bytes desc | limit {}", n), false, false, false, true),
    };
    let nphases = 2 + r.below(3);
    let long_phases = if nphases >= 3 && r.chance(40) { 2 } else { 1 };
    let late_phases = nphases - long_phases;
    // mostly enough late groups to push every early one out of the N rows
    let displace = r.chance(85);
    let per_late = if displace { (n + late_phases - 1) / late_phases + r.below(2) } else { 1 };
    let mut b_len = 8 + r.below(30);
    let mut used = std::collections::BTreeSet::new();
    let mut taken = std::collections::BTreeSet::new();
    let mut top = 0usize;
    let mut phases = vec![];
    for p in 0..nphases {
        let early = p < long_phases;
        let mut rows: Vec<String> = vec![];
        let groups = if early { 1 + r.below(n + 1) } else { per_late };
        if !early {
            b_len = (b_len + grow_step(r)).min(70);
        }
        for _ in 0..groups {
            let rank = if by_key {
                // late keys sort above the early ones
                if early {
                    (b'p' + r.below(10) as u8) as char
                } else {
                    (b'o' - 3 * (p as u8) - r.below(4) as u8) as char
                }
            } else {
                letter(r)
            };
            let a_len = if early { 30 + r.below(81) } else { 2 + r.below(45) };
            let a = key_text(r, rank, a_len, &mut used);
            let b: String = (0..if early { 1 + r.below(4) } else { b_len.saturating_sub(r.below(3)) }).map(|_| letter(r)).collect();
            // the sort key of raw rows / the summand: later phases are larger
            let digits = if early { 1 + r.below(3) } else { 6 + 2 * p + r.below(4) };
            let mut v = if by_sum { with_digits(r, digits) } else { 1000 * p as i64 + r.range(1, 999) };
            while !taken.insert(v) {
                v += 1;
            }
            let copies = if raw {
                1
            } else if by_key || by_sum {
                1 + r.below(3)
            } else if early {
                1 + r.below(3)
            } else {
                (top + 1 + r.below(2)).min(30)
            };
            if !early || !(by_key || by_sum || raw) {
                top = top.max(copies);
            }
            for _ in 0..copies {
                let nv = if by_sum || raw { v } else { r.range(1, 900) };
                rows.push(if has_b || raw { format!("{{\"a\":\"{}\",\"b\":\"{}\",\"n\":{}}}", a, b, nv) } else { format!("{{\"a\":\"{}\",\"n\":{}}}", a, nv) });
            }
        }
        r.shuffle(&mut rows);
        phases.push(rows);
    }
    Phased { kind: "long-value-leaves-the-table", query, phases }
}

fn gen_phased(r: &mut Rng) -> Phased {
    match r.below(10) {
        0..=3 => gen_topn(r),
        4 | 5 => gen_scalar(r),
        6 | 7 => gen_grouped(r),
        _ => gen_raw_topn(r),
    }
}

/// the columns a table needs when every column is as wide as its widest cell in ANY of the tables
/// (one per prefix of the input: a frame is always the table of a prefix) plus 12 blanks of
/// padding.  None: a table whose rows do not have one blank-free cell per column.
fn width_needed(tables: &[String]) -> Option<usize> {
    let mut widest: std::collections::BTreeMap<String, usize> = std::collections::BTreeMap::new();
    for t in tables {
        if t == "No data\n" {
            continue;
        }
        let lines: Vec<&str> = t.lines().collect();
        if lines.len() < 2 || lines[1].is_empty() || !lines[1].chars().all(|c| c == '-') {
            return None;
        }
        let header: Vec<&str> = lines[0].split_whitespace().collect();
        for (i, l) in lines.iter().enumerate() {
            if i == 1 {
                continue;
            }
            let cells: Vec<&str> = l.split_whitespace().collect();
            if cells.len() != header.len() {
                return None;
            }
            for (c, name) in cells.iter().zip(header.iter()) {
                // (bytes: never fewer than cells for the characters generated here)
                let e = widest.entry(name.to_string()).or_insert(0);
                *e = (*e).max(c.len());
            }
        }
    }
    Some(widest.values().map(|v| v + 12).sum())
}

/// Does the frame show the rows and values of `plain_text` (what a non-terminal run prints),
/// clipped to h−1 lines, up to blanks?  Stricter than `frame_vs_plain`: where the whole table fits
/// the terminal width a cell cut with `…` is NOT the value.  None = yes.
fn strict_frame_vs_plain(frame: &str, plain_text: &str, h: u16) -> Option<String> {
    let strip = |s: &str| -> String { s.chars().filter(|c| !c.is_whitespace()).collect() };
    let tty_lines: Vec<&str> = frame.strip_suffix('\n').unwrap_or(frame).split('\n').collect();
    let plain_lines: Vec<&str> = plain_text.strip_suffix('\n').unwrap_or(plain_text).split('\n').collect();
    let want_n = plain_lines.len().min((h as usize) - 1);
    if tty_lines.len() != want_n {
        return Some(format!("frame has {} lines, the first {} of the {} lines of the non-terminal table were expected (height {})", tty_lines.len(), want_n, plain_lines.len(), h));
    }
    let is_rule = |l: &str| !l.is_empty() && l.chars().all(|c| c == '-');
    let table = plain_lines.len() >= 2 && is_rule(plain_lines[1]);
    for i in 0..want_n {
        if table && i == 1 {
            if !is_rule(tty_lines[1]) {
                return Some(format!("line 1 of the frame {:?} is not the rule under the header", c19::clip(tty_lines[1], 160)));
            }
            continue;
        }
        if strip(tty_lines[i]) != strip(plain_lines[i]) {
            return Some(format!(
                "line {} of the frame {:?} does not show the cells of {:?}{}",
                i,
                c19::clip(tty_lines[i], 200),
                c19::clip(plain_lines[i], 200),
                if tty_lines[i].contains('…') && !plain_lines[i].contains('…') { " (a cell is cut with an ellipsis although the whole table fits the terminal width)" } else { "" }
            ));
        }
    }
    None
}

struct PhasedRun {
    case: Phased,
    input: Vec<u8>,
    /// byte offset of the end of every phase
    phase_ends: Vec<usize>,
    /// number of lines up to the end of every phase
    phase_lines: Vec<usize>,
    /// what a non-terminal run prints for the first k lines, k = 0..=lines
    prefix_tables: Vec<String>,
    w: u16,
    h: u16,
    need: usize,
}

/// generate a phased input, compute the non-terminal table of every prefix and a terminal wide
/// enough for all of them.  None: reported (harness problem / unmodelled).
fn prepare_phased(ctx: &mut Ctx, family: &str, key: &str, r: &mut Rng, stale: bool) -> Option<PhasedRun> {
    let case = if stale { gen_stale(r) } else { gen_phased(r) };
    let mut input = vec![];
    let mut phase_ends = vec![];
    let mut phase_lines = vec![];
    let mut line_starts = vec![0usize];
    for ph in &case.phases {
        for l in ph {
            input.extend_from_slice(l.as_bytes());
            input.push(b'\n');
            line_starts.push(input.len());
        }
        phase_ends.push(input.len());
        phase_lines.push(line_starts.len() - 1);
    }
    let nlines = line_starts.len() - 1;
    let mut prefix_tables = vec![];
    for k in 0..=nlines {
        let p = run_pipeline(&case.query, &input[..line_starts[k]], None, false, 0, 0, vec![]);
        let info = serde_json::json!({"level": "pipeline", "scenario": case.kind, "query": case.query, "prefix_lines": k, "input_hex": enc::hexb(&input)});
        if !p.compiled {
            ctx.case(family, key, "viol", serde_json::json!({"class": "C16/harness", "what": "query did not compile", "case": info}));
            return None;
        }
        if p.panicked.is_some() || p.hung {
            ctx.case(family, key, "viol", serde_json::json!({"class": "C16/non-tty-failed", "what": "non-terminal run of a prefix panicked or hung", "panic": p.panicked, "case": info}));
            return None;
        }
        if p.writes != 1 || p.bytes.contains(&0x1b) {
            ctx.case(family, key, "viol", serde_json::json!({"class": "C16/non-tty-writes", "what": format!("non-terminal run wrote {} times{}", p.writes, if p.bytes.contains(&0x1b) { " and emitted ESC" } else { "" }), "case": info}));
            return None;
        }
        prefix_tables.push(String::from_utf8_lossy(&p.bytes).into_owned());
    }
    if stale {
        // only as wide as the FINAL table needs (its rule is as long as the sum of the column
        // widths measured on that table alone) plus 0…6: earlier tables held much longer values
        let need = match table_width(prefix_tables.last().map(|s| s.as_str()).unwrap_or("")) {
            Some(n) => n,
            None => {
                ctx.case(family, "", "skip", serde_json::json!({"why": "the final table is empty", "query": case.query, "input_hex": enc::hexb(&input)}));
                return None;
            }
        };
        let w = (need + r.below(7)).min(250) as u16;
        let h = if r.chance(85) { 14 + r.below(30) as u16 } else { 3 + r.below(6) as u16 };
        return Some(PhasedRun { case, input, phase_ends, phase_lines, prefix_tables, w, h, need });
    }
    let need = match width_needed(&prefix_tables) {
        Some(n) if n <= 230 => n,
        other => {
            ctx.case(family, "", "skip", serde_json::json!({"why": format!("tables without one blank-free cell per column, or too wide for any terminal of this family ({:?})", other), "query": case.query, "input_hex": enc::hexb(&input)}));
            return None;
        }
    };
    // wide enough for every column at its widest: clipping by width is never legitimate here (C19 owns it)
    let w = (100 + r.below(41)).max(need) as u16;
    // mostly tall enough for the whole table; sometimes the table is clipped to h−1 lines
    let h = if r.chance(75) { 14 + r.below(30) as u16 } else { 3 + r.below(6) as u16 };
    Some(PhasedRun { case, input, phase_ends, phase_lines, prefix_tables, w, h, need })
}

/// the columns a non-terminal table takes: the length of the rule under its header (None: `No data`)
fn table_width(table: &str) -> Option<usize> {
    let rule = table.lines().nth(1)?;
    if rule.is_empty() || !rule.chars().all(|c| c == '-') {
        return None;
    }
    Some(rule.chars().count())
}

/// A frame showing `table` on a terminal of `w` columns: where the table fits the terminal (its
/// non-terminal form is not wider) every cell must be shown in full — `strict_frame_vs_plain`;
/// where it does not, cells may be cut (how is C19's matter) — `frame_vs_plain`.  None = fine.
fn frame_vs_table(frame: &str, table: &str, w: u16, h: u16) -> Option<String> {
    if table_width(table).map_or(true, |n| n <= w as usize) {
        strict_frame_vs_plain(frame, table, h)
    } else {
        frame_vs_plain(frame, table, w, h, true)
    }
}

/// how long the idle display may take to show everything received (the refresh interval is 50 ms;
/// the bound only has to tell "late on a loaded machine" from "never")
const PHASED_CATCH_UP_MS: u64 = 8000;

/// Phased input on the REAL clock (no refresh override): a phase is released at once, the input
/// then stays open and idle for 150–400 ms (several refreshes of an unchanged table); once the
/// screen has caught up it must show — strictly, no cut cells: the terminal is wide enough for
/// every column at its widest — the table a non-terminal run prints for everything released so
/// far; after end of input the final screen must be exactly the final table.
///
/// `stale` (family `stale-width`): the terminal is only as wide as the FINAL table needs while
/// earlier tables held much longer values; frames are judged strictly exactly where their own
/// table fits the terminal.
fn phased_growth_live(ctx: &mut Ctx, idx: usize, r: &mut Rng, stale: bool) {
    use super::c15::Gate;
    let family = if stale { "stale-width" } else { "phased-cell-growth" };
    let key = format!("{}:{}", family, idx);
    let run = match prepare_phased(ctx, family, &key, r, stale) {
        Some(x) => x,
        None => return,
    };
    let (w, h) = (run.w, run.h);
    let query = run.case.query.clone();
    let nph = run.case.phases.len();
    let idle_ms: Vec<u64> = (0..nph).map(|_| 150 + r.below(251) as u64).collect();
    let info = serde_json::json!({"level": "pipeline, real clock", "scenario": run.case.kind, "query": query, "size": [w, h], "columns_needed": run.need,
        "phase_lines": run.phase_lines, "idle_ms": idle_ms, "input_hex": enc::hexb(&run.input)});
    let gate = Gate::default();
    let sink = CountingBuf::default();
    let (tx, rx) = mpsc::channel();
    let panics_before = imp::PANICS.load(Ordering::SeqCst);
    {
        let q = query.clone();
        let out = sink.clone();
        let reader = gate.reader();
        std::thread::spawn(move || {
            let res = catch_unwind(AssertUnwindSafe(move || {
                let qc = QueryContainer::new(q, Box::new(Recorder::default()));
                match Pipeline::verif_new_with_terminal(&qc, out, OutputMode::Legacy, Some((w, h)), true, None) {
                    Ok(p) => {
                        p.process(reader);
                        true
                    }
                    Err(_) => false,
                }
            }));
            let _ = tx.send(res.unwrap_or(false));
        });
    }
    let snapshot = |sink: &CountingBuf| -> Vec<u8> { sink.buf.0.lock().unwrap().clone() };
    // what the screen shows for the bytes drawn so far: the last frame, if the screen is exactly it
    let on_screen = |bytes: &[u8]| -> Option<String> {
        let text = String::from_utf8_lossy(bytes).into_owned();
        let mut scr = Screen::blank(w as usize, h as usize);
        scr.display(&text)?;
        let frames = split_frames(&text);
        let last = frames.last()?.clone();
        if scr.row_strings() == expected_rows(w as usize, h as usize, &last) {
            Some(last)
        } else {
            None
        }
    };
    let frames_drawn = |sink: &CountingBuf| -> usize { split_frames(&String::from_utf8_lossy(&snapshot(sink))).len() };
    let mut late_ms: Vec<u64> = vec![];
    let mut idle_frames: Vec<usize> = vec![];
    let mut start = 0usize;
    for p in 0..nph {
        let before = frames_drawn(&sink);
        gate.release(&run.input[start..run.phase_ends[p]]);
        start = run.phase_ends[p];
        std::thread::sleep(Duration::from_millis(idle_ms[p]));
        let plain_text = &run.prefix_tables[run.phase_lines[p]];
        let t0 = std::time::Instant::now();
        let mut last_seen: Option<String>;
        // wait for the display to catch up: the (lenient) comparison that takes a cut cell for its value
        let caught_up = loop {
            last_seen = on_screen(&snapshot(&sink));
            if let Some(f) = &last_seen {
                if frame_vs_plain(f, plain_text, w, h, true).is_none() {
                    late_ms.push(t0.elapsed().as_millis() as u64);
                    break true;
                }
            }
            if t0.elapsed() > Duration::from_millis(PHASED_CATCH_UP_MS) {
                break false;
            }
            std::thread::sleep(Duration::from_millis(30));
        };
        idle_frames.push(frames_drawn(&sink) - before);
        let bad = if !caught_up {
            Some((
                "C16/idle-display-stale",
                format!("after phase {} ({} lines released in all) and {} ms of idle input the screen does not show the table of all lines received", p, run.phase_lines[p], idle_ms[p] + PHASED_CATCH_UP_MS),
            ))
        } else {
            frame_vs_table(last_seen.as_deref().unwrap_or(""), plain_text, w, h).map(|what| ("C16/idle-frame-differs", format!("input idle after phase {} of {} ({} lines released): {}", p, nph, run.phase_lines[p], what)))
        };
        if let Some((class, what)) = bad {
            gate.eof();
            let _ = rx.recv_timeout(Duration::from_secs(20));
            ctx.case(family, &key, "viol", serde_json::json!({"class": class, "what": what, "screen_frame": last_seen, "expected_table": plain_text, "case": info}));
            return;
        }
    }
    gate.eof();
    let compiled = match rx.recv_timeout(Duration::from_secs(20)) {
        Ok(c) => c,
        Err(_) => {
            ctx.case(family, &key, "viol", serde_json::json!({"class": "C16/hang", "what": "the run did not end after end of input", "case": info}));
            return;
        }
    };
    if !compiled || imp::PANICS.load(Ordering::SeqCst) != panics_before {
        let p = imp::LAST_PANIC.lock().map(|g| g.clone()).unwrap_or_default();
        if stale && c19::panic_class(&p) != "C19/panic-other" {
            // (a terminal narrower than an earlier table: the printer's own panics are judged by C19)
            ctx.case(family, "", "skip", serde_json::json!({"why": format!("printer panicked: {} (judged by C19)", c19::panic_class(&p)), "case": info}));
            return;
        }
        ctx.case(family, &key, "viol", serde_json::json!({"class": "C16/panic", "what": format!("the terminal run panicked or the query did not compile: {}", c19::clip(&p, 200)), "case": info}));
        return;
    }
    let bytes = snapshot(&sink);
    let text = String::from_utf8_lossy(&bytes).into_owned();
    let frames = split_frames(&text);
    // emulators agree, bytes = reset + frame, final screen = final frame (no residue)
    let mut tap = VerdictTap::default();
    judge_bytes_tap(ctx, &mut tap, w as usize, h as usize, &bytes, &frames);
    if let Some((verdict, mut payload)) = tap.0.take() {
        if verdict != "pass" {
            payload["case"] = info;
            ctx.case(family, if verdict == "skip" { "" } else { &key }, &verdict, payload);
            return;
        }
    }
    let last = frames.last().cloned().unwrap_or_default();
    let plain_text = run.prefix_tables.last().cloned().unwrap_or_default();
    if let Some(what) = frame_vs_table(&last, &plain_text, w, h) {
        ctx.case(family, &key, "viol", serde_json::json!({"class": "C16/final-frame-differs", "what": what, "final_frame": last, "non_tty": c19::clip(&plain_text, 2000), "case": info}));
        return;
    }
    ctx.case(family, &key, "pass", serde_json::json!({"scenario": run.case.kind, "query": query, "size": [w, h], "columns_needed": run.need, "phase_lines": run.phase_lines, "idle_ms": idle_ms,
        "caught_up_after_ms": late_ms, "frames_per_phase": idle_frames, "frames": frames.len()}));
}

/// The same phased inputs under a scripted refresh schedule (a refresh after every row, or after a
/// pseudo-random subset of the rows and idle ticks; pauses at the phase boundaries): every frame
/// must be — strictly — the table of some prefix of the input, prefixes never going back, the
/// final frame the table of all rows, and the final screen exactly that frame.
/// (`stale`, family `stale-width-scripted`: see `phased_growth_live`.)
fn phased_growth_scripted(ctx: &mut Ctx, idx: usize, r: &mut Rng, stale: bool) {
    let family = if stale { "stale-width-scripted" } else { "phased-cell-growth-scripted" };
    let key = format!("{}:{}", family, idx);
    let run = match prepare_phased(ctx, family, &key, r, stale) {
        Some(x) => x,
        None => return,
    };
    let (w, h) = (run.w, run.h);
    let query = run.case.query.clone();
    let density = *r.pick(&[100usize, 100, 60, 25]);
    let seed = r.next();
    let mut pauses: Vec<(usize, u64)> = vec![];
    if r.chance(30) {
        for e in &run.phase_ends[..run.phase_ends.len() - 1] {
            pauses.push((*e, 55 + r.below(30) as u64));
        }
    }
    let info = serde_json::json!({"level": "pipeline", "scenario": run.case.kind, "query": query, "size": [w, h], "columns_needed": run.need, "phase_lines": run.phase_lines,
        "refresh_density": density, "refresh_seed": seed, "pauses": pauses, "input_hex": enc::hexb(&run.input)});
    let tty = run_pipeline(&query, &run.input, Some((w, h)), true, seed, density, pauses.clone());
    if tty.hung {
        ctx.case(family, &key, "viol", serde_json::json!({"class": "C16/hang", "what": "terminal run did not finish", "case": info}));
        return;
    }
    if let Some(p) = &tty.panicked {
        if stale && c19::panic_class(p) != "C19/panic-other" {
            ctx.case(family, "", "skip", serde_json::json!({"why": format!("printer panicked: {} (judged by C19)", c19::panic_class(p)), "case": info}));
            return;
        }
        ctx.case(family, &key, "viol", serde_json::json!({"class": "C16/panic", "what": format!("terminal run panicked: {}", c19::clip(p, 200)), "case": info}));
        return;
    }
    let text = String::from_utf8_lossy(&tty.bytes).into_owned();
    let frames = split_frames(&text);
    let nlines = run.prefix_tables.len() - 1;
    let mut at = 0usize;
    for (fi, f) in frames.iter().enumerate() {
        let last = fi + 1 == frames.len();
        let from = if last { nlines } else { at };
        match (from..=nlines).find(|k| frame_vs_table(f, &run.prefix_tables[*k], w, h).is_none()) {
            Some(k) => at = k,
            None => {
                let class = if last { "C16/final-frame-differs" } else { "C16/frame-is-no-prefix-table" };
                // the nearest explanation: the first prefix whose table the frame shows up to cut cells
                let lenient = (from..=nlines).find(|k| frame_vs_plain(f, &run.prefix_tables[*k], w, h, true).is_none()).unwrap_or(from);
                ctx.case(
                    family,
                    &key,
                    "viol",
                    serde_json::json!({"class": class,
                        "what": format!("frame {} of {} is not the table of {}: {}", fi, frames.len(), if last { "all rows".to_string() } else { format!("any prefix of ≥ {} lines", at) },
                            frame_vs_table(f, &run.prefix_tables[lenient], w, h).unwrap_or_default()),
                        "frame": f, "expected_table": run.prefix_tables[lenient], "case": info}),
                );
                return;
            }
        }
    }
    let mut tap = VerdictTap::default();
    judge_bytes_tap(ctx, &mut tap, w as usize, h as usize, &tty.bytes, &frames);
    if let Some((verdict, mut payload)) = tap.0.take() {
        if verdict != "pass" {
            payload["case"] = info;
            ctx.case(family, if verdict == "skip" { "" } else { &key }, &verdict, payload);
            return;
        }
    }
    ctx.case(family, &key, "pass", serde_json::json!({"scenario": run.case.kind, "query": query, "size": [w, h], "columns_needed": run.need, "phase_lines": run.phase_lines, "frames": frames.len(), "refresh_density": density}));
}

/* ---------- level 3: the real binary, stdout not a terminal, stderr a terminal ---------- */

struct ChildOut {
    stdout: Vec<u8>,
    timed_out: bool,
    spawn_error: Option<String>,
}

/// run the binary with stdin fed in bursts, stdout → a pipe, and stderr → either a pipe or the slave
/// side of a pseudo-terminal of `rows`×`cols` (what `agrind q > out.txt` in an interactive shell has)
fn run_binary(bin: &str, query: &str, bursts: &[Vec<u8>], stderr_pty: Option<(u16, u16)>) -> ChildOut {
    use std::os::unix::io::FromRawFd;
    use std::process::{Command, Stdio};
    let mut master: libc::c_int = -1;
    let mut slave: libc::c_int = -1;
    let mut cmd = Command::new(bin);
    cmd.arg(query).stdin(Stdio::piped()).stdout(Stdio::piped());
    match stderr_pty {
        Some((rows, cols)) => {
            let ws = libc::winsize { ws_row: rows, ws_col: cols, ws_xpixel: 0, ws_ypixel: 0 };
            let rc = unsafe { libc::openpty(&mut master, &mut slave, std::ptr::null_mut(), std::ptr::null(), &ws) };
            if rc != 0 {
                return ChildOut { stdout: vec![], timed_out: false, spawn_error: Some("openpty failed".into()) };
            }
            unsafe { libc::ioctl(slave, libc::TIOCSWINSZ, &ws) };
            cmd.stderr(unsafe { Stdio::from_raw_fd(libc::dup(slave)) });
        }
        None => {
            cmd.stderr(Stdio::piped());
        }
    }
    let mut child = match cmd.spawn() {
        Ok(c) => c,
        Err(e) => return ChildOut { stdout: vec![], timed_out: false, spawn_error: Some(format!("{}", e)) },
    };
    if slave >= 0 {
        unsafe { libc::close(slave) };
    }
    let (done, fired) = super::common::kill_after(child.id(), 15);
    // drain stderr (pipe) / the pty master so the child never blocks on it
    let drain_err = child.stderr.take().map(|mut e| {
        std::thread::spawn(move || {
            let mut sink = vec![];
            let _ = e.read_to_end(&mut sink);
        })
    });
    let drain_master = if master >= 0 {
        let m = master;
        Some(std::thread::spawn(move || {
            let mut f = unsafe { std::fs::File::from_raw_fd(m) };
            let mut buf = [0u8; 4096];
            while let Ok(n) = f.read(&mut buf) {
                if n == 0 {
                    break;
                }
            }
        }))
    } else {
        None
    };
    let mut out = child.stdout.take().unwrap();
    let reader = std::thread::spawn(move || {
        let mut v = vec![];
        let _ = out.read_to_end(&mut v);
        v
    });
    {
        let mut stdin = child.stdin.take().unwrap();
        for (i, b) in bursts.iter().enumerate() {
            if i > 0 {
                // longer than the 50 ms refresh interval: a terminal branch would redraw in between
                std::thread::sleep(Duration::from_millis(150));
            }
            if stdin.write_all(b).is_err() {
                break;
            }
            let _ = stdin.flush();
        }
        std::thread::sleep(Duration::from_millis(150));
    }
    let _ = child.wait();
    done.store(true, Ordering::SeqCst);
    let stdout = reader.join().unwrap_or_default();
    if let Some(h) = drain_err {
        let _ = h.join();
    }
    // the master read ends with EIO once the slave is closed by the child's exit
    drop(drain_master);
    ChildOut { stdout, timed_out: fired.load(Ordering::SeqCst), spawn_error: None }
}

/// `agrind q > file` from an interactive shell: stdout is NOT a terminal although stderr is one.
/// The aggregate must be printed exactly once, at end of input, without control sequences — byte
/// for byte what the same run prints with no terminal on any descriptor.
fn stdout_pipe_stderr_tty(ctx: &mut Ctx) {
    let cases: Vec<(&str, usize)> = vec![
        ("* | json | count by k", 12),
        ("* | json | count", 3),
        ("* | json", 4),
        ("* | json | count by k | sort by k", 10),
        ("* | json | sum(n) as total by k", 9),
        ("* | json | count by k, m", 6),
    ];
    let mine: Vec<(usize, &(&str, usize))> = cases.iter().enumerate().filter(|(i, _)| i % ctx.nshards == ctx.shard).collect();
    if mine.is_empty() {
        return;
    }
    let bin = match super::c15::ensure_binary() {
        Ok(b) => b,
        Err(e) => {
            ctx.case("stdout-pipe-stderr-tty", "build", "viol", serde_json::json!({"class": "C16/harness", "what": format!("cannot build the binary: {}", e)}));
            return;
        }
    };
    for (i, (query, groups)) in mine {
        let mut r = Rng::new(ctx.seed ^ (0xC16 + i as u64));
        let nbursts = 2 + r.below(2);
        let mut bursts: Vec<Vec<u8>> = vec![];
        for b in 0..nbursts {
            let mut s = String::new();
            for j in 0..(6 + r.below(8)) {
                // every group occurs in the first burst, so a terminal-style frame would already be tall
                let g = if b == 0 && j < *groups { j } else { r.below(*groups) };
                s.push_str(&format!("{{\"k\":\"group{:02}\",\"m\":\"{}\",\"n\":{}}}\n", g, ["GET", "PUT"][r.below(2)], r.range(1, 90)));
            }
            bursts.push(s.into_bytes());
        }
        let key = format!("stdout-pipe-stderr-tty:{}", i);
        let info = serde_json::json!({"level": "binary", "query": query, "stdin": "pipe, in bursts 150 ms apart", "stdout": "pipe", "stderr": "pty 8 rows x 60 columns",
            "bursts": bursts.iter().map(|b| b.iter().filter(|c| **c == b'\n').count()).collect::<Vec<_>>(), "input_hex": enc::hexb(&bursts.concat())});
        let with_tty = run_binary(&bin, query, &bursts, Some((8, 60)));
        let without = run_binary(&bin, query, &bursts, None);
        if let Some(e) = with_tty.spawn_error.as_ref().or(without.spawn_error.as_ref()) {
            ctx.case("stdout-pipe-stderr-tty", "", "skip", serde_json::json!({"why": format!("cannot run the binary on a pty: {}", e), "case": info}));
            continue;
        }
        if with_tty.timed_out || without.timed_out {
            ctx.case("stdout-pipe-stderr-tty", &key, "viol", serde_json::json!({"class": "C16/hang", "what": "the binary did not end after end of input", "case": info}));
            continue;
        }
        let text = String::from_utf8_lossy(&with_tty.stdout).into_owned();
        let aggregate = *query != "* | json";
        let separators = text.lines().filter(|l| !l.is_empty() && l.chars().all(|c| c == '-')).count();
        let what = if with_tty.stdout.contains(&0x1b) {
            Some(format!("stdout (a pipe) contains {} ESC bytes: the terminal branch of the renderer ran because stderr is a terminal", with_tty.stdout.iter().filter(|b| **b == 0x1b).count()))
        } else if with_tty.stdout != without.stdout {
            Some("stdout (a pipe) differs from the stdout of the same run without any terminal".to_string())
        } else if aggregate && separators != 1 {
            Some(format!("the table was printed {} times", separators))
        } else if without.stdout.is_empty() {
            Some("nothing was printed".to_string())
        } else {
            None
        };
        match what {
            Some(what) => ctx.case("stdout-pipe-stderr-tty", &key, "viol", serde_json::json!({"class": "C16/non-tty-stdout-drawn-as-terminal", "what": what,
                "stdout_with_stderr_tty": c19::clip(&text, 1500), "stdout_without_terminal": c19::clip(&String::from_utf8_lossy(&without.stdout), 1500), "case": info})),
            None => ctx.case("stdout-pipe-stderr-tty", &key, "pass", serde_json::json!({"query": query, "bytes": with_tty.stdout.len(), "bursts": bursts.len()})),
        }
    }
}

/* ---------- level 2c: row-oriented output modes on a terminal ---------- */

fn row_modes(ctx: &mut Ctx, idx: usize, r: &mut Rng, fixed_w: Option<u16>) {
    let query = *r.pick(&["* | json | count by k", "* | json | count by k, m", "* | json | sum(n) as total, count by k", "* | json | count by k | sort by k"]);
    let (mode_name, mode) = match r.below(3) {
        0 => ("logfmt", OutputMode::Logfmt),
        1 => ("format", OutputMode::Format("{k} -> {_count}".to_string())),
        _ => ("format", OutputMode::Format("k={k};".to_string())),
    };
    let rows = 2 + r.below(25);
    let input = gen_input(r, rows, false);
    let w = fixed_w.unwrap_or(if r.chance(25) { 24 + r.below(36) as u16 } else { 60 + r.below(180) as u16 });
    let h = 20 + r.below(40) as u16;
    let density = *r.pick(&[30usize, 100, 100]);
    let seed = r.next();
    let line_starts: Vec<usize> = std::iter::once(0).chain(input.iter().enumerate().filter(|(_, b)| **b == b'\n').map(|(i, _)| i + 1)).collect();
    let mut pauses = vec![];
    if r.chance(30) {
        pauses.push((*r.pick(&line_starts), 60 + r.below(60) as u64));
    }
    let family = if fixed_w.is_some() { "fixed" } else { "row-modes" };
    let key = format!("row-modes:{}", idx);
    let info = serde_json::json!({"level": "pipeline", "mode": mode_name, "query": query, "size": [w, h], "refresh_density": density, "refresh_seed": seed, "pauses": pauses, "rows": rows, "input_hex": enc::hexb(&input)});
    let tty = run_pipeline_mode(query, &input, mode.clone(), Some((w, h)), true, seed, density, pauses.clone());
    let plain = run_pipeline_mode(query, &input, mode, None, false, seed, density, vec![]);
    if tty.hung || tty.panicked.is_some() || !tty.compiled || plain.hung || plain.panicked.is_some() {
        ctx.case(family, &key, "viol", serde_json::json!({"class": "C16/panic", "what": "run failed", "case": info}));
        return;
    }
    if plain.writes > 1 || plain.bytes.contains(&0x1b) {
        ctx.case(family, &key, "viol", serde_json::json!({"class": "C16/non-tty-writes", "what": format!("non-terminal run wrote {} times", plain.writes), "case": info}));
        return;
    }
    let plain_text = String::from_utf8_lossy(&plain.bytes).into_owned();
    let text = String::from_utf8_lossy(&tty.bytes).into_owned();
    let mut scr = Screen::blank(w as usize, h as usize);
    let mine = scr.display(&text).map(|_| (scr.cr, scr.cc, scr.row_strings()));
    let model = model_screen(ctx, w as usize, h as usize, &tty.bytes);
    if mine != model {
        ctx.case(family, &key, "fdis", serde_json::json!({"what": "the harness's emulator and the model's emulator leave different screens", "bytes_hex": enc::hexb(&tty.bytes), "case": info}));
        return;
    }
    // the rows of the final output are not clipped in these modes: keep them below the height
    let n_lines = plain_text.matches('\n').count();
    if n_lines + 1 > h as usize || plain_text.split('\n').any(|l| l.chars().count() > w as usize) {
        ctx.case(family, "", "skip", serde_json::json!({"why": "final rows do not fit the terminal (row modes do not clip)", "case": info}));
        return;
    }
    if plain_text.is_empty() {
        ctx.case(family, "", "skip", serde_json::json!({"why": "no final rows", "case": info}));
        return;
    }
    // F-level: the bytes are what the model's renderer writes for the same frames
    let frames = split_frames(&text);
    {
        match model_render(ctx, w as usize, h as usize, &frames) {
            Some((mbytes, _)) if mbytes == tty.bytes => {}
            _ => {
                ctx.case(family, &key, "fdis", serde_json::json!({"what": "the renderer's bytes are not reset-sequence + frame for each frame", "impl_hex": enc::hexb(&tty.bytes), "case": info}));
                return;
            }
        }
        if frames.last() != Some(&plain_text) || frames[..frames.len() - 1].iter().any(|f| *f != format!("{}\n", PLACEHOLDER.chars().take(w as usize).collect::<String>())) {
            ctx.case(family, &key, "viol", serde_json::json!({"class": "C16/row-modes-frames", "what": "frames are not placeholder lines followed by the rows a non-terminal run prints", "frames": frames, "case": info}));
            return;
        }
    }
    let want = expected_rows(w as usize, h as usize, &plain_text);
    let rows_on_screen = mine.map(|x| x.2).unwrap_or_default();
    if rows_on_screen != want {
        let first_bad = (0..rows_on_screen.len().min(want.len())).find(|i| rows_on_screen[*i] != want[*i]).unwrap_or(0);
        let class = if (w as usize) < PLACEHOLDER.len() { "C16/placeholder-wider-than-terminal" } else { "C16/placeholder-residue-in-row-modes" };
        let verdict = if OPEN_CLASSES.contains(&class) { "known" } else { "viol" };
        ctx.case(
            family,
            &key,
            verdict,
            serde_json::json!({"class": class, "what": format!("after the final rows screen row {} shows {:?} instead of {:?}", first_bad, rows_on_screen.get(first_bad).map(|s| s.trim_end()), want.get(first_bad).map(|s| s.trim_end())),
                "screen": rows_on_screen.iter().map(|s| s.trim_end().to_string()).filter(|s| !s.is_empty()).collect::<Vec<_>>(), "non_tty": c19::clip(&plain_text, 600), "bytes_hex": enc::hexb(&tty.bytes), "case": info}),
        );
        return;
    }
    ctx.case(family, &key, "pass", serde_json::json!({"mode": mode_name, "query": query, "size": [w, h], "rows": rows}));
}

/// `"data will be output once the computation is complete..."`
const PLACEHOLDER: &str = "data will be output once the computation is complete...";

/// classes listed with status "open" in /verif/known_findings.json
const OPEN_CLASSES: &[&str] = &[];

#[derive(Default)]
struct VerdictTap(Option<(String, serde_json::Value)>);

/// `judge_bytes` with the verdict captured instead of reported
fn judge_bytes_tap(ctx: &mut Ctx, tap: &mut VerdictTap, w: usize, h: usize, bytes: &[u8], frames: &[String]) {
    let text = String::from_utf8_lossy(bytes).into_owned();
    let mut scr = Screen::blank(w, h);
    let mine = scr.display(&text).map(|_| (scr.cr, scr.cc, scr.row_strings()));
    let model = model_screen(ctx, w, h, bytes);
    if mine != model {
        tap.0 = Some(("fdis".into(), serde_json::json!({"what": "the harness's emulator and the model's emulator leave different screens", "harness": format!("{:?}", mine), "model": format!("{:?}", model), "bytes_hex": enc::hexb(bytes)})));
        return;
    }
    match model_render(ctx, w, h, frames) {
        Some((mbytes, _)) if mbytes == bytes => {}
        Some((mbytes, _)) => {
            tap.0 = Some(("fdis".into(), serde_json::json!({"what": "the renderer's bytes are not reset-sequence + frame for each frame (reset = ESC[2K ESC[1A per newline of the previous frame)", "impl_hex": enc::hexb(bytes), "model_hex": enc::hexb(&mbytes)})));
            return;
        }
        None => {
            tap.0 = Some(("fdis".into(), serde_json::json!({"what": "TERMR request failed"})));
            return;
        }
    }
    let rows = match mine {
        Some(x) => x.2,
        None => {
            tap.0 = Some(("skip".into(), serde_json::json!({"why": "output outside the emulator (control characters)"})));
            return;
        }
    };
    let last = frames.last().cloned().unwrap_or_default();
    let want = expected_rows(w, h, &last);
    if rows != want {
        let class = residue_class(w, frames, &rows, &want);
        let first_bad = (0..rows.len().min(want.len())).find(|i| rows[*i] != want[*i]).unwrap_or(0);
        tap.0 = Some((
            "viol".into(),
            serde_json::json!({"class": class, "what": format!("after the final frame screen row {} shows {:?} instead of {:?}", first_bad, rows.get(first_bad).map(|s| s.trim_end()), want.get(first_bad).map(|s| s.trim_end())),
                "frames": frames, "screen": rows.iter().map(|s| s.trim_end().to_string()).collect::<Vec<_>>(), "bytes_hex": enc::hexb(bytes)}),
        ));
        return;
    }
    tap.0 = Some(("pass".into(), serde_json::json!({})));
}

/* ---------- fixed witnesses ---------- */

fn fixed(ctx: &mut Ctx) {
    use ag::data::Value;
    let t1 = Table {
        columns: vec!["k".into(), "_count".into()],
        rows: vec![vec![("k".to_string(), Value::Str("kkkkk".into())), ("_count".to_string(), Value::Int(3))]],
    };
    let t0 = Table { columns: vec!["k".into(), "_count".into()], rows: vec![] };
    // a table frame followed by `No data` (what `count by k | where _count < 3` does)
    let run = run_renderer(Some((40, 10)), true, &[t1.clone(), t0.clone()], &[true, true]);
    let mut pp = Pretty::new(Some((40, 10)), 4, 8);
    let frames = vec![pp.format_aggregate(&t1.to_aggregate()), pp.format_aggregate(&t0.to_aggregate())];
    let info = serde_json::json!({"level": "renderer", "size": [40, 10], "tables": [t1.to_json(), t0.to_json()]});
    judge_bytes(ctx, "fixed", "table-then-no-data", 40, 10, &run.bytes, &frames, info);
    // growing frames only: must be clean
    let t2 = Table { columns: t1.columns.clone(), rows: vec![t1.rows[0].clone(), vec![("k".to_string(), Value::Str("b".into())), ("_count".to_string(), Value::Int(1))]] };
    let run = run_renderer(Some((40, 10)), true, &[t0.clone(), t1.clone(), t2.clone()], &[true, true, true]);
    let mut pp = Pretty::new(Some((40, 10)), 4, 8);
    let frames = vec![pp.format_aggregate(&t0.to_aggregate()), pp.format_aggregate(&t1.to_aggregate()), pp.format_aggregate(&t2.to_aggregate())];
    let info = serde_json::json!({"level": "renderer", "size": [40, 10], "tables": [t0.to_json(), t1.to_json(), t2.to_json()]});
    judge_bytes(ctx, "fixed", "growing", 40, 10, &run.bytes, &frames, info);
    // not a terminal: one write at the end, nothing before
    let run = run_renderer(None, false, &[t1.clone(), t2.clone(), t1.clone()], &[true, true, true]);
    let mut pp = Pretty::new(None, 4, 8);
    let want = pp.format_aggregate(&t1.to_aggregate());
    if run.writes == 1 && run.bytes == want.as_bytes() && !run.bytes.contains(&0x1b) {
        ctx.case("fixed", "non-tty", "pass", serde_json::json!({"writes": run.writes}));
    } else {
        ctx.case("fixed", "non-tty", "viol", serde_json::json!({"class": "C16/non-tty-writes", "what": format!("{} writes, bytes {:?}", run.writes, String::from_utf8_lossy(&run.bytes))}));
    }
}

pub fn check(ctx: &mut Ctx) {
    if ctx.shard == 0 {
        fixed(ctx);
        // regression (fixed db52f75): the 55-character placeholder on a 30-column terminal used to wrap
        let mut r0 = ctx.rng.fork();
        row_modes(ctx, 0, &mut r0, Some(30));
        // `* | json | count` whose input starts after the first 50 ms refresh: `No data`, then the table
        let mut r = ctx.rng.fork();
        let input = b"{\"k\":\"a\"}\n{\"k\":\"b\"}\n".to_vec();
        level2_case(ctx, 0, &mut r, true, &Q { query: "* | json | count", ordered: true }, Some((input.clone(), (60, 12), vec![(0, 150)])));
        // a table that empties again
        let mut inp = String::new();
        for i in 0..6 {
            inp.push_str(&format!("{{\"k\":\"key{}\"}}\n", i % 2));
        }
        level2_case(ctx, 1, &mut r, true, &Q { query: "* | json | count by k | where _count < 3", ordered: false }, Some((inp.into_bytes(), (60, 12), vec![(24, 150)])));
    }
    // level 1: 400 (quick) frame sequences through Renderer::render
    let n1 = ctx.budget(800, 10000);
    for i in 0..n1 {
        let mut r = ctx.rng.fork();
        let clean = r.chance(80);
        level1(ctx, ctx.shard * 1_000_000 + i, &mut r, clean);
    }
    // level 2: the pipeline and its renderer thread
    let n2 = ctx.budget(400, 10000);
    for i in 0..n2 {
        let mut r = ctx.rng.fork();
        level2(ctx, ctx.shard * 1_000_000 + i, &mut r, false);
    }
    let n4 = ctx.budget(240, 4000);
    for i in 0..n4 {
        let mut r = ctx.rng.fork();
        agg_of_agg(ctx, ctx.shard * 1_000_000 + 600_000 + i, &mut r);
    }
    let n5 = ctx.budget(160, 3000);
    for i in 0..n5 {
        let mut r = ctx.rng.fork();
        row_modes(ctx, ctx.shard * 1_000_000 + 700_000 + i, &mut r, None);
    }
    stdout_pipe_stderr_tty(ctx);
    let n7 = ctx.budget(160, 3000);
    for i in 0..n7 {
        let mut r = ctx.rng.fork();
        multiline_cells(ctx, ctx.shard * 1_000_000 + 900_000 + i, &mut r);
    }
    let n6 = ctx.budget(96, 960);
    for i in 0..n6 {
        let mut r = ctx.rng.fork();
        idle_catch_up(ctx, ctx.shard * 1_000_000 + 800_000 + i, &mut r);
    }
    let n3 = ctx.budget(48, 800);
    for i in 0..n3 {
        let mut r = ctx.rng.fork();
        level2(ctx, ctx.shard * 1_000_000 + 500_000 + i, &mut r, true);
    }
    // phased inputs whose cells grow/shrink while the table keeps its shape: scripted refreshes …
    // (AGVERIF_C16_NO_SCRIPTED=1: leave them out, to see what the real-clock family finds on its own)
    let n8 = if std::env::var("AGVERIF_C16_NO_SCRIPTED").is_ok() { 0 } else { ctx.budget(170, 3200) };
    for i in 0..n8 {
        let mut r = ctx.rng.fork();
        phased_growth_scripted(ctx, ctx.shard * 1_000_000 + 950_000 + i, &mut r, false);
    }
    // … and the real clock with idle periods between the phases
    let n9 = ctx.budget(48, 480);
    for i in 0..n9 {
        let mut r = ctx.rng.fork();
        phased_growth_live(ctx, ctx.shard * 1_000_000 + 970_000 + i, &mut r, false);
    }
    // a terminal only as wide as the FINAL table needs, after earlier tables with much longer values
    let n10 = if std::env::var("AGVERIF_C16_NO_SCRIPTED").is_ok() { 0 } else { ctx.budget(170, 3200) };
    for i in 0..n10 {
        let mut r = ctx.rng.fork();
        phased_growth_scripted(ctx, ctx.shard * 1_000_000 + 980_000 + i, &mut r, true);
    }
    let n11 = ctx.budget(32, 320);
    for i in 0..n11 {
        let mut r = ctx.rng.fork();
        phased_growth_live(ctx, ctx.shard * 1_000_000 + 990_000 + i, &mut r, true);
    }
}
