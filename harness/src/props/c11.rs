//! C11: running an accepted query never crashes or hangs, whatever the input.
//! P-level: generated accepted queries × malformed / extreme inputs, in-process under catch_unwind
//! and a watchdog, plus a subprocess sample (exit status, no panic report).  F-level: the model's
//! outcome (OUT / PANIC site) against what the real code did.
use super::c15::ensure_binary;
use super::common::*;
use crate::gen;
use crate::imp;
use crate::rng::Rng;
use crate::Ctx;
use std::io::Write;
use std::process::{Command, Stdio};

fn extreme_input(r: &mut Rng, thorough: bool) -> (Vec<u8>, &'static str) {
    match r.below(15) {
        14 => {
            // rows with more keys than a terminal has cells: 120, 121 … 400 columns
            let ncols = *r.pick(&[119usize, 120, 121, 122, 130, 239, 240, 241, 400]);
            let mut out = vec![];
            for row in 0..(1 + r.below(4)) {
                let mut m: Vec<String> = (0..ncols).map(|i| format!("\"c{:03}\":{}", i, (i * 7 + row) % 13)).collect();
                m.push(format!("\"n\":{}", row));
                m.push("\"s\":\"wide\"".to_string());
                out.extend(format!("{{{}}}\n", m.join(",")).into_bytes());
            }
            (out, "wide-rows")
        }
        0 => (vec![], "empty"),
        1 => (b"\n\n\n".to_vec(), "blank-lines"),
        2 => {
            let n = if thorough { 1 << 20 } else { 1 << 16 };
            let mut v = b"{\"s\":\"".to_vec();
            v.extend(std::iter::repeat(b'a').take(n));
            v.extend(b"\",\"n\":1}\n");
            (v, "long-line")
        }
        3 => ((0..2000).map(|_| (r.next() & 0xff) as u8).collect(), "binary"),
        4 => (vec![0xff, 0xfe, b'{', b'"', 0xc3, b'"', b':', b'1', b'}', b'\n', 0xe2, 0x82, b'\n', 0xf0, 0x9f], "invalid-utf8"),
        5 => (b"{\"n\":1,\"x\":2}".to_vec(), "no-final-newline"),
        6 if r.chance(30) => (b"{\"n\":-9223372036854775808,\"x\":-1,\"k\":\"a\"}\n{\"n\":9223372036854775807,\"x\":-1,\"k\":\"a\"}\n{\"n\":-1,\"x\":-9223372036854775808,\"k\":\"b\"}\n{\"n\":0,\"x\":0,\"k\":\"b\"}\n{\"n\":-9223372036854775808,\"x\":1,\"k\":\"c\"}\n{\"n\":9007199254740993,\"x\":1,\"k\":\"c\"}\n{\"n\":6,\"x\":3,\"k\":\"c\"}\n".to_vec(), "extreme-numbers"),
        6 if r.chance(50) => (b"{\"n\":9223372036854775808,\"x\":18446744073709551615,\"m\":18446744073709551616,\"arr\":[9223372036854775808,-9223372036854775809],\"o\":{\"p\":18446744073709551615,\"o\":{\"o\":12345678901234567890}},\"k\":\"a\",\"s\":\"18446744073709551615\"}\n{\"n\":1,\"x\":12345678901234567890,\"k\":\"a\"}\n{\"n\":-9223372036854775809,\"x\":1e19,\"k\":\"b\"}\n".to_vec(), "extreme-numbers"),
        6 => (b"{\"n\":9223372036854775807,\"x\":-9223372036854775808,\"m\":1.7976931348623157e308,\"k\":5e-324,\"s\":\"9223372036854775808\"}\n{\"n\":-9223372036854775808,\"x\":9223372036854775807,\"m\":-1.7976931348623157e308}\n".to_vec(), "extreme-numbers"),
        7 => {
            let depth = if thorough { 120 } else { 60 };
            let mut s = String::from("{\"o\":");
            for _ in 0..depth {
                s.push_str("{\"o\":");
            }
            s.push('1');
            for _ in 0..depth {
                s.push('}');
            }
            s.push_str("}\n");
            (s.into_bytes(), "deep-nesting")
        }
        8 => {
            let mut s = String::from("{\"arr\":[");
            for i in 0..5000 {
                if i > 0 {
                    s.push(',');
                }
                s.push_str(&format!("{}", i));
            }
            s.push_str("],\"n\":3}\n");
            (s.into_bytes(), "long-array")
        }
        9 => (b"{\"ts\":\"9999-12-31T23:59:59Z\",\"t2\":\"0001-01-01T00:00:00Z\",\"s\":\"2021-02-30\",\"n\":0}\n{\"ts\":\"1970-01-01\",\"n\":2147483648}\n".to_vec(), "dates"),
        10 => (b"\0\0\0\n{\"n\":\0}\n\x7f\x1b[2K\n".to_vec(), "control-chars"),
        11 => {
            let rows = if thorough { 6000 } else { 1500 };
            (gen::json_input(r, rows, &gen::DocCfg { key_domain: 5, numeric_only: false }, 10), "many-rows")
        }
        12 => (b"{\"n\":0,\"x\":0,\"s\":\"\",\"k\":\"\",\"b\":false,\"arr\":[],\"o\":{}}\n{\"n\":-0,\"x\":-0.0,\"s\":\" \",\"arr\":[[]],\"o\":{\"p\":{}}}\n".to_vec(), "zeros-and-empties"),
        _ => (gen::json_input(r, 12, &gen::DocCfg { key_domain: 3, numeric_only: false }, 25), "mixed-junk"),
    }
}

/// accepted queries using every operator, option and function with argument values at the
/// edges of their domains
fn edge_query(r: &mut Rng) -> String {
    let q = match r.below(36) {
        33 => "* | json | n / x as q | x / n as p | sum(q), max(p), count".to_string(),
        34 => "* | json | n / x as q | n * x as m | n - x as d | n + x as a | fields q, m, d, a".to_string(),
        35 => "* | json | where n / x > 0 or x / n < 0 | count by k".to_string(),
        30 => "* | json | sort by c000".to_string(),
        31 => "* | json | sort by n desc | limit 2".to_string(),
        32 => "* | json | count by c000, c001, c002, n | sort by n".to_string(),
        0 => "* | json | n + 9223372036854775807 as r".to_string(),
        1 => "* | json | n * x as r | sum(r), avg(r), min(r), max(r)".to_string(),
        2 => "* | json | 1s * n as d".to_string(),
        3 => "* | json | 1s / n as d".to_string(),
        4 => "* | json | 52w * n as d | d + d as e".to_string(),
        5 => "* | json | parseDate(ts) as t | t + 9000000000000000s as u".to_string(),
        6 => "* | json | parseDate(ts) as t | t - 9000000000000000s as u".to_string(),
        7 => "* | json | parseDate(ts) as t | timeslice(t) 1ns".to_string(),
        8 => "* | json | parseDate(ts) as t | timeslice(t) 5m | count by _timeslice".to_string(),
        9 => "* | json | parseDate(ts) - parseDate(t2) as d".to_string(),
        10 => "* | json | substring(s, n, x) as r".to_string(),
        11 => "* | json | substring(s, 18446744073709551615) as r".to_string(),
        12 => "* | json | parseHex(s) as r | length(arr) as l | length(o) as m".to_string(),
        13 => "* | json | p99(n), p1(x), p50(m), count_distinct(arr), count_distinct(o) by k".to_string(),
        14 => "* | json | sort by arr, o, n | limit -3".to_string(),
        15 => "* | json | limit 9223372036854775807".to_string(),
        16 => "* | json | limit -100000".to_string(),
        17 => "* | json | total(n) | total(x) as t2 | total(s) as t3".to_string(),
        18 => "* | json | split(s) on \"a\" | split(k) on \"\\\"\" as q".to_string(),
        19 => "* | split on \" \" | split on \"\\\"\" as w".to_string(),
        20 => "* | logfmt | json from s | logfmt from k".to_string(),
        21 => "* | parse \"*\" as a | parse \"*{*\" as b, c nodrop | parse \"*:*:*:*:*:*:*:*\" as p1,p2,p3,p4,p5,p6,p7,p8 nodrop noconvert".to_string(),
        22 => "* | json | o.o.o.o.o.o.o as r | arr[4999] as a | arr[-5001] as b nodrop".replace(" nodrop", ""),
        23 => "* | json | exp(n) as a | log(n) as b | sqrt(x) as c | atan2(n, x) as d | hypot(m, m) as e | toDegrees(m) as f | cbrt(x) as g | log1p(n) as h | expm1(n) as i".to_string(),
        24 => "* | json | concat(s, k, n, x, b) as c | toLowerCase(c) as l | toUpperCase(l) as u | contains(u, s) as z".to_string(),
        25 => "* | json | count by arr, o | sort by _count | fields - arr".to_string(),
        26 => "* | json | avg(m), sum(m), max(m), min(m) | _average * 1e300 as r".replace("1e300", "1000000000000000000"),
        27 => "* | json | if(n > 0, 1/0, 0/0) as r | floor(r) as f | round(r) as g | isNumeric(r) as h | num(s) as i".to_string(),
        28 => "* | json | where n == -9223372036854775808 or x <= 9223372036854775807 and !(b)".to_string(),
        _ => gen::json_pipeline(r, &gen::QueryCfg { allow_agg: true, allow_sort: true, max_stages: 5 }),
    };
    q
}

fn classify_panic(p: &str, q: &str) -> &'static str {
    if p.contains("TimeDelta") || p.contains("i32` is zero") || p.contains("Duration") {
        "C11/duration-arithmetic-panics"
    } else if p.contains("DateTime") || p.contains("date") {
        "C11/datetime-arithmetic-overflow-panics"
    } else if p.contains("capacity overflow") || q.contains("limit -") && p.contains("alloc") {
        "C11/huge-tail-limit-allocation"
    } else {
        ""
    }
}

pub fn check(ctx: &mut Ctx) {
    let n = ctx.budget(1200, 40000);
    for _ in 0..n {
        let mut r = ctx.rng.fork();
        let q = edge_query(&mut r);
        let (input, kind) = extreme_input(&mut r, ctx.thorough());
        let mut mode = *r.pick(&["json", "json", "logfmt", "legacy", "format={n} {s} {missing}"]);
        let mut q = q;
        if kind == "extreme-numbers" && r.chance(50) {
            q = r.pick(&["* | json | n / x as q | x / n as p | sum(q), max(p), count", "* | json | n / x as q | n * x as m | n - x as d | n + x as a | fields q, m, d, a", "* | json | where n / x > 0 or x / n < 0 | count by k", "* | json | n * x as r | sum(r), avg(r), min(r), max(r)"]).to_string();
        }
        if kind == "wide-rows" && r.chance(70) {
            // wide rows matter where a table is laid out: a sort over the raw rows, legacy output
            q = r.pick(&["* | json | sort by c000", "* | json | sort by n desc | limit 2", "* | json | sort by c001, c000 | fields except s"]).to_string();
            if r.chance(60) {
                mode = "legacy";
            }
        }
        let key = ckey(&q, &input);
        // generous limits: big inputs with an error line per row are slow on a loaded machine, and a
        // run that is merely slow must not be reported as one that never ends
        let limit = if input.len() > 100_000 { 180 } else { 40 };
        let res = imp::run(&q, &input, mode, limit);
        let info = serde_json::json!({"query": q, "mode": mode, "input_kind": kind, "input_hex": if input.len() < 4000 { crate::enc::hexb(&input) } else { format!("({} bytes)", input.len()) }});
        if res.hung {
            ctx.case(kind, &key, "viol", serde_json::json!({"class": "", "what": format!("run did not finish within {} s", limit), "case": info}));
            crate::imp::emit(&serde_json::json!({"k": "done", "driver_requests": ctx.drv.requests}).to_string());
            std::process::exit(0); // a hung thread owns the process
        }
        if !res.compiled && res.panicked.is_none() {
            ctx.case(kind, "", "skip", serde_json::json!({"why": "query rejected at compile time"}));
            continue;
        }
        if let Some(p) = &res.panicked {
            let class = classify_panic(p, &q);
            ctx.case(kind, &key, "viol", serde_json::json!({"class": class, "what": format!("panic: {}", p.chars().take(300).collect::<String>()), "case": info}));
            continue;
        }
        ctx.case(kind, &key, "pass", info.clone());
        // F-level on the json runs with inputs the model decodes exactly
        if mode == "json" && input.len() < 200000 {
            let c = run_both(ctx, &q, &input);
            match compare(&c, true) {
                F::Agree => ctx.case("model", &key, "pass", info),
                F::Skip(w) => ctx.case("model", "", "skip", serde_json::json!({"why": w.split(':').next().unwrap_or("").chars().take(60).collect::<String>()})),
                F::Disagree(d) => ctx.case("model", &key, "fdis", serde_json::json!({"what": d.chars().take(1200).collect::<String>(), "impl_stderr": c.imp.stderr.chars().take(600).collect::<String>(), "case": info})),
            }
        }
    }

    // ---- a row operator after an aggregation that fails on SOME rows of the table (a None
    // aggregate in arithmetic, a missing column): those rows are skipped, every other row comes out
    // exactly as if it had been processed alone
    let npost = ctx.budget(240, 6000);
    for _ in 0..npost {
        let mut r = ctx.rng.fork();
        let nrows = 2 + r.below(16);
        let mut input = vec![];
        for _ in 0..nrows {
            let k = r.pick(&["a", "b", "c", "d", "e"]);
            let x = match r.below(4) {
                0 => "\"word\"".to_string(),
                1 => "null".to_string(),
                _ => format!("{}", r.range(-30, 90)),
            };
            let y = if r.chance(70) { format!(",\"y\":{}", r.range(0, 9)) } else { String::new() };
            input.extend(format!("{{\"k\":\"{}\",\"x\":{}{}}}\n", k, x, y).into_bytes());
        }
        let agg = *r.pick(&["max(x) as w, count as c by k", "min(x) as w, sum(y) as c by k", "max(x) as w, max(y) as c by k", "min(y) as w, count as c by k"]);
        let op = *r.pick(&["w * 2 as z", "where w / 10 >= 0", "w + c as z", "where c - w < 1000", "if(w > 5, w, c) as z", "w - 1 as z | z * c as zz"]);
        let q1 = format!("* | json | {}", agg);
        let q2 = format!("{} | {}", q1, op);
        let key = ckey(&q2, &input);
        let info = serde_json::json!({"query": q2, "input": String::from_utf8_lossy(&input)});
        let t = imp::run(&q1, &input, "json", 10);
        let full = imp::run(&q2, &input, "json", 10);
        if !t.compiled || !full.compiled || t.panicked.is_some() || full.panicked.is_some() || full.hung {
            ctx.case("post-agg-row-error", &key, "viol", serde_json::json!({"class": "", "what": "query did not run to completion", "panic": full.panicked, "case": info}));
            continue;
        }
        let rows = match crate::canon::parse(String::from_utf8_lossy(&t.stdout).trim_end()) {
            Ok(crate::canon::J::Arr(rows)) => rows,
            _ => continue,
        };
        let mut expect: Vec<crate::canon::J> = vec![];
        let mut failing = 0;
        for row in &rows {
            let line = format!("{}\n", super::c03::to_json(row));
            let one = imp::run(&format!("* | json | {}", op), line.as_bytes(), "json", 10);
            match crate::canon::normalized_lines(&one.stdout) {
                Some(ls) if !ls.is_empty() => expect.extend(ls),
                _ => failing += 1,
            }
        }
        let got = match crate::canon::parse(String::from_utf8_lossy(&full.stdout).trim_end()) {
            Ok(crate::canon::J::Arr(rows)) => rows.iter().map(crate::canon::normalize).collect::<Vec<_>>(),
            _ => vec![],
        };
        let want: Vec<crate::canon::J> = expect.iter().map(crate::canon::normalize).collect();
        let mut a: Vec<String> = got.iter().map(|j| format!("{:?}", j)).collect();
        let mut b: Vec<String> = want.iter().map(|j| format!("{:?}", j)).collect();
        a.sort();
        b.sort();
        if a != b {
            ctx.case("post-agg-row-error", &key, "viol", serde_json::json!({"class": "", "what": format!("rows of `aggregate | op` are not the rows of the aggregate each passed through op on its own ({} of {} table rows fail in op)", failing, rows.len()),
                "table": String::from_utf8_lossy(&t.stdout), "got": String::from_utf8_lossy(&full.stdout), "expected_rows": b, "case": info}));
            continue;
        }
        ctx.count(if failing > 0 && failing < rows.len() { "post-agg:some-rows-fail" } else { "post-agg:none-or-all-fail" });
        ctx.case("post-agg-row-error", &key, "pass", info.clone());
        let c = run_both(ctx, &q2, &input);
        match compare(&c, true) {
            F::Agree => ctx.case("model", &key, "pass", info),
            F::Skip(w) => ctx.case("model", "", "skip", serde_json::json!({"why": w.split(':').next().unwrap_or("").chars().take(60).collect::<String>()})),
            F::Disagree(d) => ctx.case("model", &key, "fdis", serde_json::json!({"what": d.chars().take(1200).collect::<String>(), "case": info})),
        }
    }

    // ---- subprocess sample: exit status 0, no panic report, `error:` lines only
    if let Ok(bin) = ensure_binary() {
        let k = ctx.budget(48, 800);
        for _ in 0..k {
            let mut r = ctx.rng.fork();
            let q = edge_query(&mut r);
            let (input, kind) = extreme_input(&mut r, false);
            let chk = imp::run(&q, b"", "json", 10);
            if !chk.compiled {
                continue;
            }
            let mut child = match Command::new(&bin).args(["-o", "json", &q]).stdin(Stdio::piped()).stdout(Stdio::piped()).stderr(Stdio::piped()).spawn() {
                Ok(c) => c,
                Err(_) => continue,
            };
            let mut stdin = child.stdin.take().unwrap();
            let inp = input.clone();
            let w = std::thread::spawn(move || {
                let _ = stdin.write_all(&inp);
            });
            let (done, fired) = kill_after(child.id(), 60);
            let out = child.wait_with_output();
            done.store(true, std::sync::atomic::Ordering::SeqCst);
            let _ = w.join();
            if fired.load(std::sync::atomic::Ordering::SeqCst) {
                ctx.case("binary", &ckey(&q, &input), "viol", serde_json::json!({"class": "", "what": "the binary did not end within 60 s of a finite input (killed)", "query": q, "input_kind": kind}));
                continue;
            }
            if let Ok(out) = out {
                let err = String::from_utf8_lossy(&out.stderr).to_string();
                let code = out.status.code();
                let bad_line = err.lines().find(|l| !l.starts_with("error:") && !l.trim().is_empty());
                let key = ckey(&q, &input);
                if code != Some(0) || err.contains("panicked") || err.contains("embarrassing") {
                    let class = classify_panic(&err, &q);
                    ctx.case("binary", &key, "viol", serde_json::json!({"class": class, "what": format!("exit status {:?}, stderr: {}", code, err.chars().take(400).collect::<String>()), "query": q, "input_kind": kind}));
                } else if let Some(l) = bad_line {
                    ctx.case("binary", &key, "viol", serde_json::json!({"class": "", "what": format!("stderr line that is not an `error:` line: {}", l), "query": q, "input_kind": kind}));
                } else {
                    ctx.case("binary", &key, "pass", serde_json::json!({"query": q, "input_kind": kind, "error_lines": err.lines().count()}));
                }
            }
        }
    }
}
