//! Running the real implementation in-process.
use ag::pipeline::{ErrorReporter, OutputMode, Pipeline, QueryContainer};
use std::io::{BufReader, Cursor, Read, Seek, SeekFrom, Write};
use std::os::unix::io::FromRawFd;
use std::sync::atomic::{AtomicUsize, Ordering};
use std::sync::{mpsc, Arc, Mutex};
use std::time::Duration;

#[derive(Clone, Default)]
pub struct SharedBuf(pub Arc<Mutex<Vec<u8>>>);
impl Write for SharedBuf {
    fn write(&mut self, b: &[u8]) -> std::io::Result<usize> {
        self.0.lock().unwrap().extend_from_slice(b);
        Ok(b.len())
    }
    fn flush(&mut self) -> std::io::Result<()> {
        Ok(())
    }
}

/// Recording reporter: (title, ranges) of every diagnostic.
#[derive(Clone, Default)]
pub struct Recorder(pub Arc<Mutex<Vec<(String, Vec<(usize, usize)>)>>>);
impl ErrorReporter for Recorder {
    fn handle_error(&self, snippet: annotate_snippets::snippet::Snippet) {
        let title = snippet.title.as_ref().and_then(|t| t.label).unwrap_or("").to_string();
        let mut ranges = vec![];
        for s in &snippet.slices {
            for a in &s.annotations {
                ranges.push(a.range);
            }
        }
        self.0.lock().unwrap().push((title, ranges));
    }
}
unsafe impl Send for Recorder {}

pub static PANICS: AtomicUsize = AtomicUsize::new(0);
pub static LAST_PANIC: Mutex<String> = Mutex::new(String::new());

static mut ERR_FILE: Option<std::fs::File> = None;
static mut OUT_FILE: Option<std::fs::File> = None;

/// Worker set-up: keep the real stdout for results, silence fd 1, send fd 2 to a scratch file so
/// that `error:` lines can be counted per run; install a quiet panic hook.
pub fn init_worker() {
    unsafe {
        let saved = libc::dup(1);
        OUT_FILE = Some(std::fs::File::from_raw_fd(saved));
        let devnull = std::ffi::CString::new("/dev/null").unwrap();
        let dn = libc::open(devnull.as_ptr(), libc::O_WRONLY);
        libc::dup2(dn, 1);
        if std::env::var("AGVERIF_DEBUG").is_ok() {
            return;
        }
        let dir = std::env::var("AGVERIF_SCRATCH").unwrap_or_else(|_| "/verif/harness/target/scratch".into());
        let _ = std::fs::create_dir_all(&dir);
        let path = format!("{}/stderr.{}", dir, std::process::id());
        let f = std::fs::OpenOptions::new().create(true).read(true).write(true).truncate(true).open(&path).unwrap();
        let _ = std::fs::remove_file(&path);
        use std::os::unix::io::AsRawFd;
        libc::dup2(f.as_raw_fd(), 2);
        ERR_FILE = Some(f);
    }
    std::panic::set_hook(Box::new(|info| {
        PANICS.fetch_add(1, Ordering::SeqCst);
        let msg = format!("{}", info);
        if let Ok(mut g) = LAST_PANIC.lock() {
            *g = msg;
        }
    }));
}

pub fn emit(line: &str) {
    unsafe {
        #[allow(static_mut_refs)]
        if let Some(f) = OUT_FILE.as_mut() {
            let _ = writeln!(f, "{}", line);
        } else {
            println!("{}", line);
        }
    }
}

fn stderr_pos() -> u64 {
    unsafe {
        #[allow(static_mut_refs)]
        match ERR_FILE.as_mut() {
            Some(f) => f.seek(SeekFrom::End(0)).unwrap_or(0),
            None => 0,
        }
    }
}

fn stderr_since(pos: u64) -> String {
    unsafe {
        #[allow(static_mut_refs)]
        match ERR_FILE.as_mut() {
            Some(f) => {
                let mut s = Vec::new();
                let _ = f.seek(SeekFrom::Start(pos));
                let _ = f.read_to_end(&mut s);
                // keep the scratch file small
                if pos > (1 << 24) {
                    let _ = f.set_len(0);
                    let _ = f.seek(SeekFrom::Start(0));
                }
                String::from_utf8_lossy(&s).into_owned()
            }
            None => String::new(),
        }
    }
}

/// runs whose thread is still alive (a run that timed out keeps running: its `error:` lines would
/// land in the capture window of whatever runs next)
pub static ACTIVE: std::sync::atomic::AtomicUsize = std::sync::atomic::AtomicUsize::new(0);

struct ActiveGuard;
impl Drop for ActiveGuard {
    fn drop(&mut self) {
        ACTIVE.fetch_sub(1, Ordering::SeqCst);
    }
}

#[derive(Debug, Clone, Default)]
pub struct ImplRun {
    /// an earlier run of this process had not finished when this one started: the stderr capture
    /// (error_lines, stderr) may contain its lines and must not be compared
    pub contaminated: bool,
    pub compiled: bool,
    pub compile_err: String,
    pub diags: Vec<(String, Vec<(usize, usize)>)>,
    pub stdout: Vec<u8>,
    pub error_lines: usize,
    pub stderr: String,
    pub panicked: Option<String>,
    pub hung: bool,
}

pub fn mode_of(name: &str) -> OutputMode {
    match name {
        "json" => OutputMode::Json,
        "logfmt" => OutputMode::Logfmt,
        "legacy" => OutputMode::Legacy,
        other => OutputMode::Format(other.strip_prefix("format=").unwrap_or(other).to_string()),
    }
}

/// Compile + run `query` over `input` with the given output mode; everything observable is returned.
pub fn run(query: &str, input: &[u8], mode: &str, timeout_s: u64) -> ImplRun {
    let q = query.to_string();
    let inp = input.to_vec();
    let m = mode.to_string();
    let (tx, rx) = mpsc::channel();
    // let a run that overran its time limit finish first (bounded wait)
    let t0 = std::time::Instant::now();
    while ACTIVE.load(Ordering::SeqCst) > 0 && t0.elapsed().as_secs() < 240 {
        std::thread::sleep(Duration::from_millis(20));
    }
    let contaminated = ACTIVE.load(Ordering::SeqCst) > 0;
    let panics_before = PANICS.load(Ordering::SeqCst);
    let pos = stderr_pos();
    ACTIVE.fetch_add(1, Ordering::SeqCst);
    std::thread::spawn(move || {
        let _guard = ActiveGuard;
        let r = std::panic::catch_unwind(move || {
            let rec = Recorder::default();
            let qc = QueryContainer::new(q, Box::new(rec.clone()));
            let sink = SharedBuf::default();
            let mut res = ImplRun::default();
            match Pipeline::new(&qc, sink.clone(), mode_of(&m)) {
                Ok(p) => {
                    res.compiled = true;
                    res.diags = rec.0.lock().unwrap().clone();
                    p.process(BufReader::new(Cursor::new(inp)));
                }
                Err(e) => {
                    res.compiled = false;
                    res.compile_err = format!("{}", e);
                    res.diags = rec.0.lock().unwrap().clone();
                }
            }
            res.stdout = sink.0.lock().unwrap().clone();
            res
        });
        let _ = tx.send(r);
    });
    let mut out = match rx.recv_timeout(Duration::from_secs(timeout_s)) {
        Ok(Ok(r)) => r,
        Ok(Err(_)) => {
            let mut r = ImplRun::default();
            r.panicked = Some(LAST_PANIC.lock().map(|g| g.clone()).unwrap_or_default());
            r
        }
        Err(_) => {
            let mut r = ImplRun::default();
            r.hung = true;
            r
        }
    };
    if PANICS.load(Ordering::SeqCst) != panics_before && out.panicked.is_none() {
        // a panic on the renderer thread (reported by join() as "Error: Any")
        out.panicked = Some(LAST_PANIC.lock().map(|g| g.clone()).unwrap_or_default());
    }
    let err = stderr_since(pos);
    out.error_lines = err.lines().filter(|l| l.starts_with("error:")).count();
    out.stderr = err;
    out.contaminated = contaminated;
    out
}

/// Parse only (ag::lang::query) under catch_unwind: Ok(Some(ast)) accepted, Ok(None) rejected, Err = panic.
pub fn parse(query: &str) -> Result<(Option<ag::lang::Query>, Vec<(String, Vec<(usize, usize)>)>), String> {
    let q = query.to_string();
    let r = std::panic::catch_unwind(move || {
        let rec = Recorder::default();
        let qc = QueryContainer::new(q, Box::new(rec.clone()));
        let res = qc.parse().ok();
        let d = rec.0.lock().unwrap().clone();
        (res, d)
    });
    r.map_err(|_| LAST_PANIC.lock().map(|g| g.clone()).unwrap_or_default())
}
