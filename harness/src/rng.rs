//! SplitMix64: every random choice of a run derives from one state.
#[derive(Clone)]
pub struct Rng(pub u64);

impl Rng {
    pub fn new(seed: u64) -> Self {
        Rng(seed ^ 0x9E3779B97F4A7C15)
    }
    pub fn next(&mut self) -> u64 {
        self.0 = self.0.wrapping_add(0x9E3779B97F4A7C15);
        let mut z = self.0;
        z = (z ^ (z >> 30)).wrapping_mul(0xBF58476D1CE4E5B9);
        z = (z ^ (z >> 27)).wrapping_mul(0x94D049BB133111EB);
        z ^ (z >> 31)
    }
    pub fn below(&mut self, n: usize) -> usize {
        if n == 0 {
            0
        } else {
            (self.next() % n as u64) as usize
        }
    }
    pub fn range(&mut self, lo: i64, hi: i64) -> i64 {
        lo + (self.next() % ((hi - lo + 1) as u64)) as i64
    }
    pub fn chance(&mut self, pct: usize) -> bool {
        self.below(100) < pct
    }
    pub fn pick<'a, T>(&mut self, xs: &'a [T]) -> &'a T {
        &xs[self.below(xs.len())]
    }
    pub fn fork(&mut self) -> Rng {
        Rng(self.next())
    }
    pub fn shuffle<T>(&mut self, xs: &mut Vec<T>) {
        for i in (1..xs.len()).rev() {
            let j = self.below(i + 1);
            xs.swap(i, j);
        }
    }
}
