//! Encoders: implementation AST / values -> protocol tokens (mirror of AgModel/Codec.lean).
use ag::data::Value;
use ag::lang::*;

pub fn hex(s: &str) -> String {
    hexb(s.as_bytes())
}
pub fn hexb(b: &[u8]) -> String {
    let mut o = String::with_capacity(b.len() * 2);
    for x in b {
        o.push_str(&format!("{:02x}", x));
    }
    o
}
pub fn unhex(s: &str) -> Vec<u8> {
    let b = s.as_bytes();
    (0..b.len() / 2)
        .map(|i| u8::from_str_radix(std::str::from_utf8(&b[2 * i..2 * i + 2]).unwrap(), 16).unwrap())
        .collect()
}
fn s(x: &str) -> String {
    format!("S{}", hex(x))
}

pub fn dur_ns(d: &chrono::Duration) -> i128 {
    d.num_seconds() as i128 * 1_000_000_000 + d.subsec_nanos() as i128
}

pub fn value(v: &Value, out: &mut Vec<String>) {
    match v {
        Value::None => out.push("N".into()),
        Value::Bool(b) => out.push(if *b { "B1".into() } else { "B0".into() }),
        Value::Int(i) => out.push(format!("I{}", i)),
        Value::Float(f) => out.push(format!("F{:016x}", norm_bits(f.0))),
        Value::Str(x) => out.push(s(x)),
        Value::DateTime(dt) => {
            let ns = dt.timestamp() as i128 * 1_000_000_000 + dt.timestamp_subsec_nanos() as i128;
            out.push(format!("T{}", ns))
        }
        Value::Duration(d) => out.push(format!("U{}", dur_ns(d))),
        Value::Array(vs) => {
            out.push(format!("A{}", vs.len()));
            for x in vs {
                value(x, out)
            }
        }
        Value::Obj(m) => {
            let mut kvs: Vec<_> = m.iter().collect();
            kvs.sort_by(|a, b| a.0.cmp(b.0));
            out.push(format!("O{}", kvs.len()));
            for (k, x) in kvs {
                out.push(s(k));
                value(x, out)
            }
        }
    }
}

pub fn norm_bits(f: f64) -> u64 {
    if f.is_nan() {
        0x7ff8000000000000
    } else {
        f.to_bits()
    }
}

pub fn expr(e: &Expr, out: &mut Vec<String>) {
    match e {
        Expr::Column { head, rest } => {
            out.push("col".into());
            match head {
                DataAccessAtom::Key(k) => out.push(s(k)),
                DataAccessAtom::Index(i) => out.push(s(&format!("#{}", i))),
            }
            out.push(format!("{}", rest.len()));
            for r in rest {
                match r {
                    DataAccessAtom::Key(k) => {
                        out.push("Rf".into());
                        out.push(s(k))
                    }
                    DataAccessAtom::Index(i) => {
                        out.push("Ri".into());
                        out.push(format!("{}", i))
                    }
                }
            }
        }
        Expr::Unary { op: UnaryOp::Not, operand } => {
            out.push("not".into());
            expr(operand, out)
        }
        Expr::Binary { op, left, right } => {
            match op {
                BinaryOp::Comparison(c) => {
                    out.push("cmp".into());
                    out.push(
                        match c {
                            ComparisonOp::Eq => "eq",
                            ComparisonOp::Neq => "neq",
                            ComparisonOp::Gt => "gt",
                            ComparisonOp::Lt => "lt",
                            ComparisonOp::Gte => "gte",
                            ComparisonOp::Lte => "lte",
                        }
                        .into(),
                    )
                }
                BinaryOp::Arithmetic(a) => {
                    out.push("ar".into());
                    out.push(
                        match a {
                            ArithmeticOp::Add => "add",
                            ArithmeticOp::Subtract => "sub",
                            ArithmeticOp::Multiply => "mul",
                            ArithmeticOp::Divide => "div",
                        }
                        .into(),
                    )
                }
                BinaryOp::Logical(l) => {
                    out.push("lg".into());
                    out.push(
                        match l {
                            LogicalOp::And => "and",
                            LogicalOp::Or => "or",
                        }
                        .into(),
                    )
                }
            }
            expr(left, out);
            expr(right, out)
        }
        Expr::FunctionCall { name, args } => {
            out.push("call".into());
            out.push(s(name));
            out.push(format!("{}", args.len()));
            for a in args {
                expr(a, out)
            }
        }
        Expr::IfOp { cond, value_if_true, value_if_false } => {
            out.push("if".into());
            expr(cond, out);
            expr(value_if_true, out);
            expr(value_if_false, out)
        }
        Expr::Value(v) => {
            out.push("val".into());
            value(v, out)
        }
        Expr::Error => out.push("err".into()),
    }
}

fn opt_expr(e: &Option<Expr>, out: &mut Vec<String>) {
    match e {
        None => out.push("none".into()),
        Some(x) => {
            out.push("some".into());
            expr(x, out)
        }
    }
}

pub fn keyword(k: &Keyword, out: &mut Vec<String>) {
    let (text, kind) = k.verif_parts();
    out.push("kw".into());
    out.push(s(text));
    out.push(["exact", "wild", "regex"][kind as usize].into());
}

pub fn search(x: &Search, out: &mut Vec<String>) {
    match x {
        Search::And(l) => {
            out.push("sand".into());
            out.push(format!("{}", l.len()));
            for y in l {
                search(y, out)
            }
        }
        Search::Or(l) => {
            out.push("sor".into());
            out.push(format!("{}", l.len()));
            for y in l {
                search(y, out)
            }
        }
        Search::Not(y) => {
            out.push("snot".into());
            search(y, out)
        }
        Search::Keyword(k) => {
            out.push("skw".into());
            keyword(k, out)
        }
    }
}

fn strs(l: &[String], out: &mut Vec<String>) {
    out.push(format!("{}", l.len()));
    for x in l {
        out.push(s(x))
    }
}

fn aggfn(f: &AggregateFunction, out: &mut Vec<String>) {
    match f {
        AggregateFunction::Count { condition } => {
            out.push("count".into());
            opt_expr(condition, out)
        }
        AggregateFunction::Sum { column } => {
            out.push("sum".into());
            expr(column, out)
        }
        AggregateFunction::Min { column } => {
            out.push("min".into());
            expr(column, out)
        }
        AggregateFunction::Max { column } => {
            out.push("max".into());
            expr(column, out)
        }
        AggregateFunction::Average { column } => {
            out.push("avg".into());
            expr(column, out)
        }
        AggregateFunction::Percentile { percentile, percentile_str, column } => {
            out.push("pct".into());
            out.push(format!("F{:016x}", norm_bits(*percentile)));
            out.push(s(percentile_str));
            expr(column, out)
        }
        AggregateFunction::CountDistinct { column } => {
            out.push("cd".into());
            match column {
                None => out.push("none".into()),
                Some(p) => {
                    out.push("some".into());
                    out.push(format!("{}", p.value.len()));
                    for e in &p.value {
                        expr(e, out)
                    }
                }
            }
        }
        AggregateFunction::Error => out.push("aerr".into()),
    }
}

fn inline(i: &InlineOperator, out: &mut Vec<String>) {
    match i {
        InlineOperator::Json { input_column } => {
            out.push("json".into());
            opt_expr(input_column, out)
        }
        InlineOperator::Logfmt { input_column } => {
            out.push("logfmt".into());
            opt_expr(input_column, out)
        }
        InlineOperator::Parse { pattern, fields, input_column, no_drop, no_convert } => {
            out.push("parse".into());
            keyword(pattern, out);
            strs(fields, out);
            opt_expr(&input_column.0.as_ref().map(|p| p.value.clone()), out);
            opt_expr(&input_column.1.as_ref().map(|p| p.value.clone()), out);
            out.push(if *no_drop { "B1".into() } else { "B0".into() });
            out.push(if *no_convert { "B1".into() } else { "B0".into() });
        }
        InlineOperator::Fields { mode, fields } => {
            out.push("fields".into());
            out.push(
                match mode {
                    FieldMode::Only => "only",
                    FieldMode::Except => "except",
                }
                .into(),
            );
            strs(fields, out)
        }
        InlineOperator::Where { expr: e } => {
            out.push("where".into());
            opt_expr(&e.as_ref().map(|p| p.value.clone()), out)
        }
        InlineOperator::Limit { count } => {
            out.push("limit".into());
            match count {
                None => out.push("none".into()),
                Some(p) => {
                    out.push("some".into());
                    out.push(format!("F{:016x}", norm_bits(p.value)))
                }
            }
        }
        InlineOperator::Split { separator, input_column, output_column } => {
            out.push("split".into());
            out.push(s(separator));
            opt_expr(input_column, out);
            opt_expr(output_column, out)
        }
        InlineOperator::Timeslice { input_column, duration, output_column } => {
            out.push("timeslice".into());
            expr(input_column, out);
            match duration {
                None => out.push("none".into()),
                Some(d) => {
                    out.push("some".into());
                    out.push(format!("{}", dur_ns(d)))
                }
            }
            match output_column {
                None => out.push("none".into()),
                Some(o) => {
                    out.push("some".into());
                    out.push(s(o))
                }
            }
        }
        InlineOperator::Total { input_column, output_column } => {
            out.push("total".into());
            expr(input_column, out);
            out.push(s(output_column))
        }
        InlineOperator::FieldExpression { value, name } => {
            out.push("fexpr".into());
            expr(value, out);
            out.push(s(name))
        }
    }
}

pub fn operator(o: &Operator, out: &mut Vec<String>) {
    match o {
        Operator::RenderedAlias(ops) => {
            out.push("alias".into());
            out.push(format!("{}", ops.len()));
            for x in ops {
                operator(x, out)
            }
        }
        Operator::Inline(p) => {
            out.push("inl".into());
            inline(&p.value, out)
        }
        Operator::MultiAggregate(m) => {
            out.push("agg".into());
            out.push(format!("{}", m.key_cols.len()));
            for e in &m.key_cols {
                expr(e, out)
            }
            strs(&m.key_col_headers, out);
            out.push(format!("{}", m.aggregate_functions.len()));
            for (n, f) in &m.aggregate_functions {
                out.push(s(n));
                aggfn(&f.value, out)
            }
        }
        Operator::Sort(so) => {
            out.push("sort".into());
            out.push(format!("{}", so.sort_cols.len()));
            for e in &so.sort_cols {
                expr(e, out)
            }
            out.push(
                match so.direction {
                    SortMode::Ascending => "asc",
                    SortMode::Descending => "desc",
                }
                .into(),
            )
        }
        Operator::Error => out.push("operr".into()),
    }
}

pub fn query(q: &Query) -> String {
    let mut out = vec!["query".to_string()];
    search(&q.search, &mut out);
    out.push(format!("{}", q.operators.len()));
    for o in &q.operators {
        operator(o, &mut out)
    }
    out.join(" ")
}
