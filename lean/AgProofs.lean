import AgProofs.Props.C10
import AgProofs.Props.C12
import AgProofs.Props.C03
