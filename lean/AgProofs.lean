import AgProofs.Props.C10
