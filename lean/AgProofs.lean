import AgProofs.Props.C10
import AgProofs.Props.C12
import AgProofs.Props.C03
import AgProofs.Props.C15
import AgProofs.Props.C17
import AgProofs.Props.C01
import AgProofs.Props.C14
