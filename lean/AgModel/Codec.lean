/-
Line-protocol codec: tokens ↔ model values.  Not part of any theorem; trusted (exercised by
every correspondence run, where a codec bug shows up as a disagreement).
-/
import AgModel.Pipeline
import AgModel.Time

namespace Ag
namespace Codec

def hexDigit (n : Nat) : Char :=
  if n < 10 then Char.ofNat (48 + n) else Char.ofNat (87 + n)

def hexOfBytes (b : ByteArray) : String :=
  String.ofList (b.toList.flatMap (fun x => [hexDigit (x.toNat / 16), hexDigit (x.toNat % 16)]))

def hexOfString (s : String) : String := hexOfBytes s.toUTF8

def hexVal (c : Char) : Nat :=
  if c.isDigit then c.toNat - 48
  else if 'a' ≤ c && c ≤ 'f' then c.toNat - 87
  else if 'A' ≤ c && c ≤ 'F' then c.toNat - 55
  else 0

def bytesOfHex (cs : List Char) : ByteArray :=
  let rec go : List Char → ByteArray → ByteArray
    | a :: b :: r, acc => go r (acc.push (UInt8.ofNat (hexVal a * 16 + hexVal b)))
    | _, acc => acc
  go cs ByteArray.empty

def stringOfHex (cs : List Char) : Option String := String.fromUTF8? (bytesOfHex cs)

def natOfHex (cs : List Char) : Nat := cs.foldl (fun a c => a * 16 + hexVal c) 0

def pad16 (n : Nat) : String :=
  let ds := Nat.toDigits 16 n
  String.ofList (List.replicate (16 - ds.length) '0' ++ ds)

/-- token stream -/
abbrev Toks := List String

abbrev P (α : Type) := Toks → Option (α × Toks)

def tok : P String
  | [] => none
  | t :: ts => some (t, ts)

def pStr : P String := fun ts =>
  match ts with
  | t :: rest =>
    match t.toList with
    | 'S' :: h => (stringOfHex h).map (·, rest)
    | _ => none
  | [] => none

def pNat : P Nat := fun ts =>
  match ts with
  | t :: rest => t.toNat?.map (·, rest)
  | [] => none

def pInt : P Int := fun ts =>
  match ts with
  | t :: rest => t.toInt?.map (·, rest)
  | [] => none

partial def pMany {α} (p : P α) (n : Nat) (ts : Toks) (acc : Array α := #[]) : Option (List α × Toks) :=
  if n = 0 then some (acc.toList, ts)
  else match p ts with
    | some (a, ts') => pMany p (n - 1) ts' (acc.push a)
    | none => none

def pList {α} (p : P α) : P (List α) := fun ts =>
  match pNat ts with
  | some (n, ts') => pMany p n ts'
  | none => none

def pOpt {α} (p : P α) : P (Option α) := fun ts =>
  match ts with
  | "none" :: rest => some (none, rest)
  | "some" :: rest => (p rest).map (fun (a, r) => (some a, r))
  | _ => none

partial def pValue : P Value := fun ts =>
  match ts with
  | [] => none
  | t :: rest =>
    match t.toList with
    | ['N'] => some (.none, rest)
    | ['B', '0'] => some (.bool false, rest)
    | ['B', '1'] => some (.bool true, rest)
    | 'I' :: d => (String.ofList d).toInt?.map (fun i => (.int i, rest))
    | 'F' :: h => some (.float (F64.ofBits (natOfHex h)), rest)
    | 'S' :: h => (stringOfHex h).map (fun s => (.str s, rest))
    | 'T' :: d => (String.ofList d).toInt?.map (fun i => (.date i, rest))
    | 'U' :: d => (String.ofList d).toInt?.map (fun i => (.dur i, rest))
    | 'A' :: d =>
      match (String.ofList d).toNat? with
      | some n => (pMany pValue n rest).map (fun (vs, r) => (.arr vs, r))
      | none => none
    | 'O' :: d =>
      match (String.ofList d).toNat? with
      | some n =>
        let pkv : P (String × Value) := fun ts =>
          match pStr ts with
          | some (k, r) => (pValue r).map (fun (v, r') => ((k, v), r'))
          | none => none
        (pMany pkv n rest).map (fun (kvs, r) => (.obj (Fields.ofList kvs), r))
      | none => none
    | _ => none

def pRef : P Ref := fun ts =>
  match ts with
  | "Rf" :: rest => (pStr rest).map (fun (s, r) => (.field s, r))
  | "Ri" :: rest => (pInt rest).map (fun (i, r) => (.idx i, r))
  | _ => none

def cmpOpOf : String → Option CmpOp
  | "eq" => some .eq | "neq" => some .neq | "gt" => some .gt | "lt" => some .lt
  | "gte" => some .gte | "lte" => some .lte | _ => none

def arithOpOf : String → Option ArithOp
  | "add" => some .add | "sub" => some .sub | "mul" => some .mul | "div" => some .div | _ => none

partial def pExpr : P Expr := fun ts =>
  match ts with
  | "col" :: rest =>
    match pStr rest with
    | some (h, r) => (pList pRef r).map (fun (refs, r') => (.col h refs, r'))
    | none => none
  | "not" :: rest => (pExpr rest).map (fun (e, r) => (.not e, r))
  | "cmp" :: op :: rest =>
    match cmpOpOf op, pExpr rest with
    | some o, some (l, r1) => (pExpr r1).map (fun (r, r2) => (.cmp o l r, r2))
    | _, _ => none
  | "ar" :: op :: rest =>
    match arithOpOf op, pExpr rest with
    | some o, some (l, r1) => (pExpr r1).map (fun (r, r2) => (.arith o l r, r2))
    | _, _ => none
  | "lg" :: op :: rest =>
    let o? : Option LogicOp := if op == "and" then some .and else if op == "or" then some .or else none
    match o?, pExpr rest with
    | some o, some (l, r1) => (pExpr r1).map (fun (r, r2) => (.logic o l r, r2))
    | _, _ => none
  | "call" :: rest =>
    match pStr rest with
    | some (n, r) => (pList pExpr r).map (fun (args, r') => (.call n args, r'))
    | none => none
  | "if" :: rest =>
    match pExpr rest with
    | some (c, r1) =>
      match pExpr r1 with
      | some (t, r2) => (pExpr r2).map (fun (f, r3) => (.ifop c t f, r3))
      | none => none
    | none => none
  | "val" :: rest => (pValue rest).map (fun (v, r) => (.val v, r))
  | "err" :: rest => some (.error, rest)
  | _ => none

def pKeyword : P Keyword := fun ts =>
  match ts with
  | "kw" :: rest =>
    match pStr rest with
    | some (s, ty :: r) =>
      match ty with
      | "exact" => some ({ text := s, ty := .exact }, r)
      | "wild" => some ({ text := s, ty := .wildcard }, r)
      | "regex" => some ({ text := s, ty := .regex }, r)
      | _ => none
    | _ => none
  | _ => none

partial def pSearch : P Search := fun ts =>
  match ts with
  | "sand" :: rest => (pList pSearch rest).map (fun (l, r) => (.and l, r))
  | "sor" :: rest => (pList pSearch rest).map (fun (l, r) => (.or l, r))
  | "snot" :: rest => (pSearch rest).map (fun (s, r) => (.not s, r))
  | "skw" :: rest => (pKeyword rest).map (fun (k, r) => (.kw k, r))
  | _ => none

def pBool : P Bool := fun ts =>
  match ts with
  | "B0" :: r => some (false, r)
  | "B1" :: r => some (true, r)
  | _ => none

def pF64 : P F64 := fun ts =>
  match ts with
  | t :: rest =>
    match t.toList with
    | 'F' :: h => some (F64.ofBits (natOfHex h), rest)
    | _ => none
  | [] => none

def pAggFn : P AggFn := fun ts =>
  match ts with
  | "count" :: rest => (pOpt pExpr rest).map (fun (c, r) => (.count c, r))
  | "sum" :: rest => (pExpr rest).map (fun (e, r) => (.sum e, r))
  | "min" :: rest => (pExpr rest).map (fun (e, r) => (.min e, r))
  | "max" :: rest => (pExpr rest).map (fun (e, r) => (.max e, r))
  | "avg" :: rest => (pExpr rest).map (fun (e, r) => (.avg e, r))
  | "pct" :: rest =>
    match pF64 rest with
    | some (p, r1) =>
      match pStr r1 with
      | some (s, r2) => (pExpr r2).map (fun (e, r3) => (.pct p s e, r3))
      | none => none
    | none => none
  | "cd" :: rest => (pOpt (pList pExpr) rest).map (fun (a, r) => (.countDistinct a, r))
  | "aerr" :: rest => some (.error, rest)
  | _ => none

def pMultiAgg : P MultiAgg := fun ts =>
  match pList pExpr ts with
  | some (ks, r1) =>
    match pList pStr r1 with
    | some (hs, r2) =>
      let pnf : P (String × AggFn) := fun ts =>
        match pStr ts with
        | some (n, r) => (pAggFn r).map (fun (f, r') => ((n, f), r'))
        | none => none
      (pList pnf r2).map (fun (fns, r3) => ({ keyCols := ks, headers := hs, fns := fns }, r3))
    | none => none
  | none => none

def pInline : P Inline := fun ts =>
  match ts with
  | "json" :: rest => (pOpt pExpr rest).map (fun (e, r) => (.json e, r))
  | "logfmt" :: rest => (pOpt pExpr rest).map (fun (e, r) => (.logfmt e, r))
  | "parse" :: rest =>
    match pKeyword rest with
    | some (k, r1) =>
      match pList pStr r1 with
      | some (fs, r2) =>
        match pOpt pExpr r2 with
        | some (f1, r3) =>
          match pOpt pExpr r3 with
          | some (f2, r4) =>
            match pBool r4 with
            | some (nd, r5) => (pBool r5).map (fun (nc, r6) => (.parse k fs f1 f2 nd nc, r6))
            | none => none
          | none => none
        | none => none
      | none => none
    | none => none
  | "fields" :: m :: rest =>
    let mode? : Option FieldMode := if m == "only" then some .only else if m == "except" then some .except else none
    match mode? with
    | some mode => (pList pStr rest).map (fun (ns, r) => (.fields mode ns, r))
    | none => none
  | "where" :: rest => (pOpt pExpr rest).map (fun (e, r) => (.whereOp e, r))
  | "limit" :: rest => (pOpt pF64 rest).map (fun (n, r) => (.limit n, r))
  | "split" :: rest =>
    match pStr rest with
    | some (sep, r1) =>
      match pOpt pExpr r1 with
      | some (src, r2) => (pOpt pExpr r2).map (fun (dst, r3) => (.split sep src dst, r3))
      | none => none
    | none => none
  | "timeslice" :: rest =>
    match pExpr rest with
    | some (e, r1) =>
      match pOpt pInt r1 with
      | some (d, r2) => (pOpt pStr r2).map (fun (o, r3) => (.timeslice e d o, r3))
      | none => none
    | none => none
  | "total" :: rest =>
    match pExpr rest with
    | some (e, r1) => (pStr r1).map (fun (o, r2) => (.total e o, r2))
    | none => none
  | "fexpr" :: rest =>
    match pExpr rest with
    | some (e, r1) => (pStr r1).map (fun (o, r2) => (.fieldExpr e o, r2))
    | none => none
  | _ => none

partial def pOperator : P Operator := fun ts =>
  match ts with
  | "alias" :: rest => (pList pOperator rest).map (fun (ops, r) => (.alias ops, r))
  | "inl" :: rest => (pInline rest).map (fun (i, r) => (.inline i, r))
  | "agg" :: rest => (pMultiAgg rest).map (fun (m, r) => (.agg m, r))
  | "sort" :: rest =>
    match pList pExpr rest with
    | some (cols, d :: r) =>
      if d == "asc" then some (.sort cols .asc, r)
      else if d == "desc" then some (.sort cols .desc, r) else none
    | _ => none
  | "operr" :: rest => some (.error, rest)
  | _ => none

def pQuery : P Query := fun ts =>
  match ts with
  | "query" :: rest =>
    match pSearch rest with
    | some (s, r1) => (pList pOperator r1).map (fun (ops, r2) => ({ search := s, ops := ops }, r2))
    | none => none
  | _ => none

/-! ### printing -/

mutual
/-- a value as `-o json` shows it, in token form (dates/durations as their strings, non-finite
floats as null) -/
partial def showJsonValue : Value → String
  | .none => "N"
  | .bool b => if b then "B1" else "B0"
  | .int i => "I" ++ toString i
  | .float f => if f.isFinite then "F" ++ pad16 f.toBits else "N"
  | .str s => "S" ++ hexOfString s
  | .date ns => "S" ++ hexOfString (Time.rfc3339 ns)
  | .dur ns => "S" ++ hexOfString (Time.isoDuration ns)
  | .arr vs => String.intercalate " " (("A" ++ toString vs.length) :: vs.map showJsonValue)
  | .obj kvs => showFields kvs
partial def showFields (kvs : Fields) : String :=
  String.intercalate " " (("O" ++ toString kvs.length) ::
    kvs.map (fun kv => "S" ++ hexOfString kv.1 ++ " " ++ showJsonValue kv.2))
end

/-- typed value tokens (inverse of `pValue`) -/
partial def showValue : Value → String
  | .none => "N"
  | .bool b => if b then "B1" else "B0"
  | .int i => "I" ++ toString i
  | .float f => "F" ++ pad16 f.toBits
  | .str s => "S" ++ hexOfString s
  | .date ns => "T" ++ toString ns
  | .dur ns => "U" ++ toString ns
  | .arr vs => String.intercalate " " (("A" ++ toString vs.length) :: vs.map showValue)
  | .obj kvs => String.intercalate " " (("O" ++ toString kvs.length) ::
      kvs.map (fun kv => "S" ++ hexOfString kv.1 ++ " " ++ showValue kv.2))

def showRowInColumns (cols : List String) (row : Fields) : String :=
  String.intercalate " " (("O" ++ toString cols.length) ::
    cols.map (fun c => "S" ++ hexOfString c ++ " " ++ showJsonValue ((Fields.get c row).getD .none)))

def showOutput : Output → String
  | .records rows e =>
    String.intercalate " " (["E" ++ toString e, "REC", toString rows.length] ++ rows.map (fun r => showFields r.data))
  | .table t e =>
    if t.rows.isEmpty then "E" ++ toString e ++ " TAB 0 0" else
    String.intercalate " " (["E" ++ toString e, "TAB", toString t.columns.length] ++
      t.columns.map (fun c => "S" ++ hexOfString c) ++ [toString t.rows.length] ++
      t.rows.map (showRowInColumns t.columns))

end Codec
end Ag
