/-
`PrettyPrinter` (src/printer.rs:261-482) over `Nat` with CHECKED subtraction.

Every `usize` subtraction that can underflow, every `HashMap` index on a possibly missing key,
the `unwrap()` in `resize_widths_to_fit` and the `assert!(fits_within_term_agg)` is an explicit
`Outcome.panic site`.  Byte lengths (`String::len`) and character counts (`chars().count()`,
`{:width$}` padding, `{:.N}` truncation) are kept apart exactly as the code mixes them.
The column-width memory (`column_widths`, `column_order`) is the explicit state `St`.

Text is `List Char` inside the model (`Str`); `String` only at the boundary.
-/
import AgModel.Render
import AgModel.Record
import AgModel.CharWidth

namespace Ag
namespace Pretty

abbrev Str := List Char

/-- `String::len()`: UTF-8 byte length -/
def byteLen : Str → Nat
  | [] => 0
  | c :: cs => c.utf8Size + byteLen cs

/-- `format!("{:width$}", s)`: pad on the right with blanks up to `n` CHARACTERS, never truncate -/
def padTo (n : Nat) (s : Str) : Str := s ++ List.replicate (n - s.length) ' '

/-- concatenation of pieces (`itertools::join("")`) -/
def concat : List Str → Str
  | [] => []
  | x :: xs => x ++ concat xs

/-- every line followed by a newline -/
def unlines : List Str → Str
  | [] => []
  | l :: ls => l ++ '\n' :: unlines ls

/-- split at every `'\n'` (always at least one segment) -/
def splitNl : Str → List Str
  | [] => [[]]
  | c :: cs =>
    if c = '\n' then [] :: splitNl cs
    else
      match splitNl cs with
      | [] => [[c]]
      | l :: ls => (c :: l) :: ls

/-- strip one trailing `'\r'` -/
def stripCr (l : Str) : Str := if l.getLast? = some '\r' then l.dropLast else l

/-- `str::lines()`: segments ended by `\n` lose the `\n` and one `\r` before it; a last segment
without `\n` is kept as it is, and an empty one is not a line -/
def rustLines (s : Str) : List Str :=
  let segs := splitNl s
  let last := segs.getLast?.getD []
  segs.dropLast.map stripCr ++ (if last.isEmpty then [] else [last])

/-! ### the width map (`HashMap<String, usize>`; every use is order-independent) -/

abbrev WMap := List (String × Nat)

namespace WMap

def get (k : String) : WMap → Option Nat
  | [] => none
  | (k', v) :: t => if k = k' then some v else get k t

/-- `HashMap::insert` -/
def put (k : String) (v : Nat) : WMap → WMap
  | [] => [(k, v)]
  | (k', v') :: t => if k = k' then (k, v) :: t else (k', v') :: put k v t

/-- `HashMap::extend` -/
def extend (m : WMap) : WMap → WMap
  | [] => m
  | (k, v) :: new => extend (put k v m) new

/-- `values().sum()` -/
def total : WMap → Nat
  | [] => 0
  | (_, v) :: t => v + total t

end WMap

/-- `RenderConfig`'s two buffers (`Pipeline::new` uses 4 and 8; the unit tests 1/4 and 2/4) -/
structure Cfg where
  minBuf : Nat
  maxBuf : Nat
deriving Repr, Inhabited

/-- what does not change between calls: the buffers and `term_size` as `(width, height)` -/
structure Env where
  cfg : Cfg
  term : Option (Nat × Nat)
deriving Repr, Inhabited

/-- what `PrettyPrinter` remembers between calls -/
structure St where
  widths : WMap := []
  order : List String := []
deriving Repr, Inhabited

def usizeMax : Nat := 18446744073709551615

/-- `max_width()` -/
def Env.maxWidth (env : Env) : Nat :=
  match env.term with
  | none => 240
  | some (w, _) => w

/-- the text of a cell -/
def cellText (v : Value) : Str := v.render.toList

/-- `display_width` (printer.rs): the terminal cells a text occupies — the sum of its characters'
widths (`charWidth`, AgModel/CharWidth.lean: the `unicode-width` crate's table; wide East-Asian
characters and emoji 2, combining marks and control characters 0) -/
def dispWidth : Str → Nat
  | [] => 0
  | c :: cs => charWidth c + dispWidth cs

/-- `take_width` (printer.rs): the longest prefix that fits into `limit` cells -/
def takeWidth : Nat → Str → Str
  | _, [] => []
  | limit, c :: cs => if charWidth c ≤ limit then c :: takeWidth (limit - charWidth c) cs else []

/-- pad with blanks up to `limit` CELLS -/
def padW (limit : Nat) (s : Str) : Str := s ++ List.replicate (limit - dispWidth s) ' '

/-- `format_with_ellipsis` (printer.rs): the text in exactly `limit` terminal cells — padded with
blanks when it fits; otherwise the longest prefix fitting `limit − 2` cells, `… `, and a blank more
when a wide character did not fit any more; in a column narrower than 2 just the prefix that fits.
Since 0950730 everything is measured in display cells (before: characters).  The function cannot
panic (9f65de4); the `Outcome` is kept for the callers' shape. -/
def fmtEllipsis (inp : Str) (limit : Nat) : Outcome Str :=
  if dispWidth inp > limit then
    if limit < 2 then .ok (padW limit (takeWidth limit inp))
    else .ok (padW limit (takeWidth (limit - 2) inp ++ ['…', ' ']))
  else .ok (padW limit inp)

/-- one entry of `compute_column_widths` -/
def newWidth (cfg : Cfg) (widths : WMap) (name : String) (v : Value) : Nat :=
  let cur := (widths.get name).getD 0
  let vl := max (byteLen (cellText v)) (byteLen name.toList)
  if vl + cfg.minBuf > cur then vl + cfg.maxBuf else cur

/-- `compute_column_widths` (printer.rs:296-315): one entry per key of the row -/
def computeWidths (cfg : Cfg) (widths : WMap) : Fields → WMap
  | [] => []
  | (name, v) :: rest => (name, newWidth cfg widths name v) :: computeWidths cfg widths rest

/-- the `for_each` of `format_aggregate` (printer.rs:452-455) -/
def absorbRows (cfg : Cfg) : WMap → List Fields → WMap
  | w, [] => w
  | w, row :: rows => absorbRows cfg (w.extend (computeWidths cfg w row)) rows

/-- `fits_within_term_agg` -/
def fits (env : Env) (w : WMap) : Bool := w.total ≤ env.maxWidth

/-- `(remaining as f64 / d as f64) as usize`: `x/0 = inf → usize::MAX`, `0/0 = NaN → 0` -/
def share (remaining d : Nat) : Nat :=
  if d = 0 then (if remaining = 0 then 0 else usizeMax) else remaining / d

/-- the `map` closure of `resize_widths_to_fit` folded over `ordering` (printer.rs:409-425);
`len = self.column_widths.len()`, `cw` the widths, `i` the index, `rem` = `remaining` -/
def resizeGo (len : Nat) (cw : WMap) : List String → Nat → Nat → WMap → Outcome WMap
  | [], _, _, acc => .ok acc
  | col :: rest, i, rem, acc =>
    match cw.get col with
    | none => .panic "printer.rs:419 column_widths.get(col).unwrap()"
    | some width =>
      if len < i then .panic "printer.rs:422 self.column_widths.len() - i"
      else
        let maxc := share rem (len - i)
        if width < maxc then
          if rem < width then .panic "printer.rs:424 remaining -= width"
          else resizeGo len cw rest (i + 1) (rem - width) (acc.put col width)
        else
          if rem < maxc then .panic "printer.rs:427 remaining -= max_column_width"
          else resizeGo len cw rest (i + 1) (rem - maxc) (acc.put col maxc)

/-- `resize_widths_to_fit` -/
def resize (env : Env) (cw : WMap) (ordering : List String) : Outcome WMap :=
  if fits env cw then .ok cw else resizeGo cw.length cw ordering 0 env.maxWidth []

/-- header cells: `format_with_ellipsis(column_name, self.column_widths[column_name])` (since
3a98c5e names are cut like body cells; before they were only padded) -/
def headerCells (w : WMap) : List String → Outcome (List Str)
  | [] => .ok []
  | c :: cs =>
    match w.get c with
    | none => .panic "printer.rs:466 self.column_widths[column_name]"
    | some n =>
      match fmtEllipsis c.toList n with
      | .ok cell =>
        match headerCells w cs with
        | .ok rest => .ok (cell :: rest)
        | o => o
      | .panic p => .panic p
      | .err k => .err k
      | .unmodelled u => .unmodelled u

/-- the cells of one body row (`format_aggregate_row`, before `join`/`trim`) -/
def rowCells (w : WMap) (row : Fields) : List String → Outcome (List Str)
  | [] => .ok []
  | c :: cs =>
    match w.get c with
    | none => .panic "printer.rs:447 self.column_widths[column_name]"
    | some n =>
      match fmtEllipsis (cellText ((Fields.get c row).getD .none)) n with
      | .ok cell =>
        match rowCells w row cs with
        | .ok rest => .ok (cell :: rest)
        | o => o
      | .panic p => .panic p
      | .err k => .err k
      | .unmodelled u => .unmodelled u

/-- `format_aggregate_row`: cells joined, then `trim_end()` (439c1ac; it was `trim()`) -/
def rowLine (w : WMap) (cols : List String) (row : Fields) : Outcome Str :=
  match rowCells w row cols with
  | .ok cells => .ok (Text.trimEnd (concat cells))
  | .panic p => .panic p
  | .err k => .err k
  | .unmodelled u => .unmodelled u

def bodyLines (w : WMap) (cols : List String) : List Fields → Outcome (List Str)
  | [] => .ok []
  | r :: rs =>
    match rowLine w cols r with
    | .ok l =>
      match bodyLines w cols rs with
      | .ok ls => .ok (l :: ls)
      | o => o
    | .panic p => .panic p
    | .err k => .err k
    | .unmodelled u => .unmodelled u

/-- the last step of `format_aggregate` (printer.rs:473-480) -/
def clip (env : Env) (overlength : Str) : Outcome Str :=
  match env.term with
  | none => .ok overlength
  | some (_, h) =>
    if h < 1 then .panic "printer.rs:478 (height as usize) - 1"
    else
      match (rustLines overlength).take (h - 1) with
      | [] => .ok ['\n']                         -- `"".to_string() + "\n"`
      | ls => .ok (unlines ls)

/-- the three parts of the table before clipping: header line, separator, body lines -/
structure Parts where
  header : Str
  sep : Str
  body : List Str
deriving Repr, Inhabited

def Parts.text (p : Parts) : Str := unlines (p.header :: p.sep :: p.body)

/-- the widths `format_aggregate` measures the table against: the remembered ones as long as,
enlarged by the current rows, they still fit the terminal; otherwise none — the current table is
measured on its own before anything is cut (the repair of printer.rs `format_aggregate`:
`if !self.fits_within_term_agg() { self.column_widths = HashMap::new(); …absorb the rows again… }`,
mirroring what `format_record_as_columns` does on overflow) -/
def startWidths (env : Env) (widths : WMap) (rows : List Fields) : WMap :=
  if fits env (absorbRows env.cfg widths rows) then widths else []

/-- `format_aggregate` for a non-empty table from given starting widths, up to `overlength_str`:
absorb the rows, cut to fair shares if that does not fit, lay out; the widths kept in the state
afterwards and the parts -/
def tablePartsFrom (env : Env) (widths : WMap) (t : Table) : Outcome (WMap × Parts) :=
  let w1 := absorbRows env.cfg widths t.rows
  match resize env w1 t.columns with
  | .ok w2 =>
    if !fits env w2 then .panic "printer.rs:464 assert!(self.fits_within_term_agg())"
    else
      match headerCells w2 t.columns with
      | .ok hs =>
        let header := concat hs
        match bodyLines w2 t.columns t.rows with
        | .ok body =>
          -- `header.trim_end()` (439c1ac) and `"-".repeat(display_width(&header))` (0faaa16, 0950730)
          .ok (w2, { header := Text.trimEnd header, sep := List.replicate (dispWidth header) '-', body := body })
        | .panic p => .panic p
        | .err k => .err k
        | .unmodelled u => .unmodelled u
      | .panic p => .panic p
      | .err k => .err k
      | .unmodelled u => .unmodelled u
  | .panic p => .panic p
  | .err k => .err k
  | .unmodelled u => .unmodelled u

/-- `format_aggregate` for a non-empty table, up to `overlength_str`: the widths kept in the
state afterwards and the parts.  The rows are absorbed into the remembered widths; if the result
does not fit the terminal the memory is dropped and the rows are absorbed into an empty map
(`startWidths`), and only then are the widths cut to fit. -/
def tableParts (env : Env) (widths : WMap) (t : Table) : Outcome (WMap × Parts) :=
  tablePartsFrom env (startWidths env widths t.rows) t

/-- `PrettyPrinter::format_aggregate` (printer.rs:447-481): the text and the new state -/
def formatAggregate (env : Env) (st : St) (t : Table) : Outcome (Str × St) :=
  if t.rows.isEmpty then .ok ("No data\n".toList, st)
  else
    match tableParts env st.widths t with
    | .ok (w2, parts) =>
      match clip env parts.text with
      | .ok out => .ok (out, { st with widths := w2 })
      | .panic p => .panic p
      | .err k => .err k
      | .unmodelled u => .unmodelled u
    | .panic p => .panic p
    | .err k => .err k
    | .unmodelled u => .unmodelled u

/-! ### records as columns (`format_record_as_columns`, printer.rs:345-386) -/

/-- `Vec<String>::sort()` (insertion sort; `String`'s order is code-point lexicographic, which is
the byte order of UTF-8) -/
def insertKey (k : String) : List String → List String
  | [] => [k]
  | x :: xs => if k ≤ x then k :: x :: xs else x :: insertKey k xs

def sortKeys : List String → List String
  | [] => []
  | k :: ks => insertKey k (sortKeys ks)

/-- `new_columns` -/
def newColumns (order : List String) (data : Fields) : List String :=
  sortKeys ((Fields.keys data).filter (fun k => !order.contains k))

/-- `projected_width` -/
def projected : WMap → Nat
  | [] => 0
  | (k, size) :: t => (size + byteLen k.toList + 3) + projected t

/-- `overflows_term` -/
def overflows (env : Env) (w : WMap) : Bool :=
  match env.term with
  | none => false
  | some (width, _) => projected w > width

/-- `[name=value]`, or nothing for an absent field -/
def recordCell (data : Fields) (c : String) : Str :=
  match Fields.get c data with
  | some v => '[' :: c.toList ++ '=' :: cellText v ++ [']']
  | none => []

def recordCells (noPad : Bool) (w : WMap) (data : Fields) : List String → Outcome (List Str)
  | [] => .ok []
  | c :: cs =>
    let unpadded := recordCell data c
    let cell : Outcome Str :=
      if noPad then .ok unpadded
      else
        match w.get c with
        | none => .panic "printer.rs:383 self.column_widths[column_name]"
        | some n => .ok (padTo (byteLen c.toList + 3 + n) unpadded)
    match cell with
    | .ok x =>
      match recordCells noPad w data cs with
      | .ok rest => .ok (x :: rest)
      | o => o
    | .panic p => .panic p
    | .err k => .err k
    | .unmodelled u => .unmodelled u

/-- `PrettyPrinter::format_record_as_columns` -/
def formatRecord (env : Env) (st : St) (r : Record) : Outcome (Str × St) :=
  let w1 := st.widths.extend (computeWidths env.cfg st.widths r.data)
  let o1 := st.order ++ newColumns st.order r.data
  if o1.isEmpty then .ok (Text.trimEnd r.raw.toList, { widths := w1, order := o1 })
  else
    let reset := overflows env w1
    let w2 := if reset then WMap.extend [] (computeWidths env.cfg [] r.data) else w1
    let o2 := if reset then newColumns [] r.data else o1
    let noPad := if reset then overflows env w2 else false
    match recordCells noPad w2 r.data o2 with
    | .ok cells => .ok (Text.trim (concat cells), { widths := w2, order := o2 })
    | .panic p => .panic p
    | .err k => .err k
    | .unmodelled u => .unmodelled u

end Pretty
end Ag
