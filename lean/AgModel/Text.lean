/-
Text helpers mirroring Rust `str` methods on `List Char`.
-/
namespace Ag
namespace Text

/-- Unicode `White_Space` (what `char::is_whitespace`, `str::trim` and regex `\s` use) -/
def isWhite (c : Char) : Bool :=
  let n := c.toNat
  (9 ≤ n && n ≤ 13) || n == 32 || n == 0x85 || n == 0xA0 || n == 0x1680 ||
  (0x2000 ≤ n && n ≤ 0x200A) || n == 0x2028 || n == 0x2029 || n == 0x202F || n == 0x205F ||
  n == 0x3000

def trimStart (cs : List Char) : List Char := cs.dropWhile isWhite

def trimEnd (cs : List Char) : List Char := (cs.reverse.dropWhile isWhite).reverse

def trim (cs : List Char) : List Char := trimEnd (trimStart cs)

/-- nom `multispace`: blank, tab, CR, LF -/
def isMultispace (c : Char) : Bool := c == ' ' || c == '\t' || c == '\r' || c == '\n'

/-- does `p` prefix `s`? returns the rest -/
def stripPrefix? : List Char → List Char → Option (List Char)
  | [], s => some s
  | _ :: _, [] => none
  | p :: ps, c :: cs => if p == c then stripPrefix? ps cs else none

/-- first occurrence of the non-empty pattern: (before, after) -/
def splitOnce (pat : List Char) : List Char → Option (List Char × List Char)
  | [] => if pat.isEmpty then some ([], []) else none
  | c :: cs =>
    match stripPrefix? pat (c :: cs) with
    | some rest => some ([], rest)
    | none =>
      match splitOnce pat cs with
      | some (a, b) => some (c :: a, b)
      | none => none

def isInfixOf (pat s : List Char) : Bool := (splitOnce pat s).isSome

def utf8Len (cs : List Char) : Nat := cs.foldl (fun n c => n + c.utf8Size) 0

def joinWith (sep : String) : List String → String
  | [] => ""
  | [x] => x
  | x :: xs => x ++ sep ++ joinWith sep xs

end Text
end Ag
