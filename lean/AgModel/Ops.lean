/-
Row operators (src/operator/{parse,split,fields,where_op,timeslice,limit,total}.rs) as
`Record → Outcome (Option Record)` plus the two stateful ones (limit, total) as state machines.
-/
import AgModel.Eval
import AgModel.Json
import AgModel.Logfmt
import AgModel.Kw

namespace Ag

/-- type-checked row operator definitions (what `OperatorBuilder`s hold) -/
inductive RowOp where
  | json (src : Option Expr)
  | logfmt (src : Option Expr)
  | parse (pat : Keyword) (fields : List String) (src : Option Expr) (drop : Bool) (noConvert : Bool)
  | fields (mode : FieldMode) (names : List String)
  | whereE (e : Expr)
  | whereConst (b : Bool)
  | fieldExpr (e : Expr) (name : String)
  | split (sep : String) (src : Option Expr) (dst : Option Expr)
  | timeslice (src : Expr) (dur : Int) (dst : Option String)
  | limit (n : Int)
  | total (src : Expr) (dst : String)
deriving Repr, Inhabited

namespace RowOp

def isStateless : RowOp → Bool
  | limit _ => false
  | total .. => false
  | _ => true

end RowOp

/-- `get_input` -/
def getInput (ext : Ext) (rec : Record) : Option Expr → Outcome String
  | none => .ok rec.raw
  | some e => evalStr ext rec.data e

/-! ### split -/

namespace Split

/-- `find_close_delimiter` for a one-character quote `q` at the head of `s` (= `q :: body`).
Returns (token, rest).  `prev` is the character before the current scan position. -/
def findClose (q : Char) (whole : List Char) : List Char → List Char → Option (List Char × List Char)
  -- scanning `cur` (a suffix of the body); `acc` = body consumed so far (reversed)
  | _, [] => none
  | acc, c :: cs =>
    if c == q && acc.head? != some '\\' then some (acc.reverse, cs)
    else findClose q whole (c :: acc) cs

def closeDelim (q : Char) (s : List Char) : List Char × List Char :=
  match s with
  | _ :: body =>
    match findClose q s [] body with
    | some r => r
    | none => (s, [])
  | [] => (s, [])

/-- `split_once` -/
def splitOnce (s sep : List Char) : List Char × List Char :=
  match Text.splitOnce sep s with
  | some (a, b) => (a, b)
  | none => (s, [])

/-- `split_with_delimiters`; `none` = the loop makes no progress (hang) -/
def splitLoop (sep : List Char) : Nat → List Char → List (List Char) → Option (List (List Char))
  | _, [], acc => some acc.reverse
  | 0, _ :: _, _ => none
  | fuel + 1, c :: cs, acc =>
    let wip := c :: cs
    let (tok, rest) :=
      if c == '"' then closeDelim '"' wip
      else if c == '\'' then closeDelim '\'' wip
      else splitOnce wip sep
    let t := Text.trim tok
    let acc' := if t.isEmpty then acc else t :: acc
    if rest.length < wip.length then splitLoop sep fuel rest acc' else none

def split (input sep : List Char) : Option (List (List Char)) :=
  splitLoop sep (input.length + 1) input []

end Split

/-! ### Record::put_expr -/

/-- functional update along a path inside a value -/
def putPath (v : Value) (path : List Ref) (newv : Value) : Outcome Value :=
  match path with
  | [] => .ok newv
  | .field k :: rest =>
    match v with
    | .obj kvs =>
      match Fields.get k kvs with
      | none => if rest.isEmpty then .ok (.obj (Fields.put k newv kvs)) else .err "NoValueForKey"
      | some child =>
        match putPath child rest newv with
        | .ok c' => .ok (.obj (Fields.put k c' kvs))
        | o => o
    | _ => .err "ExpectedXYZ"
  | .idx i :: rest =>
    match v with
    | .arr vs =>
      let len : Int := vs.length
      let real := if i < 0 then i + len else i
      if real < 0 || real ≥ len then .err "IndexOutOfRange"
      else
        match vs[real.toNat]? with
        | none => .err "IndexOutOfRange"
        | some child =>
          match putPath child rest newv with
          | .ok c' => .ok (.arr (vs.set real.toNat c'))
          | o => o
    | _ => .err "ExpectedXYZ"

/-- `Record::put_expr` -/
def putExpr (data : Fields) (key : Expr) (newv : Value) : Outcome Fields :=
  match key with
  | .col head rest =>
    match Fields.get head data with
    | none => if rest.isEmpty then .ok (Fields.put head newv data) else .err "NoValueForKey"
    | some root =>
      match putPath root rest newv with
      | .ok r' => .ok (Fields.put head r' data)
      | .err k => .err k
      | .panic p => .panic p
      | .unmodelled w => .unmodelled w
  | _ => .err "ExpectedXYZ"

/-! ### timeslice -/

def i64NanosOk (ns : Int) : Bool := F64.i64Min ≤ ns && ns ≤ F64.i64Max

/-- chrono `duration_trunc` on nanosecond timestamps -/
def durationTrunc (stamp span : Int) : Outcome Int :=
  if !i64NanosOk span then .err "InvalidDuration"
  else if span ≤ 0 then .err "InvalidDuration"
  else if !i64NanosOk stamp then .err "InvalidDuration"
  else .ok (stamp - stamp.emod span)

/-! ### the stateless operators -/

def applyStateless (ext : Ext) (op : RowOp) (rec : Record) : Outcome (Option Record) :=
  match op with
  | .json src => do
    let inp ← getInput ext rec src
    match Json.parse inp with
    | none => .err "ExpectedJson"
    | some (.obj kvs) =>
      pure (some { rec with data := kvs.foldl (fun d kv => Fields.put kv.1 kv.2 d) rec.data })
    | some _ => pure (some rec)
  | .logfmt src => do
    let inp ← getInput ext rec src
    let pairs := Logfmt.parse (String.ofList (Text.trimEnd inp.toList))
    pure (some { rec with data := pairs.foldl (fun d p =>
      match p.val with
      | none => Fields.put p.key .none d
      | some v => Fields.put p.key (Value.fromString v) d) rec.data })
  | .parse pat fields src drop noConvert => do
    let inp ← getInput ext rec src
    let t := Text.trim inp.toList
    if !Kw.modelled pat t then .unmodelled "parse: keyword outside the modelled regex fragment" else
    match Kw.captures pat t with
    | none =>
      if drop then pure none
      else
        pure (some { rec with data := fields.foldl (fun d f =>
          if Fields.contains f rec.data then d else Fields.put f .none d) rec.data })
    | some caps =>
      let vals := caps.map (fun c =>
        if noConvert then Value.str (String.ofList c) else Value.fromString (String.ofList c))
      pure (some { rec with data := (fields.zip vals).foldl (fun d fv => Fields.put fv.1 fv.2 d) rec.data })
  | .fields mode names =>
    let kept := rec.data.filter (fun kv =>
      match mode with
      | .only => names.contains kv.1
      | .except => !names.contains kv.1)
    if kept.isEmpty then .ok none else .ok (some { rec with data := kept })
  | .whereE e => do
    let b ← evalBool ext rec.data e
    pure (if b then some rec else none)
  | .whereConst b => .ok (if b then some rec else none)
  | .fieldExpr e name => do
    let v ← evalValue ext rec.data e
    pure (some { rec with data := Fields.put name v rec.data })
  | .split sep src dst => do
    let inp ← getInput ext rec src
    match Split.split inp.toList sep.toList with
    | none => .panic "split.rs:58 loop makes no progress (empty separator)"
    | some toks =>
      let arr := Value.arr (toks.map (fun t => Value.fromString (String.ofList t)))
      match (dst.orElse fun _ => src) with
      | some d => do
        let data' ← putExpr rec.data d arr
        pure (some { rec with data := data' })
      | none => pure (some { rec with data := Fields.put "_split" arr rec.data })
  | .timeslice src dur dst => do
    let v ← evalValue ext rec.data src
    match v with
    | .date ns => do
      let r ← durationTrunc ns dur
      pure (some { rec with data := Fields.put (dst.getD "_timeslice") (.date r) rec.data })
    | _ => .err "ExpectedDate"
  | .limit _ => .panic "applyStateless: limit is stateful"
  | .total .. => .panic "applyStateless: total is stateful"

/-! ### stateful operators -/

inductive OpState where
  | stateless
  | head (index : Nat)
  | tail (queue : List Record)      -- oldest first
  | total (acc : F64)
deriving Repr, Inhabited

def RowOp.init : RowOp → OpState
  | .limit n => if n > 0 then .head 0 else .tail []
  | .total .. => .total F64.zero
  | _ => .stateless

/-- `UnaryPreAggOperator::process_mut` -/
def stepOp (ext : Ext) (op : RowOp) (st : OpState) (rec : Record) : OpState × Outcome (Option Record) :=
  match op, st with
  | .limit n, .head idx =>
    let idx' := idx + 1
    (.head idx', .ok (if (idx' : Int) ≤ n then some rec else none))
  | .limit n, .tail q =>
    let cap := (-n).toNat
    let q' := if q.length == cap then q.drop 1 else q
    (.tail (q' ++ [rec]), .ok none)
  | .total src dst, .total acc =>
    match evalF64 ext rec.data src with
    | .unmodelled w => (.total acc, .unmodelled w)
    | r =>
      let v := match r with
        | .ok f => f
        | _ => F64.zero
      let acc' := F64.add acc v
      (.total acc', .ok (some { rec with data := Fields.put dst (Value.fromFloat acc') rec.data }))
  | op, st => (st, applyStateless ext op rec)

/-- `UnaryPreAggOperator::drain` -/
def drainOp : OpState → List Record
  | .tail q => q
  | _ => []

end Ag
