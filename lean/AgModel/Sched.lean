/-
Small-step model of `Pipeline::process` (src/lib.rs:266-313): the reader on the calling thread,
the crossbeam `bounded(1000)` channel, the renderer thread in both variants (`render_noagg`
lib.rs:217-233, `render_aggregate` on a non-terminal lib.rs:235-264), and the I/O faults.

What is abstract.  The per-line work of the reader (`from_utf8_lossy`, `filter.matches`,
`proc_preagg` through the pre-aggregate operators) is a parameter `Cfg.step : σ → Line → σ × Option ρ`
with operator state `σ` (stateless operators: `σ = Unit`); `Cfg.drain` is what the drain loop
(lib.rs:297-305) releases at end of input.  Their sequential semantics is AgModel/Pipeline.lean
(`procPreagg`, `feed`, `drainLoop`) and is not repeated here.  `Cfg.body` is `RecordPrinter::print`
of one row, `Cfg.aggFinal` is `final_print` of the aggregate of the rows received.

What is concrete.  Bytes, chunking, `read_until(b'\n')` (a line is complete at 0x0A, or at EOF with a
non-empty buffer), the FIFO channel with capacity and disconnect in both directions, the
`recv_timeout` loop, one write per row / one write at end of input, and the `error:` lines of the
two fault paths: a failed write (renderer: `error: …`, receiver dropped) and a failed read (reader:
`error: …`, leaves the read loop; /repo 566c084).  Every record printer returns write errors
(JsonPrinter too since /repo 1b6cc1e), so no step of this model panics a thread; the `panicked`
phases are kept so that "no thread panics" is a statement (`C17_no_panic`) rather than a convention.

A run is a list of `Label`s; `next` is a partial function (`none` = the step is not enabled).
Environment labels: `feed`, `eof`, `breakSink`, `readFail` (an I/O error on the input), and the
clock (`timeout`).  Everything else is a step of one of the two threads.
-/
import AgModel.Utf8

namespace Ag
namespace Sched

abbrev Bytes := List Nat
abbrev Line := List Nat

/-! ### `read_until(b'\n')` on a byte string -/

/-- every line keeps its newline; a last line may lack one (specification form, structural) -/
def lines : Bytes → List Line
  | [] => []
  | b :: r =>
    if b = 10 then [10] :: lines r
    else
      match lines r with
      | [] => [[b]]
      | l :: ls => (b :: l) :: ls

/-- split at the first newline: `(bytes before it, bytes after it)` -/
def splitNl : Bytes → Option (Bytes × Bytes)
  | [] => none
  | b :: r =>
    if b = 10 then some ([], r)
    else
      match splitNl r with
      | none => none
      | some (p, q) => some (b :: p, q)

/-- the lines that are complete because their newline has arrived -/
def completeLines (bs : Bytes) : List Line := (lines bs).filter (fun l => l.getLast? == some 10)

/-! ### configuration -/

structure Cfg (σ ρ : Type) where
  /-- initial state of the pre-aggregate operators -/
  init : σ
  /-- lossy decode + filter + `proc_preagg` of one line: new operator state, row to send (if any) -/
  step : σ → Line → σ × Option ρ
  /-- rows released by the drain loop at end of input -/
  drain : σ → List ρ
  /-- bytes `RecordPrinter::print` writes for a row (`Renderer::render` then writes one `\n`) -/
  body : ρ → Bytes
  /-- `true`: the query has aggregators (`render_aggregate`), stdout is not a terminal -/
  agg : Bool
  /-- the single write of `render(.., last_row = true)`: `final_print` of the aggregate of the rows -/
  aggFinal : List ρ → Bytes
  /-- channel capacity (`bounded(1000)`) -/
  cap : Nat

variable {σ ρ : Type}

def Cfg.render (c : Cfg σ ρ) (r : ρ) : Bytes := c.body r ++ [10]
def Cfg.renderAll (c : Cfg σ ρ) (rs : List ρ) : Bytes := rs.flatMap c.render

/-- the reader loop run sequentially over a list of lines: final operator state, rows sent -/
def Cfg.runLines (c : Cfg σ ρ) : σ → List Line → σ × List ρ
  | st, [] => (st, [])
  | st, l :: ls =>
    let r := c.step st l
    let r' := c.runLines r.1 ls
    (r'.1, r.2.toList ++ r'.2)

/-- sequential reference: all rows that reach the channel for a whole input (read loop, then drain) -/
def Cfg.seqRows (c : Cfg σ ρ) (ls : List Line) : List ρ :=
  (c.runLines c.init ls).2 ++ c.drain (c.runLines c.init ls).1

/-- sequential reference output bytes for a whole input byte string -/
def Cfg.seqOut (c : Cfg σ ρ) (input : Bytes) : Bytes :=
  if c.agg then c.aggFinal (c.seqRows (lines input)) else c.renderAll (c.seqRows (lines input))

/-! ### states and labels -/

inductive RdPhase where
  | running    -- in the `read_until` loop
  | draining   -- past the read loop: drain loop, `drop(tx)`, waiting in `join`
  | done       -- `process` returned
  | panicked   -- the calling thread unwound (no step produces it; see `C17_no_panic`)
  deriving DecidableEq, Repr

inductive TxState where
  | «open» | dropped
  deriving DecidableEq, Repr

inductive RnPhase where
  | running    -- in the `recv_timeout` loop
  | final      -- aggregate only: saw `Disconnected`, about to write the final table
  | done       -- the thread function returned (receiver dropped)
  | panicked   -- the thread unwound, receiver dropped (no step produces it; see `C17_no_panic`)
  deriving DecidableEq, Repr

structure State (σ ρ : Type) where
  /-- bytes the environment has supplied and `read_until` has not taken yet -/
  inbuf : Bytes := []
  eof : Bool := false
  /-- ghost: every byte supplied so far -/
  fed : Bytes := []
  reader : RdPhase := .running
  /-- partial line inside `read_until`'s buffer -/
  carry : Bytes := []
  /-- state of the pre-aggregate operators -/
  st : σ
  /-- rows computed and not yet sent (at most one in the read loop; the drain rows afterwards) -/
  outq : List ρ := []
  /-- ghost: the lines processed so far, in order -/
  consumed : List Line := []
  tx : TxState := .open
  chan : List ρ := []
  rend : RnPhase := .running
  /-- record renderer: the row received and not yet written -/
  cur : Option ρ := none
  /-- aggregate renderer: rows received (`head.process(row)`) -/
  acc : List ρ := []
  written : Bytes := []
  /-- the consumer has gone away: every later write fails -/
  sinkBroken : Bool := false
  /-- `error: …` lines printed by the renderer (write fault) -/
  errs : Nat := 0
  /-- `error: …` lines printed by the reader (read fault) -/
  rdErrs : Nat := 0
  /-- `join()` returned `Err` (the renderer thread panicked) -/
  joinErr : Bool := false

inductive Label where
  | feed (c : Bytes)      -- environment: more input bytes become readable
  | eof                   -- environment: end of input
  | breakSink             -- environment: the consumer closes the output
  | readFail              -- environment: the next read returns an `io::Error` (reader: error line, stop)
  | timeout               -- clock: `recv_timeout(50ms)` expires
  | absorb (n : Nat)      -- reader: `read_until` moves `n` newline-free bytes into its buffer
  | readLine              -- reader: a line is complete; decode, filter, pre-aggregate
  | readEof               -- reader: `read_until` returned 0
  | send                  -- reader: `tx.send(row)` succeeds
  | sendFail (n : Nat)    -- reader: `tx.send(row)` fails (receiver gone); `n` = drain rows skipped by `break`
  | dropTx                -- reader: `drop(tx)`
  | join                  -- reader: `t.join()` returns
  | recv                  -- renderer: `recv_timeout` yields a row
  | disconnect            -- renderer: `recv_timeout` yields `Disconnected`
  | write                 -- renderer: the write succeeds
  | writeFail (k : Nat)   -- renderer: the write fails after `k` bytes of it went out
  deriving Repr

/-- steps of the two threads (as opposed to the environment and the clock) -/
def Label.internal : Label → Bool
  | .feed _ | .eof | .breakSink | .readFail | .timeout => false
  | _ => true

/-- labels that inject an I/O fault -/
def Label.fault : Label → Bool
  | .breakSink | .readFail | .writeFail _ => true
  | _ => false

def init (c : Cfg σ ρ) : State σ ρ := { st := c.init }

/-- the receiving end of the channel still exists -/
def State.rxAlive (s : State σ ρ) : Bool :=
  match s.rend with
  | .running | .final => true
  | _ => false

/-- what the renderer is about to write, if it is at a write -/
def payload (c : Cfg σ ρ) (s : State σ ρ) : Option Bytes :=
  match s.rend, c.agg, s.cur with
  | .running, false, some r => some (c.render r)
  | .final, true, _ => some (c.aggFinal s.acc)
  | _, _, _ => none

/-- the reader processes one complete line -/
def consume (c : Cfg σ ρ) (s : State σ ρ) (line : Line) (rest : Bytes) : State σ ρ :=
  { s with inbuf := rest, carry := [], st := (c.step s.st line).1, outq := (c.step s.st line).2.toList,
           consumed := s.consumed ++ [line] }

def next (c : Cfg σ ρ) (s : State σ ρ) : Label → Option (State σ ρ)
  | .feed b => if s.eof then none else some { s with inbuf := s.inbuf ++ b, fed := s.fed ++ b }
  | .eof => if s.eof then none else some { s with eof := true }
  | .breakSink => some { s with sinkBroken := true }
  | .readFail =>
    match s.reader, s.outq with
    | .running, [] =>
      -- `eprintln!("error: {}", e); break`: the partial line is dropped, the drain loop follows
      some { s with reader := .draining, outq := c.drain s.st, rdErrs := s.rdErrs + 1 }
    | _, _ => none
  | .timeout =>
    match s.rend, s.cur, s.chan, s.tx with
    | .running, none, [], .open => some s
    | _, _, _, _ => none
  | .absorb n =>
    match s.reader, s.outq with
    | .running, [] =>
      if 0 < n ∧ n ≤ s.inbuf.length ∧ 10 ∉ s.inbuf.take n then
        some { s with carry := s.carry ++ s.inbuf.take n, inbuf := s.inbuf.drop n }
      else none
    | _, _ => none
  | .readLine =>
    match s.reader, s.outq with
    | .running, [] =>
      match splitNl s.inbuf with
      | some (pre, rest) => some (consume c s (s.carry ++ pre ++ [10]) rest)
      | none =>
        if s.eof = true ∧ s.inbuf = [] ∧ s.carry ≠ [] then some (consume c s s.carry []) else none
    | _, _ => none
  | .readEof =>
    match s.reader, s.outq with
    | .running, [] =>
      if s.eof = true ∧ s.inbuf = [] ∧ s.carry = [] then
        some { s with reader := .draining, outq := c.drain s.st }
      else none
    | _, _ => none
  | .send =>
    match s.outq with
    | r :: q =>
      if s.rxAlive = true ∧ s.chan.length < c.cap then some { s with outq := q, chan := s.chan ++ [r] }
      else none
    | [] => none
  | .sendFail n =>
    match s.outq with
    | _ :: _ =>
      if s.rxAlive = false then
        some { s with reader := .draining,
                      outq := if s.reader = .running then c.drain s.st else s.outq.drop (n + 1) }
      else none
    | [] => none
  | .dropTx =>
    match s.reader, s.outq, s.tx with
    | .draining, [], .open => some { s with tx := .dropped }
    | _, _, _ => none
  | .join =>
    match s.reader, s.tx, s.rend with
    | .draining, .dropped, .done => some { s with reader := .done }
    | .draining, .dropped, .panicked => some { s with reader := .done, joinErr := true }
    | _, _, _ => none
  | .recv =>
    match s.rend, s.cur, s.chan with
    | .running, none, r :: q =>
      if c.agg then some { s with chan := q, acc := s.acc ++ [r] }
      else some { s with chan := q, cur := some r }
    | _, _, _ => none
  | .disconnect =>
    match s.rend, s.cur, s.chan, s.tx with
    | .running, none, [], .dropped => some { s with rend := if c.agg then .final else .done }
    | _, _, _, _ => none
  | .write =>
    match payload c s with
    | some p =>
      if s.sinkBroken = false ∨ p = [] then
        some { s with written := s.written ++ p, cur := none,
                      rend := if c.agg then .done else s.rend }
      else none
    | none => none
  | .writeFail k =>
    match payload c s with
    | some p =>
      if k < p.length ∧ (s.sinkBroken = true → k = 0) then
        some { s with written := s.written ++ p.take k, cur := none, sinkBroken := true,
                      rend := .done, errs := s.errs + 1 }
      else none
    | none => none

/-- replay a schedule; `none` if some step is not enabled -/
def run (c : Cfg σ ρ) : List Label → State σ ρ → Option (State σ ρ)
  | [], s => some s
  | l :: ls, s =>
    match next c s l with
    | some s' => run c ls s'
    | none => none

def Reachable (c : Cfg σ ρ) (s : State σ ρ) : Prop := ∃ ls, run c ls (init c) = some s

/-- reachable by a schedule without fault labels -/
def ReachableFF (c : Cfg σ ρ) (s : State σ ρ) : Prop :=
  ∃ ls, (∀ l ∈ ls, l.fault = false) ∧ run c ls (init c) = some s

/-! ### termination measure (lexicographic pair) -/

def rdRank1 : RdPhase → Nat
  | .running => 1
  | _ => 0

def rdRank2 : RdPhase → Nat
  | .running | .draining => 1
  | _ => 0

def rnRank : RnPhase → Nat
  | .running => 2
  | .final => 1
  | _ => 0

def txRank : TxState → Nat
  | .open => 1
  | .dropped => 0

def optRank {α : Type} : Option α → Nat
  | some _ => 1
  | none => 0

def carryRank : Bytes → Nat
  | [] => 0
  | _ :: _ => 4

def State.weight (s : State σ ρ) : Nat :=
  8 * s.inbuf.length + carryRank s.carry + 3 * s.outq.length + 2 * s.chan.length
    + optRank s.cur + rdRank2 s.reader + txRank s.tx + rnRank s.rend

def State.measure (s : State σ ρ) : Nat × Nat := (rdRank1 s.reader, s.weight)

/-! ### start-up faults of `main` (src/bin/agrind.rs:69-100) -/

inductive InputArg where
  | stdin | file | missing | directory

inductive Startup where
  /-- `process` is entered; `firstReadFails`: the very first `read_until` returns an error -/
  | runs (firstReadFails : Bool)
  /-- `main` returns `Err`: one `Error: …` line, exit status 1, nothing processed -/
  | cleanError

/-- `File::open` fails on a missing path (clean error of `main`) but *succeeds* on a directory: the
error then comes from the first read (`EISDIR`), i.e. a `readFail` at line 0. -/
def startup : InputArg → Startup
  | .stdin | .file => .runs false
  | .missing => .cleanError
  | .directory => .runs true

/-! ### concrete instance used by the driver (`SCHED`) -/

/-- rows are their own body bytes; the `i`-th processed line yields `table[i]`; `tail` rows come
out of the drain loop -/
def tableCfg (table : List (Option Bytes)) (tail : List Bytes) (agg : Bool) (cap : Nat) :
    Cfg Nat Bytes :=
  { init := 0,
    step := fun i _ => (i + 1, (table.getD i none)),
    drain := fun _ => tail,
    body := id,
    agg := agg,
    aggFinal := fun rows => rows.flatMap (fun r => r ++ [10]),
    cap := cap }

end Sched
end Ag
