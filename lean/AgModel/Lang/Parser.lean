/-
Executable model of the query parser, src/lang.rs:577-1682 (`query()` = `parse_search`, then
`'|' parse_operators`), transcribed alternative by alternative in source order, INCLUDING the
recovery combinators (`expect`, `expect_fn`, `expect_delimited`, `expect_pipe`, `expr`,
`req_quoted_string`, `did_you_mean`, `garbage`, `skip_to_end_of_query`) with their exact
consumption behaviour.

Shape of the model
-----------------
* input = `List Char`; parser state = (remaining input, error count).  The error count is
  `QueryContainer::error_count`: it is a side effect, so it SURVIVES backtracking (`fail` carries
  it).  `query()` answers Err iff the count is > 0 at the end (or a nom error escapes).
* `Res.fail pos errs` = nom `Err::Error` with `nom::error::Error { input = pos }`.  The position
  is needed: `expect`/`expect_fn` resume from the *error's* input, not from their own input
  (lang.rs:253, 282).  `alt` keeps the LAST alternative's error (`Error::or`/`append` return
  `other`).
* `Res.failure` = nom `Err::Failure`; the only source is `cut(digit1)` inside nom's
  `recognize_float` (`limit 1e`), nothing catches it on that path → the query is rejected.
* `to_sync_point`/`to_whitespace` compute CHAR indices which are then used as BYTE offsets
  (`input.slice(end..)`), and `expect_delimited`'s skip loop advances one BYTE at a time:
  `sliceBytes` answers `none` exactly when the byte offset is not a char boundary = Rust panics.
* loops take fuel = remaining length + 1 (every iteration consumes ≥ 1 char, as nom's own
  infinite-loop checks demand); nesting takes fuel = query length + 2.  `unmod "fuel"` is
  unreachable.
* `parse regex`: `regex::Regex::new` is outside the model.  When no diagnostic has been reported
  yet (so the answer depends on it) and the pattern is outside a small conservative fragment
  (`reAnalyse`), the answer is `unmodelled`.

DEFECTS FOUND THROUGH THIS MODEL (C04 / C20 / C02).  The first version of this file mirrored
the unchanged tree; every item below was a disagreement-free reproduction (PARSE witnesses in
harness/src/props/parse.rs `WITNESSES`), was then reproduced on the real code by the C04 / C20
oracles (evidence/C04.before-fixes.json, evidence/C20.before-fixes.json) and repaired in /repo.
The model now mirrors the REPAIRED code; comments at each definition name the commit.

 A. `query()` never checked that the input was exhausted: `* | json | fields x b`,
    `* | json | n + 1 as m extra | limit 1`, `* | json | sorted by x | limit 1`, `* | json | apache x`,
    ` | count` (blanks before the first bar ⇒ no operators at all).            fixed a4c4b50
 B. `did_you_mean` succeeded WITHOUT a report when the leading identifier is a valid operator
    name, leaving `Operator::Error` (skipped by Pipeline::new): `* | json | count by x y`,
    `* | json | fields except`, `* | json | count_distinct x`, `* | parse`.    fixed aca43de
 C. `tag("asc")`/`tag("desc")` before the long spellings: `sort by x descending | limit 1` lost
    the limit.                                                                 fixed 96a22d2
    Keywords were prefix tags without a word boundary (`countby x`, `parse "*" asx`,
    `fields onlyx` accepted; `minutes as m`, `maximum as z`, `p50x as y`, `trueish`/`nullable`
    inside expressions rejected or misread).                                   fixed 0324001 (`kw`)
 D. AND / OR took exactly two operands: `a AND b AND c` searched for the word "AND".  fixed f43daf2
    A `*`-only / empty keyword under OR or NOT was dropped (`a OR *` = `a`, `NOT *` = `*`; found by
    the C02 check).                                                            fixed 0ef6700
 E. `c as u8` in is_ident/starts_ident/is_keyword: `š1 as x` accepted (U+0161 ≡ 'a').  fixed 1e96979
 F. Panics: char indices used as byte offsets and a byte-wise skip loop (`(a é`, `* | where é|`,
    `* | json | count(é)`, `* | parse é x`) fixed 8ce3d1f; chrono duration constructors / Add
    (`9223372036854775807w`, `-9223372036854775808ms`, `9000000000000000s9000000000000000s`)
    fixed c7b3e3a.  (Related, outside the parser: byte ranges handed to annotate-snippets a08f142,
    `limit -9223372036854775808` 68d8770.)
 G. Blanks: before `)` of a single-argument operator / parenthesised expression, just inside
    filter parentheses, before `,` in a name list.                             fixed dfe3426
 Open: the header of a `by` key is its source text (`sourcedExpr`), so spelling changes the output
 column; `p99(x), percentile099(y)` both become column "p99".

Quirks that remain and are mirrored here: `digit1` numbers and duration units are prefix matches
(`5x` = 5 then `x`); a column named exactly like an aggregate (`max + 1 as y`, `p50 + 1 as y`) is
the aggregate; no negative or fractional number literals in expressions (`x == -5`, `x > 1.5` rejected);
`limit inf` / `limit nan` are accepted by the parser (the type checker rejects them); `limit 1e` is
a nom `Failure` (rejected without any diagnostic).

Not modelled: the text/ranges of diagnostics; `regex::Regex::new` beyond `reAnalyse`.
-/
import AgModel.Ast
import AgModel.Value
import AgModel.Text

namespace Ag
namespace Lang

/-! ### result type and combinators -/

inductive Res (α : Type) where
  | ok (v : α) (rest : List Char) (errs : Nat)
  | fail (pos : List Char) (errs : Nat)       -- nom `Err::Error`, `pos` = the error's input
  | failure (pos : List Char) (errs : Nat)    -- nom `Err::Failure`
  | panic (site : String)
  | unmod (why : String)
deriving Inhabited

/-- parser state = remaining input × `QueryContainer::error_count` -/
def P (α : Type) : Type := List Char → Nat → Res α

namespace P
@[inline] def pure' {α} (a : α) : P α := fun i e => .ok a i e
@[inline] def bind' {α β} (p : P α) (f : α → P β) : P β := fun i e =>
  match p i e with
  | .ok a r e1 => f a r e1
  | .fail p e1 => .fail p e1
  | .failure p e1 => .failure p e1
  | .panic s => .panic s
  | .unmod w => .unmod w
instance : Monad P where
  pure := pure'
  bind := bind'
end P

/-- re-type a non-`ok` result -/
def Res.castErr {α β : Type} : Res α → Res β
  | .ok _ _ _ => .unmod "internal: castErr on ok"
  | .fail p e => .fail p e
  | .failure p e => .failure p e
  | .panic s => .panic s
  | .unmod w => .unmod w

def panicSlice (line : String) : String := "lang.rs:" ++ line ++ " slice at non-char-boundary"

/-- `tag(s)` (nom_supreme): prefix match, error at the input -/
def tag (s : String) : P Unit := fun i e =>
  match Text.stripPrefix? s.toList i with
  | some r => .ok () r e
  | none => .fail i e

def satisfy (f : Char → Bool) : P Char := fun i e =>
  match i with
  | c :: cs => if f c then .ok c cs e else .fail i e
  | [] => .fail i e

def anychar : P Char := satisfy (fun _ => true)

def takeWhile0 (f : Char → Bool) : P (List Char) := fun i e => .ok (i.takeWhile f) (i.dropWhile f) e

def takeWhile1 (f : Char → Bool) : P (List Char) := fun i e =>
  match i with
  | c :: _ => if f c then .ok (i.takeWhile f) (i.dropWhile f) e else .fail i e
  | [] => .fail i e

/-- `multispace0` -/
def ws0 : P Unit := fun i e => .ok () (i.dropWhile Text.isMultispace) e
/-- `multispace1` -/
def ws1 : P Unit := fun i e =>
  match i with
  | c :: _ => if Text.isMultispace c then .ok () (i.dropWhile Text.isMultispace) e else .fail i e
  | [] => .fail i e

/-- `digit1` (ASCII digits) -/
def digit1 : P (List Char) := takeWhile1 Char.isDigit

def eof : P Unit := fun i e => if i.isEmpty then .ok () i e else .fail i e

def failHere {α} : P α := fun i e => .fail i e

def unmodP {α} (why : String) : P α := fun _ _ => .unmod why

/-- `report_error_for(..)…send_report()` : one more diagnostic -/
def report : P Unit := fun i e => .ok () i (e + 1)

def getErrs : P Nat := fun i e => .ok e i e

/-- ordered choice of two; on double failure the second error is kept -/
def alt {α} (p q : P α) : P α := fun i e =>
  match p i e with
  | .fail _ e1 => q i e1
  | r => r

/-- `alt((p1, …, pn))` -/
def altL {α} : List (P α) → P α
  | [] => failHere
  | [p] => p
  | p :: ps => alt p (altL ps)

def opt {α} (p : P α) : P (Option α) := fun i e =>
  match p i e with
  | .ok v r e1 => .ok (some v) r e1
  | .fail _ e1 => .ok none i e1
  | .failure p e1 => .failure p e1
  | .panic s => .panic s
  | .unmod w => .unmod w

def peek {α} (p : P α) : P α := fun i e =>
  match p i e with
  | .ok v _ e1 => .ok v i e1
  | r => r

/-- `not(p)` -/
def notP {α} (p : P α) : P Unit := fun i e =>
  match p i e with
  | .ok _ _ e1 => .fail i e1
  | .fail _ e1 => .ok () i e1
  | .failure p e1 => .failure p e1
  | .panic s => .panic s
  | .unmod w => .unmod w

/-- `recognize(p)`: the consumed text -/
def recognize {α} (p : P α) : P (List Char) := fun i e =>
  match p i e with
  | .ok _ r e1 => .ok (i.take (i.length - r.length)) r e1
  | r => r.castErr

def pmap {α β} (f : α → β) (p : P α) : P β := fun i e =>
  match p i e with
  | .ok v r e1 => .ok (f v) r e1
  | r => r.castErr

/-! ### repetition (fuel = remaining length + 1) -/

def many0Loop {α} (f : P α) : Nat → List α → List Char → Nat → Res (List α)
  | 0, _, _, _ => .unmod "fuel"
  | n + 1, acc, i, e =>
    match f i e with
    | .fail _ e1 => .ok acc.reverse i e1
    | .ok o i1 e1 =>
      if i1.length == i.length then .fail i e1 else many0Loop f n (o :: acc) i1 e1
    | r => r.castErr

def many0 {α} (f : P α) : P (List α) := fun i e => many0Loop f (i.length + 1) [] i e

/-- `fold_many0(f, init, g)` -/
def foldLoop {α β} (f : P β) (g : α → β → α) : Nat → α → List Char → Nat → Res α
  | 0, _, _, _ => .unmod "fuel"
  | n + 1, acc, i, e =>
    match f i e with
    | .fail _ e1 => .ok acc i e1
    | .ok o i1 e1 =>
      if i1.length == i.length then .fail i e1 else foldLoop f g n (g acc o) i1 e1
    | r => r.castErr

def foldMany0 {α β} (f : P β) (init : α) (g : α → β → α) : P α :=
  fun i e => foldLoop f g (i.length + 1) init i e

/-- `many_till(f, g)`; the result of `g` is dropped -/
def manyTillLoop {α β} (f : P α) (g : P β) : Nat → List α → List Char → Nat → Res (List α)
  | 0, _, _, _ => .unmod "fuel"
  | n + 1, acc, i, e =>
    match g i e with
    | .ok _ i1 e1 => .ok acc.reverse i1 e1
    | .fail _ e1 =>
      match f i e1 with
      | .fail p e2 => .fail p e2
      | .ok o i1 e2 =>
        if i1.length == i.length then .fail i1 e2 else manyTillLoop f g n (o :: acc) i1 e2
      | r => r.castErr
    | r => r.castErr

def manyTill {α β} (f : P α) (g : P β) : P (List α) :=
  fun i e => manyTillLoop f g (i.length + 1) [] i e

def sepLoop {α β} (sep : P β) (f : P α) : Nat → List α → List Char → Nat → Res (List α)
  | 0, _, _, _ => .unmod "fuel"
  | n + 1, acc, i, e =>
    match sep i e with
    | .fail _ e1 => .ok acc.reverse i e1
    | .ok _ i1 e1 =>
      if i1.length == i.length then .fail i1 e1 else
      match f i1 e1 with
      | .fail _ e2 => .ok acc.reverse i e2
      | .ok o i2 e2 => sepLoop sep f n (o :: acc) i2 e2
      | r => r.castErr
    | r => r.castErr

/-- `separated_list1(sep, f)` -/
def sepList1 {α β} (sep : P β) (f : P α) : P (List α) := fun i e =>
  match f i e with
  | .ok o i1 e1 => sepLoop sep f (i1.length + 1) [o] i1 e1
  | r => r.castErr

/-- `separated_list0(sep, f)` -/
def sepList0 {α β} (sep : P β) (f : P α) : P (List α) := fun i e =>
  match f i e with
  | .ok o i1 e1 => sepLoop sep f (i1.length + 1) [o] i1 e1
  | .fail _ e1 => .ok [] i e1
  | r => r.castErr

/-! ### offsets: char indices used as byte offsets -/

def isSyncCh (c : Char) : Bool := c == '|' || c == ')' || c == ']' || c == '}'
def isWsSyncCh (c : Char) : Bool := c == ' ' || c == '\t' || c == '\n'

/-- `to_sync_point().end - location_offset()` : BYTE offset of the first sync char (`char_indices`),
else the byte length.  (Before repo commit 8ce3d1f this was the CHAR index, used as a byte offset.) -/
def syncIdx (s : List Char) : Nat := Text.utf8Len (s.takeWhile (fun c => !isSyncCh c))

/-- `to_whitespace().len()` -/
def wsIdx (s : List Char) : Nat := Text.utf8Len (s.takeWhile (fun c => !isWsSyncCh c))

/-- `&s[n..]` with `n` a BYTE offset: `none` = not a char boundary / out of range = panic -/
def sliceBytes : List Char → Nat → Option (List Char)
  | s, 0 => some s
  | [], _ + 1 => none
  | c :: cs, n + 1 => if c.utf8Size ≤ n + 1 then sliceBytes cs (n + 1 - c.utf8Size) else none

def resumeAt {α} (line : String) (pos : List Char) (n : Nat) (errs : Nat) (v : α) : Res α :=
  match sliceBytes pos n with
  | some r => .ok v r errs
  | none => .panic (panicSlice line)

/-- `expect` (lang.rs:243) and `expect_fn` (lang.rs:272): on Error/Failure report once and resume
at the sync point *of the error's input* -/
def expectAt {α} (line : String) (p : P α) : P (Option α) := fun i e =>
  match p i e with
  | .ok v r e1 => .ok (some v) r e1
  | .fail pos e1 => resumeAt line pos (syncIdx pos) (e1 + 1) none
  | .failure pos e1 => resumeAt line pos (syncIdx pos) (e1 + 1) none
  | .panic s => .panic s
  | .unmod w => .unmod w

def expect {α} (p : P α) : P (Option α) := expectAt "262" p
def expectFn {α} (p : P α) : P (Option α) := expectAt "287" p

/-- the skip loop of `expect_delimited`: one CHARACTER at a time (one byte before 8ce3d1f) -/
def skipLoop {α} (third : P Unit) (o2 : α) : List Char → Nat → Res α
  | [], e => .ok o2 [] (e + 1)
  | _ :: cs, e =>
    match third cs e with
    | .ok _ r e1 => .ok o2 r (e1 + 1)
    | .fail _ e1 => skipLoop third o2 cs e1
    | .failure _ e1 => skipLoop third o2 cs e1
    | .panic s => .panic s
    | .unmod w => .unmod w

/-- `expect_delimited(first, second, third, error_fn)` (every `error_fn` reports exactly once) -/
def expectDelimited {α β} (first : P β) (second : P α) (third : P Unit) : P α := fun i e =>
  match first i e with
  | .ok _ r1 e1 =>
    match second r1 e1 with
    | .ok o2 r2 e2 =>
      match third r2 e2 with
      | .ok _ r3 e3 => .ok o2 r3 e3
      | .fail _ e3 => skipLoop third o2 r2 e3
      | .failure _ e3 => skipLoop third o2 r2 e3
      | .panic s => .panic s
      | .unmod w => .unmod w
    | r => r.castErr
  | r => r.castErr

/-- `end_of_query` -/
def endOfQuery : P Unit := peek (ws0 *> alt (peek (tag "|")) eof)

/-- `expect_pipe(msg)` -/
def expectPipe : P Unit := pmap (fun _ => ()) (expect (peek (ws0 *> alt (tag "|") eof)))

/-! ### character classes (ASCII) -/

def isAlpha8 (b : Nat) : Bool := (0x41 ≤ b && b ≤ 0x5A) || (0x61 ≤ b && b ≤ 0x7A)
def isDigit8 (b : Nat) : Bool := 0x30 ≤ b && b ≤ 0x39
def isAlnum8 (b : Nat) : Bool := isAlpha8 b || isDigit8 b

/-- `is_ident` etc. test the character itself (`is_ascii_alphanumeric`); before repo commit
1e96979 they tested `c as u8`, i.e. `c.toNat % 256` -/
def isIdentCh (c : Char) : Bool := isAlnum8 c.toNat || c == '_'
def startsIdentCh (c : Char) : Bool := isAlpha8 c.toNat || c == '_'
def isKeywordCh (c : Char) : Bool :=
  c == '-' || c == '_' || c == ':' || c == '/' || c == '.' || c == '+' || c == '@' || c == '#' ||
  c == '$' || c == '%' || c == '^' || c == '*' || isAlnum8 c.toNat

/-- `kw(word)`: the tag NOT directly followed by an identifier character (repo commit 0324001;
before it keywords were plain prefix tags: `countby x` = `count by x`, `trueish` = `true` + `ish`) -/
def kw (s : String) : P Unit := tag s <* notP (satisfy isIdentCh)

/-! ### quoted strings -/

/-- `escaped(none_of("\\" ++ q), '\\', escaped_chars)` : `none` = Err (leading quote char handled by
the caller, trailing lone backslash), else (content, rest) -/
def escScan (q : Char) : List Char → Option (List Char × List Char)
  | [] => some ([], [])
  | c :: cs =>
    if c == '\\' then
      match cs with
      | [] => none
      | d :: ds =>
        match escScan q ds with
        | some (a, r) => some (c :: d :: a, r)
        | none => none
    else if c == q then some ([], c :: cs)
    else
      match escScan q cs with
      | some (a, r) => some (c :: a, r)
      | none => none

/-- `alt((escaped(..), tag("")))` -/
def escBody (q : Char) : P (List Char) := fun i e =>
  match escScan q i with
  | some (a, r) => .ok a r e
  | none => .ok [] i e

/-- `escaped_str_transformer` -/
def unescapeGo : Bool → List Char → List Char
  | _, [] => []
  | false, c :: cs => if c == '\\' then unescapeGo true cs else c :: unescapeGo false cs
  | true, c :: cs =>
    (if c == '\\' then ['\\']
     else if c == 't' then ['\t']
     else if c == 'r' then ['\r']
     else if c == 'n' then ['\n']
     else if c == '0' then [Char.ofNat 0]
     else if c == '\'' then ['\'']
     else if c == '"' then ['"']
     else ['\\', c]) ++ unescapeGo false cs

def quotedString : P String :=
  pmap (fun cs => String.ofList (unescapeGo false cs))
    (alt (expectDelimited (tag "'") (escBody '\'') (tag "'"))
         (expectDelimited (tag "\"") (escBody '"') (tag "\"")))

/-- `req_quoted_string` (lang.rs:1239) -/
def reqQuotedString : P String := fun i e =>
  match quotedString i e with
  | .ok v r e1 => .ok v r e1
  | .fail _ e1 => resumeAt "1252" i (wsIdx i) (e1 + 1) ""
  | .failure _ e1 => resumeAt "1252" i (wsIdx i) (e1 + 1) ""
  | .panic s => .panic s
  | .unmod w => .unmod w

/-! ### identifiers, literals -/

def bareIdent : P String := fun i e =>
  match i with
  | c :: cs =>
    if startsIdentCh c then .ok (String.ofList (c :: cs.takeWhile isIdentCh)) (cs.dropWhile isIdentCh) e
    else .fail i e
  | [] => .fail i e

def escapedIdent : P String := expectDelimited (tag "[") quotedString (tag "]")

def ident : P String := alt bareIdent escapedIdent

/-- `req_ident` -/
def reqIdent : P String := pmap (fun o => o.getD "") (expectFn ident)

/-- `i64_parse`: `map_res(recognize(opt("-") digit1), parse::<i64>)`, error at the original input -/
def i64Parse : P Int := fun i e =>
  match recognize (opt (tag "-") *> digit1) i e with
  | .ok txt r e1 =>
    match Value.parseI64 txt with
    | some v => .ok v r e1
    | none => .fail i e1
  | r => r.castErr

def unitNs : List (String × Int) :=
  [("ns", 1), ("us", 1000), ("ms", 1000000), ("s", 1000000000), ("m", 60 * 1000000000),
   ("h", 3600 * 1000000000), ("d", 86400 * 1000000000), ("w", 604800 * 1000000000)]

def unitTag : List (String × Int) → P (String × Int)
  | [] => failHere
  | [(u, k)] => pmap (fun _ => (u, k)) (tag u)
  | (u, k) :: rest => alt (pmap (fun _ => (u, k)) (tag u)) (unitTag rest)

/-- `duration_fragment`: the checked chrono constructors (`try_weeks` …) answer `None` outside
±i64::MAX milliseconds and `map_opt` turns that into an error at the unit's position.  (Before
repo commit c7b3e3a the unchecked constructors panicked.) -/
def durationFragment : P Int := fun i e =>
  match i64Parse i e with
  | .ok amount r e1 =>
    match unitTag unitNs r e1 with
    | .ok (_, k) r2 e2 =>
      if Value.inDur (amount * k) then .ok (amount * k) r2 e2 else .fail r e2
    | r => r.castErr
  | r => r.castErr

/-- the fold of `duration`: the accumulator is `None` once a `checked_add` overflowed -/
def durLoop : Nat → Option Int → List Char → Nat → Res (Option Int)
  | 0, _, _, _ => .unmod "fuel"
  | n + 1, acc, i, e =>
    match durationFragment i e with
    | .fail _ e1 => .ok acc i e1
    | .ok d i1 e1 =>
      let acc' := match acc with
        | some a => if Value.inDur (a + d) then some (a + d) else none
        | none => none
      durLoop n acc' i1 e1
    | r => r.castErr

/-- `duration` = `map_opt(fold_many1(duration_fragment, Some(zero), checked_add))`; a failing first
fragment and an overflowed sum are both errors at the input -/
def duration : P Int := fun i e =>
  match durationFragment i e with
  | .ok d i1 e1 =>
    match durLoop (i1.length + 1) (some d) i1 e1 with
    | .ok (some total) r e2 => .ok total r e2
    | .ok none _ e2 => .fail i e2
    | r => r.castErr
  | .fail _ e1 => .fail i e1
  | r => r

def valueP : P Value :=
  altL [pmap Value.str quotedString,
        pmap Value.dur duration,
        pmap (fun d => Value.fromString (String.ofList d)) digit1,
        pmap (fun _ => Value.bool true) (kw "true"),
        pmap (fun _ => Value.bool false) (kw "false"),
        pmap (fun _ => Value.none) (kw "null")]

def dotProperty : P Ref := pmap Ref.field (tag "." *> ident)
def indexAccess : P Ref := pmap Ref.idx (tag "[" *> i64Parse <* tag "]")

def columnRef : P Expr := do
  let h ← ident
  let rest ← many0 (alt dotProperty indexAccess)
  pure (.col h rest)

/-! ### expressions (each level parameterised by the enclosing `expr` / `opt_expr`) -/

/-- `arg_list` -/
def argList (optE : P Expr) : P (List Expr) :=
  expectDelimited (tag "(" *> ws0) (sepList0 (tag ",") (ws0 *> optE <* ws0)) (tag ")")

/-- `single_arg` -/
def singleArg (optE : P Expr) : P Expr :=
  expectDelimited (tag "(" *> ws0) (pmap (fun o => o.getD Expr.error) (expectFn optE)) (ws0 *> tag ")")

/-- `req_single_arg` -/
def reqSingleArg (optE : P Expr) : P Expr :=
  pmap (fun o => o.getD Expr.error) (expectFn (singleArg optE))

/-- `kw_expr(keyword, _)` -/
def kwExpr (kw : String) (optE : P Expr) : P (Option Expr) := do
  let r ← opt (ws1 *> tag kw)
  match r with
  | none => pure none
  | some _ => pmap (fun o => some (o.getD Expr.error)) (expectFn (ws1 *> optE))

def fcall (optE : P Expr) : P Expr := do
  let n ← ident
  let args ← argList optE
  pure (.call n args)

def ifOp (optE : P Expr) : P Expr := do
  tag "if"
  let args ← argList optE
  match args with
  | [c, t, f] => pure (.ifop c t f)
  | _ => do report; pure .error

def atomic (pe optE : P Expr) : P Expr :=
  altL [ifOp optE, fcall optE, pmap Expr.val valueP, columnRef,
        expectDelimited (tag "(") pe (ws0 *> tag ")")]

def unary (pe optE : P Expr) : P Expr := do
  let op ← opt (tag "!")
  match op with
  | none => atomic pe optE
  | some _ => pmap (fun o => Expr.not (o.getD Expr.error)) (expectFn (atomic pe optE))

def muldivOp : P ArithOp := alt (pmap (fun _ => ArithOp.mul) (tag "*")) (pmap (fun _ => ArithOp.div) (tag "/"))
def addsubOp : P ArithOp := alt (pmap (fun _ => ArithOp.add) (tag "+")) (pmap (fun _ => ArithOp.sub) (tag "-"))

def term (pe optE : P Expr) : P Expr := do
  let init ← unary pe optE
  foldMany0
    (do let op ← (ws0 *> muldivOp <* ws0)
        let r ← opt (unary pe optE)
        match r with
        | some x => pure (op, x)
        | none => do report; pure (op, Expr.error))
    init (fun l (p : ArithOp × Expr) => Expr.arith p.1 l p.2)

def arithExpr (pe optE : P Expr) : P Expr := do
  let init ← term pe optE
  foldMany0
    (do let op ← (ws0 *> addsubOp <* ws0)
        let r ← expectFn (term pe optE)
        pure (op, r.getD Expr.error))
    init (fun l (p : ArithOp × Expr) => Expr.arith p.1 l p.2)

def compOp : P CmpOp :=
  altL [pmap (fun _ => CmpOp.eq) (tag "=="), pmap (fun _ => CmpOp.neq) (tag "!="),
        pmap (fun _ => CmpOp.neq) (tag "<>"), pmap (fun _ => CmpOp.gte) (tag ">="),
        pmap (fun _ => CmpOp.lte) (tag "<="), pmap (fun _ => CmpOp.gt) (tag ">"),
        pmap (fun _ => CmpOp.lt) (tag "<")]

def cmpExpr (pe optE : P Expr) : P Expr := do
  ws0
  let l ← arithExpr pe optE
  let r ← opt (do let op ← (ws0 *> compOp <* ws0)
                  let rhs ← expect (arithExpr pe optE)
                  pure (op, rhs.getD Expr.error))
  match r with
  | none => pure l
  | some (op, rhs) => pure (.cmp op l rhs)

def logicalAnd (pe optE : P Expr) : P Expr := do
  let init ← cmpExpr pe optE
  foldMany0
    (do let r ← alt (do ws1; kw "and"; opt (ws1 *> cmpExpr pe optE))
                    (do ws0; tag "&&"; ws0; opt (cmpExpr pe optE))
        match r with
        | some x => pure x
        | none => do report; pure Expr.error)
    init (fun l r => Expr.logic .and l r)

def logicalOr (pe optE : P Expr) : P Expr := do
  let init ← logicalAnd pe optE
  foldMany0
    (do let r ← alt (do ws1; kw "or"; opt (ws1 *> logicalAnd pe optE))
                    (do ws0; tag "||"; ws0; opt (logicalAnd pe optE))
        match r with
        | some x => pure x
        | none => do report; pure Expr.error)
    init (fun l r => Expr.logic .or l r)

/-- `expr` given `opt_expr` (lang.rs:1134): never fails; resumes at the sync point of ITS input -/
def exprOf (optE : P Expr) : P Expr := fun i e =>
  match optE i e with
  | .ok v r e1 => .ok v r e1
  | .fail _ e1 => resumeAt "1148" i (syncIdx i) (e1 + 1) Expr.error
  | .failure _ e1 => resumeAt "1148" i (syncIdx i) (e1 + 1) Expr.error
  | .panic s => .panic s
  | .unmod w => .unmod w

/-- `opt_expr` with nesting fuel -/
def optExprN : Nat → P Expr
  | 0 => fun _ _ => .unmod "fuel"
  | n + 1 => ws0 *> logicalOr (exprOf (optExprN n)) (optExprN n)

def exprN (n : Nat) : P Expr := exprOf (optExprN n)

/-! ### filters -/

def trimStars (cs : List Char) : List Char :=
  ((cs.dropWhile (· == '*')).reverse.dropWhile (· == '*')).reverse

def filterAtom : P (Option Search) :=
  alt (pmap (fun s => if s.isEmpty then none else some (Search.kw { text := s, ty := .exact })) quotedString)
      (pmap (fun cs =>
          let t := trimStars cs
          if t.isEmpty then none else some (Search.kw { text := String.ofList t, ty := .wildcard }))
        (takeWhile1 isKeywordCh))

/-- `filter_not`: an empty keyword (`*`, `""`: `none`) stands for every line, its negation selects
nothing: `NOT none = Not (And [])` (before repo commit 0ef6700 `NOT none = none`) -/
def filterNot (low : P (Option Search)) : P (Option Search) :=
  pmap (fun o => some (Search.not (o.getD (Search.and [])))) (tag "NOT" *> ws1 *> low)

/-- `filter_chain`: the operands of a chain of `AND`s / `OR`s; empty keywords drop out -/
def filterChain (mk : List Search → Search) (operands : List (Option Search)) : Option Search :=
  match operands.filterMap id with
  | [] => none
  | [x] => some x
  | xs => some (mk xs)

/-- `mid_filter`: `low (AND low)*` (exactly two operands before repo commit f43daf2) -/
def midFilter (low : P (Option Search)) : P (Option Search) :=
  pmap (filterChain Search.and) (sepList1 (ws1 *> tag "AND" <* ws1) low)

/-- the operands of an OR chain: an empty keyword (every line) makes the whole chain "every line"
(`none`); before repo commit 0ef6700 it was dropped like in an AND chain -/
def orChain (operands : List (Option Search)) : Option Search :=
  if operands.any Option.isNone then none else filterChain Search.or operands

/-- `high_filter`: `mid (OR mid)*` -/
def highFilter (low : P (Option Search)) : P (Option Search) :=
  pmap orChain (sepList1 (ws1 *> tag "OR" <* ws1) (midFilter low))

def lowFilterN : Nat → P (Option Search)
  | 0 => fun _ _ => .unmod "fuel"
  | n + 1 =>
    altL [filterNot (lowFilterN n), filterAtom,
          expectDelimited (tag "(" <* ws0) (highFilter (lowFilterN n)) (ws0 *> tag ")")]

/-- `parse_search` -/
def parseSearch (n : Nat) : P Search :=
  pmap (fun l => Search.and (l.filterMap id))
    (manyTill (ws0 *> highFilter (lowFilterN n) <* ws0) endOfQuery)

/-! ### `regex::Regex::new` on a conservative fragment -/

structure ReSt where
  depth : Nat := 0
  canQuant : Bool := false       -- previous item is a quantifiable atom
  emptyBranch : Bool := true     -- nothing since the last `(` / `|` / start
  named : List String := []      -- reversed
  unnamed : Nat := 0

def reLit (c : Char) : Bool :=
  c.isAlphanum || c == ' ' || c == '_' || c == '-' || c == ':' || c == '/' || c == '=' || c == ',' ||
  c == ';' || c == '@' || c == '%' || c == '!' || c == '"' || c == '\'' || c == '<' || c == '>' ||
  c == '&' || c == '~' || c == '#'

def reEscClass (c : Char) : Bool := c == 'd' || c == 'D' || c == 'w' || c == 'W' || c == 's' || c == 'S'
def reEscPunct (c : Char) : Bool := ".\\/[](){}*+?|^$-\"':=,;@%!#&~_".toList.contains c

def reClassLit (c : Char) : Bool :=
  c.isAlphanum || " _:/=,;@%!\"'<>#.+*?()|$".toList.contains c

/-- body of a `[...]` class after the optional `^`: items until `]`; `none` = unsupported -/
def reClassBody : Nat → Bool → List Char → Option (List Char)
  | 0, _, _ => none
  | _ + 1, _, [] => none
  | n + 1, nonEmpty, c :: cs =>
    if c == ']' then (if nonEmpty then some cs else none)
    else if c == '\\' then
      match cs with
      | d :: ds => if reEscClass d || d == '.' || d == '\\' || d == '/' || d == '[' || d == ']' || d == '-' || d == '^'
                   then reClassBody n true ds else none
      | [] => none
    else if c.isAlphanum then
      match cs with
      | '-' :: hi :: rest =>
        if hi.isAlphanum && c.toNat ≤ hi.toNat then reClassBody n true rest
        else none
      | _ => reClassBody n true cs
    else if reClassLit c then reClassBody n true cs
    else none

def reName (cs : List Char) : Option (String × List Char) :=
  match cs with
  | c :: _ =>
    if c.isAlpha || c == '_' then
      let nm := cs.takeWhile (fun x => x.isAlphanum || x == '_')
      match cs.dropWhile (fun x => x.isAlphanum || x == '_') with
      | '>' :: rest => some (String.ofList nm, rest)
      | _ => none
    else none
  | [] => none

/-- counted repetition `{n}`, `{n,}`, `{n,m}` (small) after the `{` -/
def reCounted (cs : List Char) : Option (List Char) :=
  let a := cs.takeWhile Char.isDigit
  let r := cs.dropWhile Char.isDigit
  if a.isEmpty || a.length > 2 then none else
  match r with
  | '}' :: rest => some rest
  | ',' :: r2 =>
    let b := r2.takeWhile Char.isDigit
    match r2.dropWhile Char.isDigit with
    | '}' :: rest =>
      if b.isEmpty then some rest
      else if b.length > 2 then none
      else if Value.digitsToNat a ≤ Value.digitsToNat b then some rest else none
    | _ => none
  | _ => none

def reScan : Nat → List Char → ReSt → Option ReSt
  | 0, _, _ => none
  | _ + 1, [], st => if st.depth == 0 && !st.emptyBranch then some st else none
  | n + 1, c :: cs, st =>
    if c == '(' then
      match cs with
      | '?' :: ':' :: rest => reScan n rest { st with depth := st.depth + 1, canQuant := false, emptyBranch := true }
      | '?' :: 'P' :: '<' :: rest =>
        match reName rest with
        | some (nm, r) =>
          if st.named.contains nm then none
          else reScan n r { st with depth := st.depth + 1, canQuant := false, emptyBranch := true, named := nm :: st.named }
        | none => none
      | '?' :: '<' :: rest =>
        match reName rest with
        | some (nm, r) =>
          if st.named.contains nm then none
          else reScan n r { st with depth := st.depth + 1, canQuant := false, emptyBranch := true, named := nm :: st.named }
        | none => none
      | '?' :: _ => none
      | _ => reScan n cs { st with depth := st.depth + 1, canQuant := false, emptyBranch := true, unnamed := st.unnamed + 1 }
    else if c == ')' then
      if st.depth == 0 || st.emptyBranch then none
      else reScan n cs { st with depth := st.depth - 1, canQuant := true, emptyBranch := false }
    else if c == '|' then
      if st.emptyBranch then none else reScan n cs { st with canQuant := false, emptyBranch := true }
    else if c == '*' || c == '+' || c == '?' then
      if !st.canQuant then none else
      match cs with
      | '?' :: rest => reScan n rest { st with canQuant := false }
      | _ => reScan n cs { st with canQuant := false }
    else if c == '{' then
      if !st.canQuant then none else
      match reCounted cs with
      | some rest =>
        match rest with
        | '?' :: r2 => reScan n r2 { st with canQuant := false }
        | _ => reScan n rest { st with canQuant := false }
      | none => none
    else if c == '.' then reScan n cs { st with canQuant := true, emptyBranch := false }
    else if c == '^' || c == '$' then reScan n cs { st with canQuant := false, emptyBranch := false }
    else if c == '[' then
      let body := match cs with
        | '^' :: r => r
        | r => r
      match reClassBody (body.length + 1) false body with
      | some rest => reScan n rest { st with canQuant := true, emptyBranch := false }
      | none => none
    else if c == '\\' then
      match cs with
      | d :: ds =>
        if reEscClass d || reEscPunct d then reScan n ds { st with canQuant := true, emptyBranch := false }
        else if d == 'b' || d == 'B' then reScan n ds { st with canQuant := false, emptyBranch := false }
        else none
      | [] => none
    else if reLit c then reScan n cs { st with canQuant := true, emptyBranch := false }
    else none

/-- `some (named capture names in order, number of unnamed groups)` when the pattern lies in the
fragment that certainly compiles; `none` = outside the model -/
def reAnalyse (pat : String) : Option (List String × Nat) :=
  let cs := pat.toList
  if cs.length > 120 then none else
  match reScan (cs.length + 1) cs {} with
  | some st => some (st.named.reverse, st.unnamed)
  | none => none

/-! ### operators -/

structure Env where
  pe : P Expr
  optE : P Expr
  aliases : List (String × List Operator)

def validAggregates : List String := ["count", "min", "average", "avg", "max", "sum", "count_distinct", "sort"]
def validInline : List String := ["parse", "limit", "json", "logfmt", "total", "fields", "where", "split", "timeslice"]
def aliasKeywords : List String := ["apache", "k8singressnginx", "testmultioperator", "nginx"]
def validOperators : List String := validInline ++ validAggregates ++ aliasKeywords

/-- `var_list` -/
def varList : P (List String) := sepList1 (ws0 *> tag ",") (ws0 *> ident)

/-- `sourced_expr`: `recognize(expr)` and then `expr` AGAIN on the recognised text alone -/
def sourcedExpr (env : Env) : P (String × Expr) := fun i e =>
  match env.pe i e with
  | .ok _ r e1 =>
    let frag := i.take (i.length - r.length)
    match env.pe frag e1 with
    | .ok ex _ e2 => .ok (String.ofList (Text.trim frag), ex) r e2
    | .fail _ _ => .unmod "internal: expr failed"
    | .failure _ _ => .unmod "internal: expr failed"
    | .panic s => .panic s
    | .unmod w => .unmod w
  | r => r.castErr

def sourcedExprList (env : Env) : P (List (String × Expr)) :=
  sepList1 (ws0 *> tag "," <* ws0) (sourcedExpr env)

def sortMode : P SortDir :=
  altL [pmap (fun _ => SortDir.asc) (kw "ascending"), pmap (fun _ => SortDir.asc) (kw "asc"),
        pmap (fun _ => SortDir.desc) (kw "descending"), pmap (fun _ => SortDir.desc) (kw "desc"),
        pmap (fun _ => SortDir.desc) (kw "dsc")]

def sortOp (env : Env) : P Operator := do
  kw "sort"
  let cols ← opt (ws1 *> tag "by" *> ws1 *> sourcedExprList env)
  let dir ← opt (ws1 *> sortMode)
  pure (.sort ((cols.getD []).map (·.2)) (dir.getD .asc))

/-- `oper_0_args(name)` -/
def oper0Args (name : String) : P Unit := do
  tag name
  let _ ← expectFn (notP (tag "("))
  alt (peek ws1) endOfQuery

def fromClause (env : Env) : P Expr := ws1 *> tag "from" *> ws1 *> env.pe

/-- the `parse` operator (lang.rs:1261) -/
def parseOp (env : Env) : P Inline := do
  tag "parse"; ws1
  let isRegex ← opt (tag "regex" *> ws1)
  let s ← reqQuotedString
  let fromBefore ← opt (fromClause env)
  let userFields ← opt (ws1 *> kw "as" *> varList)
  let fromAfter ← opt (fromClause env)
  let noDrop ← opt (ws1 *> kw "nodrop")
  let noConvert ← opt (ws1 *> kw "noconvert")
  let errs ← getErrs
  let res : Inline ← (
    if isRegex.isSome then
      if errs > 0 then
        -- a diagnostic is already out: the result of `Regex::new` can only add more
        pure (Inline.parse { text := s, ty := .regex } [] fromBefore fromAfter noDrop.isSome noConvert.isSome)
      else
        match reAnalyse s with
        | none => unmodP "parse regex: pattern outside the modelled regex fragment"
        | some (named, unnamed) =>
          if unnamed > 0 then do
            report
            pure (Inline.parse { text := s, ty := .regex } [] fromBefore fromAfter noDrop.isSome noConvert.isSome)
          else if userFields.isSome then do
            report
            pure (Inline.parse { text := s, ty := .regex } [] fromBefore fromAfter noDrop.isSome noConvert.isSome)
          else
            pure (Inline.parse { text := s, ty := .regex } named fromBefore fromAfter noDrop.isSome noConvert.isSome)
    else
      pure (Inline.parse { text := s, ty := .wildcard } (userFields.getD []) fromBefore fromAfter
              noDrop.isSome noConvert.isSome))
  expectPipe
  pure res

def fieldsMode : P FieldMode :=
  altL [pmap (fun _ => FieldMode.only) (tag "+"), pmap (fun _ => FieldMode.only) (kw "only"),
        pmap (fun _ => FieldMode.only) (kw "include"), pmap (fun _ => FieldMode.except) (tag "-"),
        pmap (fun _ => FieldMode.except) (kw "except"), pmap (fun _ => FieldMode.except) (kw "drop")]

def fieldsOp : P Inline := do
  tag "fields"; ws1
  let mode ← opt fieldsMode
  let names ← varList
  pure (.fields (mode.getD .only) names)

def jsonOp (env : Env) : P Inline := do
  oper0Args "json"
  let c ← kwExpr "from" env.optE
  expectPipe
  pure (.json c)

def logfmtOp (env : Env) : P Inline := do
  oper0Args "logfmt"
  let c ← kwExpr "from" env.optE
  expectPipe
  pure (.logfmt c)

/-! nom `double` -/

def stripPrefixNoCase (p : List Char) (s : List Char) : Option (List Char) :=
  if s.length < p.length then none
  else if (s.take p.length).map Char.toLower == p && (s.take p.length).all (fun c => c.toNat < 128)
  then some (s.drop p.length) else none

/-- `recognize_float_or_exceptions`: `ok txt rest` | `fail` | `failure` (the `cut(digit1)` after e/E) -/
inductive FloatRec where
  | ok (txt rest : List Char)
  | fail
  | failure

def recognizeFloat (i : List Char) : FloatRec :=
  let (sgn, r0) := match i with
    | '+' :: r => (['+'], r)
    | '-' :: r => (['-'], r)
    | r => ([], r)
  let ip := r0.takeWhile Char.isDigit
  let r1 := r0.dropWhile Char.isDigit
  -- alt(( digit1 ('.' digit1?)? , '.' digit1 ))
  let mant : Option (List Char × List Char) :=
    if !ip.isEmpty then
      match r1 with
      | '.' :: t => some (ip ++ ['.'] ++ t.takeWhile Char.isDigit, t.dropWhile Char.isDigit)
      | _ => some (ip, r1)
    else
      match r1 with
      | '.' :: t =>
        let fp := t.takeWhile Char.isDigit
        if fp.isEmpty then none else some ('.' :: fp, t.dropWhile Char.isDigit)
      | _ => none
  match mant with
  | some (m, r2) =>
    match r2 with
    | c :: t =>
      if c == 'e' || c == 'E' then
        let (es, t2) := match t with
          | '+' :: u => (['+'], u)
          | '-' :: u => (['-'], u)
          | u => ([], u)
        let ds := t2.takeWhile Char.isDigit
        if ds.isEmpty then .failure
        else .ok (sgn ++ m ++ [c] ++ es ++ ds) (t2.dropWhile Char.isDigit)
      else .ok (sgn ++ m) r2
    | [] => .ok (sgn ++ m) r2
  | none =>
    match stripPrefixNoCase "nan".toList i with
    | some r => .ok (i.take 3) r
    | none =>
      match stripPrefixNoCase "inf".toList i with
      | some r => .ok (i.take 3) r
      | none =>
        match stripPrefixNoCase "infinity".toList i with
        | some r => .ok (i.take 8) r
        | none => .fail

/-- nom `number::complete::double` -/
def double : P F64 := fun i e =>
  match recognizeFloat i with
  | .ok txt rest =>
    match Value.parseF64 txt with
    | some f => .ok f rest e
    | none => .fail rest e
  | .fail => .fail i e
  | .failure => .failure i e

def limitOp : P Inline := do
  oper0Args "limit"
  let c ← opt (ws1 *> double)
  expectPipe
  pure (.limit c)

def splitOp (env : Env) : P Inline := do
  kw "split"
  let e ← opt (singleArg env.optE)
  let o ← opt (ws1 *> tag "on" *> ws1 *> reqQuotedString)
  let a ← opt (ws1 *> tag "as" *> ws1 *> env.pe)
  expectPipe
  pure (.split (o.getD ",") e (match a with | some x => some x | none => e))

def timesliceOp (env : Env) : P Inline := do
  kw "timeslice"
  let c ← reqSingleArg env.optE
  let d ← opt (ws1 *> duration)
  let o ← opt (ws1 *> tag "as" *> ws1 *> ident)
  expectPipe
  pure (.timeslice c d o)

def totalOp (env : Env) : P Inline := do
  kw "total"
  let c ← reqSingleArg env.optE
  let o ← opt (ws1 *> tag "as" *> ws1 *> reqIdent)
  expectPipe
  pure (.total c (o.getD "_total"))

def whereOp (env : Env) : P Inline := do
  kw "where"
  let c ← opt (ws1 *> env.pe <* ws0)
  expectPipe
  pure (.whereOp c)

def inlineOpers (env : Env) : P Operator :=
  pmap Operator.inline
    (altL [parseOp env, jsonOp env, logfmtOp env, fieldsOp, limitOp, splitOp env, timesliceOp env,
           totalOp env, whereOp env])

/-- the three spellings of the percentile function name, in source order -/
def pctTag : P Unit := altL [tag "pct", tag "percentile", tag "p"]

/-- `pct.parse::<f64>()` in (0, 100): the percentile and its `to_string()`; `none` = reported -/
def pctValue (ds : List Char) : Option (F64 × String) :=
  let n := Value.digitsToNat ds
  if 0 < n && n < 100 then some (F64.div (F64.ofInt n) (F64.ofInt 100), toString n) else none

/-- `pct` (lang.rs:1358) -/
def pctFn (env : Env) : P AggFn := do
  pctTag
  -- `p50x` is an identifier, not the 50th percentile followed by `x`
  let ds ← digit1 <* notP (satisfy isIdentCh)
  let col ← reqSingleArg env.optE
  match pctValue ds with
  | some (p, s) => pure (.pct p s col)
  | none => do
    report
    pure .error

def defaultName : AggFn → String
  | .count _ => "_count"
  | .sum _ => "_sum"
  | .min _ => "_min"
  | .avg _ => "_average"
  | .max _ => "_max"
  | .pct _ s _ => "p" ++ s
  | .countDistinct _ => "_countDistinct"
  | .error => "_err"

def aggFn (env : Env) : P AggFn :=
  altL [pmap AggFn.countDistinct (kw "count_distinct" *> opt (argList env.optE)),
        pmap AggFn.count (kw "count" *> opt (singleArg env.optE)),
        pmap AggFn.min (kw "min" *> reqSingleArg env.optE),
        pmap AggFn.max (kw "max" *> reqSingleArg env.optE),
        pctFn env,
        pmap AggFn.sum (kw "sum" *> reqSingleArg env.optE),
        pmap AggFn.avg (alt (kw "avg") (kw "average") *> reqSingleArg env.optE)]

def aggOper (env : Env) : P (String × AggFn) := do
  let f ← aggFn env
  let n ← opt (ws1 *> tag "as" *> ws1 *> reqIdent)
  pure (n.getD (defaultName f), f)

def byClause (env : Env) : P (List (String × Expr)) := tag "by" *> ws1 *> sourcedExprList env

def multiAgg (env : Env) : P Operator := do
  let fns ← sepList1 (tag ",") (ws0 *> aggOper env <* ws0)
  let cols ← opt (byClause env)
  endOfQuery
  let cs := cols.getD []
  pure (.agg { keyCols := cs.map (·.2), headers := cs.map (·.1), fns := fns })

def fieldExpr (env : Env) : P Operator := do
  let v ← env.pe
  ws1; tag "as"; ws1
  let n ← reqIdent
  pure (.inline (.fieldExpr v n))

/-- the `alias` alternative: `recognize(ident).map_res(matching_string)` (error at the input) -/
def aliasOp (env : Env) : P Operator := fun i e =>
  match recognize ident i e with
  | .ok txt r e1 =>
    match env.aliases.find? (fun a => a.1.toList == txt) with
    | some a => .ok (.alias a.2) r e1
    | none => .fail i e1
  | r => r.castErr

/-- `skip_to_end_of_query` -/
def skipToEndOfQuery : P Operator := fun i e =>
  if e > 0 then pmap (fun _ => Operator.error) (manyTill anychar endOfQuery) i e
  else .fail i e

def reportN : Nat → P Unit
  | 0 => pure ()
  | n + 1 => do report; reportN n

/-- `did_you_mean` (lang.rs:1592): silent when every name is valid -/
def didYouMean (env : Env) : P Operator := do
  let ids ← sepList1 (tag ",") (ws0 *> (recognize ident <* opt (argList env.optE)) <* ws0)
  let _ ← opt (byClause env)
  let _ ← manyTill anychar endOfQuery
  let isAgg := ids.length > 1
  let bad := ids.filter (fun i =>
    let s := String.ofList i
    !(if isAgg then validAggregates.contains s else validOperators.contains s))
  reportN bad.length
  -- every name is valid yet no operator parser took the text: still a diagnostic (repo aca43de)
  if bad.isEmpty then report
  pure .error

/-- `garbage` -/
def garbage : P Operator := pmap (fun _ => Operator.error) (expect (alt (tag "|") eof))

def oper (env : Env) : P Operator :=
  altL [inlineOpers env, multiAgg env, sortOp env, fieldExpr env, aliasOp env, skipToEndOfQuery,
        didYouMean env, garbage]

/-- `parse_operators` -/
def parseOperators (env : Env) : P (List Operator) :=
  sepList1 (tag "|") (ws0 *> oper env <* ws0)

/-! ### aliases (aliases/*.toml; the template is what TOML hands to `pipeline_template`) -/

def aliasTemplates : List (String × String) :=
  [("apache",
    "parse \"* - * [*] \\\"* * *\\\" * *\" as ip, name, timestamp, method, url, protocol, status, contentlength\n"),
   ("k8singressnginx",
    "parse \"* - * [*] \\\"* * *\\\" * * \\\"*\\\" \\\"*\\\" * * [*] [*] * * * * *\" as remote_addr, remote_user, timestamp, method, url, protocol, status, body_bytes_sent, http_referer, http_user_agent, request_length, request_time, proxy_upstream_name, proxy_alternative_upstream_name, upstream_addr, upstream_response_length, upstream_response_time, upstream_status, req_id\n"),
   ("testmultioperator", "json | count\n"),
   ("nginx",
    "parse \"* - * [*] \\\"* * *\\\" * * \\\"*\\\" \\\"*\\\" \\\"*\\\"\" as addr, user, timestamp, method, url, protocol, status, bytes_sent, http_referer, http_user_agent, gzip_ratio\n")]

/-- `pipeline_template`: own QueryContainer (error count starts at 0, result kept whatever the
count — `alias.rs` only `expect`s an `Ok`) -/
def renderAlias (tpl : String) : List Operator :=
  let cs := tpl.toList
  let n := cs.length + 2
  let env : Env := { pe := exprN n, optE := optExprN n, aliases := [] }
  match parseOperators env cs 0 with
  | .ok ops _ _ => ops
  | _ => []

def aliasTable : List (String × List Operator) :=
  aliasTemplates.map (fun a => (a.1, renderAlias a.2))

/-! ### `query()` -/

inductive ParseResult where
  | accept (q : Query)
  | reject
  | panic (site : String)
  | unmodelled (why : String)
deriving Inhabited

def parseChars (cs : List Char) : ParseResult :=
  let n := cs.length + 2
  let env : Env := { pe := exprN n, optE := optExprN n, aliases := aliasTable }
  match parseSearch n cs 0 with
  | .ok search r1 e1 =>
    match (opt (ws0 *> tag "|" *> parseOperators env) <* ws0) r1 e1 with
    | .ok ops rest e2 =>
      -- leftover text is reported (repo a4c4b50): the query is rejected
      if e2 > 0 || !rest.isEmpty then .reject else .accept { search := search, ops := ops.getD [] }
    | .fail _ _ => .reject
    | .failure _ _ => .reject
    | .panic s => .panic s
    | .unmod w => .unmodelled w
  | .fail _ _ => .reject
  | .failure _ _ => .reject
  | .panic s => .panic s
  | .unmod w => .unmodelled w

def parseQuery (s : String) : ParseResult := parseChars s.toList

end Lang
end Ag
