/-
`Ag.Lang.showQuery`: the model AST in the token format of harness/src/enc.rs `enc::query`
(the format `Ag.Codec.pQuery` reads), so that the parser model and `ag::lang::query` can be
compared as strings.  Protocol glue: not used by any theorem.
-/
import AgModel.Ast
import AgModel.Value
import AgModel.Text
import AgModel.Lang.Parser

namespace Ag
namespace Lang

def hexDigit (n : Nat) : Char :=
  if n < 10 then Char.ofNat (48 + n) else Char.ofNat (87 + n)

def hexOfString (s : String) : String :=
  String.ofList (s.toUTF8.toList.flatMap (fun x => [hexDigit (x.toNat / 16), hexDigit (x.toNat % 16)]))

def tokS (s : String) : String := "S" ++ hexOfString s

def pad16 (n : Nat) : String :=
  let ds := Nat.toDigits 16 n
  String.ofList (List.replicate (16 - ds.length) '0' ++ ds)

def tokF (f : F64) : String := "F" ++ pad16 f.toBits

abbrev Toks := List String

mutual
def showValue : Value → Toks
  | .none => ["N"]
  | .bool b => [if b then "B1" else "B0"]
  | .int i => ["I" ++ toString i]
  | .float f => [tokF f]
  | .str s => [tokS s]
  | .date ns => ["T" ++ toString ns]
  | .dur ns => ["U" ++ toString ns]
  | .arr vs => ("A" ++ toString vs.length) :: showValues vs
  | .obj kvs => ("O" ++ toString kvs.length) :: showKVs kvs
def showValues : List Value → Toks
  | [] => []
  | v :: vs => showValue v ++ showValues vs
def showKVs : List (String × Value) → Toks
  | [] => []
  | (k, v) :: r => tokS k :: (showValue v ++ showKVs r)
end

def showCmpOp : CmpOp → String
  | .eq => "eq" | .neq => "neq" | .gt => "gt" | .lt => "lt" | .gte => "gte" | .lte => "lte"

def showArithOp : ArithOp → String
  | .add => "add" | .sub => "sub" | .mul => "mul" | .div => "div"

def showRef : Ref → Toks
  | .field k => ["Rf", tokS k]
  | .idx i => ["Ri", toString i]

mutual
def showExpr : Expr → Toks
  | .col h rest => ["col", tokS h, toString rest.length] ++ rest.flatMap showRef
  | .not e => "not" :: showExpr e
  | .cmp op l r => ["cmp", showCmpOp op] ++ showExpr l ++ showExpr r
  | .arith op l r => ["ar", showArithOp op] ++ showExpr l ++ showExpr r
  | .logic op l r => ["lg", (match op with | .and => "and" | .or => "or")] ++ showExpr l ++ showExpr r
  | .call fn args => ["call", tokS fn, toString args.length] ++ showExprs args
  | .ifop c t f => "if" :: (showExpr c ++ showExpr t ++ showExpr f)
  | .val v => "val" :: showValue v
  | .error => ["err"]
def showExprs : List Expr → Toks
  | [] => []
  | e :: es => showExpr e ++ showExprs es
end

def showOptExpr : Option Expr → Toks
  | none => ["none"]
  | some e => "some" :: showExpr e

def showKeyword (k : Keyword) : Toks :=
  ["kw", tokS k.text, (match k.ty with | .exact => "exact" | .wildcard => "wild" | .regex => "regex")]

mutual
def showSearch : Search → Toks
  | .and l => ["sand", toString l.length] ++ showSearches l
  | .or l => ["sor", toString l.length] ++ showSearches l
  | .not s => "snot" :: showSearch s
  | .kw k => "skw" :: showKeyword k
def showSearches : List Search → Toks
  | [] => []
  | s :: ss => showSearch s ++ showSearches ss
end

def showStrs (l : List String) : Toks := toString l.length :: l.map tokS

def showBool (b : Bool) : String := if b then "B1" else "B0"

def showAggFn : AggFn → Toks
  | .count c => "count" :: showOptExpr c
  | .sum e => "sum" :: showExpr e
  | .min e => "min" :: showExpr e
  | .max e => "max" :: showExpr e
  | .avg e => "avg" :: showExpr e
  | .pct p s e => ["pct", tokF p, tokS s] ++ showExpr e
  | .countDistinct none => ["cd", "none"]
  | .countDistinct (some args) => ["cd", "some", toString args.length] ++ showExprs args
  | .error => ["aerr"]

def showInline : Inline → Toks
  | .json c => "json" :: showOptExpr c
  | .logfmt c => "logfmt" :: showOptExpr c
  | .parse pat fields f1 f2 nd nc =>
    ["parse"] ++ showKeyword pat ++ showStrs fields ++ showOptExpr f1 ++ showOptExpr f2 ++ [showBool nd, showBool nc]
  | .fields mode names => ["fields", (match mode with | .only => "only" | .except => "except")] ++ showStrs names
  | .whereOp e => "where" :: showOptExpr e
  | .limit none => ["limit", "none"]
  | .limit (some f) => ["limit", "some", tokF f]
  | .split sep src dst => ["split", tokS sep] ++ showOptExpr src ++ showOptExpr dst
  | .timeslice src dur dst =>
    ["timeslice"] ++ showExpr src ++
      (match dur with | none => ["none"] | some d => ["some", toString d]) ++
      (match dst with | none => ["none"] | some o => ["some", tokS o])
  | .total src dst => ["total"] ++ showExpr src ++ [tokS dst]
  | .fieldExpr e name => ["fexpr"] ++ showExpr e ++ [tokS name]

def showMultiAgg (m : MultiAgg) : Toks :=
  [toString m.keyCols.length] ++ showExprs m.keyCols ++ showStrs m.headers ++
    [toString m.fns.length] ++ m.fns.flatMap (fun nf => tokS nf.1 :: showAggFn nf.2)

mutual
def showOperator : Operator → Toks
  | .alias ops => ["alias", toString ops.length] ++ showOperators ops
  | .inline i => "inl" :: showInline i
  | .agg m => "agg" :: showMultiAgg m
  | .sort cols dir => ["sort", toString cols.length] ++ showExprs cols ++ [(match dir with | .asc => "asc" | .desc => "desc")]
  | .error => ["operr"]
def showOperators : List Operator → Toks
  | [] => []
  | o :: os => showOperator o ++ showOperators os
end

def showQuery (q : Query) : String :=
  String.intercalate " " (["query"] ++ showSearch q.search ++ [toString q.ops.length] ++ showOperators q.ops)

/-- the driver's answer to `PARSE` -/
def answer : ParseResult → String
  | .accept q => "ACCEPT " ++ showQuery q
  | .reject => "REJECT"
  | .panic site => "PANIC " ++ site
  | .unmodelled why => "SKIP " ++ why

end Lang
end Ag
