/-
The `logfmt` crate (0.0.2) parser: a character state machine, transcribed arm by arm.
-/
namespace Ag
namespace Logfmt

structure Pair where
  key : String
  val : Option String
deriving Repr, DecidableEq, Inhabited

structure St where
  pair : Option Pair := none
  pairs : List Pair := []       -- reversed
  buf : List Char := []         -- reversed
  escape : Bool := false
  garbage : Bool := false
  quoted : Bool := false
deriving Repr, Inhabited

def completePair (buf : String) : Option Pair → Pair
  | some p => { key := p.key, val := some buf }
  | none => { key := buf, val := none }

def bufStr (s : St) : String := String.ofList s.buf.reverse

def step (s : St) (c : Char) : St :=
  if !s.quoted && c == ' ' then
    if !s.buf.isEmpty then
      if !s.garbage then
        { s with pairs := completePair (bufStr s) s.pair :: s.pairs, pair := none, buf := [], garbage := false }
      else { s with buf := [], garbage := false }
    else { s with garbage := false }
  else if !s.quoted && c == '=' then
    if !s.buf.isEmpty then { s with pair := some { key := bufStr s, val := none }, buf := [] }
    else { s with garbage := true }
  else if s.quoted && c == '\\' then { s with escape := true }
  else if c == '"' then
    if s.escape then { s with buf := c :: s.buf, escape := false }
    else { s with quoted := !s.quoted }
  else
    if s.escape then { s with buf := c :: '\\' :: s.buf, escape := false }
    else { s with buf := c :: s.buf }

def parse (msg : String) : List Pair :=
  let s := msg.toList.foldl step {}
  let pairs := if !s.garbage then completePair (bufStr s) s.pair :: s.pairs else s.pairs
  pairs.reverse

end Logfmt
end Ag
