/-
A seeded random scheduler for the transition system of AgModel/Sched.lean, used by the driver's
`SCHED` command: the harness supplies the per-line rows the real code produced/should produce, a
chunking of the input, a sink fault offset and a read fault position; the scheduler picks enabled
steps pseudo-randomly until nothing but the clock is enabled, and reports the final state.

Glue, not used by any theorem.  Total (fuel-bounded); imports core only.
-/
import AgModel.Sched
import AgModel.Codec

namespace Ag
namespace Sched

structure SimIn where
  agg : Bool
  cap : Nat
  table : List (Option Bytes)
  tail : List Bytes
  chunks : List Bytes
  /-- the sink accepts exactly this many bytes, then fails for ever -/
  faultAt : Option Nat
  /-- the read that would deliver line number `j` (0-based) fails -/
  readFailAt : Option Nat
  seed : Nat

structure SimOut where
  reader : RdPhase
  rend : RnPhase
  errs : Nat
  rdErrs : Nat
  joinErr : Bool
  written : Bytes
  consumed : Nat
  maxChan : Nat
  steps : Nat
  stuck : Bool

def lcg (x : Nat) : Nat := (x * 6364136223846793005 + 1442695040888963407) % 18446744073709551616

/-- longest newline-free prefix length -/
def nlFreePrefix : Bytes → Nat
  | [] => 0
  | b :: r => if b = 10 then 0 else nlFreePrefix r + 1

/-- candidate labels in the current state (enabledness is checked by `next`) -/
def candidates (i : SimIn) (c : Cfg Nat Bytes) (s : State Nat Bytes) (chunks : List Bytes) (rnd : Nat) :
    List Label :=
  let env : List Label :=
    match chunks with
    | ch :: _ => [.feed ch]
    | [] => if s.eof then [] else [.eof]
  let readFails : Bool := i.readFailAt == some s.consumed.length
  let reader : List Label :=
    if readFails then [.readFail]
    else
      let m := nlFreePrefix s.inbuf
      (if m = 0 then [] else [.absorb (rnd % m + 1)]) ++ [.readLine, .readEof]
  let wr : List Label :=
    match payload c s, i.faultAt with
    | some p, some k =>
      let room := k - s.written.length
      if p.length ≤ room then [.write] else [.writeFail room]
    | some _, none => [.write]
    | none, _ => []
  env ++ reader ++ [.send, .sendFail 0, .dropTx, .join, .recv, .disconnect] ++ wr

def simLoop (i : SimIn) (c : Cfg Nat Bytes) :
    Nat → State Nat Bytes → List Bytes → Nat → Nat → Nat → SimOut
  | 0, s, _, _, mx, n =>
    { reader := s.reader, rend := s.rend, errs := s.errs, rdErrs := s.rdErrs, joinErr := s.joinErr, written := s.written,
      consumed := s.consumed.length, maxChan := mx, steps := n, stuck := true }
  | fuel + 1, s, chunks, rnd, mx, n =>
    let r1 := lcg rnd
    let r2 := lcg r1
    let en := (candidates i c s chunks (r1 / 65536)).filterMap (fun l =>
      match next c s l with
      | some s' => some (l, s')
      | none => none)
    match en[(r2 / 65536) % en.length]? with
    | none =>
      { reader := s.reader, rend := s.rend, errs := s.errs, rdErrs := s.rdErrs, joinErr := s.joinErr, written := s.written,
        consumed := s.consumed.length, maxChan := mx, steps := n, stuck := false }
    | some (l, s') =>
      let chunks' := match l with
        | .feed _ => chunks.drop 1
        | _ => chunks
      simLoop i c fuel s' chunks' r2 (max mx s'.chan.length) (n + 1)

def simulate (i : SimIn) : SimOut :=
  let c := tableCfg i.table i.tail i.agg i.cap
  let bytes := (i.chunks.map List.length).foldl (· + ·) 0
  let fuel := 16 * (bytes + i.table.length + i.tail.length + i.chunks.length) + 64
  simLoop i c fuel (init c) i.chunks (lcg (i.seed + 1)) 0 0

/-! ### wire format -/

def hexOfNats (b : Bytes) : String :=
  String.ofList (b.flatMap (fun n => [Codec.hexDigit (n / 16), Codec.hexDigit (n % 16)]))

def natsOfHex (cs : List Char) : Bytes := (Codec.bytesOfHex cs).toList.map UInt8.toNat

def showRd : RdPhase → String
  | .running => "running" | .draining => "draining" | .done => "done" | .panicked => "panicked"

def showRn : RnPhase → String
  | .running => "running" | .final => "final" | .done => "done" | .panicked => "panicked"

def optNat (s : String) : Option Nat := if s == "-" then none else s.toNat?

/-- tokens: `N` (no row) or `H<hex>` -/
def rowTok (t : String) : Option Bytes :=
  match t.toList with
  | 'H' :: h => some (natsOfHex h)
  | _ => none

/-- `SCHED <rec|agg> <cap> <table> <tail> <chunks> <faultAt|-> <readFailAt|-> <seed>` -/
def handleSched (fields : List String) : String :=
  match fields with
  | [variant, cap, table, tail, chunks, fault, rfail, seed] =>
    let toks := fun (s : String) => (s.splitOn " ").filter (· ≠ "")
    let i : SimIn :=
      { agg := variant == "agg", cap := cap.toNat?.getD 1000,
        table := (toks table).map rowTok,
        tail := (toks tail).filterMap rowTok,
        chunks := (toks chunks).filterMap rowTok,
        faultAt := optNat fault, readFailAt := optNat rfail, seed := seed.toNat?.getD 0 }
    let o := simulate i
    s!"OK reader={showRd o.reader} rend={showRn o.rend} errs={o.errs} rderrs={o.rdErrs} joinErr={if o.joinErr then 1 else 0} " ++
    s!"written={hexOfNats o.written} consumed={o.consumed} maxchan={o.maxChan} steps={o.steps} " ++
    s!"stuck={if o.stuck then 1 else 0}"
  | _ => "BADREQ sched"

end Sched
end Ag
