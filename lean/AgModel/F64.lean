/-
IEEE-754 binary64 as data.

Lean's `Float` is opaque to the kernel, so the model carries doubles as
`nan | inf s | fin s m e` (value = ±m·2^e) and *defines* every operation as
"exact result, then round to nearest, ties to even".  Whether the hardware
agrees with these definitions is checked bit-for-bit by the correspondence
harness (request `F64`) and inside the driver against Lean's native `Float`.
-/
namespace Ag

inductive F64 where
  | nan
  | inf (neg : Bool)
  | fin (neg : Bool) (m : Nat) (e : Int)
deriving DecidableEq, Repr, Inhabited

namespace F64

def two52 : Nat := 4503599627370496
def two53 : Nat := 9007199254740992
def eMin : Int := -1074
def eMax : Int := 971

/-- canonical representation predicate -/
def Canon : F64 → Prop
  | nan => True
  | inf _ => True
  | fin _ m e => m < two53 ∧ eMin ≤ e ∧ e ≤ eMax ∧ (m < two52 → e = eMin)

instance : (f : F64) → Decidable (Canon f)
  | nan => isTrue trivial
  | inf _ => isTrue trivial
  | fin _ m e => by unfold Canon; exact inferInstance

def zero : F64 := fin false 0 eMin
def negZero : F64 := fin true 0 eMin
def posInf : F64 := inf false
def negInf : F64 := inf true

def isNaN : F64 → Bool
  | nan => true
  | _ => false

def isFinite : F64 → Bool
  | fin .. => true
  | _ => false

def isZero : F64 → Bool
  | fin _ 0 _ => true
  | _ => false

/-- `2^k` for a natural exponent given as `Int` (0 if negative: callers guard). -/
def pow2 (k : Int) : Nat := 2 ^ k.toNat

/-- round `n / d` (d > 0) to the nearest natural, ties to even -/
def divRoundEven (n d : Nat) : Nat :=
  let q := n / d
  let r := n % d
  if 2 * r < d then q
  else if 2 * r > d then q + 1
  else if q % 2 = 0 then q else q + 1

/-- round the exact rational `n / d · 2^sc` to binary64 (sign given separately) -/
def roundRat (neg : Bool) (n d : Nat) (sc : Int := 0) : F64 :=
  if n = 0 then fin neg 0 eMin
  else
    -- estimate exponent so that 2^52 ≤ value / 2^e < 2^53
    let ln : Int := (Nat.log2 n : Nat)
    let ld : Int := (Nat.log2 d : Nat)
    let e0 : Int := ln - ld + sc - 52
    -- value / 2^e = n·2^(sc-e) / d
    let mant (e : Int) : Nat × Nat :=     -- numerator, denominator of value/2^e
      let s := sc - e
      if s ≥ 0 then (n * pow2 s, d) else (n, d * pow2 (-s))
    -- fix the estimate: we want floor(value/2^e) in [2^52, 2^53)
    let e1 : Int :=
      let (a, b) := mant e0
      if a / b ≥ two53 then e0 + 1 else if a / b < two52 then e0 - 1 else e0
    let e2 : Int := if e1 < eMin then eMin else e1
    let (a, b) := mant e2
    let m := divRoundEven a b
    let (m, e3) := if m ≥ two53 then (m / 2, e2 + 1) else (m, e2)
    if e3 > eMax then inf neg else fin neg m e3

/-- round the exact integer·2^e -/
def roundInt (k : Int) (e : Int) (zeroNeg : Bool := false) : F64 :=
  if k = 0 then fin zeroNeg 0 eMin
  else roundRat (k < 0) k.natAbs 1 e

def ofInt (i : Int) : F64 := roundInt i 0

def neg : F64 → F64
  | nan => nan
  | inf s => inf !s
  | fin s m e => fin (!s) m e

def abs : F64 → F64
  | nan => nan
  | inf _ => inf false
  | fin _ m e => fin false m e

/-- signed mantissa -/
def smant (s : Bool) (m : Nat) : Int := if s then -(m : Int) else m

def add : F64 → F64 → F64
  | nan, _ => nan
  | _, nan => nan
  | inf a, inf b => if a = b then inf a else nan
  | inf a, fin .. => inf a
  | fin .., inf b => inf b
  | fin s1 m1 e1, fin s2 m2 e2 =>
    let e := min e1 e2
    let k := smant s1 m1 * (pow2 (e1 - e) : Nat) + smant s2 m2 * (pow2 (e2 - e) : Nat)
    -- exact zero sum: +0 unless both operands are negative(-zero)
    roundInt k e (zeroNeg := s1 && s2)

def sub (a b : F64) : F64 := add a (neg b)

def mul : F64 → F64 → F64
  | nan, _ => nan
  | _, nan => nan
  | inf a, inf b => inf (a != b)
  | inf a, fin s m _ => if m = 0 then nan else inf (a != s)
  | fin s m _, inf b => if m = 0 then nan else inf (s != b)
  | fin s1 m1 e1, fin s2 m2 e2 =>
    if m1 * m2 = 0 then fin (s1 != s2) 0 eMin
    else roundRat (s1 != s2) (m1 * m2) 1 (e1 + e2)

def div : F64 → F64 → F64
  | nan, _ => nan
  | _, nan => nan
  | inf _, inf _ => nan
  | inf a, fin s _ _ => inf (a != s)
  | fin s _ _, inf b => fin (s != b) 0 eMin
  | fin s1 m1 e1, fin s2 m2 e2 =>
    if m2 = 0 then (if m1 = 0 then nan else inf (s1 != s2))
    else if m1 = 0 then fin (s1 != s2) 0 eMin
    else roundRat (s1 != s2) m1 m2 (e1 - e2)

/-- three-way comparison of finite values (−0 = +0) -/
def cmpFin (s1 : Bool) (m1 : Nat) (e1 : Int) (s2 : Bool) (m2 : Nat) (e2 : Int) : Ordering :=
  let e := min e1 e2
  compare (smant s1 m1 * (pow2 (e1 - e) : Nat)) (smant s2 m2 * (pow2 (e2 - e) : Nat))

/-- IEEE partial comparison: `none` when unordered -/
def pcmp : F64 → F64 → Option Ordering
  | nan, _ => none
  | _, nan => none
  | inf a, inf b => some (if a = b then .eq else if a then .lt else .gt)
  | inf a, fin .. => some (if a then .lt else .gt)
  | fin .., inf b => some (if b then .gt else .lt)
  | fin s1 m1 e1, fin s2 m2 e2 => some (cmpFin s1 m1 e1 s2 m2 e2)

def lt (a b : F64) : Bool := pcmp a b == some .lt
def gt (a b : F64) : Bool := pcmp a b == some .gt
def le (a b : F64) : Bool := pcmp a b == some .lt || pcmp a b == some .eq
def feq (a b : F64) : Bool := pcmp a b == some .eq

/-- `ordered_float::OrderedFloat::cmp`: NaN is equal to itself and greater than everything else -/
def ocmp (a b : F64) : Ordering :=
  match pcmp a b with
  | some o => o
  | none =>
    if a.isNaN then (if b.isNaN then .eq else .gt) else .lt

/-- `OrderedFloat`'s `Eq` -/
def oeq (a b : F64) : Bool := ocmp a b == .eq

/-- floor(m·2^e) for e < 0 as an integer -/
def floorInt (s : Bool) (m : Nat) (e : Int) : Int :=
  if e ≥ 0 then smant s m * (pow2 e : Nat)
  else
    let d := pow2 (-e)
    if s then -(((m + d - 1) / d : Nat) : Int) else ((m / d : Nat) : Int)

def ceilInt (s : Bool) (m : Nat) (e : Int) : Int := -(floorInt (!s) m e)

def truncInt (s : Bool) (m : Nat) (e : Int) : Int :=
  if e ≥ 0 then smant s m * (pow2 e : Nat)
  else smant s (m / pow2 (-e))

def floor : F64 → F64
  | fin s m e =>
    if e ≥ 0 then fin s m e
    else
      let k := floorInt s m e
      roundInt k 0 (zeroNeg := s)
  | x => x

def ceil : F64 → F64
  | fin s m e =>
    if e ≥ 0 then fin s m e
    else
      let k := ceilInt s m e
      roundInt k 0 (zeroNeg := s)
  | x => x

def trunc : F64 → F64
  | fin s m e =>
    if e ≥ 0 then fin s m e
    else roundInt (truncInt s m e) 0 (zeroNeg := s)
  | x => x

/-- `f64::round`: half away from zero -/
def round : F64 → F64
  | fin s m e =>
    if e ≥ 0 then fin s m e
    else
      let d := pow2 (-e)
      let q := (2 * m + d) / (2 * d)      -- floor(|x| + 1/2)
      roundInt (smant s q) 0 (zeroNeg := s)
  | x => x

/-- fractional part test used by `limit`: `x.fract() != 0.0` -/
def fractNonzero : F64 → Bool
  | fin _ m e => if e ≥ 0 then false else m % pow2 (-e) != 0
  | inf _ => true     -- inf.fract() = NaN ≠ 0
  | nan => true

/-- `cmp_int_float` (src/data.rs): exact three-way comparison of an integer with a double, in
`OrderedFloat`'s order (NaN above everything).  The code answers `Less` for NaN / `f ≥ 2^63`,
`Greater` for `f < −2^63`, and otherwise compares `i` with `f.trunc() as i64` and, on equality,
`0.0` with the fractional part `f − f.trunc()` (exact; zero or of the sign of `f`).  Here the
truncation is the exact integer `truncInt`, so the two range guards (they only keep `as i64` from
saturating) are subsumed by the integer comparison for every `i` of the i64 range
(`F64.cmpIntFloat_eq_guarded`, AgProofs/Lemmas/F64.lean). -/
def cmpIntFloat (i : Int) : F64 → Ordering
  | nan => .lt
  | inf s => if s then .gt else .lt
  | fin s m e =>
    (compare i (truncInt s m e)).then
      (if fractNonzero (fin s m e) then (if s then .gt else .lt) else .eq)

def i64Min : Int := -9223372036854775808
def i64Max : Int := 9223372036854775807

/-- Rust `f as i64`: truncate, saturate, NaN ↦ 0 -/
def toI64 : F64 → Int
  | nan => 0
  | inf s => if s then i64Min else i64Max
  | fin s m e =>
    let t := truncInt s m e
    if t < i64Min then i64Min else if t > i64Max then i64Max else t

def usizeMax : Int := 18446744073709551615

/-- Rust `f as usize` (64-bit) -/
def toUsize : F64 → Int
  | nan => 0
  | inf s => if s then 0 else usizeMax
  | fin s m e =>
    let t := truncInt s m e
    if t < 0 then 0 else if t > usizeMax then usizeMax else t

/-- `f64::EPSILON` = 2^-52 -/
def epsilon : F64 := fin false two52 (-104)

/-- exact value as a pair (signed numerator, power-of-two denominator exponent); for proofs -/
def toDyadic : F64 → Option (Int × Int)
  | fin s m e => some (smant s m, e)
  | _ => none

/-! ### bits -/

def ofBits (b : Nat) : F64 :=
  let s : Bool := decide ((b / 2 ^ 63) % 2 = 1)
  let ex : Nat := (b / 2 ^ 52) % 2048
  let fr : Nat := b % 2 ^ 52
  if ex = 2047 then (if fr = 0 then inf s else nan)
  else if ex = 0 then fin s fr eMin
  else fin s (fr + two52) ((ex : Int) - 1075)

def toBits : F64 → Nat
  | nan => 0x7ff8000000000000
  | inf s => (if s then 2 ^ 63 else 0) + 0x7ff0000000000000
  | fin s m e =>
    let sb := if s then 2 ^ 63 else 0
    if m < two52 then sb + m
    else sb + ((e + 1075).toNat) * 2 ^ 52 + (m - two52)

/-- value of a decimal literal `digits · 10^exp10`, correctly rounded (Rust `str::parse::<f64>`) -/
def ofDecimal (neg : Bool) (digits : Nat) (exp10 : Int) : F64 :=
  if digits = 0 then fin neg 0 eMin
  else
    let nd : Int := ((Nat.toDigits 10 digits).length : Nat)
    -- 10^(nd-1+exp10) ≤ value < 10^(nd+exp10)
    if nd + exp10 > 310 then inf neg
    else if nd + exp10 < -330 then fin neg 0 eMin
    else if exp10 ≥ 0 then roundRat neg (digits * 10 ^ exp10.toNat) 1
    else roundRat neg digits (10 ^ (-exp10).toNat)

end F64
end Ag
