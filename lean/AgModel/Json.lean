/-
JSON text → `Value` as `serde_json::from_str::<serde_json::Value>` followed by
`json_to_value` (src/operator/parse.rs:104-130) does it.

Number classification follows serde_json: an integer literal that fits i64 is `Int`; one that
fits u64 only, or overflows, or any literal with a fraction/exponent is an f64 passed through
`Value::from_float`.  The double is the correctly rounded one: /repo builds serde_json with
`float_roundtrip` since the repair fbfce08 (before it long mantissas came back 1-2 ulps off:
class C06/json-float-parse-not-correctly-rounded).
-/
import AgModel.Record

namespace Ag
namespace Json

def isWs (c : Char) : Bool := c == ' ' || c == '\t' || c == '\n' || c == '\r'

def skipWs : List Char → List Char
  | c :: cs => if isWs c then skipWs cs else c :: cs
  | [] => []

def hex4 (cs : List Char) : Option (Nat × List Char) :=
  match cs with
  | a :: b :: c :: d :: rest =>
    match hexVal a, hexVal b, hexVal c, hexVal d with
    | some a, some b, some c, some d => some (((a * 16 + b) * 16 + c) * 16 + d, rest)
    | _, _, _, _ => none
  | _ => none
where hexVal (c : Char) : Option Nat :=
  if c.isDigit then some (c.toNat - '0'.toNat)
  else if 'a' ≤ c && c ≤ 'f' then some (c.toNat - 'a'.toNat + 10)
  else if 'A' ≤ c && c ≤ 'F' then some (c.toNat - 'A'.toNat + 10)
  else none

/-- string body after the opening quote -/
def parseStr (fuel : Nat) (cs : List Char) (acc : List Char) : Option (String × List Char) :=
  match fuel with
  | 0 => none
  | fuel + 1 =>
    match cs with
    | [] => none
    | '"' :: rest => some (String.ofList acc.reverse, rest)
    | '\\' :: e :: rest =>
      match e with
      | '"' => parseStr fuel rest ('"' :: acc)
      | '\\' => parseStr fuel rest ('\\' :: acc)
      | '/' => parseStr fuel rest ('/' :: acc)
      | 'b' => parseStr fuel rest (Char.ofNat 8 :: acc)
      | 'f' => parseStr fuel rest (Char.ofNat 12 :: acc)
      | 'n' => parseStr fuel rest ('\n' :: acc)
      | 'r' => parseStr fuel rest ('\r' :: acc)
      | 't' => parseStr fuel rest ('\t' :: acc)
      | 'u' =>
        match hex4 rest with
        | none => none
        | some (n1, rest1) =>
          if 0xD800 ≤ n1 && n1 ≤ 0xDBFF then
            match rest1 with
            | '\\' :: 'u' :: rest2 =>
              match hex4 rest2 with
              | some (n2, rest3) =>
                if 0xDC00 ≤ n2 && n2 ≤ 0xDFFF then
                  parseStr fuel rest3 (Char.ofNat (0x10000 + (n1 - 0xD800) * 0x400 + (n2 - 0xDC00)) :: acc)
                else none
              | none => none
            | _ => none
          else if 0xDC00 ≤ n1 && n1 ≤ 0xDFFF then none
          else parseStr fuel rest1 (Char.ofNat n1 :: acc)
      | _ => none
    | c :: rest => if c.toNat < 0x20 then none else parseStr fuel rest (c :: acc)

/-- optional leading `-` -/
def splitSign : List Char → Bool × List Char
  | '-' :: r => (true, r)
  | r => (false, r)

/-- optional fraction: (digits, rest, present?, well-formed?) -/
def fracPart : List Char → List Char × List Char × Bool × Bool
  | '.' :: t => (t.takeWhile Char.isDigit, t.dropWhile Char.isDigit, true, !(t.takeWhile Char.isDigit).isEmpty)
  | t => ([], t, false, true)

def expSign : List Char → Bool × List Char
  | '-' :: u => (true, u)
  | '+' :: u => (false, u)
  | u => (false, u)

/-- optional exponent: (value, rest, present?); `none` = `e` without digits -/
def expPart (r2 : List Char) : Option (Int × List Char × Bool) :=
  match r2 with
  | c :: t =>
    if c == 'e' || c == 'E' then
      let (eneg, ds) := expSign t
      let dd := ds.takeWhile Char.isDigit
      if dd.isEmpty then none
      else
        let dd' := dd.dropWhile (· == '0')
        let n : Int := if dd'.length > 6 then 1000000 else Value.digitsToNat dd'
        some (if eneg then -n else n, ds.dropWhile Char.isDigit, true)
    else some (0, r2, false)
  | [] => some (0, [], false)

/-- number: returns the value and the rest -/
def parseNum (cs : List Char) : Option (Value × List Char) :=
  let (neg, r) := splitSign cs
  let ip := r.takeWhile Char.isDigit
  let r1 := r.dropWhile Char.isDigit
  if ip.isEmpty then none
  else if ip.length > 1 && ip.head? == some '0' then none
  else
    let (fp, r2, hasFrac, okFrac) := fracPart r1
    if !okFrac then none
    else
      match expPart r2 with
      | none => none
      | some (ex, rest, hasExp) =>
        if !hasFrac && !hasExp then
          let n : Int := Value.digitsToNat ip
          let v : Int := if neg then -n else n
          if neg && n = 0 then some (Value.fromFloat (F64.fin true 0 F64.eMin), rest)
          else if Value.inI64 v then some (.int v, rest)
          else some (Value.fromFloat (F64.ofDecimal neg (Value.digitsToNat ip) 0), rest)
        else
          let digits := Value.digitsToNat (ip ++ fp)
          let f := F64.ofDecimal neg digits (ex - fp.length)
          -- serde_json rejects literals that overflow to infinity ("number out of range")
          if !f.isFinite then none else some (Value.fromFloat f, rest)

mutual
def parseValue (fuel : Nat) (depth : Nat) (cs : List Char) : Option (Value × List Char) :=
  match fuel with
  | 0 => none
  | fuel + 1 =>
    match skipWs cs with
    | 'n' :: 'u' :: 'l' :: 'l' :: rest => some (.none, rest)
    | 't' :: 'r' :: 'u' :: 'e' :: rest => some (.bool true, rest)
    | 'f' :: 'a' :: 'l' :: 's' :: 'e' :: rest => some (.bool false, rest)
    | '"' :: rest =>
      match parseStr (rest.length + 1) rest [] with
      | some (s, rest') => some (.str s, rest')
      | none => none
    | '[' :: rest =>
      if depth = 0 then none else
      match skipWs rest with
      | ']' :: rest' => some (.arr [], rest')
      | rest' => parseElems fuel (depth - 1) rest' []
    | '{' :: rest =>
      if depth = 0 then none else
      match skipWs rest with
      | '}' :: rest' => some (.obj [], rest')
      | rest' => parseMembers fuel (depth - 1) rest' []
    | c :: rest => if c == '-' || c.isDigit then parseNum (c :: rest) else none
    | [] => none
def parseElems (fuel : Nat) (depth : Nat) (cs : List Char) (acc : List Value) : Option (Value × List Char) :=
  match fuel with
  | 0 => none
  | fuel + 1 =>
    match parseValue fuel depth cs with
    | none => none
    | some (v, rest) =>
      match skipWs rest with
      | ',' :: rest' => parseElems fuel depth rest' (v :: acc)
      | ']' :: rest' => some (.arr (v :: acc).reverse, rest')
      | _ => none
def parseMembers (fuel : Nat) (depth : Nat) (cs : List Char) (acc : Fields) : Option (Value × List Char) :=
  match fuel with
  | 0 => none
  | fuel + 1 =>
    match skipWs cs with
    | '"' :: rest =>
      match parseStr (rest.length + 1) rest [] with
      | none => none
      | some (k, rest1) =>
        match skipWs rest1 with
        | ':' :: rest2 =>
          match parseValue fuel depth rest2 with
          | none => none
          | some (v, rest3) =>
            let acc' := Fields.put k v acc     -- duplicate keys: last wins
            match skipWs rest3 with
            | ',' :: rest4 => parseMembers fuel depth rest4 acc'
            | '}' :: rest4 => some (.obj acc', rest4)
            | _ => none
        | _ => none
    | _ => none
end

/-- `serde_json::from_str` + `json_to_value`; `none` = parse error (`EvalError::ExpectedJson`) -/
def parse (s : String) : Option Value :=
  let cs := s.toList
  -- serde_json: `remaining_depth` starts at 128 and entering the 128th nested array/object fails
  match parseValue (cs.length + 2) 127 cs with
  | some (v, rest) => if (skipWs rest).isEmpty then some v else none
  | none => none

end Json
end Ag
