/-
Aggregation (src/operator.rs `MultiGrouper`, src/operator/{count,sum,min,max,average,
count_distinct,percentile}.rs), sorting (src/operator/sort.rs, `Record::ordering`),
and `PreAggAdapter`.

Hash-map iteration order is not modelled as randomness: `MultiGrouper` state is an association
list in first-seen order, and every place where the real code iterates a hash container is
marked `-- HASH ORDER`.
-/
import AgModel.Ops

namespace Ag

/-- type-checked aggregate function definitions -/
inductive AggDef where
  | count (cond : Option Expr)
  | sum (e : Expr)
  | min (e : Expr)
  | max (e : Expr)
  | avg (e : Expr)
  | pct (q : F64) (e : Expr)
  | countDistinct (e : Expr)
deriving Repr, Inhabited

/-- accumulator state -/
inductive Acc where
  | count (n : Int)
  | sum (t : F64)
  | min (m : F64)
  | max (m : F64)
  | avg (t : F64) (n : Int)
  | pct (vals : List F64)        -- arrival order, newest first
  | distinct (seen : List Value) -- distinct values, newest first
deriving Repr, Inhabited

def AggDef.empty : AggDef → Acc
  | .count _ => .count 0
  | .sum _ => .sum F64.zero
  | .min _ => .min F64.posInf
  | .max _ => .max F64.negInf
  | .avg _ => .avg F64.zero 0
  | .pct .. => .pct []
  | .countDistinct _ => .distinct []

/-- the model marks a row as outside the modelled fragment rather than guessing -/
inductive StepR where
  | st (a : Acc)
  | unmodelled (w : String)
  | panic (site : String)

/-- `AggregateFunction::process`; an `Err` leaves the state unchanged (`let _ = fun.process(..)`) -/
def AggDef.step (ext : Ext) (d : AggDef) (a : Acc) (row : Fields) : StepR :=
  match d, a with
  | .count cond, .count n =>
    match cond with
    | none => .st (.count (n + 1))
    | some c =>
      match evalBool ext row c with
      | .ok true => .st (.count (n + 1))
      | .ok false => .st a
      | .err _ => .st a
      | .panic p => .panic p
      | .unmodelled w => .unmodelled w
  | .sum e, .sum t =>
    match evalF64 ext row e with
    | .ok v => .st (.sum (F64.add t v))
    | .err _ => .st a
    | .panic p => .panic p
    | .unmodelled w => .unmodelled w
  | .min e, .min m =>
    match evalF64 ext row e with
    | .ok v => .st (if F64.lt v m then .min v else a)
    | .err _ => .st a
    | .panic p => .panic p
    | .unmodelled w => .unmodelled w
  | .max e, .max m =>
    match evalF64 ext row e with
    | .ok v => .st (if F64.gt v m then .max v else a)
    | .err _ => .st a
    | .panic p => .panic p
    | .unmodelled w => .unmodelled w
  | .avg e, .avg t n =>
    match evalF64 ext row e with
    | .ok v => .st (.avg (F64.add t v) (n + 1))
    | .err _ => .st a
    | .panic p => .panic p
    | .unmodelled w => .unmodelled w
  | .pct _ e, .pct vals =>
    match evalF64 ext row e with
    | .ok v => .st (.pct (v :: vals))
    | .err _ => .st a
    | .panic p => .panic p
    | .unmodelled w => .unmodelled w
  | .countDistinct e, .distinct seen =>
    match evalValue ext row e with
    | .ok v => .st (if seen.any (· == v) then a else .distinct (v :: seen))
    | .err _ => .st a
    | .panic p => .panic p
    | .unmodelled w => .unmodelled w
  | _, _ => .panic "accumulator/definition mismatch"

/-- insertion into an ascending list (`CKMS` store keeps samples sorted) -/
def insertSorted (x : F64) : List F64 → List F64
  | [] => [x]
  | y :: ys => if F64.le x y then x :: y :: ys else y :: insertSorted x ys

/-- `CKMS::<f64>::new(0.001)` … `query(q)` for fewer than 500 samples (no compression has run:
every entry has g = 1, delta = 0) -/
def pctQuery (vals : List F64) (q : F64) : Outcome (Option F64) :=
  let n := vals.length
  if n = 0 then .ok none
  else if n ≥ 500 then .unmodelled "percentile over ≥ 500 samples (CKMS compression)"
  else if vals.any F64.isNaN then .unmodelled "percentile over NaN"
  else
    let sorted := vals.foldl (fun acc v => insertSorted v acc) []
    let nphi := F64.mul q (F64.ofInt n)
    let rhs := F64.add nphi (F64.div (F64.ofInt 1) (F64.ofInt 2))
    -- smallest i in 1..n-1 with (i + 1) > rhs
    let rec go (i : Nat) (fuel : Nat) : Option F64 :=
      match fuel with
      | 0 => sorted.getLast?
      | fuel + 1 =>
        if i ≥ n then sorted.getLast?
        else if F64.gt (F64.ofInt ((i : Int) + 1)) rhs then sorted[i - 1]?
        else go (i + 1) fuel
    .ok (go 1 n)

/-- `AggregateFunction::emit` -/
def AggDef.emit (d : AggDef) (a : Acc) : Outcome Value :=
  match d, a with
  | _, .count n => .ok (.int n)
  | _, .sum t => .ok (Value.fromFloat t)
  | _, .min m => .ok (if m.isFinite then Value.fromFloat m else .none)
  | _, .max m => .ok (if m.isFinite then Value.fromFloat m else .none)
  | _, .avg t n => .ok (Value.fromFloat (F64.div t (F64.ofInt n)))
  | .pct q _, .pct vals =>
    match pctQuery vals q with
    | .ok (some v) => .ok (Value.fromFloat v)
    | .ok none => .ok .none
    | .err k => .err k
    | .panic p => .panic p
    | .unmodelled w => .unmodelled w
  | _, .pct _ => .panic "accumulator/definition mismatch"
  | _, .distinct seen => .ok (.int seen.length)

/-- `Record::ordering_ref` over column names -/
def orderingRef (cols : List String) (l r : Fields) : Ordering :=
  match cols with
  | [] => .eq
  | c :: cs =>
    match Value.cmpOpt (Fields.get c l) (Fields.get c r) with
    | .eq => orderingRef cs l r
    | o => o

/-! ### MultiGrouper -/

structure Grouper where
  keyCols : List Expr
  headers : List String
  /-- (column name, definition) in query order -/
  fns : List (String × AggDef)
deriving Repr, Inhabited

/-- per-group accumulator *map keyed by column name* (`HashMap<String, Box<dyn AggregateFunction>>`):
a later function with the same name replaces an earlier one -/
def Grouper.accNames (g : Grouper) : List (String × AggDef) :=
  g.fns.foldl (fun acc nd => (acc.filter (fun x => x.1 != nd.1)) ++ [nd]) []

abbrev GroupState := List (List Value × List (String × Acc))

def keyEq (a b : List Value) : Bool := Value.beqL a b

/-- key tuple of a row: evaluation failures group under `None` -/
def Grouper.keyOf (ext : Ext) (g : Grouper) (row : Fields) : Outcome (List Value) :=
  g.keyCols.mapM (fun e =>
    match evalValue ext row e with
    | .ok v => Outcome.ok v
    | .err _ => .ok .none
    | .panic p => .panic p
    | .unmodelled w => .unmodelled w)

def stepAccs (ext : Ext) (defs : List (String × AggDef)) (accs : List (String × Acc)) (row : Fields) :
    Outcome (List (String × Acc)) :=
  (defs.zip accs).mapM (fun da =>
    match da.1.2.step ext da.2.2 row with
    | .st a => Outcome.ok (da.1.1, a)
    | .unmodelled w => .unmodelled w
    | .panic p => .panic p)

/-- insert-or-update of one group (`state.entry(key).or_insert_with(..)` then feed the row) -/
def groupUpd (ext : Ext) (defs : List (String × AggDef)) (row : Fields) (key : List Value) :
    GroupState → Outcome GroupState
  | [] =>
    match stepAccs ext defs (defs.map (fun nd => (nd.1, nd.2.empty))) row with
    | .ok accs => .ok [(key, accs)]
    | .err k => .err k
    | .panic p => .panic p
    | .unmodelled w => .unmodelled w
  | (k, accs) :: rest =>
    if keyEq k key then
      match stepAccs ext defs accs row with
      | .ok accs' => .ok ((k, accs') :: rest)
      | .err e => .err e
      | .panic p => .panic p
      | .unmodelled w => .unmodelled w
    else
      match groupUpd ext defs row key rest with
      | .ok rest' => .ok ((k, accs) :: rest')
      | .err e => .err e
      | .panic p => .panic p
      | .unmodelled w => .unmodelled w

/-- `MultiGrouper::process_map` -/
def Grouper.processRow (ext : Ext) (g : Grouper) (st : GroupState) (row : Fields) : Outcome GroupState :=
  match g.keyOf ext row with
  | .ok key => groupUpd ext g.accNames row key st
  | .err e => .err e
  | .panic p => .panic p
  | .unmodelled w => .unmodelled w

/-- `MultiGrouper::emit`: one row per group, ordered by the key columns. -/
def Grouper.emit (g : Grouper) (st : GroupState) : Outcome Table := do
  let defs := g.accNames
  let rows ← st.mapM (fun (ka : List Value × List (String × Acc)) => do
    let base : Fields := (g.headers.zip ka.1).foldl (fun d hv => Fields.put hv.1 hv.2 d) []
    let cells ← (defs.zip ka.2).mapM (fun da => do
      let v ← da.1.2.emit da.2.2
      pure (da.1.1, v))
    pure (cells.foldl (fun d kv => Fields.put kv.1 kv.2 d) base))
  -- groups are emitted in key order (stable w.r.t. the state order for keys that compare equal)
  pure { columns := g.headers ++ g.fns.map Prod.fst,
         rows := rows.mergeSort (fun l r => orderingRef g.headers l r != .gt) }

/-! ### Sorter -/

/-- `Record::ordering`: compare by key expressions; a key that cannot be evaluated on a row
(e.g. a missing field) orders that row after every row that has a value, and equal to another
row on which it fails -/
def orderingBy (ext : Ext) (cols : List Expr) (l r : Fields) : Outcome Ordering :=
  match cols with
  | [] => .ok .eq
  | c :: cs =>
    match evalValue ext l c, evalValue ext r c with
    | .ok lv, .ok rv =>
      match Value.cmp lv rv with
      | .eq => orderingBy ext cs l r
      | o => .ok o
    | .ok _, .err _ => .ok .lt
    | .err _, .ok _ => .ok .gt
    | .err _, .err _ => orderingBy ext cs l r
    | .panic p, _ => .panic p
    | _, .panic p => .panic p
    | .unmodelled w, _ => .unmodelled w
    | _, .unmodelled w => .unmodelled w

/-- the comparator `Sorter::emit` hands to `sort_by` -/
def sortCmp (ext : Ext) (cols : List Expr) (dir : SortDir) (columns : List String) (l r : Fields) : Ordering :=
  let primary := match dir with
    | .asc => orderingBy ext cols l r
    | .desc => orderingBy ext cols r l
  let p := match primary with
    | .ok o => o
    | _ => .lt            -- `.unwrap_or(Ordering::Less)`
  match p with
  | .eq => orderingRef columns l r
  | o => o

/-- every sort key evaluates to a value or to an `EvalError` on every row (no panic, nothing
outside the modelled fragment) -/
def sortKeysOk (ext : Ext) (cols : List Expr) (rows : List Fields) : Bool :=
  rows.all (fun r => cols.all (fun c => match evalValue ext r c with
    | .ok _ => true
    | .err _ => true
    | _ => false))

def sortRows (ext : Ext) (cols : List Expr) (dir : SortDir) (columns : List String) (rows : List Fields) :
    List Fields :=
  rows.mergeSort (fun l r => sortCmp ext cols dir columns l r != .gt)

/-! ### PreAggAdapter -/

def dedupKeys (ks : List String) : List String :=
  ks.foldl (fun acc k => if acc.contains k then acc else acc ++ [k]) []

/-- insertion sort of strings (the model's canonical order for HASH ORDER column sets) -/
def sortStrings (l : List String) : List String := l.mergeSort (fun a b => a ≤ b)

end Ag
