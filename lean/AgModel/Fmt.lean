/-
Number formatting as Rust does it: `{}` for f64 (shortest digits that round-trip, never an
exponent), `{:.N}` (exact decimal expansion, round-half-even on the exact binary value).
-/
import AgModel.F64

namespace Ag
namespace F64

/-- exact positive rational (num, den) of a finite non-zero double's magnitude -/
def magRat (m : Nat) (e : Int) : Nat × Nat :=
  if e ≥ 0 then (m * pow2 e, 1) else (m, pow2 (-e))

/-- smallest k with num/den < 10^k (for num/den > 0), possibly ≤ 0 -/
def decExp (num den : Nat) : Int :=
  -- estimate from digit counts then correct
  let dn : Int := ((Nat.toDigits 10 num).length : Nat)
  let dd : Int := ((Nat.toDigits 10 den).length : Nat)
  let k0 := dn - dd      -- value ∈ (10^(k0-1), 10^(k0+1))
  -- value < 10^k0 ?
  let lt10 (k : Int) : Bool :=
    if k ≥ 0 then num < den * 10 ^ k.toNat else num * 10 ^ (-k).toNat < den
  if lt10 k0 then k0 else k0 + 1

def padLeft (c : Char) (n : Nat) (s : List Char) : List Char :=
  List.replicate (n - s.length) c ++ s

/-- render the decimal `digits · 10^ex` positionally (no exponent) -/
def positional (digits : Nat) (ex : Int) : String :=
  let ds := Nat.toDigits 10 digits
  if ex ≥ 0 then String.ofList (ds ++ List.replicate ex.toNat '0')
  else
    let fracLen := (-ex).toNat
    if ds.length > fracLen then
      let ip := ds.take (ds.length - fracLen)
      let fp := ds.drop (ds.length - fracLen)
      String.ofList (ip ++ ['.'] ++ fp)
    else
      String.ofList (['0', '.'] ++ padLeft '0' fracLen ds)

/-- shortest decimal (digits, exponent) that parses back to `fin false m e`, closest to the value -/
def shortest (m : Nat) (e : Int) : Nat × Int :=
  let (num, den) := magRat m e
  let k := decExp num den
  let target := fin false m e
  let rec go (n : Nat) (fuel : Nat) : Nat × Int :=
    match fuel with
    | 0 => (m, e)   -- unreachable: 17 digits always suffice
    | fuel + 1 =>
      -- x = value · 10^(n-k)
      let s : Int := (n : Int) - k
      let (xn, xd) := if s ≥ 0 then (num * 10 ^ s.toNat, den) else (num, den * 10 ^ (-s).toNat)
      let lo := xn / xd
      let hi := lo + 1
      let okLo := lo > 0 && ofDecimal false lo (-s) == target
      let okHi := ofDecimal false hi (-s) == target
      -- distance comparison: 2·(x − lo) vs 1.  An exact tie goes UP (flt2dec `format_shortest`:
      -- "rounding up when … both conditions were triggered and tie breaking prefers rounding up",
      -- `mant·2 ≥ scale`), e.g. 1000000000000000.25 prints as `1000000000000000.3`
      let r2 := 2 * (xn % xd)
      let pickLo := r2 < xd
      if okLo && okHi then (if pickLo then (lo, -s) else (hi, -s))
      else if okLo then (lo, -s)
      else if okHi then (hi, -s)
      else go (n + 1) fuel
  go 1 20

/-- strip trailing zeros of the digit string into the exponent -/
def normDigits (d : Nat) (ex : Int) (fuel : Nat := 400) : Nat × Int :=
  match fuel with
  | 0 => (d, ex)
  | fuel + 1 => if d ≠ 0 && d % 10 == 0 then normDigits (d / 10) (ex + 1) fuel else (d, ex)

/-- Rust `format!("{}", f)` -/
def display : F64 → String
  | nan => "NaN"
  | inf s => if s then "-inf" else "inf"
  | fin s m e =>
    let sign := if s then "-" else ""
    if m = 0 then sign ++ "0"
    else
      let (d, ex) := shortest m e
      let (d, ex) := normDigits d ex
      sign ++ positional d ex

/-- Rust `format!("{:.prec$}", f)` -/
def displayPrec (prec : Nat) : F64 → String
  | nan => "NaN"
  | inf s => if s then "-inf" else "inf"
  | fin s m e =>
    let (num, den) := magRat m e
    let scaled := divRoundEven (num * 10 ^ prec) den
    let sign := if s then "-" else ""
    if prec = 0 then sign ++ toString scaled
    else sign ++ positional scaled (-(prec : Int))

end F64
end Ag
