/-
The machine-readable output modes (src/printer.rs:62-259, src/data.rs:31-126, src/bin/agrind.rs:69-121):

* `-o json`   : `JsonPrinter` over the custom `Serialize` impls.  Modelled at the VALUE level: the tree
                that serde_json is asked to write (`JVal`); the text layer (string escaping, ryu) is
                serde_json's and is checked by re-parsing every emitted line.
* `-o logfmt` : `LogFmtPrinter::print_row`: `k=v` pairs sorted by (key, value), joined by one blank;
                aggregates one row per line (`PrintAggregateAsRows`).
* `-o format=…` / `--format …` : `FormatPrinter` = the `strfmt` crate's `strfmt_map` (0.2.4), transcribed
                arm by arm: the brace tokenizer, `Formatter::from_str` (python-style format spec) and
                `Formatter::str`.  Validation at construction = one run with a formatter that writes "".
* the CLI decision table `parse_output` and the `-o` / `--format` exclusivity.
-/
import AgModel.Render
import AgModel.Record

namespace Ag
namespace Out

/-! ### JSON mode (value level) -/

/-- the tree handed to `serde_json` (objects ordered, duplicate keys possible) -/
inductive JVal where
  | null
  | bool (b : Bool)
  | int (i : Int)
  | num (f : F64)            -- finite
  | str (s : String)
  | arr (l : List JVal)
  | obj (kvs : List (String × JVal))
deriving Repr, Inhabited

mutual
/-- `impl Serialize for Value` (src/data.rs:91-114); `serialize_f64` of a non-finite number writes
`null` (serde_json) -/
def toJson : Value → JVal
  | .none => .null
  | .bool b => .bool b
  | .int i => .int i
  | .float f => if f.isFinite then .num f else .null
  | .str s => .str s
  | .date ns => .str (Time.rfc3339 ns)
  | .dur ns => .str (Time.isoDuration ns)
  | .arr vs => .arr (toJsonList vs)
  -- nested members in key order: `map.iter().sorted_by(key)` since the repair 2099327 (before it
  -- the code iterated the `im::HashMap` in hash order: class C18/nested-key-order-nondeterministic)
  | .obj kvs => .obj (toJsonKVs kvs)
def toJsonList : List Value → List JVal
  | [] => []
  | v :: rest => toJson v :: toJsonList rest
def toJsonKVs : List (String × Value) → List (String × JVal)
  | [] => []
  | (k, v) :: rest => (k, toJson v) :: toJsonKVs rest
end

/-- stable insertion by key: `p` goes in front of the first element whose key is not smaller -/
def insertByKey {α : Type} (p : String × α) : List (String × α) → List (String × α)
  | [] => [p]
  | q :: t => if q.1 < p.1 then q :: insertByKey p t else p :: q :: t

/-- `.sorted()` of `(key, value)` pairs: a stable sort by key (pairs with equal keys only occur for
duplicate aggregate columns, and then carry the same value) -/
def sortByKey {α : Type} (l : List (String × α)) : List (String × α) := l.foldr insertByKey []

/-- `WrappedAggregateRow`: every column, in column order, missing ↦ `Value::None` -/
def columnsOf (cols : List String) (row : Fields) : List (String × Value) :=
  cols.map (fun c => (c, (Fields.get c row).getD .none))

/-- `impl Serialize for Record`: `self.data.iter().sorted()` -/
def jsonRecord (r : Record) : JVal := .obj (toJsonKVs (sortByKey r.data))

/-- `impl Serialize for Aggregate`: one array; each row carries every column in column order -/
def jsonTable (t : Table) : JVal :=
  .arr (t.rows.map (fun row => .obj (toJsonKVs (columnsOf t.columns row))))

/-! ### logfmt mode -/

def joinWith (sep : String) : List String → String
  | [] => ""
  | [x] => x
  | x :: xs => x ++ sep ++ joinWith sep xs

def showPair (kv : String × Value) : String := kv.1 ++ "=" ++ kv.2.render

/-- `LogFmtPrinter::print_row` -/
def logfmtRow (pairs : List (String × Value)) : String :=
  joinWith " " ((sortByKey pairs).map showPair)

/-- record + the renderer's `writeln!` -/
def logfmtRecord (r : Record) : String := logfmtRow r.data ++ "\n"

/-- `PrintAggregateAsRows::final_print` -/
def logfmtTable (t : Table) : String :=
  String.join (t.rows.map (fun row => logfmtRow (columnsOf t.columns row) ++ "\n"))

/-! ### format mode: the `strfmt` crate -/

inductive Align where
  | unspecified | left | center | right | equal
deriving DecidableEq, Repr, Inhabited

/-- the parsed format spec (`Formatter`'s private fields) -/
structure Spec where
  fill : Char := ' '
  align : Align := .unspecified
  sign : Option Char := none
  alternate : Bool := false
  width : Option Nat := none
  thousands : Bool := false
  precision : Option Nat := none
  ty : Option Char := none
deriving DecidableEq, Repr, Inhabited

structure Formatter where
  key : List Char
  spec : Spec
deriving DecidableEq, Repr, Inhabited

def isAlignTok (c : Char) : Bool := c == '=' || c == '<' || c == '^' || c == '>'
def alignOf (c : Char) : Align :=
  if c == '<' then .left else if c == '^' then .center else if c == '>' then .right else .equal
def isSignTok (c : Char) : Bool := c == ' ' || c == '-' || c == '+'
def isTypeTok (c : Char) : Bool :=
  c == 'b' || c == 'o' || c == 'x' || c == 'X' || c == 'e' || c == 'E' || c == 'f' || c == 'F' ||
  c == '%' || c == 's' || c == '?'

def utf8Len (cs : List Char) : Nat := cs.foldl (fun n c => n + c.utf8Size) 0

/-- `get_integer` + the i64 overflow check: (digits consumed?, value) -/
def getInteger (cs : List Char) : Option (Option Nat × List Char) :=
  let ds := cs.takeWhile Char.isDigit
  let rest := cs.dropWhile Char.isDigit
  if ds.isEmpty then some (none, rest)
  else
    let v := Value.digitsToNat ds
    if (v : Int) ≤ F64.i64Max then some (some v, rest) else none

/-- `parse_like_python` (formatter.rs:71-217).  The crate works on bytes after the fill character;
every token it looks for is ASCII, so a character-level reading is the same (a multi-byte character
is never consumed by any clause and then trips "more than one byte remains"). -/
def parseSpec (rest : List Char) : Option Spec :=
  match rest with
  | [] => some {}
  | ff :: _ =>
    -- fill + alignment
    let (sp, r, fillSpecified, alignSpecified) : Spec × List Char × Bool × Bool :=
      match rest with
      | f :: a :: r' =>
        if isAlignTok a then ({ fill := f, align := alignOf a }, r', true, true)
        else if isAlignTok ff then ({ align := alignOf ff }, a :: r', false, false)
        else ({}, rest, false, false)
      | [f] => if isAlignTok f then ({ align := alignOf f }, [], false, false) else ({}, rest, false, false)
      | [] => ({}, [], false, false)
    -- sign
    let (sp, r) := match r with
      | c :: r' => if isSignTok c then ({ sp with sign := some c }, r') else (sp, r)
      | [] => (sp, r)
    -- alternate
    let (sp, r) := match r with
      | c :: r' => if c == '#' then ({ sp with alternate := true }, r') else (sp, r)
      | [] => (sp, r)
    -- zero padding
    let (sp, r) := match r with
      | c :: r' =>
        if !fillSpecified && c == '0' then
          ({ sp with fill := '0', align := if alignSpecified then sp.align else .equal }, r')
        else (sp, r)
      | [] => (sp, r)
    -- width
    match getInteger r with
    | none => none        -- "overflow error when parsing width"
    | some (w, r) =>
      let sp := { sp with width := w }
      let (sp, r) := match r with
        | c :: r' => if c == ',' then ({ sp with thousands := true }, r') else (sp, r)
        | [] => (sp, r)
      -- precision
      let prec : Option (Option Nat × List Char) := match r with
        | c :: r' =>
          if c == '.' then
            match getInteger r' with
            | none => none                    -- overflow
            | some (none, _) => none          -- "Format specifier missing precision"
            | some (some p, r'') => some (some p, r'')
          else some (none, r)
        | [] => some (none, r)
      match prec with
      | none => none
      | some (p, r) =>
        let sp := { sp with precision := p }
        if utf8Len r > 1 then none          -- "Invalid format specifier"
        else
          let spTy : Option Spec := match r with
            | [c] => if isTypeTok c then some { sp with ty := some c } else none
            | _ => some sp
          match spTy with
          | none => none
          | some sp =>
            if sp.thousands then
              match sp.ty with
              | none => some sp
              | some t =>
                if t == 'd' || t == 'e' || t == 'f' || t == 'g' || t == 'E' || t == 'G' || t == '%' || t == 'F'
                then some sp else none
            else some sp

/-- `Formatter::from_str`: identifier up to the first `:` (must be non-empty), then the spec -/
def Formatter.ofPattern (pat : List Char) : Option Formatter :=
  match pat with
  | [] => none
  | ':' :: _ => none
  | _ =>
    let ident := pat.takeWhile (· != ':')
    let rest := (pat.dropWhile (· != ':')).drop 1
    match parseSpec rest with
    | some sp => some { key := ident, spec := sp }
    | none => none

/-- `Formatter::str(s)` (fmtstr.rs:73-151): the text appended to the output, `none` = `Err` -/
def Formatter.str (fm : Formatter) (s : List Char) : Option (List Char) :=
  let sp := fm.spec
  if !(sp.ty == none || sp.ty == some 's') then none
  else if sp.alternate then none
  else if sp.thousands then none
  else if sp.sign.isSome then none
  else
    let len := match sp.precision with
      | some p => if p < s.length then p else s.length
      | none => s.length
    let body := s.take len
    match sp.width with
    | none => some body
    | some w =>
      if w > len then
        match sp.align with
        | .unspecified => some (body ++ List.replicate (w - len) sp.fill)   -- default for strings: Left
        | .left => some (body ++ List.replicate (w - len) sp.fill)
        | .center =>
          let d := w - len
          some (List.replicate (d / 2) sp.fill ++ body ++ List.replicate (d / 2 + d % 2) sp.fill)
        | .right => some (List.replicate (w - len) sp.fill ++ body)
        | .equal => none
      else some body

inductive FmtTok where
  | lit (c : Char)
  | key (fm : Formatter)
deriving DecidableEq, Repr, Inhabited

/-- tokenizer state of `strfmt_map`: `pat` = the characters read since the opening brace (reversed);
`opening_brace == bytes_read - 2` is `pat = []` -/
structure TokSt where
  toks : List FmtTok := []       -- reversed
  reading : Bool := false
  closing : Bool := false
  pat : List Char := []
deriving Repr, Inhabited

/-- one character of `strfmt_map`'s loop; `none` = `Err(FmtError::…)` -/
def tokStep (s : TokSt) (c : Char) : Option TokSt :=
  if c == '{' then
    if s.reading && s.pat.isEmpty then some { s with toks := .lit '{' :: s.toks, reading := false }
    else if !s.reading then some { s with reading := true, pat := [] }
    else none                                               -- "extra { found"
  else if c == '}' then
    if !s.reading && !s.closing then some { s with closing := true }
    else if s.closing then
      -- "}}"; when a `{` came in between, the brace is also inside the pattern's byte range
      some { s with toks := .lit '}' :: s.toks, closing := false,
                    pat := if s.reading then '}' :: s.pat else s.pat }
    else
      match Formatter.ofPattern s.pat.reverse with
      | none => none
      | some fm => some { s with toks := .key fm :: s.toks, reading := false, pat := [] }
  else if s.closing then none                               -- "Single '}' encountered"
  else if !s.reading then some { s with toks := .lit c :: s.toks }
  else some { s with pat := c :: s.pat }

def tokRun : TokSt → List Char → Option TokSt
  | s, [] => some s
  | s, c :: cs =>
    match tokStep s c with
    | none => none
    | some s' => tokRun s' cs

/-- the token list of a format string: literal characters (`{{` ↦ `{`, `}}` ↦ `}`) and `{key[:spec]}`
fields; `none` = the format string is malformed -/
def fmtTokens (fmt : List Char) : Option (List FmtTok) :=
  match tokRun {} fmt with
  | none => none
  | some s => if s.closing || s.reading then none else some s.toks.reverse

/-- the streaming original: output buffer instead of a token list, the closure `f` called on the fly -/
structure MapSt where
  out : List Char := []          -- reversed
  reading : Bool := false
  closing : Bool := false
  pat : List Char := []
deriving Repr, Inhabited

def mapStep (f : Formatter → Option (List Char)) (s : MapSt) (c : Char) : Option MapSt :=
  if c == '{' then
    if s.reading && s.pat.isEmpty then some { s with out := '{' :: s.out, reading := false }
    else if !s.reading then some { s with reading := true, pat := [] }
    else none
  else if c == '}' then
    if !s.reading && !s.closing then some { s with closing := true }
    else if s.closing then
      some { s with out := '}' :: s.out, closing := false,
                    pat := if s.reading then '}' :: s.pat else s.pat }
    else
      match Formatter.ofPattern s.pat.reverse with
      | none => none
      | some fm =>
        match f fm with
        | none => none
        | some txt => some { s with out := txt.reverse ++ s.out, reading := false, pat := [] }
  else if s.closing then none
  else if !s.reading then some { s with out := c :: s.out }
  else some { s with pat := c :: s.pat }

def mapRun (f : Formatter → Option (List Char)) : MapSt → List Char → Option MapSt
  | s, [] => some s
  | s, c :: cs =>
    match mapStep f s c with
    | none => none
    | some s' => mapRun f s' cs

/-- `strfmt_map(fmtstr, f)` -/
def strfmtMap (f : Formatter → Option (List Char)) (fmt : List Char) : Option (List Char) :=
  match mapRun f {} fmt with
  | none => none
  | some s => if s.closing || s.reading then none else some s.out.reverse

/-- `FormatPrinter::new`: one run with `|mut fmt| fmt.str("")`; `true` = `Ok` -/
def formatNew (fmt : String) : Bool := (strfmtMap (fun fm => fm.str []) fmt.toList).isSome

/-- `strformat_record`: each field shows the `ValueDisplay` text of the looked-up value -/
def strformat (fmt : String) (lookup : String → Value) : Option String :=
  (strfmtMap (fun fm => fm.str (lookup (String.ofList fm.key)).render.toList) fmt.toList).map String.ofList

/-- text of one token under a lookup -/
def tokText (lookup : String → Value) : FmtTok → Option (List Char)
  | .lit c => some [c]
  | .key fm => fm.str (lookup (String.ofList fm.key)).render.toList

/-- `impl RecordPrinter for FormatPrinter` + the renderer's `writeln!`; `none` = the `FmtError`'s
text is written instead (cannot happen once `formatNew` accepted the string: C18_format_total) -/
def formatRecord (fmt : String) (r : Record) : Option String :=
  (strformat fmt (fun k => (Fields.get k r.data).getD .none)).map (· ++ "\n")

/-- `cols.iter().find(|(k, _)| query == *k)` on the row's column pairs -/
def findCol (k : String) : List (String × Value) → Value
  | [] => .none
  | (c, v) :: rest => if k == c then v else findCol k rest

/-- `impl RowPrinter for FormatPrinter` under `PrintAggregateAsRows` -/
def formatTable (fmt : String) (t : Table) : Option String :=
  let lines := t.rows.map (fun row => (strformat fmt (fun k => findCol k (columnsOf t.columns row))).map (· ++ "\n"))
  if lines.all Option.isSome then some (String.join (lines.map (·.getD ""))) else none

/-! ### CLI -/

inductive Mode where
  | legacy | json | logfmt
  | format (s : String)
deriving DecidableEq, Repr, Inhabited

inductive CliErr where
  | invalidOutputMode (choice : String)
  | invalidFormatString
  | cantSupplyBoth
  | badFormat                      -- `FormatPrinter::new` failed inside `Pipeline::new`
deriving DecidableEq, Repr, Inhabited

/-- `parse_output` on characters: split at the first `=` -/
def parseOutputL (cs : List Char) : Except CliErr Mode :=
  let arg := cs.takeWhile (· != '=')
  let val := (cs.dropWhile (· != '=')).drop 1
  if arg = "legacy".toList ∧ val = [] then .ok .legacy
  else if arg = "json".toList ∧ val = [] then .ok .json
  else if arg = "logfmt".toList ∧ val = [] then .ok .logfmt
  else if arg = "format".toList then
    if val = [] then .error .invalidFormatString else .ok (.format (String.ofList val))
  else .error (.invalidOutputMode (String.ofList arg))

def parseOutput (s : String) : Except CliErr Mode := parseOutputL s.toList

/-- `main`'s `match (args.output, args.format)` -/
def chooseMode : Option String → Option String → Except CliErr Mode
  | some _, some _ => .error .cantSupplyBoth
  | some o, none => parseOutput o
  | none, some f => if f.toList.isEmpty then .error .invalidFormatString else .ok (.format f)
  | none, none => parseOutput "legacy"

/-- everything that happens before the first byte of input is read: flag handling, then
`Pipeline::new` building the printers -/
def startup (o f : Option String) : Except CliErr Mode :=
  match chooseMode o f with
  | .error e => .error e
  | .ok (.format s) => if formatNew s then .ok (.format s) else .error .badFormat
  | .ok m => .ok m

end Out
end Ag
