/-
chrono text formats for `DateTime<Utc>` and `Duration` (`TimeDelta`), on nanosecond counts.
-/
import AgModel.Value

namespace Ag
namespace Time

/-- civil date from days since 1970-01-01 (proleptic Gregorian; Howard Hinnant's algorithm) -/
def civilFromDays (z0 : Int) : Int × Nat × Nat :=
  let z := z0 + 719468
  let era := z.fdiv 146097
  let doe := (z - era * 146097).toNat                       -- [0, 146096]
  let yoe := (doe - doe / 1460 + doe / 36524 - doe / 146096) / 365
  let y : Int := (yoe : Int) + era * 400
  let doy := doe - (365 * yoe + yoe / 4 - yoe / 100)
  let mp := (5 * doy + 2) / 153
  let d := doy - (153 * mp + 2) / 5 + 1
  let m := if mp < 10 then mp + 3 else mp - 9
  (if m ≤ 2 then y + 1 else y, m, d)

def pad (n : Nat) (w : Nat) : String :=
  let s := toString n
  String.ofList (List.replicate (w - s.length) '0') ++ s

/-- fractional seconds as chrono's AutoSi: nothing, .3, .6 or .9 digits -/
def fracAuto (nano : Nat) : String :=
  if nano = 0 then ""
  else if nano % 1000000 = 0 then "." ++ pad (nano / 1000000) 3
  else if nano % 1000 = 0 then "." ++ pad (nano / 1000) 6
  else "." ++ pad nano 9

def yearStr (y : Int) : String :=
  if 0 ≤ y && y ≤ 9999 then pad y.toNat 4
  else (if y < 0 then "-" else "+") ++ pad y.natAbs 4

structure Parts where
  year : Int
  month : Nat
  day : Nat
  hour : Nat
  min : Nat
  sec : Nat
  nano : Nat

def parts (ns : Int) : Parts :=
  let secs := ns.fdiv 1000000000
  let nano := (ns.fmod 1000000000).toNat
  let days := secs.fdiv 86400
  let sod := (secs.fmod 86400).toNat
  let (y, m, d) := civilFromDays days
  { year := y, month := m, day := d, hour := sod / 3600, min := (sod % 3600) / 60, sec := sod % 60, nano := nano }

/-- `DateTime<Utc>::to_rfc3339()` (used by `Serialize`) -/
def rfc3339 (ns : Int) : String :=
  let p := parts ns
  yearStr p.year ++ "-" ++ pad p.month 2 ++ "-" ++ pad p.day 2 ++ "T" ++
    pad p.hour 2 ++ ":" ++ pad p.min 2 ++ ":" ++ pad p.sec 2 ++ fracAuto p.nano ++ "+00:00"

/-- `Display for DateTime<Utc>` (used by `ValueDisplay`) -/
def displayDate (ns : Int) : String :=
  let p := parts ns
  yearStr p.year ++ "-" ++ pad p.month 2 ++ "-" ++ pad p.day 2 ++ " " ++
    pad p.hour 2 ++ ":" ++ pad p.min 2 ++ ":" ++ pad p.sec 2 ++ fracAuto p.nano ++ " UTC"

/-- `Display for TimeDelta` (ISO-8601-like; used by `Serialize`) -/
def isoDuration (ns : Int) : String :=
  let sign := if ns < 0 then "-" else ""
  let a := ns.natAbs
  if a = 0 then sign ++ "P0D"
  else
    let secs := a / 1000000000
    let nano := a % 1000000000
    let rec strip (d : Nat) (figs : Nat) (fuel : Nat) : Nat × Nat :=
      match fuel with
      | 0 => (d, figs)
      | fuel + 1 => if d % 10 = 0 then strip (d / 10) (figs - 1) fuel else (d, figs)
    let frac := if nano > 0 then
        let (d, figs) := strip nano 9 9
        "." ++ pad d figs
      else ""
    sign ++ "PT" ++ toString secs ++ frac ++ "S"

/-- `ValueDisplay` for durations: `1w2d3h4m5s6ms7us` (zero parts omitted, truncating division) -/
def renderDuration (ns : Int) : String :=
  let numSeconds (x : Int) : Int := x.tdiv 1000000000
  let weeks := (numSeconds ns).tdiv 604800
  let r1 := ns - weeks * 604800 * 1000000000
  let days := (numSeconds r1).tdiv 86400
  let r2 := r1 - days * 86400 * 1000000000
  let hours := (numSeconds r2).tdiv 3600
  let r3 := r2 - hours * 3600 * 1000000000
  let mins := (numSeconds r3).tdiv 60
  let r4 := r3 - mins * 60 * 1000000000
  let secs := numSeconds r4
  let r5 := r4 - secs * 1000000000
  let msecs := r5.tdiv 1000000
  let r6 := r5 - msecs * 1000000
  let usecs := r6.tdiv 1000
  let parts : List (Int × String) :=
    [(weeks, "w"), (days, "d"), (hours, "h"), (mins, "m"), (secs, "s"), (msecs, "ms"), (usecs, "us")]
  String.join ((parts.filter (fun p => p.1 != 0)).map (fun p => toString p.1 ++ p.2))

end Time
end Ag
