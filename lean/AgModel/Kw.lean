/-
`Keyword::to_regex` (src/lang.rs:396-413) for Exact / Wildcard keywords, and a matcher with the
regex crate's leftmost-first semantics for exactly the fragment that function can emit:
literals under `(?i)`, `\s`, lazy `(.*?)` groups and an optional final `$`.

Case-insensitivity is modelled for ASCII only (Unicode simple case folding is outside the
model; U+212A KELVIN SIGN and U+017F LONG S, which fold to ASCII letters, are excluded by the
correspondence generators).
-/
import AgModel.Ast
import AgModel.Text

namespace Ag
namespace Kw

inductive Tok where
  | lit (c : Char)
  | ws
  | wild
  | eol
deriving DecidableEq, Repr, Inhabited

/-- `s.replace("\\\"", "\"")` -/
def unescapeQuotes : List Char → List Char
  | '\\' :: '"' :: r => '"' :: unescapeQuotes r
  | c :: r => c :: unescapeQuotes r
  | [] => []

def isMeta (c : Char) : Bool :=
  "\\.+*?()|[]{}^$#&-~".toList.contains c

def toToks (k : Keyword) : List Tok :=
  let cs := unescapeQuotes k.text.toList
  let body := cs.map (fun c =>
    if c == ' ' then Tok.ws
    else if c == '*' && k.ty == .wildcard then Tok.wild
    else Tok.lit c)
  if k.ty == .wildcard && k.text.toList.getLast? == some '*' then body ++ [Tok.eol] else body

/-- the text `Keyword::to_regex().as_str()` must produce -/
def renderRegex (k : Keyword) : String :=
  let cs := unescapeQuotes k.text.toList
  let body := cs.foldr (fun c acc =>
    if c == ' ' then '\\' :: 's' :: acc
    else if c == '*' && k.ty == .wildcard then "(.*?)".toList ++ acc
    else if isMeta c then '\\' :: c :: acc
    else c :: acc) []
  let tail := if k.ty == .wildcard && k.text.toList.getLast? == some '*' then ['$'] else []
  String.ofList ("(?i)".toList ++ body ++ tail)

def foldEq (a b : Char) : Bool := a.toLower == b.toLower

abbrev Caps := List (List Char)

/-- lazy `(.*?)` followed by continuation `k`: shortest extension first; `.` excludes `\n` -/
def wildK (k : List Char → Option Caps) : List Char → List Char → Option Caps
  | acc, [] => (k []).map (acc.reverse :: ·)
  | acc, d :: s =>
    match k (d :: s) with
    | some caps => some (acc.reverse :: caps)
    | none => if d == '\n' then none else wildK k (d :: acc) s

/-- match the token list at the start of the input -/
def matchHere : List Tok → List Char → Option Caps
  | [] => fun _ => some []
  | .lit c :: ts => fun s =>
    match s with
    | d :: s' => if foldEq c d then matchHere ts s' else none
    | [] => none
  | .ws :: ts => fun s =>
    match s with
    | d :: s' => if Text.isWhite d then matchHere ts s' else none
    | [] => none
  | .wild :: ts => wildK (matchHere ts) []
  | .eol :: ts => fun s => if s.isEmpty then matchHere ts s else none

/-- leftmost match: captures of the first start position that matches -/
def find (toks : List Tok) : List Char → Option Caps
  | [] => matchHere toks []
  | c :: s =>
    match matchHere toks (c :: s) with
    | some caps => some caps
    | none => find toks s

def isMatch (k : Keyword) (line : List Char) : Bool := (find (toToks k) line).isSome

def captures (k : Keyword) (line : List Char) : Option Caps := find (toToks k) line

/-- characters without case variants under Unicode simple case folding: ASCII is handled by
`foldEq`; beyond ASCII a conservative list of caseless blocks (Lean's `Char.toLower` is ASCII-only,
so casedness cannot be computed here).  Latin-1 symbols (not ª µ º), × ÷, General Punctuation,
arrows … Miscellaneous Technical, box drawing … dingbats, CJK symbols, kana, CJK ideographs,
Hangul syllables, pictographs. -/
def caseless (c : Char) : Bool :=
  let n := c.toNat
  n < 128 ||
  (0xA0 ≤ n && n ≤ 0xBF && n != 0xAA && n != 0xB5 && n != 0xBA) || n == 0xD7 || n == 0xF7 ||
  (0x2000 ≤ n && n ≤ 0x206F) || (0x2190 ≤ n && n ≤ 0x23FF) || (0x2500 ≤ n && n ≤ 0x27BF) ||
  (0x3000 ≤ n && n ≤ 0x30FF) || (0x4E00 ≤ n && n ≤ 0x9FFF) || (0xAC00 ≤ n && n ≤ 0xD7A3) ||
  (0x1F300 ≤ n && n ≤ 0x1FAFF)

/-- the model covers this keyword/line pair (ASCII-only case folding): no regex keyword, every
keyword character ASCII or known caseless, and the line free of the two non-ASCII characters that
fold to ASCII letters (U+212A KELVIN SIGN ↦ k, U+017F LONG S ↦ s) -/
def modelled (k : Keyword) (line : List Char) : Bool :=
  k.ty != .regex &&
  k.text.toList.all caseless &&
  line.all (fun c => c.toNat != 0x212A && c.toNat != 0x017F)

end Kw

namespace Search

mutual
/-- `Filter::matches` over `convert_filter` -/
def sem : Search → List Char → Bool
  | .and l, s => semAll l s
  | .or l, s => semAny l s
  | .not f, s => !sem f s
  | .kw k, s => Kw.isMatch k s
def semAll : List Search → List Char → Bool
  | [], _ => true
  | f :: fs, s => sem f s && semAll fs s
def semAny : List Search → List Char → Bool
  | [], _ => false
  | f :: fs, s => sem f s || semAny fs s
end

mutual
def modelled : Search → List Char → Bool
  | .and l, s => modelledL l s
  | .or l, s => modelledL l s
  | .not f, s => modelled f s
  | .kw k, s => Kw.modelled k s
def modelledL : List Search → List Char → Bool
  | [], _ => true
  | f :: fs, s => modelled f s && modelledL fs s
end

end Search
end Ag
