/-
Type checking (src/typecheck.rs), `Pipeline::new` (src/lib.rs:132-214) and the sequential
semantics of `Pipeline::process` (src/lib.rs:265-345) for a non-terminal output.
-/
import AgModel.Agg

namespace Ag

mutual
/-- `TypeCheck<operator::Expr> for lang::Expr`: only unknown functions and error nodes fail -/
def Expr.wellTyped : Expr → Bool
  | .col _ _ => true
  | .not e => e.wellTyped
  | .cmp _ l r => l.wellTyped && r.wellTyped
  | .arith _ l r => l.wellTyped && r.wellTyped
  | .logic _ l r => l.wellTyped && r.wellTyped
  | .call fn args => isFunction fn && Expr.wellTypedL args
  | .ifop c t f => c.wellTyped && t.wellTyped && f.wellTyped
  | .val _ => true
  | .error => false
def Expr.wellTypedL : List Expr → Bool
  | [] => true
  | e :: es => e.wellTyped && Expr.wellTypedL es
end

def optWellTyped : Option Expr → Bool
  | none => true
  | some e => e.wellTyped

/-- number of `*` wildcards = `regex.captures_len() - 1` for a Wildcard keyword -/
def captureCount (k : Keyword) : Nat :=
  if k.ty == .wildcard then (k.text.toList.filter (· == '*')).length else 0

inductive Static (α : Type) where
  | ok (a : α)
  | typeError (kind : String)
  | panic (site : String)
  | unmodelled (w : String)
deriving Repr, Inhabited

/-- `TypeCheck for Positioned<InlineOperator>` -/
def typecheckInline : Inline → Static RowOp
  | .json src => if optWellTyped src then .ok (.json src) else .typeError "ExpectedExpr"
  | .logfmt src => if optWellTyped src then .ok (.logfmt src) else .typeError "ExpectedExpr"
  | .parse pat fields f1 f2 noDrop noConvert =>
    if pat.ty == .regex then .unmodelled "parse regex" else
    match f1, f2 with
    | some _, some _ => .typeError "DoubleFromClause"
    | _, _ =>
      let src := f1.orElse fun _ => f2
      if captureCount pat != fields.length then .typeError "ParseNumPatterns"
      else if !optWellTyped src then .typeError "ExpectedExpr"
      else .ok (.parse pat fields src (!noDrop) noConvert)
  | .fields mode names => .ok (.fields mode names)
  | .whereOp none => .typeError "ExpectedExpr"
  | .whereOp (some e) =>
    if !e.wellTyped then .typeError "ExpectedExpr"
    else
      match e with
      | .val (.bool b) => .ok (.whereConst b)
      | .val _ => .typeError "ExpectedBool"
      | _ => .ok (.whereE e)
  | .limit none => .ok (.limit 10)
  | .limit (some f) =>
    -- `limit.trunc() == 0.0 || limit.fract() != 0.0`
    if F64.feq (F64.trunc f) F64.zero || F64.fractNonzero f then .typeError "InvalidLimit"
    else
      -- (before repo commit 68d8770 `-limit` overflowed for i64::MIN and a huge negative limit
      -- aborted in `VecDeque::with_capacity`; `unsigned_abs` + capped capacity now)
      .ok (.limit (F64.toI64 f))
  | .split sep src dst =>
    if sep.isEmpty then .typeError "EmptySeparator"
    else if optWellTyped src && optWellTyped dst then .ok (.split sep src dst) else .typeError "ExpectedExpr"
  | .timeslice _ none _ => .typeError "ExpectedDuration"
  | .timeslice src (some d) dst =>
    if src.wellTyped then .ok (.timeslice src d dst) else .typeError "ExpectedExpr"
  | .total src dst => if src.wellTyped then .ok (.total src dst) else .typeError "ExpectedExpr"
  | .fieldExpr e name => if e.wellTyped then .ok (.fieldExpr e name) else .typeError "ExpectedExpr"

/-- `TypeCheck for Positioned<AggregateFunction>` -/
def typecheckAgg : AggFn → Static AggDef
  | .count c => if optWellTyped c then .ok (.count c) else .typeError "ExpectedExpr"
  | .sum e => if e.wellTyped then .ok (.sum e) else .typeError "ExpectedExpr"
  | .min e => if e.wellTyped then .ok (.min e) else .typeError "ExpectedExpr"
  | .max e => if e.wellTyped then .ok (.max e) else .typeError "ExpectedExpr"
  | .avg e => if e.wellTyped then .ok (.avg e) else .typeError "ExpectedExpr"
  | .pct p _ e =>
    if !e.wellTyped then .typeError "ExpectedExpr"
    else if F64.le (F64.ofInt 1) p then .panic "percentile.rs:8 Percentiles must be < 1"
    else .ok (.pct p e)
  | .countDistinct (some [e]) => if e.wellTyped then .ok (.countDistinct e) else .typeError "ExpectedExpr"
  | .countDistinct _ => .typeError "ExpectedExpr"
  | .error => .panic "typecheck.rs:402 unreachable!()"

/-- the post-aggregation stages of a compiled pipeline -/
inductive AggStage where
  | group (g : Grouper)
  | sort (cols : List Expr) (dir : SortDir)
  | adapt (op : RowOp)
deriving Repr, Inhabited

structure Plan where
  filter : Search
  pre : List RowOp
  post : List AggStage
deriving Repr, Inhabited

inductive Compile where
  | ok (p : Plan)
  | error (kind : String)           -- `Pipeline::new` returns `Err`
  | panic (site : String)
  | unmodelled (w : String)
deriving Repr, Inhabited

/-- `multi_agg.key_cols.contains(&Expr::column("_timeslice"))` -/
def isTimesliceCol : Expr → Bool
  | .col "_timeslice" [] => true
  | _ => false

/-- `Pipeline::implicit_sort` -/
def implicitSort (m : MultiAgg) : List Expr × SortDir :=
  let cols := m.fns.map (fun nf => Expr.col nf.1 [])
  if m.keyCols.any isTimesliceCol then (Expr.col "_timeslice" [] :: cols, .asc) else (cols, .desc)

/-- the first column name of an aggregation that repeats an earlier one (`names` starts as the key
headers; `names.contains(&name)` … `names.push(name)` in `convert_multi_agg`) -/
def dupColumn (seen : List String) : List String → Option String
  | [] => none
  | n :: rest => if seen.contains n then some n else dupColumn (seen ++ [n]) rest

def convertMultiAgg (m : MultiAgg) : Static Grouper :=
  -- the accumulators of a group are kept by column name: every column needs a name of its own
  if (dupColumn m.headers (m.fns.map (·.1))).isSome then .typeError "DuplicateColumn" else
  let rec fns : List (String × AggFn) → Static (List (String × AggDef))
    | [] => .ok []
    | (n, f) :: rest =>
      match typecheckAgg f with
      | .ok d =>
        match fns rest with
        | .ok ds => .ok ((n, d) :: ds)
        | o => o
      | .typeError k => .typeError k
      | .panic p => .panic p
      | .unmodelled w => .unmodelled w
  match fns m.fns with
  | .ok ds =>
    if Expr.wellTypedL m.keyCols then .ok { keyCols := m.keyCols, headers := m.headers, fns := ds }
    else .typeError "ExpectedExpr"
  | .typeError k => .typeError k
  | .panic p => .panic p
  | .unmodelled w => .unmodelled w

/-- splice aliases: `Operator::RenderedAlias` pushes its operators onto the front of the queue -/
def flattenOps : Nat → List Operator → List Operator
  | 0, ops => ops
  | _, [] => []
  | fuel + 1, .alias inner :: rest => flattenOps fuel (inner ++ rest)
  | fuel + 1, op :: rest => op :: flattenOps fuel rest

/-- `needs_sort`: the aggregation ends the query or is directly followed by `limit` -/
def needsSortAfter : List Operator → Bool
  | [] => true
  | .inline (.limit _) :: _ => true
  | _ => false

/-- the loop of `Pipeline::new` over the (alias-free) operator list -/
def planLoop (inAgg : Bool) (hasErrors : Bool) (pre : List RowOp) (post : List AggStage) :
    List Operator → Compile
  | [] =>
    if hasErrors then .error "Parse" else .ok { filter := .and [], pre := pre.reverse, post := post.reverse }
  | .error :: rest => planLoop inAgg hasErrors pre post rest
  | .alias _ :: rest => planLoop inAgg hasErrors pre post rest   -- unreachable after flattenOps
  | .inline i :: rest =>
    match typecheckInline i with
    | .ok op =>
      if !inAgg then planLoop inAgg hasErrors (op :: pre) post rest
      else planLoop inAgg hasErrors pre (.adapt op :: post) rest
    | .typeError k => .error k
    | .panic p => .panic p
    | .unmodelled w => .unmodelled w
  | .agg m :: rest =>
    match convertMultiAgg m with
    | .ok g =>
      if needsSortAfter rest then
        -- `convert_sort(sorter, pipeline)?` : key columns are plain columns, always well-typed
        planLoop true hasErrors pre (.sort (implicitSort m).1 (implicitSort m).2 :: .group g :: post) rest
      else planLoop true hasErrors pre (.group g :: post) rest
    | .typeError _ => planLoop true true pre post rest
    | .panic p => .panic p
    | .unmodelled w => .unmodelled w
  | .sort cols dir :: rest =>
    if Expr.wellTypedL cols then planLoop true hasErrors pre (.sort cols dir :: post) rest
    else .error "ExpectedExpr"

def opsDepth : List Operator → Nat
  | [] => 0
  | .alias inner :: rest => opsDepth inner + opsDepth rest + 1
  | _ :: rest => opsDepth rest + 1

/-- `Pipeline::new` after a successful parse -/
def compile (q : Query) : Compile :=
  match planLoop false false [] [] (flattenOps (opsDepth q.ops + 1) q.ops) with
  | .ok p => .ok { p with filter := q.search }
  | o => o

/-! ### running a plan -/

/-- result of running the reader side: rows that reach the channel, in order, and the number of
`error:` lines printed by `proc_preagg` -/
structure PreOut where
  rows : List Record
  errors : Nat
deriving Repr, Inhabited

inductive RunR (α : Type) where
  | ok (a : α)
  | panic (site : String)
  | unmodelled (w : String)
deriving Repr, Inhabited

/-- `proc_preagg`: thread one record through the operators, updating their states -/
def procPreagg (ext : Ext) : List RowOp → List OpState → Record →
    RunR (List OpState × Option Record × Nat)
  | [], _, rec => .ok ([], some rec, 0)
  | _ :: _, [], _ => .panic "operator/state length mismatch"
  | op :: ops, st :: sts, rec =>
    match stepOp ext op st rec with
    | (st', .ok (some rec')) =>
      match procPreagg ext ops sts rec' with
      | .ok (sts', out, e) => .ok (st' :: sts', out, e)
      | o => o
    | (st', .ok none) => .ok (st' :: sts, none, 0)
    | (st', .err _) => .ok (st' :: sts, none, 1)
    | (_, .panic p) => .panic p
    | (_, .unmodelled w) => .unmodelled w

/-- feed a list of records through `ops` (with states), collecting what comes out -/
def feed (ext : Ext) (ops : List RowOp) : List OpState → List Record → List Record → Nat →
    RunR (List OpState × List Record × Nat)
  | sts, [], acc, e => .ok (sts, acc.reverse, e)
  | sts, r :: rs, acc, e =>
    match procPreagg ext ops sts r with
    | .ok (sts', some out, e') => feed ext ops sts' rs (out :: acc) (e + e')
    | .ok (sts', none, e') => feed ext ops sts' rs acc (e + e')
    | .panic p => .panic p
    | .unmodelled w => .unmodelled w

/-- the drain loop (src/lib.rs:295-304): flush each operator's buffered rows through the
operators after it -/
def drainLoop (ext : Ext) : List RowOp → List OpState → List Record → Nat →
    RunR (List Record × Nat)
  | [], _, acc, e => .ok (acc, e)
  | _ :: _, [], acc, e => .ok (acc, e)
  | _ :: ops, st :: sts, acc, e =>
    match feed ext ops sts (drainOp st) [] 0 with
    | .ok (sts', outs, e') => drainLoop ext ops sts' (acc ++ outs) (e + e')
    | .panic p => .panic p
    | .unmodelled w => .unmodelled w

/-- the reader side of `process()`: filter, `proc_preagg`, drain -/
def runPre (ext : Ext) (p : Plan) (lines : List String) : RunR PreOut :=
  let passing := lines.filter (fun l => Search.sem p.filter l.toList)
  if !lines.all (fun l => Search.modelled p.filter l.toList) then .unmodelled "filter keyword outside the modelled fragment" else
  let recs := passing.map (fun l => ({ data := [], raw := l } : Record))
  let sts := p.pre.map RowOp.init
  match feed ext p.pre sts recs [] 0 with
  | .ok (sts', outs, e) =>
    match drainLoop ext p.pre sts' [] 0 with
    | .ok (drained, e') => .ok { rows := outs ++ drained, errors := e + e' }
    | .panic p => .panic p
    | .unmodelled w => .unmodelled w
  | .panic p => .panic p
  | .unmodelled w => .unmodelled w

/-- `PreAggAdapter::process(Row::Aggregate)` -/
def adaptTable (ext : Ext) (op : RowOp) (t : Table) : RunR Table :=
  let recs := t.rows.map (fun d => ({ data := d, raw := "" } : Record))
  -- errors are dropped silently: `.flat_map(|rec| op.process_mut(rec).unwrap_or(None))`
  let rec go : OpState → List Record → List Fields → RunR (OpState × List Fields)
    | st, [], acc => .ok (st, acc.reverse)
    | st, r :: rs, acc =>
      match stepOp ext op st r with
      | (st', .ok (some r')) => go st' rs (r'.data :: acc)
      | (st', .ok none) => go st' rs acc
      | (st', .err _) => go st' rs acc
      | (_, .panic p) => .panic p
      | (_, .unmodelled w) => .unmodelled w
  match go op.init recs [] with
  | .ok (st, outs) =>
    let outs := outs ++ (drainOp st).map (·.data)
    let keySet := dedupKeys (outs.flatMap Fields.keys)
    let prev := t.columns.filter (fun c => keySet.contains c)
    -- HASH ORDER: new columns come out of a HashSet; the model lists them sorted
    let fresh := sortStrings (keySet.filter (fun c => !prev.contains c))
    .ok { columns := prev ++ fresh, rows := outs }
  | .panic p => .panic p
  | .unmodelled w => .unmodelled w

/-- one downstream aggregate stage applied to a complete table
(`agg.process(Row::Aggregate(t)); agg.emit()`) -/
def applyStage (ext : Ext) (s : AggStage) (t : Table) : RunR Table :=
  match s with
  | .group g =>
    let rec go : GroupState → List Fields → Outcome GroupState
      | st, [] => .ok st
      | st, r :: rs =>
        match g.processRow ext st r with
        | .ok st' => go st' rs
        | o => o
    match go [] t.rows with
    | .ok st =>
      match g.emit st with
      | .ok t' => .ok t'
      | .err k => .panic s!"emit error {k}"
      | .panic p => .panic p
      | .unmodelled w => .unmodelled w
    | .err k => .panic s!"process error {k}"
    | .panic p => .panic p
    | .unmodelled w => .unmodelled w
  | .sort cols dir =>
    if !sortKeysOk ext cols t.rows then
      .unmodelled "sort key panics or is outside the modelled fragment on some row"
    else .ok { t with rows := sortRows ext cols dir t.columns t.rows }
  | .adapt op => adaptTable ext op t

/-- the head aggregator consumes the record stream -/
def headStage (ext : Ext) (s : AggStage) (rows : List Record) : RunR Table :=
  match s with
  | .group _ => applyStage ext s { columns := [], rows := rows.map (·.data) }
  | .sort cols dir =>
    -- `Sorter::process(Row::Record)`: columns accumulate in arrival order, new keys sorted;
    -- rows are kept sorted by the primary ordering (stable), then `emit` re-sorts with ties
    let columns := rows.foldl (fun cs r =>
      cs ++ sortStrings ((Fields.keys r.data).filter (fun k => !cs.contains k))) []
    let datas := rows.map (·.data)
    if !sortKeysOk ext cols datas then
      .unmodelled "sort key panics or is outside the modelled fragment on some row"
    else
      -- incremental stable insertion by the ascending primary ordering
      let pre := datas.foldl (fun acc d =>
        (acc ++ [d]).mergeSort (fun l r => (match orderingBy ext cols l r with
          | .ok o => o
          | _ => .lt) != .gt)) []
      .ok { columns := columns, rows := sortRows ext cols dir columns pre }
  | .adapt _ => .panic "operator.rs:179 PreAgg adaptor should only be used after aggregates"

inductive Output where
  | records (rows : List Record) (errors : Nat)
  | table (t : Table) (errors : Nat)
deriving Repr, Inhabited

/-- `Pipeline::process` observed at the renderer, output not a terminal -/
def runPlan (ext : Ext) (p : Plan) (lines : List String) : RunR Output :=
  match runPre ext p lines with
  | .ok pre =>
    match p.post with
    | [] => .ok (.records pre.rows pre.errors)
    | head :: rest =>
      match headStage ext head pre.rows with
      | .ok t0 =>
        let rec go : List AggStage → Table → RunR Table
          | [], t => .ok t
          | s :: ss, t =>
            match applyStage ext s t with
            | .ok t' => go ss t'
            | o => o
        match go rest t0 with
        | .ok t => .ok (.table t pre.errors)
        | .panic p => .panic p
        | .unmodelled w => .unmodelled w
      | .panic p => .panic p
      | .unmodelled w => .unmodelled w
  | .panic p => .panic p
  | .unmodelled w => .unmodelled w

end Ag
