/-
The query AST (src/lang.rs) — one set of types for both the parser's output and the
type-checked operators (the type checker only maps names and rejects `error` nodes).
Source ranges (`Positioned`) are not part of the model AST.
-/
import AgModel.Value

namespace Ag

inductive CmpOp where | eq | neq | gt | lt | gte | lte
deriving DecidableEq, Repr, Inhabited
inductive ArithOp where | add | sub | mul | div
deriving DecidableEq, Repr, Inhabited
inductive LogicOp where | and | or
deriving DecidableEq, Repr, Inhabited

inductive Ref where
  | field (k : String)
  | idx (i : Int)
deriving DecidableEq, Repr, Inhabited

inductive Expr where
  | col (head : String) (rest : List Ref)
  | not (e : Expr)
  | cmp (op : CmpOp) (l r : Expr)
  | arith (op : ArithOp) (l r : Expr)
  | logic (op : LogicOp) (l r : Expr)
  | call (fn : String) (args : List Expr)
  | ifop (c t f : Expr)
  | val (v : Value)
  | error
deriving Repr, Inhabited

inductive KwType where | exact | wildcard | regex
deriving DecidableEq, Repr, Inhabited

structure Keyword where
  text : String
  ty : KwType
deriving DecidableEq, Repr, Inhabited

inductive Search where
  | and (l : List Search)
  | or (l : List Search)
  | not (s : Search)
  | kw (k : Keyword)
deriving Repr, Inhabited

inductive FieldMode where | only | except
deriving DecidableEq, Repr, Inhabited

inductive SortDir where | asc | desc
deriving DecidableEq, Repr, Inhabited

inductive AggFn where
  | count (cond : Option Expr)
  | sum (e : Expr)
  | min (e : Expr)
  | max (e : Expr)
  | avg (e : Expr)
  | pct (p : F64) (pstr : String) (e : Expr)
  | countDistinct (args : Option (List Expr))
  | error
deriving Repr, Inhabited

structure MultiAgg where
  keyCols : List Expr
  headers : List String
  fns : List (String × AggFn)
deriving Repr, Inhabited

inductive Inline where
  | json (src : Option Expr)
  | logfmt (src : Option Expr)
  | parse (pat : Keyword) (fields : List String) (from1 from2 : Option Expr) (noDrop noConvert : Bool)
  | fields (mode : FieldMode) (names : List String)
  | whereOp (e : Option Expr)
  | limit (n : Option F64)
  | split (sep : String) (src : Option Expr) (dst : Option Expr)
  | timeslice (src : Expr) (dur : Option Int) (dst : Option String)
  | total (src : Expr) (dst : String)
  | fieldExpr (e : Expr) (name : String)
deriving Repr, Inhabited

inductive Operator where
  | alias (ops : List Operator)
  | inline (i : Inline)
  | agg (m : MultiAgg)
  | sort (cols : List Expr) (dir : SortDir)
  | error
deriving Repr, Inhabited

structure Query where
  search : Search
  ops : List Operator
deriving Repr, Inhabited

end Ag
