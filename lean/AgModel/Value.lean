/-
`data::Value` (src/data.rs): the nine variants, derived equality, `Ord::cmp`/`rank`,
arithmetic, `from_float`, `from_string`, `aggressively_to_num`, the `TryFrom` coercions.

Integers are mathematical `Int`s with an explicit i64 range check at every `+ - *`
(`Outcome.panic` when the real code would overflow: debug builds panic, release wraps).
-/
import AgModel.F64
import AgModel.Text

namespace Ag

inductive Value where
  | none
  | bool (b : Bool)
  | int (i : Int)
  | float (f : F64)
  | str (s : String)
  | date (ns : Int)          -- nanoseconds since the Unix epoch (UTC)
  | dur (ns : Int)           -- nanoseconds
  | arr (vs : List Value)
  | obj (kvs : List (String × Value))   -- key-sorted, unique keys
deriving Repr, Inhabited

/-- results of model functions that can fail the way the Rust code fails -/
inductive Outcome (α : Type) where
  | ok (a : α)
  | err (kind : String)       -- an `EvalError` (the sanctioned channel); kind = variant name
  | panic (site : String)     -- the real code panics / overflows / aborts here
  | unmodelled (why : String) -- outside the modelled fragment: correspondence is skipped
deriving Repr, Inhabited

namespace Outcome
@[inline] def bind {α β} (x : Outcome α) (f : α → Outcome β) : Outcome β :=
  match x with
  | ok a => f a
  | err k => err k
  | panic s => panic s
  | unmodelled w => unmodelled w
instance : Monad Outcome where
  pure := ok
  bind := bind
def isOk {α} : Outcome α → Bool
  | ok _ => true
  | _ => false
def toOption {α} : Outcome α → Option α
  | ok a => some a
  | _ => Option.none
end Outcome

namespace Value

def inI64 (i : Int) : Bool := F64.i64Min ≤ i && i ≤ F64.i64Max

/-- `Value::rank` -/
def rank : Value → Nat
  | none => 0
  | bool _ => 1
  | int _ => 2
  | float _ => 2
  | str _ => 3
  | date _ => 4
  | dur _ => 5
  | arr _ => 6
  | obj _ => 7

mutual
/-- derived `PartialEq` (floats through `OrderedFloat`: NaN = NaN, −0 = +0) -/
def beq : Value → Value → Bool
  | none, none => true
  | bool a, bool b => a == b
  | int a, int b => a == b
  | float a, float b => F64.oeq a b
  | str a, str b => a == b
  | date a, date b => a == b
  | dur a, dur b => a == b
  | arr a, arr b => beqL a b
  | obj a, obj b => beqKV a b
  | _, _ => false
def beqL : List Value → List Value → Bool
  | [], [] => true
  | x :: xs, y :: ys => beq x y && beqL xs ys
  | _, _ => false
def beqKV : List (String × Value) → List (String × Value) → Bool
  | [], [] => true
  | (k, x) :: xs, (l, y) :: ys => k == l && beq x y && beqKV xs ys
  | _, _ => false
end

instance : BEq Value := ⟨beq⟩

def cmpBool (a b : Bool) : Ordering :=
  match a, b with
  | false, true => .lt
  | true, false => .gt
  | _, _ => .eq

mutual
/-- `impl Ord for Value`: numbers by exact value (`Int` against `Float`: `cmp_int_float`),
same-type scalars by their own order, arrays element by element, objects by their key-sorted
entries, everything else by `rank`. -/
def cmp : Value → Value → Ordering
  | int a, float b => F64.cmpIntFloat a b
  | float a, int b => (F64.cmpIntFloat b a).swap
  | float a, float b => F64.ocmp a b
  | int a, int b => compare a b
  | str a, str b => compare a b
  | bool a, bool b => cmpBool a b
  | date a, date b => compare a b
  | dur a, dur b => compare a b
  | obj a, obj b => cmpKV a b
  | arr a, arr b => cmpL a b
  | a, b => compare a.rank b.rank
/-- `Vec<Value>::cmp`: lexicographic, a proper prefix is smaller -/
def cmpL : List Value → List Value → Ordering
  | [], [] => .eq
  | [], _ :: _ => .lt
  | _ :: _, [] => .gt
  | x :: xs, y :: ys =>
    match cmp x y with
    | .eq => cmpL xs ys
    | o => o
/-- key-sorted entries compared lexicographically as (key, value) pairs -/
def cmpKV : List (String × Value) → List (String × Value) → Ordering
  | [], [] => .eq
  | [], _ :: _ => .lt
  | _ :: _, [] => .gt
  | (k, x) :: xs, (l, y) :: ys =>
    match compare k l with
    | .eq => (match cmp x y with
      | .eq => cmpKV xs ys
      | o => o)
    | o => o
end

/-- `Option<&Value>::cmp` as used by `ordering_ref`: `None < Some _` -/
def cmpOpt : Option Value → Option Value → Ordering
  | Option.none, Option.none => .eq
  | Option.none, some _ => .lt
  | some _, Option.none => .gt
  | some a, some b => cmp a b

/-- `Value::from_float`: an integer only when the double is exactly that integer (no
fractional part, inside the i64 range); every other double — non-finite ones included — stays
a float -/
def fromFloat (f : F64) : Value :=
  match f with
  | .fin s m e =>
    let t := F64.truncInt s m e
    if !F64.fractNonzero f && F64.i64Min ≤ t && t ≤ F64.i64Max then int t else float f
  | _ => float f

/-! ### Rust's `str::parse` for i64 / f64 / bool -/

def digitVal (c : Char) : Nat := c.toNat - '0'.toNat

def digitsToNat (cs : List Char) : Nat := cs.foldl (fun acc c => acc * 10 + digitVal c) 0

/-- `str::parse::<i64>`: `[+-]?[0-9]+`, in range -/
def parseI64 (cs : List Char) : Option Int :=
  let (neg, ds) := match cs with
    | '-' :: r => (true, r)
    | '+' :: r => (false, r)
    | r => (false, r)
  if ds.isEmpty || !ds.all Char.isDigit then Option.none
  else
    let n : Int := digitsToNat ds
    let v := if neg then -n else n
    if inI64 v then some v else Option.none

def lowerAscii (cs : List Char) : List Char := cs.map Char.toLower

/-- `str::parse::<f64>` (grammar of `core::num::dec2flt`), correctly rounded -/
def parseF64 (cs : List Char) : Option F64 :=
  let (neg, r) := match cs with
    | '-' :: r => (true, r)
    | '+' :: r => (false, r)
    | r => (false, r)
  let lr := lowerAscii r
  if lr == "inf".toList || lr == "infinity".toList then some (F64.inf neg)
  else if lr == "nan".toList then some F64.nan
  else
    let ip := r.takeWhile Char.isDigit
    let r1 := r.dropWhile Char.isDigit
    let (fp, r2) := match r1 with
      | '.' :: t => (t.takeWhile Char.isDigit, t.dropWhile Char.isDigit)
      | t => ([], t)
    if ip.isEmpty && fp.isEmpty then Option.none
    else
      let expo : Option Int := match r2 with
        | [] => some 0
        | c :: t =>
          if c == 'e' || c == 'E' then
            let (eneg, ds) := match t with
              | '-' :: u => (true, u)
              | '+' :: u => (false, u)
              | u => (false, u)
            if ds.isEmpty || !ds.all Char.isDigit then Option.none
            else
              -- clamp absurd exponents so the power stays small
              let ds' := ds.dropWhile (· == '0')
              let n : Int := if ds'.length > 6 then 1000000 else digitsToNat ds'
              some (if eneg then -n else n)
          else Option.none
      match expo with
      | Option.none => Option.none
      | some ex =>
        let digits := digitsToNat (ip ++ fp)
        some (F64.ofDecimal neg digits (ex - fp.length))

def parseBool (cs : List Char) : Option Bool :=
  if cs == "true".toList then some true
  else if cs == "false".toList then some false
  else Option.none

/-- `Value::from_string` -/
def fromString (s : String) : Value :=
  let t := Text.trim s.toList
  match parseI64 t with
  | some i => int i
  | Option.none =>
    match parseF64 t with
    | some f => fromFloat f
    | Option.none =>
      match parseBool t with
      | some b => bool b
      | Option.none => str (String.ofList t)

/-- `char::is_numeric`, ASCII part only (non-ASCII numerics are outside the model) -/
def isNumericChar (c : Char) : Bool := c.isDigit

/-- `Value::aggressively_to_num` -/
def aggressivelyToNum (s : String) : Outcome F64 :=
  -- text that already reads as a number keeps its value
  match fromString s with
  | float f => .ok f
  | int i => .ok (F64.ofInt i)
  | _ =>
  if s.toList.any (fun c => c.toNat ≥ 128) then .unmodelled "non-ascii in aggressively_to_num" else
  let filtered := s.toList.filter (fun c => isNumericChar c || c == '.')
  match fromString (String.ofList filtered) with
  | float f => .ok f
  | int i => .ok (F64.ofInt i)
  | _ => .err "ExpectedNumber"

/-- `TryFrom<&Value> for f64` -/
def toF64 : Value → Outcome F64
  | int i => .ok (F64.ofInt i)
  | float f => .ok f
  | str s => aggressivelyToNum s
  | date ns => .ok (F64.ofInt (ns.fdiv 1000000))     -- timestamp_millis (floor)
  | _ => .err "ExpectedNumber"

/-- `Evaluate<f64> for Expr`'s coercion (no DateTime arm) -/
def toF64Agg : Value → Outcome F64
  | int i => .ok (F64.ofInt i)
  | float f => .ok f
  | str s => aggressivelyToNum s
  | _ => .err "ExpectedNumber"

/-- `TryFrom<&Value> for usize` -/
def toUsize : Value → Outcome Int
  | int i => if i ≥ 0 then .ok i else .err "ExpectedPositiveNumber"
  | float f => if F64.le F64.zero f then .ok (F64.toUsize f) else .err "ExpectedPositiveNumber"
  | str s =>
    match aggressivelyToNum s with
    | .ok n => if F64.lt n F64.zero then .err "ExpectedPositiveNumber" else .ok (F64.toUsize n)
    | .err k => .err k
    | .panic p => .panic p
    | .unmodelled w => .unmodelled w
  | _ => .err "ExpectedPositiveNumber"

/-! ### arithmetic (`impl Add/Sub/Mul/Div for Value`) -/

/-- chrono `TimeDelta` range: |d| ≤ i64::MAX milliseconds -/
def durMaxNs : Int := 9223372036854775807 * 1000000
def inDur (ns : Int) : Bool := -durMaxNs ≤ ns && ns ≤ durMaxNs

/-- chrono `DateTime<Utc>` range (years ±262143), in nanoseconds; generous bound used only to
flag overflow panics -/
def dateMaxNs : Int := 8210298412799 * 1000000000 + 999999999
def dateMinNs : Int := -8334601228800 * 1000000000
def inDate (ns : Int) : Bool := dateMinNs ≤ ns && ns ≤ dateMaxNs

def binaryOp (op : F64 → F64 → F64) (l r : Value) : Outcome Value :=
  match toF64 l, toF64 r with
  | .ok a, .ok b => .ok (fromFloat (op a b))
  | .unmodelled w, _ => .unmodelled w
  | _, .unmodelled w => .unmodelled w
  | _, _ => .err "ExpectedNumericOperands"

def mkInt (site : String) (i : Int) : Outcome Value :=
  if inI64 i then .ok (int i) else .panic site

/-- chrono's checked date / duration arithmetic: out of range is `EvalError::OutOfRange` -/
def mkDur (_site : String) (ns : Int) : Outcome Value :=
  if inDur ns then .ok (dur ns) else .err "OutOfRange"

def mkDate (_site : String) (ns : Int) : Outcome Value :=
  if inDate ns then .ok (date ns) else .err "OutOfRange"

def inI32 (i : Int) : Bool := -2147483648 ≤ i && i ≤ 2147483647

/-- `TimeDelta::checked_mul(i32)`: fails when the seconds leave the open i64 range; between the
documented maximum (i64::MAX ms) and that bound chrono returns values the model does not carry -/
def durMul (ns : Int) (k : Int) : Outcome Value :=
  if !inI32 k then .err "OutOfRange"
  else
    let r := ns * k
    if inDur r then .ok (dur r)
    else if (r.fdiv 1000000000) ≤ F64.i64Min || (r.fdiv 1000000000) ≥ F64.i64Max then .err "OutOfRange"
    else .unmodelled "duration beyond chrono's documented maximum"

/-- `TimeDelta::checked_div(i32)` on the (secs, nanos ≥ 0) representation -/
def durDiv (ns : Int) (k : Int) : Outcome Value :=
  if !inI32 k || k = 0 then .err "OutOfRange"
  else
    let secs := ns.fdiv 1000000000
    let nanos := ns.fmod 1000000000
    let secs' := secs.tdiv k
    let carry := secs.tmod k
    let extra := (carry * 1000000000).tdiv k
    let nanos' := nanos.tdiv k + extra
    let (s2, n2) :=
      if nanos' < 0 then (secs' - 1, nanos' + 1000000000)
      else if nanos' ≥ 1000000000 then (secs' + 1, nanos' - 1000000000)
      else (secs', nanos')
    .ok (dur (s2 * 1000000000 + n2))

/-- (kept for reference) Rust `i as i32` (wrapping truncation) -/
def asI32 (i : Int) : Int :=
  let m := i.emod 4294967296
  if m ≥ 2147483648 then m - 4294967296 else m

/-- checked i64 arithmetic: the exact integer while it fits, the float result beyond -/
def intOrFloat (exact : Int) (asFloat : F64) : Value :=
  if inI64 exact then int exact else fromFloat asFloat

def add : Value → Value → Outcome Value
  | date l, dur r => mkDate "data.rs:178 DateTime + Duration" (l + r)
  | dur l, date r => mkDate "data.rs:179 DateTime + Duration" (r + l)
  | dur l, dur r => mkDur "data.rs:180 Duration + Duration" (l + r)
  | float l, float r => .ok (fromFloat (F64.add l r))
  | int l, int r => .ok (intOrFloat (l + r) (F64.add (F64.ofInt l) (F64.ofInt r)))
  | l, r => binaryOp F64.add l r

def sub : Value → Value → Outcome Value
  | date l, dur r => mkDate "data.rs:193 DateTime - Duration" (l - r)
  | date l, date r => mkDur "data.rs:194 DateTime - DateTime" (l - r)
  | dur l, dur r => mkDur "data.rs:195 Duration - Duration" (l - r)
  | float l, float r => .ok (fromFloat (F64.sub l r))
  | int l, int r => .ok (intOrFloat (l - r) (F64.sub (F64.ofInt l) (F64.ofInt r)))
  | l, r => binaryOp F64.sub l r

def mul : Value → Value → Outcome Value
  | dur l, int r => durMul l r
  | int l, dur r => durMul r l
  | float l, float r => .ok (fromFloat (F64.mul l r))
  | int l, int r => .ok (intOrFloat (l * r) (F64.mul (F64.ofInt l) (F64.ofInt r)))
  | l, r => binaryOp F64.mul l r

def div : Value → Value → Outcome Value
  | dur l, int r => durDiv l r
  | l, r => binaryOp F64.div l r

end Value
end Ag
