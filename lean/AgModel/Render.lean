/-
`ValueDisplay` (src/data.rs:260-317): the text of a value as the legacy, logfmt and format
printers show it (`Value::render`).  Floats with `floating_points = 2` (`DisplayConfig` is
constructed with 2 everywhere in the code base), objects as `{k:v, k:v}` in key order,
arrays as `[a, b]`, durations as `1w2d3h4m5s6ms7us`, `None` for the absent value.
-/
import AgModel.Fmt
import AgModel.Time

namespace Ag
namespace Value

/-- `itertools::join(", ")` -/
def joinComma : List String → String
  | [] => ""
  | [x] => x
  | x :: xs => x ++ ", " ++ joinComma xs

mutual
/-- `Value::render(&DisplayConfig { floating_points: 2 })` -/
def render : Value → String
  | .str s => s
  | .int i => toString i
  | .none => "None"
  | .float f => F64.displayPrec 2 f
  | .bool b => if b then "true" else "false"
  | .date ns => Time.displayDate ns
  | .dur ns => Time.renderDuration ns
  | .obj kvs => "{" ++ joinComma (renderKVs kvs) ++ "}"
  | .arr vs => "[" ++ joinComma (renderList vs) ++ "]"
/-- `items.sort()` then `k:v` per entry (the model keeps objects key-sorted) -/
def renderKVs : List (String × Value) → List String
  | [] => []
  | (k, v) :: rest => (k ++ ":" ++ render v) :: renderKVs rest
def renderList : List Value → List String
  | [] => []
  | v :: rest => render v :: renderList rest
end

end Value
end Ag
