/-
Expression evaluation (src/operator/expr.rs) and the function table (src/funcs.rs).
libm, `dtparse`, non-ASCII case mapping and the clock are parameters (`Ext`).
-/
import AgModel.Record
import AgModel.Fmt
import AgModel.Display

namespace Ag

structure Ext where
  libm1 : String → F64 → F64
  libm2 : String → F64 → F64 → F64
  /-- `dtparse::parse`: `none` = the string is not in the table supplied with the request
  (outside the model), `some none` = dtparse error, `some (some ns)` = ns since the epoch -/
  parseDate : String → Option (Option Int)
  lower : String → Option String       -- `none` = outside the modelled case mapping
  upper : String → Option String

namespace Value

/-- `impl Display for Value` (every variant: AgModel/Display.lean).  The result stays an `Outcome`:
values the real code cannot hold (dates / durations outside chrono's range) are `.unmodelled`. -/
def display (v : Value) : Outcome String := displayFull v

end Value

def float1Names : List String :=
  ["abs", "acos", "asin", "atan", "cbrt", "ceil", "cos", "cosh", "exp", "expm1", "floor", "log",
   "log10", "log1p", "round", "sin", "sinh", "sqrt", "tan", "tanh", "toDegrees", "toRadians", "num"]
def float2Names : List String := ["atan2", "hypot"]
def string1Names : List String := ["parseDate", "parseHex", "toLowerCase", "toUpperCase"]
def string2Names : List String := ["contains"]
def genericNames : List String :=
  ["concat", "length", "substring", "isNull", "isEmpty", "isBlank", "isNumeric", "now"]

/-- `FUNC_MAP.contains_key` -/
def isFunction (n : String) : Bool :=
  float1Names.contains n || float2Names.contains n || string1Names.contains n ||
  string2Names.contains n || genericNames.contains n

def float1 (ext : Ext) (n : String) (x : F64) : F64 :=
  match n with
  | "abs" => F64.abs x
  | "ceil" => F64.ceil x
  | "floor" => F64.floor x
  | "round" => F64.round x
  | "num" => x
  | _ => ext.libm1 n x

def hexVal (c : Char) : Option Nat :=
  if c.isDigit then some (c.toNat - '0'.toNat)
  else if 'a' ≤ c && c ≤ 'f' then some (c.toNat - 'a'.toNat + 10)
  else if 'A' ≤ c && c ≤ 'F' then some (c.toNat - 'A'.toNat + 10)
  else Option.none

/-- `trim_start_matches("0x")` -/
def stripAll0x (cs : List Char) (fuel : Nat) : List Char :=
  match fuel with
  | 0 => cs
  | fuel + 1 =>
    match cs with
    | '0' :: 'x' :: r => stripAll0x r fuel
    | r => r

/-- `i64::from_str_radix(_, 16)` -/
def parseHexI64 (cs : List Char) : Option Int :=
  let (neg, ds) := match cs with
    | '-' :: r => (true, r)
    | '+' :: r => (false, r)
    | r => (false, r)
  if ds.isEmpty then Option.none
  else
    match ds.foldl (fun acc c => match acc, hexVal c with
        | some a, some d => some (a * 16 + d)
        | _, _ => Option.none) (some 0) with
    | Option.none => Option.none
    | some n =>
      let v : Int := if neg then -(n : Int) else n
      if Value.inI64 v then some v else Option.none

def invalidArgs : Outcome Value := .err "InvalidFunctionArguments"

def generic (n : String) (args : List Value) : Outcome Value :=
  match n with
  | "concat" => do
    let parts ← args.mapM Value.display
    pure (.str (String.join parts))
  | "length" =>
    match args with
    | [.arr vs] => .ok (.int vs.length)
    | [.obj kvs] => .ok (.int kvs.length)
    | [a] => do let s ← a.display; pure (.int s.length)
    | _ => invalidArgs
  | "substring" =>
    match args with
    | [a, b, c] => do
      let s ← a.display
      let st ← b.toUsize
      let en ← c.toUsize
      if en < st then .err "FunctionFailed"
      else pure (.str (String.ofList ((s.toList.drop st.toNat).take (en - st).toNat)))
    | [a, b] => do
      let s ← a.display
      let st ← b.toUsize
      pure (.str (String.ofList (s.toList.drop st.toNat)))
    | _ => invalidArgs
  | "isNull" =>
    match args with
    | [.none] => .ok (.bool true)
    | [_] => .ok (.bool false)
    | _ => invalidArgs
  | "isEmpty" =>
    match args with
    | [.none] => .ok (.bool true)
    | [.str s] => .ok (.bool s.isEmpty)
    | [_] => .ok (.bool false)
    | _ => invalidArgs
  | "isBlank" =>
    match args with
    | [.none] => .ok (.bool true)
    | [.str s] => .ok (.bool (Text.trim s.toList).isEmpty)
    | [_] => .ok (.bool false)
    | _ => invalidArgs
  | "isNumeric" =>
    match args with
    | [a] =>
      match a.toF64 with
      | .ok _ => .ok (.bool true)
      | .err _ => .ok (.bool false)
      | .panic p => .panic p
      | .unmodelled w => .unmodelled w
    | _ => invalidArgs
  | "now" =>
    match args with
    | [] => .unmodelled "now()"
    | _ => invalidArgs
  | _ => .err "UnknownFunction"

def string1 (ext : Ext) (n : String) (s : String) : Outcome Value :=
  match n with
  | "parseDate" =>
    match ext.parseDate s with
    | some (some ns) => .ok (.date ns)
    | some Option.none => .err "FunctionFailed"
    | Option.none => .unmodelled "parseDate of a string outside the supplied table"
  | "parseHex" =>
    let t := Text.trim s.toList
    match parseHexI64 (stripAll0x t t.length) with
    | some i => .ok (.int i)
    | Option.none => .err "FunctionFailed"
  | "toLowerCase" =>
    match ext.lower s with
    | some t => .ok (Value.fromString t)
    | Option.none => .unmodelled "non-ASCII case mapping"
  | "toUpperCase" =>
    match ext.upper s with
    | some t => .ok (Value.fromString t)
    | Option.none => .unmodelled "non-ASCII case mapping"
  | _ => .err "UnknownFunction"

/-- `FunctionContainer::eval_func` -/
def evalFunc (ext : Ext) (n : String) (args : List Value) : Outcome Value :=
  if float1Names.contains n then
    match args with
    | [a] => do let x ← a.toF64; pure (Value.fromFloat (float1 ext n x))
    | _ => invalidArgs
  else if float2Names.contains n then
    match args with
    | [a, b] => do
      let x ← a.toF64
      let y ← b.toF64
      pure (Value.fromFloat (ext.libm2 n x y))
    | _ => invalidArgs
  else if string1Names.contains n then
    match args with
    | [a] => do let s ← a.display; string1 ext n s
    | _ => invalidArgs
  else if string2Names.contains n then
    match args with
    | [a, b] => do
      let s ← a.display
      let t ← b.display
      pure (.bool (Text.isInfixOf t.toList s.toList))
    | _ => invalidArgs
  else generic n args

/-- nested access: `.key` / `[i]` / `[-i]` -/
def access (v : Value) : List Ref → Outcome Value
  | [] => .ok v
  | .field k :: rest =>
    match v with
    | .obj kvs =>
      match Fields.get k kvs with
      | some v' => access v' rest
      | Option.none => .err "NoValueForKey"
    | _ => .err "ExpectedXYZ"
  | .idx i :: rest =>
    match v with
    | .arr vs =>
      let len : Int := vs.length
      let real := if i < 0 then i + len else i
      if real < 0 || real ≥ len then .err "IndexOutOfRange"
      else
        match vs[real.toNat]? with
        | some v' => access v' rest
        | Option.none => .err "IndexOutOfRange"
    | _ => .err "ExpectedXYZ"

def cmpResult (op : CmpOp) (l r : Value) : Bool :=
  match op with
  | .eq => l == r
  | .neq => !(l == r)
  | .gt => Value.cmp l r == .gt
  | .lt => Value.cmp l r == .lt
  | .gte => Value.cmp l r != .lt
  | .lte => Value.cmp l r != .gt

def asBool : Value → Outcome Bool
  | .bool b => .ok b
  | _ => .err "ExpectedBoolean"

mutual
/-- `Expr::eval_value` -/
def evalValue (ext : Ext) (r : Fields) : Expr → Outcome Value
  | .col head rest =>
    match Fields.get head r with
    | some v => access v rest
    | Option.none => .err "NoValueForKey"
  | .not e =>
    match evalValue ext r e with
    | .ok (.bool b) => .ok (.bool !b)
    | .ok _ => .err "ExpectedBoolean"
    | o => o
  | .cmp op l rr =>
    match evalValue ext r l with
    | .ok lv =>
      match evalValue ext r rr with
      | .ok rv => .ok (.bool (cmpResult op lv rv))
      | o => o
    | o => o
  | .arith op l rr =>
    match evalValue ext r l with
    | .ok lv =>
      match evalValue ext r rr with
      | .ok rv =>
        match op with
        | .add => Value.add lv rv
        | .sub => Value.sub lv rv
        | .mul => Value.mul lv rv
        | .div => Value.div lv rv
      | o => o
    | o => o
  | .logic op l rr =>
    match evalValue ext r l with
    | .ok (.bool lb) =>
      match op with
      | .and => if lb then evalValue ext r rr else .ok (.bool false)
      | .or => if lb then .ok (.bool true) else evalValue ext r rr
    | .ok _ => .err "ExpectedBoolean"
    | o => o
  | .call fn args =>
    match evalArgs ext r args with
    | .ok vs => evalFunc ext fn vs
    | .err k => .err k
    | .panic p => .panic p
    | .unmodelled w => .unmodelled w
  | .ifop c t f =>
    match evalValue ext r c with
    | .ok (.bool b) => if b then evalValue ext r t else evalValue ext r f
    | .ok _ => .err "ExpectedBoolean"
    | o => o
  | .val v => .ok v
  | .error => .err "ExprError"
def evalArgs (ext : Ext) (r : Fields) : List Expr → Outcome (List Value)
  | [] => .ok []
  | e :: es =>
    match evalValue ext r e with
    | .ok v =>
      match evalArgs ext r es with
      | .ok vs => .ok (v :: vs)
      | o => o
    | .err k => .err k
    | .panic p => .panic p
    | .unmodelled w => .unmodelled w
end

/-- `Evaluate<bool> for Expr` -/
def evalBool (ext : Ext) (r : Fields) (e : Expr) : Outcome Bool :=
  match evalValue ext r e with
  | .ok v => asBool v
  | .err k => .err k
  | .panic p => .panic p
  | .unmodelled w => .unmodelled w

/-- `Evaluate<f64> for Expr` -/
def evalF64 (ext : Ext) (r : Fields) (e : Expr) : Outcome F64 :=
  match evalValue ext r e with
  | .ok v => v.toF64Agg
  | .err k => .err k
  | .panic p => .panic p
  | .unmodelled w => .unmodelled w

/-- `Expr::eval_str` -/
def evalStr (ext : Ext) (r : Fields) (e : Expr) : Outcome String :=
  match evalValue ext r e with
  | .ok .none => .err "UnexpectedNone"
  | .ok (.str s) => .ok s
  | .ok _ => .err "ExpectedString"
  | .err k => .err k
  | .panic p => .panic p
  | .unmodelled w => .unmodelled w

end Ag
