/-
A minimal terminal emulator and the tty logic of `Renderer::render` (src/render.rs:86-128).

Emulator: a grid of `h` rows × `w` cells and a cursor.  Understood input: printable characters
(with deferred wrap at the right margin, as xterm/VT100: after the last cell is written the cursor
stays "pending" and only the next printable character moves to the next row), CR, LF (scrolls at
the bottom), `ESC[2K` (erase the cursor's row) and `ESC[1A` (cursor up one row).  Anything else
is outside the emulator (`none`).  Every character occupies one cell (wide East-Asian characters
are not modelled).  `onlcr` is the tty line discipline's `\n → \r\n` output translation.

Renderer: the reset sequence is `ESC[2K ESC[1A` once per `\n` of the previous frame, then `ESC[2K`; a frame is
written as reset sequence ++ text; when stdout is not a terminal only the final table is written.

Live loop (`render_aggregate`, src/lib.rs:234-263): the downstream operators keep state between
frames; `liveStage` is `agg.process(Row::Aggregate(t)); agg.emit()` on that state.
-/
import AgModel.Pipeline
import AgModel.Pretty

namespace Ag
namespace Term

abbrev Str := List Char

/-- the grid and the cursor, as a zipper around the cursor's row: the rows above it (nearest
first), the row itself, the rows below.  `cc = w` means "wrap pending". -/
structure Screen where
  w : Nat
  aboveRev : List Str
  cur : Str
  below : List Str
  cc : Nat
deriving Repr, Inhabited, DecidableEq

def blankRow (w : Nat) : Str := List.replicate w ' '

/-- all rows, top to bottom -/
def Screen.rows (s : Screen) : List Str := s.aboveRev.reverse ++ s.cur :: s.below

/-- the cursor's row index -/
def Screen.cr (s : Screen) : Nat := s.aboveRev.length

/-- a blank `w × h` screen (`h ≥ 1`), cursor at the top left -/
def Screen.blank (w h : Nat) : Screen :=
  { w := w, aboveRev := [], cur := blankRow w, below := List.replicate (h - 1) (blankRow w), cc := 0 }

/-- line feed: down one row, scrolling the grid up when on the last row -/
def lineFeed (s : Screen) : Screen :=
  match s.below with
  | b :: bs => { s with aboveRev := s.cur :: s.aboveRev, cur := b, below := bs }
  | [] => { s with aboveRev := (s.cur :: s.aboveRev).dropLast, cur := blankRow s.w }

def carriageReturn (s : Screen) : Screen := { s with cc := 0 }

/-- a printable character -/
def putChar (s : Screen) (c : Char) : Screen :=
  let s := if s.cc ≥ s.w then { lineFeed s with cc := 0 } else s
  { s with cur := s.cur.set s.cc c, cc := s.cc + 1 }

/-- `ESC[2K` -/
def eraseLine (s : Screen) : Screen := { s with cur := blankRow s.w }

/-- `ESC[1A` (stops at the top row; clears a pending wrap) -/
def cursorUp (s : Screen) : Screen :=
  match s.aboveRev with
  | a :: rest => { s with aboveRev := rest, cur := a, below := s.cur :: s.below, cc := min s.cc (s.w - 1) }
  | [] => { s with cc := min s.cc (s.w - 1) }

def isPrintable (c : Char) : Bool := c.toNat ≥ 32 && c.toNat ≠ 127

def esc : Char := Char.ofNat 27

/-- where the emulator is inside an escape sequence -/
inductive Mode where
  | ground | esc | csi | csi2 | csi1
deriving Repr, DecidableEq, Inhabited

/-- one input character -/
def step (s : Screen) (m : Mode) (c : Char) : Option (Screen × Mode) :=
  match m with
  | .ground =>
    if c = '\n' then some (lineFeed s, .ground)
    else if c = '\r' then some (carriageReturn s, .ground)
    else if c = esc then some (s, .esc)
    else if isPrintable c then some (putChar s c, .ground)
    else none
  | .esc => if c = '[' then some (s, .csi) else none
  | .csi => if c = '2' then some (s, .csi2) else if c = '1' then some (s, .csi1) else none
  | .csi2 => if c = 'K' then some (eraseLine s, .ground) else none
  | .csi1 => if c = 'A' then some (cursorUp s, .ground) else none

def feedM : Screen → Mode → Str → Option Screen
  | s, m, [] => if m = .ground then some s else none
  | s, m, c :: cs =>
    match step s m c with
    | some (s', m') => feedM s' m' cs
    | none => none

/-- run the emulator over a character stream -/
def feed (s : Screen) (bytes : Str) : Option Screen := feedM s .ground bytes

/-- tty output processing (`ONLCR`) -/
def onlcr : Str → Str
  | [] => []
  | c :: cs => if c = '\n' then '\r' :: '\n' :: onlcr cs else c :: onlcr cs

/-- what the program's bytes do to a terminal -/
def display (s : Screen) (bytes : Str) : Option Screen := feed s (onlcr bytes)

/-! ### `Renderer::render`, aggregate rows -/

def eraseUp : Str := [esc, '[', '2', 'K', esc, '[', '1', 'A']

/-- `"\x1b[2K\x1b[1A".repeat(n)` -/
def resetSeq : Nat → Str
  | 0 => []
  | n + 1 => eraseUp ++ resetSeq n

/-- `output.matches('\n').count()` -/
def countNl : Str → Nat
  | [] => 0
  | c :: cs => (if c = '\n' then 1 else 0) + countNl cs

/-- `ESC[2K` -/
def eraseOnly : Str := [esc, '[', '2', 'K']

/-- the renderer's memory: `reset_sequence` — empty before the first frame (`none`), afterwards
`"\x1b[2K\x1b[1A".repeat(n) + "\x1b[2K"` (`some n`; the final erase, of the frame's first line, is
4c642ce's repair) -/
structure RState where
  resetLines : Option Nat := none
deriving Repr, Inhabited

/-- the bytes of `reset_sequence` -/
def resetBytes : Option Nat → Str
  | none => []
  | some n => resetSeq n ++ eraseOnly

/-- one printed frame on a terminal: what is written and the new state
(`write!(stdout, "{}{}", reset_sequence, output)`) -/
def renderTty (st : RState) (frame : Str) : Str × RState :=
  (resetBytes st.resetLines ++ frame, { resetLines := some (countNl frame) })

/-- all bytes written for a sequence of printed frames (the last one is the final table) -/
def ttyBytes : RState → List Str → Str
  | _, [] => []
  | st, f :: fs => (renderTty st f).1 ++ ttyBytes (renderTty st f).2 fs

/-- `Renderer::render` on an aggregate row (src/render.rs:88-110): the `write!` calls it makes and
the new state.  `shouldPrint` is the value of `self.should_print()`. -/
def renderStep (isTty : Bool) (st : RState) (shouldPrint lastRow : Bool) (frame : Str) : List Str × RState :=
  if !isTty then
    if lastRow then ([frame], st) else ([], st)
  else if shouldPrint || lastRow then
    ([(renderTty st frame).1], (renderTty st frame).2)
  else ([], st)

/-- a whole run of `render_aggregate`: the intermediate tables with the `should_print()` value at
each of them, then the final table (`last_row = true`); the list of writes -/
def renderRun (isTty : Bool) : RState → List (Bool × Str) → Str → List Str
  | st, [], final => (renderStep isTty st false true final).1
  | st, (sp, f) :: rest, final =>
    (renderStep isTty st sp false f).1 ++ renderRun isTty (renderStep isTty st sp false f).2 rest final

/-- `PrintAggregateAsRows::print` (src/printer.rs:62-66): in the row-oriented modes (logfmt, format)
an intermediate refresh shows this placeholder instead of a table; since 96fd541 it is a complete
line (before, it had no `\n`, the reset sequence counted 0 lines and the cursor never returned to
column 0) -/
def placeholder : Str := "data will be output once the computation is complete...".toList

/-- the placeholder as drawn on a terminal `w` columns wide: cut to the width (db52f75; before, the
55 characters were printed whatever the width and wrapped on narrower terminals) -/
def placeholderLine (w : Nat) : Str := placeholder.take w

def placeholderFrame (w : Nat) : Str := placeholderLine w ++ ['\n']

/-- the frames of a run in a row-oriented mode on a terminal of width `w`: `k` refreshes, then the
final rows -/
def rowModeFrames (w k : Nat) (final : Str) : List Str := List.replicate k (placeholderFrame w) ++ [final]

/-- the screen after the frames have been written to a terminal that was blank with the cursor
at the top left -/
def screenAfter (w h : Nat) (frames : List Str) : Option Screen :=
  display (Screen.blank w h) (ttyBytes {} frames)

/-- what the screen should show for a frame: its lines, padded, then blank rows -/
def padRow (w : Nat) (l : Str) : Str := l ++ List.replicate (w - l.length) ' '

def expectedRows (w h : Nat) (lines : List Str) : List Str :=
  lines.map (padRow w) ++ List.replicate (h - lines.length) (blankRow w)

/-- a screen whose cursor is at the start of row `r`, with blank rows from there on (what a
shell leaves before the program starts): `above` is whatever is on the rows above, top first -/
def Screen.startAt (w : Nat) (above : List Str) (roomBelow : Nat) : Screen :=
  { w := w, aboveRev := above.reverse, cur := blankRow w, below := List.replicate roomBelow (blankRow w), cc := 0 }

/-! ### the live loop: downstream operators are re-run on their old state for every frame -/

/-- state a downstream `AggregateOperator` keeps between frames -/
inductive LiveState where
  | fresh
  | group (st : GroupState)       -- `MultiGrouper.state`
  | table (t : Table)             -- `Sorter.{columns,state}` / `PreAggAdapter.state`
deriving Inhabited

/-- `agg.process(Row::Aggregate(t)); agg.emit()` on the operator's current state.
MultiGrouper: `self.state.clear()` then `process_map` per row; Sorter: `self.columns = …;
self.state = …`; PreAggAdapter: a fresh operator is built and `self.state` replaced. -/
def liveStage (ext : Ext) (s : AggStage) (_old : LiveState) (t : Table) : RunR (LiveState × Table) :=
  match s with
  | .group g =>
    -- `self.state.clear()`: the fold starts from the empty map whatever `_old` was
    match applyStage.go ext g [] t.rows with
    | .ok st =>
      match g.emit st with
      | .ok t' => .ok (.group st, t')
      | .err k => .panic s!"emit error {k}"
      | .panic p => .panic p
      | .unmodelled w => .unmodelled w
    | .err k => .panic s!"process error {k}"
    | .panic p => .panic p
    | .unmodelled w => .unmodelled w
  | .sort cols dir =>
    -- `self.columns = agg.columns; self.state = agg.data`: what was stored is dropped; `emit`
    -- sorts what is stored now (the sort itself is `applyStage`'s)
    match applyStage ext (.sort cols dir) t with
    | .ok t' => .ok (.table t, t')
    | .panic p => .panic p
    | .unmodelled w => .unmodelled w
  | .adapt op =>
    match adaptTable ext op t with
    | .ok t' => .ok (.table t', t')
    | .panic p => .panic p
    | .unmodelled w => .unmodelled w

/-- `run_agg_pipeline`'s loop over `rest` with the operators' live states -/
def liveRest (ext : Ext) : List AggStage → List LiveState → Table → RunR (List LiveState × Table)
  | [], _, t => .ok ([], t)
  | s :: ss, sts, t =>
    match liveStage ext s (sts.headD .fresh) t with
    | .ok (st', t') =>
      match liveRest ext ss (sts.drop 1) t' with
      | .ok (sts', t'') => .ok (st' :: sts', t'')
      | o => o
    | .panic p => .panic p
    | .unmodelled w => .unmodelled w

/-- the stateless reference: `runPlan`'s loop over the downstream stages -/
def pureRest (ext : Ext) : List AggStage → Table → RunR Table
  | [], t => .ok t
  | s :: ss, t =>
    match applyStage ext s t with
    | .ok t' => pureRest ext ss t'
    | o => o

/-- the tables of the frames drawn by the live loop: after each prefix length in `schedule`
(the rows received so far when a refresh happens) `run_agg_pipeline` runs on the live states;
`none` when some frame panics or leaves the model -/
def liveFrames (ext : Ext) (head : AggStage) (rest : List AggStage) (rows : List Record) :
    List LiveState → List Nat → Option (List LiveState × List Table)
  | sts, [] => some (sts, [])
  | sts, n :: ns =>
    match headStage ext head (rows.take n) with
    | .ok t0 =>
      match liveRest ext rest sts t0 with
      | .ok (sts', t) =>
        match liveFrames ext head rest rows sts' ns with
        | some (sts'', ts) => some (sts'', t :: ts)
        | none => none
      | _ => none
    | _ => none

/-! ### timing of the loop (`recv_timeout(50ms)`, `should_print`) -/

/-- one iteration of `render_aggregate`'s loop: what `recv_timeout` returned and the clock
(milliseconds) when `should_print` is evaluated and when `last_print` is set -/
structure Tick where
  isRow : Bool          -- `Ok(row)` (true) or `Err(Timeout)` (false)
  tCheck : Nat          -- `Instant::now()` inside `should_print`
  tPrinted : Nat        -- `Instant::now()` stored in `last_print` if this iteration prints
deriving Repr, Inhabited

/-- loop state: rows processed by the head operator, rows covered by the frame on display,
`last_print`, and the time the previous iteration ended -/
structure Loop where
  received : Nat := 0
  shown : Option Nat := none
  lastPrint : Option Nat := none
  now : Nat := 0
deriving Repr, Inhabited

def updateInterval : Nat := 50

/-- `should_print` on a terminal -/
def shouldPrint (lastPrint : Option Nat) (t : Nat) : Bool :=
  match lastPrint with
  | none => true
  | some l => t - l > updateInterval

/-- a tick is consistent with the clock: time does not run backwards and a `Timeout` means that
`recv_timeout` waited the whole interval -/
def Tick.ok (l : Loop) (k : Tick) : Prop :=
  l.now ≤ k.tCheck ∧ k.tCheck ≤ k.tPrinted ∧ (k.isRow = false → l.now + updateInterval ≤ k.tCheck)

def Loop.step (l : Loop) (k : Tick) : Loop :=
  let received := if k.isRow then l.received + 1 else l.received
  if shouldPrint l.lastPrint k.tCheck then
    { received := received, shown := some received, lastPrint := some k.tPrinted, now := k.tPrinted }
  else { l with received := received, now := k.tCheck }

/-- the loop over a list of iterations -/
def Loop.run : Loop → List Tick → Loop
  | l, [] => l
  | l, k :: ks => Loop.run (l.step k) ks

/-- every iteration is consistent with the clock of the state it starts from -/
def TicksOk : Loop → List Tick → Prop
  | _, [] => True
  | l, k :: ks => k.ok l ∧ TicksOk (l.step k) ks

/-- rows among the iterations -/
def rowCount : List Tick → Nat
  | [] => 0
  | k :: ks => (if k.isRow then 1 else 0) + rowCount ks

end Term
end Ag
