/-
Input decoding as `Pipeline::process` does it: `read_until(b'\n')` line splitting and
`String::from_utf8_lossy` (one U+FFFD per maximal invalid subsequence, as core::str::lossy).
-/
namespace Ag
namespace Utf8

def isCont (b : Nat) : Bool := 0x80 ≤ b && b ≤ 0xBF

def repl : Char := Char.ofNat 0xFFFD

/-- decode one scalar or one invalid chunk from the head of the byte list -/
def decodeOne : List Nat → Option (Char × List Nat)
  | [] => none
  | b0 :: r =>
    if b0 < 0x80 then some (Char.ofNat b0, r)
    else if 0xC2 ≤ b0 && b0 ≤ 0xDF then
      match r with
      | b1 :: r1 => if isCont b1 then some (Char.ofNat ((b0 - 0xC0) * 64 + (b1 - 0x80)), r1) else some (repl, r)
      | [] => some (repl, r)
    else if 0xE0 ≤ b0 && b0 ≤ 0xEF then
      match r with
      | b1 :: r1 =>
        let ok1 := (b0 == 0xE0 && 0xA0 ≤ b1 && b1 ≤ 0xBF) ||
                   (0xE1 ≤ b0 && b0 ≤ 0xEC && isCont b1) ||
                   (b0 == 0xED && 0x80 ≤ b1 && b1 ≤ 0x9F) ||
                   (0xEE ≤ b0 && b0 ≤ 0xEF && isCont b1)
        if !ok1 then some (repl, r)
        else
          match r1 with
          | b2 :: r2 =>
            if isCont b2 then some (Char.ofNat ((b0 - 0xE0) * 4096 + (b1 - 0x80) * 64 + (b2 - 0x80)), r2)
            else some (repl, r1)
          | [] => some (repl, r1)
      | [] => some (repl, r)
    else if 0xF0 ≤ b0 && b0 ≤ 0xF4 then
      match r with
      | b1 :: r1 =>
        let ok1 := (b0 == 0xF0 && 0x90 ≤ b1 && b1 ≤ 0xBF) ||
                   (0xF1 ≤ b0 && b0 ≤ 0xF3 && isCont b1) ||
                   (b0 == 0xF4 && 0x80 ≤ b1 && b1 ≤ 0x8F)
        if !ok1 then some (repl, r)
        else
          match r1 with
          | b2 :: r2 =>
            if !isCont b2 then some (repl, r1)
            else
              match r2 with
              | b3 :: r3 =>
                if isCont b3 then
                  some (Char.ofNat ((b0 - 0xF0) * 262144 + (b1 - 0x80) * 4096 + (b2 - 0x80) * 64 + (b3 - 0x80)), r3)
                else some (repl, r2)
              | [] => some (repl, r2)
          | [] => some (repl, r1)
      | [] => some (repl, r)
    else some (repl, r)

def decodeLossy (fuel : Nat) (bs : List Nat) (acc : List Char) : List Char :=
  match fuel with
  | 0 => acc.reverse
  | fuel + 1 =>
    match decodeOne bs with
    | none => acc.reverse
    | some (c, rest) => decodeLossy fuel rest (c :: acc)

def lossy (bs : List Nat) : String := String.ofList (decodeLossy (bs.length + 1) bs [])

/-- `read_until(b'\n')`: each line keeps its newline; a final line may lack one -/
def splitLines (bs : List Nat) : List (List Nat) :=
  let rec go : List Nat → List Nat → List (List Nat) → List (List Nat)
    | [], cur, acc => (if cur.isEmpty then acc else cur.reverse :: acc).reverse
    | b :: r, cur, acc => if b == 10 then go r [] ((b :: cur).reverse :: acc) else go r (b :: cur) acc
  go bs [] []

def lines (bs : List Nat) : List String := (splitLines bs).map lossy

end Utf8
end Ag
