/-
Records (`data::Record` / `VMap`): finite maps from field names to values, represented as
key-sorted association lists with unique keys, so that structural equality is map equality.
-/
import AgModel.Ast

namespace Ag

abbrev Fields := List (String × Value)

namespace Fields

def get (k : String) : Fields → Option Value
  | [] => none
  | (k', v) :: t => if k == k' then some v else get k t

/-- sorted insert / overwrite (`HashMap::insert`) -/
def put (k : String) (v : Value) : Fields → Fields
  | [] => [(k, v)]
  | (k', v') :: t =>
    if k < k' then (k, v) :: (k', v') :: t
    else if k == k' then (k, v) :: t
    else (k', v') :: put k v t

def erase (k : String) : Fields → Fields
  | [] => []
  | (k', v') :: t => if k == k' then t else (k', v') :: erase k t

def keys (f : Fields) : List String := f.map Prod.fst

def contains (k : String) (f : Fields) : Bool := (get k f).isSome

def ofList (l : List (String × Value)) : Fields := l.foldl (fun acc kv => put kv.1 kv.2 acc) []

/-- keys strictly increasing -/
def Sorted : Fields → Prop
  | [] => True
  | [_] => True
  | (k, _) :: (k', v') :: t => k < k' ∧ Sorted ((k', v') :: t)

end Fields

/-- `data::Record`: the fields and the raw line -/
structure Record where
  data : Fields
  raw : String
deriving Repr, Inhabited

/-- `data::Aggregate`: ordered columns and rows -/
structure Table where
  columns : List String
  rows : List Fields
deriving Repr, Inhabited

end Ag
