/-
Protocol glue for the C06 / C18 driver commands (JSONPARSE, LOGFMT, FMT, RENDER, CLI, PRINT and the
text of a whole run in a text mode).  Not part of any theorem.
-/
import AgModel.OutModes
import AgModel.Codec
import AgModel.Json
import AgModel.Logfmt

namespace Ag
namespace OutProto
open Ag.Codec Ag.Out

mutual
/-- a `JVal` in the token form of `Codec.showJsonValue` -/
def jtoks : JVal → List String
  | .null => ["N"]
  | .bool b => [if b then "B1" else "B0"]
  | .int i => ["I" ++ toString i]
  | .num f => ["F" ++ pad16 f.toBits]
  | .str s => ["S" ++ hexOfString s]
  | .arr l => ("A" ++ toString l.length) :: jtoksList l
  | .obj kvs => ("O" ++ toString kvs.length) :: jtoksKVs kvs
def jtoksList : List JVal → List String
  | [] => []
  | v :: rest => jtoks v ++ jtoksList rest
def jtoksKVs : List (String × JVal) → List String
  | [] => []
  | (k, v) :: rest => ("S" ++ hexOfString k) :: (jtoks v ++ jtoksKVs rest)
end

def showJ (j : JVal) : String := String.intercalate " " (jtoks j)

def toks (s : String) : List String := (s.splitOn " ").filter (· ≠ "")

/-- `JSONPARSE <hex text>` → `VAL <typed value tokens>` | `ERR` -/
def handleJsonParse (hex : String) : String :=
  match stringOfHex hex.toList with
  | none => "BADREQ utf8"
  | some s =>
    match Json.parse s with
    | some v => "VAL " ++ showValue v
    | none => "ERR"

/-- `LOGFMT <hex text>` → `PAIRS <n> (S<key> (N | S<value>))…` -/
def handleLogfmt (hex : String) : String :=
  match stringOfHex hex.toList with
  | none => "BADREQ utf8"
  | some s =>
    let ps := Logfmt.parse s
    String.intercalate " " (["PAIRS", toString ps.length] ++ ps.flatMap (fun p =>
      ["S" ++ hexOfString p.key, match p.val with
        | none => "N"
        | some v => "S" ++ hexOfString v]))

def pObj : P Fields := fun ts =>
  match pValue ts with
  | some (.obj kvs, r) => some (kvs, r)
  | _ => none

/-- `FMT <hex format> <record tokens O…>` → `TEXT <hex>` | `INVALID` (rejected at construction) -/
def handleFmt (fields : List String) : String :=
  match fields with
  | fhex :: rec :: _ =>
    match stringOfHex fhex.toList, pObj (toks rec) with
    | some fmt, some (data, []) =>
      if !formatNew fmt then "INVALID"
      else
        match formatRecord fmt { data := data, raw := "" } with
        | some t => "TEXT " ++ hexOfString t
        | none => "FMTERR"
    | _, _ => "BADREQ fmt"
  | _ => "BADREQ fields"

/-- `RENDER <value tokens>` → `TEXT <hex>` -/
def handleRender (v : String) : String :=
  match pValue (toks v) with
  | some (v, []) => "TEXT " ++ hexOfString v.render
  | _ => "BADREQ value"

def optArg (s : String) : Option (Option String) :=
  if s == "none" then some none
  else match s.toList with
    | 'X' :: h => (stringOfHex h).map some
    | _ => none

def showCliErr : CliErr → String
  | .invalidOutputMode c => "ERR InvalidOutputMode " ++ "S" ++ hexOfString c
  | .invalidFormatString => "ERR InvalidFormatString"
  | .cantSupplyBoth => "ERR CantSupplyBoth"
  | .badFormat => "ERR BadFormat"

/-- `CLI <X<hex -o arg>|none> <X<hex --format arg>|none>` → `MODE …` | `ERR <kind>` -/
def handleCli (fields : List String) : String :=
  match fields with
  | o :: f :: _ =>
    match optArg o, optArg f with
    | some o, some f =>
      match startup o f with
      | .ok .legacy => "MODE legacy"
      | .ok .json => "MODE json"
      | .ok .logfmt => "MODE logfmt"
      | .ok (.format s) => "MODE format S" ++ hexOfString s
      | .error e => showCliErr e
    | _, _ => "BADREQ cli"
  | _ => "BADREQ fields"

inductive Call where
  | record (r : Record)
  | table (t : Table)

/-- `REC O…` | `AGG <ncols> S<col>… <nrows> O…` -/
def pCall (s : String) : Option Call :=
  match toks s with
  | "REC" :: rest =>
    match pObj rest with
    | some (data, []) => some (.record { data := data, raw := "" })
    | _ => none
  | "AGG" :: rest =>
    match pList pStr rest with
    | some (cols, r1) =>
      match pList pObj r1 with
      | some (rows, []) => some (.table { columns := cols, rows := rows })
      | _ => none
    | none => none
  | _ => none

/-- what the renderer writes for one row in a mode (`json`, `logfmt`, `format`) -/
def printCall (mode : String) (fmt : String) (c : Call) : String :=
  match mode with
  | "json" =>
    match c with
    | .record r => "JSON " ++ showJ (jsonRecord r)
    | .table t => "JSON " ++ showJ (jsonTable t)
  | "logfmt" =>
    match c with
    | .record r => "TEXT " ++ hexOfString (logfmtRecord r)
    | .table t => "TEXT " ++ hexOfString (logfmtTable t)
  | "format" =>
    if !formatNew fmt then "INVALID"
    else
      match (match c with
        | .record r => formatRecord fmt r
        | .table t => formatTable fmt t) with
      | some t => "TEXT " ++ hexOfString t
      | none => "FMTERR"
  | _ => "BADREQ mode"

/-- `PRINT <mode> <hex format|-> <call>` -/
def handlePrint (fields : List String) : String :=
  match fields with
  | mode :: fhex :: call :: _ =>
    let fmt := if fhex == "-" then some "" else stringOfHex fhex.toList
    match fmt, pCall call with
    | some fmt, some c => printCall mode fmt c
    | _, _ => "BADREQ print"
  | _ => "BADREQ fields"

/-- the complete stdout of a run in a text mode (records: one line each; table: `final_print`) -/
def outputText (mode : String) (fmt : String) : Output → String
  | .records rows e =>
    let parts := rows.map (fun r => printCall mode fmt (.record r))
    if mode == "json" then String.intercalate " " (["E" ++ toString e, "JSONREC", toString rows.length] ++ parts)
    else if parts.all (·.startsWith "TEXT ") then
      "E" ++ toString e ++ " TEXT " ++ String.join (parts.map (fun p => (p.drop 5).toString))
    else parts.headD "BADREQ mode"
  | .table t e =>
    let p := printCall mode fmt (.table t)
    "E" ++ toString e ++ " " ++ p

end OutProto
end Ag
