import AgModel
open Ag Ag.Codec

def nativeOfF64 (f : F64) : Float := Float.ofBits (UInt64.ofNat f.toBits)
def f64OfNative (x : Float) : F64 :=
  if x.isNaN then F64.nan else F64.ofBits x.toBits.toNat

def libm1 (n : String) (x : F64) : F64 :=
  let v := nativeOfF64 x
  let r : Float := match n with
    | "acos" => v.acos | "asin" => v.asin | "atan" => v.atan | "cbrt" => v.cbrt
    | "cos" => v.cos | "cosh" => v.cosh | "exp" => v.exp | "expm1" => Float.exp v - 1 -- placeholder, overridden below
    | "log" => v.log | "log10" => v.log10 | "log1p" => Float.log (1 + v)
    | "sin" => v.sin | "sinh" => v.sinh | "sqrt" => v.sqrt | "tan" => v.tan | "tanh" => v.tanh
    | "toDegrees" => v * (180.0 / 3.14159265358979323846264338327950288)
    | "toRadians" => v * (3.14159265358979323846264338327950288 / 180.0)
    | _ => v
  f64OfNative r

def libm2 (n : String) (x y : F64) : F64 :=
  let a := nativeOfF64 x; let b := nativeOfF64 y
  let r : Float := match n with
    | "atan2" => Float.atan2 a b
    | "hypot" => Float.sqrt (a * a + b * b)   -- not bit-exact with libm hypot; flagged by the harness generator
    | _ => a
  f64OfNative r

def asciiOnly (s : String) : Bool := s.toList.all (fun c => c.toNat < 128)

def mkExt (dates : List (String × Option Int)) : Ext :=
  { libm1 := libm1, libm2 := libm2,
    parseDate := fun s => match dates.find? (fun p => p.1 == s) with
      | some (_, r) => r.map some
      | none => none,
    lower := fun s => if asciiOnly s then some (String.ofList (s.toList.map Char.toLower)) else none,
    upper := fun s => if asciiOnly s then some (String.ofList (s.toList.map Char.toUpper)) else none }

def toks (s : String) : List String := (s.splitOn " ").filter (· ≠ "")

/-- date table: `S<hex>=<ns>|x` separated by blanks -/
def parseDates (s : String) : List (String × Option Int) :=
  (toks s).filterMap (fun t =>
    match t.splitOn "=" with
    | [k, v] =>
      match k.toList with
      | 'S' :: h =>
        match stringOfHex h with
        | some key => some (key, if v == "x" then none else v.toInt?)
        | none => none
      | _ => none
    | _ => none)

def handleRun (fields : List String) : String :=
  match fields with
  | qtoks :: inputHex :: rest =>
    let dates := match rest with
      | d :: _ => parseDates d
      | [] => []
    match pQuery (toks qtoks) with
    | some (q, []) =>
      match compile q with
      | .error k => "CERR " ++ k
      | .panic p => "CPANIC " ++ p
      | .unmodelled w => "SKIP " ++ w
      | .ok plan =>
        let bytes := (bytesOfHex inputHex.toList).toList.map UInt8.toNat
        match runPlan (mkExt dates) plan (Utf8.lines bytes) with
        | .ok out => "OUT " ++ showOutput out
        | .panic p => "PANIC " ++ p
        | .unmodelled w => "SKIP " ++ w
    | _ => "BADREQ query"
  | _ => "BADREQ fields"

/-! ### C19 / C16: `TABLE`, `TERM`, `TERMR` -/

def hexOfStr (s : List Char) : String := hexOfString (String.ofList s)

def parseTermSize (s : String) : Option (Option (Nat × Nat)) :=
  match toks s with
  | ["none"] => some none
  | [w, h] =>
    match w.toNat?, h.toNat? with
    | some w, some h => some (some (w, h))
    | _, _ => none
  | _ => none

def pRowObj : P Fields := fun ts =>
  match pValue ts with
  | some (.obj kvs, r) => some (kvs, r)
  | _ => none

/-- one printer call: `AGG <ncols> S<col>… <nrows> O…` or `REC S<raw> O…` -/
def runTableCall (env : Pretty.Env) (st : Pretty.St) (call : String) : Option (Outcome (List Char × Pretty.St)) :=
  match toks call with
  | "AGG" :: rest =>
    match pList pStr rest with
    | some (cols, r1) =>
      match pList pRowObj r1 with
      | some (rows, []) => some (Pretty.formatAggregate env st { columns := cols, rows := rows })
      | _ => none
    | none => none
  | "REC" :: rest =>
    match pStr rest with
    | some (raw, r1) =>
      match pRowObj r1 with
      | some (data, []) => some (Pretty.formatRecord env st { data := data, raw := raw })
      | _ => none
    | none => none
  | _ => none

def showPrettyState (st : Pretty.St) : String :=
  let ws := st.widths.toArray.qsort (fun a b => a.1 < b.1) |>.toList
  String.intercalate " " (["ST", toString ws.length] ++ ws.flatMap (fun kv => ["S" ++ hexOfString kv.1, toString kv.2]) ++
    ["ORD", toString st.order.length] ++ st.order.map (fun k => "S" ++ hexOfString k))

def handleTable (fields : List String) : String :=
  match fields with
  | term :: bufs :: calls =>
    match parseTermSize term, (toks bufs).map String.toNat? with
    | some t, [some mn, some mx] =>
      let env : Pretty.Env := { cfg := { minBuf := mn, maxBuf := mx }, term := t }
      let rec go (st : Pretty.St) (cs : List String) (acc : List String) : String :=
        match cs with
        | [] => String.intercalate " " ("OK" :: acc.reverse ++ [showPrettyState st])
        | c :: cs =>
          match runTableCall env st c with
          | none => "BADREQ call"
          | some (.ok (out, st')) => go st' cs (("T" ++ hexOfStr out) :: acc)
          | some (.panic p) => String.intercalate " " ("OK" :: (("P" ++ hexOfString p) :: acc).reverse)
          | some (.err k) => "SKIP err " ++ k
          | some (.unmodelled w) => "SKIP " ++ w
      go {} calls []
    | _, _ => "BADREQ table header"
  | _ => "BADREQ fields"

def showScreen (s : Term.Screen) : String :=
  String.intercalate " " (["SCR", toString s.cr, toString s.cc] ++ s.rows.map (fun r => "R" ++ hexOfStr r))

def parseWH (s : String) : Option (Nat × Nat) :=
  match (toks s).map String.toNat? with
  | [some w, some h] => some (w, h)
  | _ => none

def handleTerm (fields : List String) : String :=
  match fields with
  | wh :: hex :: _ =>
    match parseWH wh, stringOfHex hex.toList with
    | some (w, h), some bytes =>
      match Term.display (Term.Screen.blank w h) bytes.toList with
      | some scr => showScreen scr
      | none => "NONE"
    | _, _ => "BADREQ term"
  | _ => "BADREQ fields"

/-- `TERMR <w> <h> \t F<hex frame> …`: the bytes the tty renderer writes for the frames and the
screen they leave -/
def handleTermR (fields : List String) : String :=
  match fields with
  | wh :: frames :: _ =>
    let fs := (toks frames).map (fun t => match t.toList with
      | 'F' :: h => stringOfHex h
      | _ => none)
    match parseWH wh, fs.all Option.isSome with
    | some (w, h), true =>
      let frames := fs.filterMap (fun o => o.map String.toList)
      let bytes := Term.ttyBytes {} frames
      let scr := match Term.display (Term.Screen.blank w h) bytes with
        | some scr => showScreen scr
        | none => "NONE"
      "BYTES " ++ hexOfStr bytes ++ " " ++ scr
    | _, _ => "BADREQ termr"
  | _ => "BADREQ fields"

/-! ### C02 / C07: `KW`, `MATCH`, `SPLIT` (text fields are bare hex) -/

def kwOf (kind hexText : String) : Option Keyword :=
  match stringOfHex hexText.toList with
  | none => none
  | some s =>
    match kind with
    | "exact" => some { text := s, ty := .exact }
    | "wild" => some { text := s, ty := .wildcard }
    | "regex" => some { text := s, ty := .regex }
    | _ => none

def handleKw (fields : List String) : String :=
  match fields with
  | kind :: hexText :: _ =>
    match kwOf kind hexText with
    | some k => if k.ty == .regex then "SKIP regex keyword" else "RE " ++ hexOfString (Kw.renderRegex k)
    | none => "BADREQ kw"
  | _ => "BADREQ fields"

def handleMatch (fields : List String) : String :=
  match fields with
  | kind :: hexText :: hexLine :: _ =>
    match kwOf kind hexText, stringOfHex hexLine.toList with
    | some k, some line =>
      if k.ty == .regex then "SKIP regex keyword"
      else if !Kw.modelled k line.toList then "SKIP non-ASCII case folding"
      else
        match Kw.captures k line.toList with
        | none => "NOMATCH"
        | some caps =>
          String.intercalate " " (["MATCH", toString caps.length] ++ caps.map (fun c => "S" ++ hexOfStr c))
    | _, _ => "BADREQ match"
  | _ => "BADREQ fields"

def handleSplit (fields : List String) : String :=
  match fields with
  | hexSep :: hexText :: _ =>
    match stringOfHex hexSep.toList, stringOfHex hexText.toList with
    | some sep, some text =>
      match Split.split text.toList sep.toList with
      | none => "HANG"
      | some ts => String.intercalate " " (["TOKS", toString ts.length] ++ ts.map (fun t => "S" ++ hexOfStr t))
    | _, _ => "BADREQ split"
  | _ => "BADREQ fields"

/-- `RUNMODE <json|logfmt|format> <hex format|-> <query tokens> <input hex> [dates]`: the complete
stdout of a run in an output mode (C18) -/
def handleRunMode (fields : List String) : String :=
  match fields with
  | mode :: fhex :: qtoks :: inputHex :: rest =>
    let dates := match rest with
      | d :: _ => parseDates d
      | [] => []
    let fmt := if fhex == "-" then some "" else stringOfHex fhex.toList
    match fmt, pQuery (toks qtoks) with
    | some fmt, some (q, []) =>
      match compile q with
      | .error k => "CERR " ++ k
      | .panic p => "CPANIC " ++ p
      | .unmodelled w => "SKIP " ++ w
      | .ok plan =>
        let bytes := (bytesOfHex inputHex.toList).toList.map UInt8.toNat
        match runPlan (mkExt dates) plan (Utf8.lines bytes) with
        | .ok out => "OUT " ++ Ag.OutProto.outputText mode fmt out
        | .panic p => "PANIC " ++ p
        | .unmodelled w => "SKIP " ++ w
    | _, _ => "BADREQ query"
  | _ => "BADREQ fields"

def showOutcomeValue : Outcome Value → String
  | .ok v => "VAL " ++ showValue v
  | .err k => "ERR " ++ k
  | .panic p => "PANIC " ++ p
  | .unmodelled w => "SKIP " ++ w

def showOrdering : Ordering → String
  | .lt => "lt" | .eq => "eq" | .gt => "gt"

/-- `VALOP <op> <value tokens> <value tokens>`: the public `Value` operators -/
def handleValop (fields : List String) : String :=
  match fields with
  | op :: a :: b :: _ =>
    match pValue (toks a), pValue (toks b) with
    | some (x, []), some (y, []) =>
      match op with
      | "cmp" => "ORD " ++ showOrdering (Value.cmp x y)
      | "eq" => if x == y then "B1" else "B0"
      | "add" => showOutcomeValue (Value.add x y)
      | "sub" => showOutcomeValue (Value.sub x y)
      | "mul" => showOutcomeValue (Value.mul x y)
      | "div" => showOutcomeValue (Value.div x y)
      | _ => "BADREQ op"
    | _, _ => "BADREQ values"
  | _ => "BADREQ fields"

/-- `DISPLAY <value tokens>`: `format!("{}", v)` → `TEXT <hex>` | `SKIP <why>`;
`DEBUG <value tokens>`: `format!("{:?}", v)` → `TEXT <hex>` -/
def handleDisplay (fields : List String) : String :=
  match fields with
  | v :: _ =>
    match pValue (toks v) with
    | some (x, []) =>
      match Value.display x with
      | .ok s => "TEXT " ++ hexOfString s
      | .err k => "ERR " ++ k
      | .panic p => "PANIC " ++ p
      | .unmodelled w => "SKIP " ++ w
    | _ => "BADREQ value"
  | _ => "BADREQ fields"

def handleDebug (fields : List String) : String :=
  match fields with
  | v :: _ =>
    match pValue (toks v) with
    | some (x, []) => "TEXT " ++ hexOfString (Value.debugText x)
    | _ => "BADREQ value"
  | _ => "BADREQ fields"

def showOutcomeF64 : Outcome F64 → String
  | .ok f => "F" ++ pad16 f.toBits
  | .err k => "ERR " ++ k
  | .panic p => "PANIC " ++ p
  | .unmodelled w => "SKIP " ++ w

/-- `NUMSTR <hex text>`: from_string / TryFrom<&Value> for f64 of the string / display of the result -/
def handleNumstr (fields : List String) : String :=
  match fields with
  | h :: _ =>
    match stringOfHex h.toList with
    | some s =>
      let v := Value.fromString s
      "FS " ++ showValue v ++ "\tCO " ++ showOutcomeF64 (Value.toF64 (.str s))
    | none => "BADREQ hex"
  | _ => "BADREQ fields"

/-- `EVAL <expr tokens> <record: O<n> …> [dates]`: eval_value on one record -/
def handleEval (fields : List String) : String :=
  match fields with
  | e :: r :: rest =>
    let dates := match rest with
      | d :: _ => parseDates d
      | [] => []
    match pExpr (toks e), pValue (toks r) with
    | some (ex, []), some (.obj kvs, []) => showOutcomeValue (evalValue (mkExt dates) kvs ex)
    | _, _ => "BADREQ eval"
  | _ => "BADREQ fields"

/-- `F64 <op> <bits> <bits>`: the soft-float against hardware -/
def handleF64 (fields : List String) : String :=
  match fields with
  | op :: a :: b :: _ =>
    let x := F64.ofBits (natOfHex a.toList)
    let y := F64.ofBits (natOfHex b.toList)
    let r : Option F64 := match op with
      | "add" => some (F64.add x y) | "sub" => some (F64.sub x y) | "mul" => some (F64.mul x y)
      | "div" => some (F64.div x y) | "floor" => some (F64.floor x) | "ceil" => some (F64.ceil x)
      | "round" => some (F64.round x) | "abs" => some (F64.abs x) | "trunc" => some (F64.trunc x)
      | _ => none
    match r with
    | some f => "F" ++ pad16 f.toBits
    | none =>
      match op with
      | "ocmp" => "ORD " ++ showOrdering (F64.ocmp x y)
      | "toi64" => "I" ++ toString (F64.toI64 x)
      | "fromfloat" => "VAL " ++ showValue (Value.fromFloat x)
      | "display" => "TEXT " ++ hexOfString (F64.display x)
      | "display2" => "TEXT " ++ hexOfString (F64.displayPrec 2 x)
      | _ => "BADREQ op"
  | _ => "BADREQ fields"

def handle (line : String) : String :=
  match line.splitOn "\t" with
  | "KW" :: rest => handleKw rest
  | "MATCH" :: rest => handleMatch rest
  | "SPLIT" :: rest => handleSplit rest
  | "RUN" :: rest => handleRun rest
  | "TABLE" :: rest => handleTable rest
  | "CHARWIDTH" :: cps :: _ =>
    String.intercalate " " ("W" :: (toks cps).map (fun t => match t.toNat? with
      | some n => toString (Pretty.charWidth (Char.ofNat n))
      | none => "?"))
  | "TERM" :: rest => handleTerm rest
  | "TERMR" :: rest => handleTermR rest
  | "LOOP" :: ticks :: _ =>
    -- `r<tCheck>:<tPrinted>` a row iteration, `t<tCheck>:<tPrinted>` a timeout iteration, `S` a sample:
    -- answers `shown/received` (shown `-` when nothing was drawn yet) at every sample
    let step := fun (st : Term.Loop × List String) (tok : String) =>
      match tok.toList with
      | ['S'] =>
        let shown := match st.1.shown with
          | some n => toString n
          | none => "-"
        (st.1, (shown ++ "/" ++ toString st.1.received) :: st.2)
      | c :: rest =>
        match (String.ofList rest).splitOn ":" with
        | [a, b] =>
          match a.toNat?, b.toNat? with
          | some a, some b => (st.1.step { isRow := c == 'r', tCheck := a, tPrinted := b }, st.2)
          | _, _ => st
        | _ => st
      | [] => st
    let r := (toks ticks).foldl step (({} : Term.Loop), [])
    String.intercalate " " ("L" :: r.2.reverse)
  | "SCHED" :: rest => Ag.Sched.handleSched rest
  | "PARSE" :: hexquery :: _ =>
    (match stringOfHex hexquery.toList with
     | some s => Ag.Lang.answer (Ag.Lang.parseQuery s)
     | none => "BADREQ utf8")
  | "JSONPARSE" :: hex :: _ => Ag.OutProto.handleJsonParse hex
  | "LOGFMT" :: hex :: _ => Ag.OutProto.handleLogfmt hex
  | "FMT" :: rest => Ag.OutProto.handleFmt rest
  | "RENDER" :: v :: _ => Ag.OutProto.handleRender v
  | "CLI" :: rest => Ag.OutProto.handleCli rest
  | "PRINT" :: rest => Ag.OutProto.handlePrint rest
  | "RUNMODE" :: rest => handleRunMode rest
  | "VALOP" :: rest => handleValop rest
  | "DISPLAY" :: rest => handleDisplay rest
  | "DEBUG" :: rest => handleDebug rest
  | "NUMSTR" :: rest => handleNumstr rest
  | "EVAL" :: rest => handleEval rest
  | "F64" :: rest => handleF64 rest
  | "PING" :: _ => "PONG"
  | _ => "BADREQ cmd"

partial def loop (h : IO.FS.Stream) (out : IO.FS.Stream) : IO Unit := do
  let line ← h.getLine
  if line.isEmpty then return ()
  let line := if line.endsWith "\n" then (line.dropEnd 1).toString else line
  out.putStrLn (handle line)
  out.flush
  loop h out

def main : IO Unit := do
  let stdin ← IO.getStdin
  let stdout ← IO.getStdout
  loop stdin stdout
  stdout.flush
