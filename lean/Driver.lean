import AgModel
open Ag Ag.Codec

def nativeOfF64 (f : F64) : Float := Float.ofBits (UInt64.ofNat f.toBits)
def f64OfNative (x : Float) : F64 :=
  if x.isNaN then F64.nan else F64.ofBits x.toBits.toNat

def libm1 (n : String) (x : F64) : F64 :=
  let v := nativeOfF64 x
  let r : Float := match n with
    | "acos" => v.acos | "asin" => v.asin | "atan" => v.atan | "cbrt" => v.cbrt
    | "cos" => v.cos | "cosh" => v.cosh | "exp" => v.exp | "expm1" => Float.exp v - 1 -- placeholder, overridden below
    | "log" => v.log | "log10" => v.log10 | "log1p" => Float.log (1 + v)
    | "sin" => v.sin | "sinh" => v.sinh | "sqrt" => v.sqrt | "tan" => v.tan | "tanh" => v.tanh
    | "toDegrees" => v * (180.0 / 3.14159265358979323846264338327950288)
    | "toRadians" => v * (3.14159265358979323846264338327950288 / 180.0)
    | _ => v
  f64OfNative r

def libm2 (n : String) (x y : F64) : F64 :=
  let a := nativeOfF64 x; let b := nativeOfF64 y
  let r : Float := match n with
    | "atan2" => Float.atan2 a b
    | "hypot" => Float.sqrt (a * a + b * b)   -- not bit-exact with libm hypot; flagged by the harness generator
    | _ => a
  f64OfNative r

def asciiOnly (s : String) : Bool := s.toList.all (fun c => c.toNat < 128)

def mkExt (dates : List (String × Option Int)) : Ext :=
  { libm1 := libm1, libm2 := libm2,
    parseDate := fun s => match dates.find? (fun p => p.1 == s) with
      | some (_, r) => r
      | none => none,
    lower := fun s => if asciiOnly s then some (String.ofList (s.toList.map Char.toLower)) else none,
    upper := fun s => if asciiOnly s then some (String.ofList (s.toList.map Char.toUpper)) else none }

def toks (s : String) : List String := (s.splitOn " ").filter (· ≠ "")

/-- date table: `S<hex>=<ns>|x` separated by blanks -/
def parseDates (s : String) : List (String × Option Int) :=
  (toks s).filterMap (fun t =>
    match t.splitOn "=" with
    | [k, v] =>
      match k.toList with
      | 'S' :: h =>
        match stringOfHex h with
        | some key => some (key, if v == "x" then none else v.toInt?)
        | none => none
      | _ => none
    | _ => none)

def handleRun (fields : List String) : String :=
  match fields with
  | qtoks :: inputHex :: rest =>
    let dates := match rest with
      | d :: _ => parseDates d
      | [] => []
    match pQuery (toks qtoks) with
    | some (q, []) =>
      match compile q with
      | .error k => "CERR " ++ k
      | .panic p => "CPANIC " ++ p
      | .unmodelled w => "SKIP " ++ w
      | .ok plan =>
        let bytes := (bytesOfHex inputHex.toList).toList.map UInt8.toNat
        match runPlan (mkExt dates) plan (Utf8.lines bytes) with
        | .ok out => "OUT " ++ showOutput out
        | .panic p => "PANIC " ++ p
        | .unmodelled w => "SKIP " ++ w
    | _ => "BADREQ query"
  | _ => "BADREQ fields"

def handle (line : String) : String :=
  match line.splitOn "\t" with
  | "RUN" :: rest => handleRun rest
  | "PING" :: _ => "PONG"
  | _ => "BADREQ cmd"

partial def loop (h : IO.FS.Stream) (out : IO.FS.Stream) : IO Unit := do
  let line ← h.getLine
  if line.isEmpty then return ()
  let line := if line.endsWith "\n" then (line.dropEnd 1).toString else line
  out.putStrLn (handle line)
  out.flush
  loop h out

def main : IO Unit := do
  let stdin ← IO.getStdin
  let stdout ← IO.getStdout
  loop stdin stdout
  stdout.flush
