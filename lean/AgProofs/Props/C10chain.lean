/-
C10 (limits compose)  Each limit acts on what the previous stage let through.

C10.lean / C10more.lean have the single limit (`limSpec`), the chain of limits on the record
stream (`C10_chain`, `C10_compose`, `C10_runPre`: the record-at-a-time run WITH the end-of-input
drain equals `limAll`) and one limit after a table (`C10_after_table`).  Here:

* the algebra of `limSpec` alone: two limits of the SAME sign collapse to the narrower one
  (`limSpec_pos_pos`, `limSpec_neg_neg`), two of OPPOSITE signs do not — `limit a | limit -b` is the
  last `b` of the first `a` (`limSpec_pos_neg`), `limit -a | limit b` the first `b` of the last `a`
  (`limSpec_neg_pos`) — and `C10_narrowest_wins_counterexample`: on ten rows `limit 5 | limit -2`
  is rows 4 and 5, not the rows 9 and 10 of `limit -2`;
* the table side: a chain of limits after an aggregation or sort (`C10_table_chain`,
  `C10_table_compose`), also with a `where` in between (`C10_table_where_between`);
* the stream side with other operators in between: `seqRun_append_ok` (stage lists compose),
  `runStage_where`, `C10_where_between` (`limit a | where e | limit b` on the record stream, the
  drain included, through `C03_pipelined_eq_stagewise`).
-/
import AgProofs.Props.C10more
import AgProofs.Props.C03table
import AgProofs.Props.C12
import AgProofs.Props.C11

namespace Ag.C10

/-! ### the algebra of `limSpec` -/

theorem lastN_lastN {α} (k j : Nat) (l : List α) : lastN k (lastN j l) = lastN (min k j) l := by
  unfold lastN
  rw [List.drop_drop, List.length_drop]
  congr 1
  omega

/-- `limit a | limit b`, both positive: the narrower one -/
theorem limSpec_pos_pos {α} (a b : Int) (ha : 0 < a) (hb : 0 < b) (rows : List α) :
    limSpec b (limSpec a rows) = limSpec (min a b) rows := by
  have hm : 0 < min a b := by omega
  simp only [limSpec, ha, hb, hm, if_true, List.take_take]
  congr 1
  omega

/-- `limit -a | limit -b`: the one of smaller magnitude -/
theorem limSpec_neg_neg {α} (a b : Int) (ha : a < 0) (hb : b < 0) (rows : List α) :
    limSpec b (limSpec a rows) = limSpec (max a b) rows := by
  have h1 : ¬ 0 < a := by omega
  have h2 : ¬ 0 < b := by omega
  have h3 : ¬ 0 < max a b := by omega
  simp only [limSpec, h1, h2, h3, if_false, lastN_lastN]
  congr 1
  omega

/-- `limit a | limit -b` (a > 0 > b): the last `|b|` of the first `a` rows — NOT a single limit -/
theorem limSpec_pos_neg {α} (a b : Int) (ha : 0 < a) (hb : b < 0) (rows : List α) :
    limSpec b (limSpec a rows) =
      (rows.take a.toNat).drop (min a.toNat rows.length - (-b).toNat) := by
  have h2 : ¬ 0 < b := by omega
  simp only [limSpec, ha, h2, if_true, if_false, lastN, List.length_take]

/-- `limit -a | limit b` (a < 0 < b): the first `b` of the last `|a|` rows — NOT a single limit -/
theorem limSpec_neg_pos {α} (a b : Int) (ha : a < 0) (hb : 0 < b) (rows : List α) :
    limSpec b (limSpec a rows) = (rows.drop (rows.length - (-a).toNat)).take b.toNat := by
  have h1 : ¬ 0 < a := by omega
  simp only [limSpec, h1, hb, if_true, if_false, lastN]

/-- on ten rows `limit 5 | limit -2` is rows 4 and 5 … -/
theorem limAll_5_neg2 {α} (rows : List α) (h : rows.length = 10) :
    limAll [5, -2] rows = (rows.drop 3).take 2 := by
  simp only [limAll, List.foldl_cons, List.foldl_nil]
  rw [limSpec_pos_neg 5 (-2) (by decide) (by decide), h]
  have e1 : (5 : Int).toNat = 5 := rfl
  have e2 : (-(-2 : Int)).toNat = 2 := rfl
  rw [e1, e2]
  have : min 5 10 - 2 = 3 := by decide
  rw [this, List.drop_take]

/-- **"the narrowest limit wins" is wrong for opposite signs.**  Ten rows: `limit 5 | limit -2`
lets rows 4 and 5 through; the limit of smallest magnitude alone, `limit -2`, rows 9 and 10; and
`limit 2` rows 1 and 2. -/
theorem C10_narrowest_wins_counterexample :
    limAll [5, -2] [1, 2, 3, 4, 5, 6, 7, 8, 9, 10] = [4, 5] ∧
    limSpec (-2) [1, 2, 3, 4, 5, 6, 7, 8, 9, 10] = [9, 10] ∧
    limSpec 2 [1, 2, 3, 4, 5, 6, 7, 8, 9, 10] = [1, 2] ∧
    limAll [-5, 2] [1, 2, 3, 4, 5, 6, 7, 8, 9, 10] = [6, 7] ∧
    limAll [5, -2] [1, 2, 3, 4, 5, 6, 7, 8, 9, 10] ≠ limSpec (-2) [1, 2, 3, 4, 5, 6, 7, 8, 9, 10] := by
  decide

/-- the same on the record stream: the complete run (threading plus drain) of `limit 5 | limit -2`
over any ten records outputs the fourth and the fifth -/
theorem C10_stream_5_neg2 (ext : Ext) (rows : List Record) (h : rows.length = 10) :
    C03.pipelined ext [.limit 5, .limit (-2)] rows = .ok ((rows.drop 3).take 2, 0) := by
  have := pipelined_limits ext [5, -2] (by decide) rows
  rw [limAll_5_neg2 rows h] at this
  exact this

/-! ### the table side: limits after an aggregation or sort -/

/-- **C10 (a chain of limits after a table).**  `… | limit n₁ | … | limit nₖ` after an
aggregation or sort: the rows are `limSpec nₖ (… (limSpec n₁ t.rows))`, whatever the signs. -/
theorem C10_table_chain (ext : Ext) (ns : List Int) (h : ∀ n ∈ ns, n ≠ 0) : ∀ t : Table,
    ∃ cols, C03.foldStages ext (ns.map (fun n => AggStage.adapt (.limit n))) t =
      .ok { columns := cols, rows := limAll ns t.rows } := by
  induction ns with
  | nil => intro t; exact ⟨t.columns, rfl⟩
  | cons n ns ih =>
    intro t
    obtain ⟨cols, hc⟩ := ih (fun m hm => h m (by simp [hm]))
      { columns := adaptColumns t.columns (limSpec n t.rows), rows := limSpec n t.rows }
    refine ⟨cols, ?_⟩
    simp only [List.map_cons, C03.foldStages, applyStage, C10_after_table ext n (h n (by simp)),
      RunR.bind, hc, limAll, List.foldl_cons]

/-- two limits after a table, all four sign combinations -/
theorem C10_table_compose (ext : Ext) (a b : Int) (ha : a ≠ 0) (hb : b ≠ 0) (t : Table) :
    ∃ cols, C03.foldStages ext [.adapt (.limit a), .adapt (.limit b)] t =
      .ok { columns := cols, rows := limSpec b (limSpec a t.rows) } := by
  have h : ∀ n ∈ [a, b], n ≠ 0 := by
    intro n hn; simp at hn; rcases hn with rfl | rfl <;> assumption
  simpa [limAll] using C10_table_chain ext [a, b] h t

/-- `limit a | where e | limit b` after a table: the second limit counts the rows the condition
let through, of those the first limit let through -/
theorem C10_table_where_between (ext : Ext) (a b : Int) (ha : a ≠ 0) (hb : b ≠ 0) (e : Expr)
    (t : Table) (hfine : ∀ d ∈ limSpec a t.rows, C03.RowFine ext (.whereE e) d) :
    ∃ cols, C03.foldStages ext [.adapt (.limit a), .adapt (.whereE e), .adapt (.limit b)] t =
      .ok { columns := cols,
            rows := limSpec b ((limSpec a t.rows).filter (C03.whereKeeps ext e)) } := by
  refine ⟨adaptColumns (adaptColumns (adaptColumns t.columns (limSpec a t.rows))
    ((limSpec a t.rows).filter (C03.whereKeeps ext e)))
    (limSpec b ((limSpec a t.rows).filter (C03.whereKeeps ext e))), ?_⟩
  simp only [C03.foldStages, applyStage, C10_after_table ext a ha, RunR.bind]
  rw [C03.adaptTable_of_fine ext (.whereE e) (C03.stateless_where ext e) _ hfine]
  have hrows : (limSpec a t.rows).filterMap (C03.rowOut ext (.whereE e)) =
      (limSpec a t.rows).filter (C03.whereKeeps ext e) := by
    rw [← C03.filterMap_ite]
    congr 1
    funext d
    exact C03.rowOut_where ext e d
  simp only [hrows, C10_after_table ext b hb]

/-! ### the stream side with other operators in between -/

/-- stage lists compose: run `A`, then `B` on the complete result -/
theorem seqRun_append_ok (ext : Ext) (A B : List RowOp) : ∀ (rows mid outs : List Record)
    (e1 e2 : Nat), C03.seqRun ext A rows = .ok (mid, e1) → C03.seqRun ext B mid = .ok (outs, e2) →
    C03.seqRun ext (A ++ B) rows = .ok (outs, e1 + e2) := by
  induction A with
  | nil =>
    intro rows mid outs e1 e2 h1 h2
    simp only [C03.seqRun, RunR.ok.injEq, Prod.mk.injEq] at h1
    obtain ⟨rfl, rfl⟩ := h1
    simpa using h2
  | cons op A ih =>
    intro rows mid outs e1 e2 h1 h2
    simp only [List.cons_append, C03.seqRun] at h1 ⊢
    cases hr : C03.runStage ext op rows with
    | ok r =>
      obtain ⟨m0, e0⟩ := r
      simp only [hr] at h1 ⊢
      cases hs : C03.seqRun ext A m0 with
      | ok q =>
        obtain ⟨m1, e1'⟩ := q
        simp only [hs, RunR.ok.injEq, Prod.mk.injEq] at h1
        obtain ⟨rfl, rfl⟩ := h1
        rw [ih m0 m1 outs e1' e2 hs h2]
        simp [Nat.add_assoc]
      | panic p => simp [hs] at h1
      | unmodelled w => simp [hs] at h1
    | panic p => simp [hr] at h1
    | unmodelled w => simp [hr] at h1

/-- a stateless operator as a stage: nothing is buffered, the stage result is the per-record fold -/
theorem runStage_stateless (ext : Ext) (op : RowOp) (hs : op.isStateless = true) (rows : List Record) :
    C03.runStage ext op rows = C12.outputs ext [op] rows := by
  have hS : C12.Stateless [op] := by intro o ho; simp at ho; subst ho; exact hs
  have hf := C12.feed_stateless ext [op] hS rows [] 0
  simp only [List.map_cons, List.map_nil, List.reverse_nil, List.nil_append, Nat.zero_add] at hf
  unfold C03.runStage
  rw [hf]
  cases C12.outputs ext [op] rows with
  | ok q => obtain ⟨os, e⟩ := q; simp [drainOp, C12.init_stateless op hs]
  | panic p => rfl
  | unmodelled w => rfl

/-- the rows on which `where e` fails to evaluate (an `error:` line each) -/
def whereErrs (ext : Ext) (e : Expr) (r : Record) : Bool :=
  match evalBool ext r.data e with
  | .err _ => true
  | _ => false

/-- `where e` as a stage on the record stream: the rows on which the condition is `true`, in order,
and one error line per row on which it cannot be evaluated -/
theorem runStage_where (ext : Ext) (e : Expr) : ∀ (rows : List Record),
    (∀ r ∈ rows, ∀ w, evalBool ext r.data e ≠ .unmodelled w) →
    C03.runStage ext (.whereE e) rows =
      .ok (rows.filter (fun r => C03.whereKeeps ext e r.data),
           (rows.filter (whereErrs ext e)).length) := by
  intro rows hm
  rw [runStage_stateless ext _ rfl]
  induction rows with
  | nil => rfl
  | cons r rs ih =>
    have ih' := ih (fun x hx => hm x (List.mem_cons_of_mem _ hx))
    have hr := hm r List.mem_cons_self
    have hnp := C11.evalBool_noPanic ext r.data e
    simp only [C12.outputs, C12.lineFn, applyStateless, ih', List.filter_cons, C03.whereKeeps,
      whereErrs]
    obtain ⟨x, hx⟩ : ∃ x, evalBool ext r.data e = x := ⟨_, rfl⟩
    simp only [hx]
    rcases x with b | k | p | w
    · cases b <;> simp
    · simp; omega
    · exact absurd hx (hnp p)
    · exact absurd hx (hr w)

/-- **C10 (a `where` between two limits, on the record stream).**  The complete run — every record
through all three operators at once, then the drain loop — of `limit a | where e | limit b`
outputs `limSpec b` of the rows of `limSpec a rows` that satisfy `e`: the second limit counts what
the stages before it let through. -/
theorem C10_where_between (ext : Ext) (a b : Int) (ha : a ≠ 0) (hb : b ≠ 0) (e : Expr)
    (rows : List Record)
    (hm : ∀ r ∈ limSpec a rows, ∀ w, evalBool ext r.data e ≠ .unmodelled w) :
    C03.pipelined ext [.limit a, .whereE e, .limit b] rows =
      .ok (limSpec b ((limSpec a rows).filter (fun r => C03.whereKeeps ext e r.data)),
           ((limSpec a rows).filter (whereErrs ext e)).length) := by
  apply C03.C03_pipelined_eq_stagewise
  simp only [C03.seqRun, runStage_limit ext a ha, runStage_where ext e _ hm,
    runStage_limit ext b hb, Nat.add_zero, Nat.zero_add]

/-! ### non-vacuity: ten rows -/

/-- ten records through `limit 5 | limit -2`, the complete run with the drain: the fourth and fifth -/
example (ext : Ext) (r1 r2 r3 r4 r5 r6 r7 r8 r9 r10 : Record) :
    C03.pipelined ext [.limit 5, .limit (-2)] [r1, r2, r3, r4, r5, r6, r7, r8, r9, r10] =
      .ok ([r4, r5], 0) := by
  rw [C10_stream_5_neg2 ext _ rfl]; rfl

/-- … and `limit -5 | limit 2`: the sixth and seventh -/
example (ext : Ext) (r1 r2 r3 r4 r5 r6 r7 r8 r9 r10 : Record) :
    C03.pipelined ext [.limit (-5), .limit 2] [r1, r2, r3, r4, r5, r6, r7, r8, r9, r10] =
      .ok ([r6, r7], 0) := by
  have h := pipelined_limits ext [-5, 2] (by decide) [r1, r2, r3, r4, r5, r6, r7, r8, r9, r10]
  simpa [limAll, limSpec, lastN] using h

/-- a ten-row table through `limit 5 | limit -2`: rows 4 and 5 -/
example (ext : Ext) (cols : List String) (d1 d2 d3 d4 d5 d6 d7 d8 d9 d10 : Fields) :
    ∃ cs, C03.foldStages ext [.adapt (.limit 5), .adapt (.limit (-2))]
        { columns := cols, rows := [d1, d2, d3, d4, d5, d6, d7, d8, d9, d10] } =
      .ok { columns := cs, rows := [d4, d5] } := by
  obtain ⟨cs, h⟩ := C10_table_compose ext 5 (-2) (by decide) (by decide)
    { columns := cols, rows := [d1, d2, d3, d4, d5, d6, d7, d8, d9, d10] }
  refine ⟨cs, ?_⟩
  rw [h]
  simp [limSpec, lastN]

/-- `limit 3 | where true | limit -1` on a stream of four: the third record -/
example (ext : Ext) (r1 r2 r3 r4 : Record) :
    C03.pipelined ext [.limit 3, .whereE (.val (.bool true)), .limit (-1)] [r1, r2, r3, r4] =
      .ok ([r3], 0) := by
  rw [C10_where_between ext 3 (-1) (by decide) (by decide)]
  · simp [limSpec, lastN, C03.whereKeeps, whereErrs, evalBool, evalValue, asBool]
  · intro r _ w
    simp [evalBool, evalValue, asBool]

end Ag.C10

#print axioms Ag.C10.limSpec_pos_pos
#print axioms Ag.C10.limSpec_neg_neg
#print axioms Ag.C10.limSpec_pos_neg
#print axioms Ag.C10.limSpec_neg_pos
#print axioms Ag.C10.C10_narrowest_wins_counterexample
#print axioms Ag.C10.C10_stream_5_neg2
#print axioms Ag.C10.C10_table_chain
#print axioms Ag.C10.C10_table_compose
#print axioms Ag.C10.C10_table_where_between
#print axioms Ag.C10.seqRun_append_ok
#print axioms Ag.C10.runStage_where
#print axioms Ag.C10.C10_where_between
