/-
C11 (the whole run)  A query that compiles never panics, on any input.

AgProofs/Props/C11.lean proves panic-freedom of the reader side (`C11_compiled_runPre_no_panic`) and
of a row operator after an aggregation (`C11_adaptTable_no_panic`).  Here the rest of `runPlan`:

* `processRow_fine`, `emit_fine` — `MultiGrouper::process_map` / `emit` end in a value or leave the
  modelled fragment (`.unmodelled`: a percentile over ≥ 500 samples, `now()` …): never an
  `EvalError`, never a panic.  Key evaluation errors become `None`, an aggregate argument that
  cannot be evaluated is ignored, and the "accumulator/definition mismatch" site is unreachable
  because every group's accumulators are created from, and stepped along, the grouper's own
  definition list (`AccsOK`).  This holds for EVERY grouper, compiled or not;
* `C11_stage_no_panic`, `C11_head_no_panic` — one aggregate stage on a table / on the record stream;
* `compile_head_not_adapt` — `Pipeline::new` never makes a row operator the first aggregate stage
  (the `panic!("PreAgg adaptor should only be used after aggregates")` site is unreachable);
* `C11_compiled_runPlan_no_panic` — the headline: for every query that compiles, every input and
  every behaviour of the external functions, the run ends in `.ok` or `.unmodelled`.
-/
import AgProofs.Props.C11
import AgProofs.Props.C16
import AgProofs.Props.C03table

namespace Ag.C11

/-! ### "a value, or outside the model": neither an `EvalError` nor a panic -/

def Fine {α} (x : Outcome α) : Prop := (∃ a, x = .ok a) ∨ (∃ w, x = .unmodelled w)

theorem fine_ok {α} (a : α) : Fine (Outcome.ok a) := .inl ⟨a, rfl⟩
theorem fine_unmodelled {α} (w : String) : Fine (Outcome.unmodelled w : Outcome α) := .inr ⟨w, rfl⟩

theorem Fine.noPanic {α} {x : Outcome α} (h : Fine x) : NoPanic x := by
  intro p e
  rcases h with ⟨a, ha⟩ | ⟨w, hw⟩ <;> simp_all

theorem Fine.noErr {α} {x : Outcome α} (h : Fine x) : ∀ k, x ≠ .err k := by
  intro k e
  rcases h with ⟨a, ha⟩ | ⟨w, hw⟩ <;> simp_all

theorem fine_bind {α β} (x : Outcome α) (f : α → Outcome β) (hx : Fine x)
    (hf : ∀ a, x = .ok a → Fine (f a)) : Fine (x >>= f) := by
  rcases hx with ⟨a, ha⟩ | ⟨w, hw⟩
  · subst ha; exact hf a rfl
  · subst hw; exact fine_unmodelled w

theorem fine_mapM {α β} (f : α → Outcome β) : ∀ (l : List α), (∀ a ∈ l, Fine (f a)) →
    Fine (l.mapM f) := by
  intro l
  induction l with
  | nil => intro _; exact fine_ok _
  | cons a as ih =>
    intro h
    rw [List.mapM_cons]
    refine fine_bind _ _ (h a (by simp)) (fun b _ => ?_)
    refine fine_bind _ _ (ih (fun x hx => h x (by simp [hx]))) (fun bs _ => fine_ok _)

/-! ### accumulators fit their definitions -/

/-- the accumulator is the one this aggregate function works on -/
def Match : AggDef → Acc → Prop
  | .count _, .count _ => True
  | .sum _, .sum _ => True
  | .min _, .min _ => True
  | .max _, .max _ => True
  | .avg _, .avg _ _ => True
  | .pct _ _, .pct _ => True
  | .countDistinct _, .distinct _ => True
  | _, _ => False

/-- a group's accumulators, position by position, fit the grouper's definitions -/
def AccsOK : List (String × AggDef) → List (String × Acc) → Prop
  | [], [] => True
  | d :: ds, a :: as => Match d.2 a.2 ∧ AccsOK ds as
  | _, _ => False

theorem match_empty (d : AggDef) : Match d d.empty := by
  cases d <;> simp [AggDef.empty, Match]

theorem accsOK_empties : ∀ defs : List (String × AggDef),
    AccsOK defs (defs.map (fun nd => (nd.1, nd.2.empty)))
  | [] => trivial
  | d :: ds => ⟨match_empty d.2, accsOK_empties ds⟩

theorem accsOK_zip_mem : ∀ (defs : List (String × AggDef)) (accs : List (String × Acc)),
    AccsOK defs accs → ∀ da ∈ defs.zip accs, Match da.1.2 da.2.2
  | [], [], _, da, h => by simp at h
  | [], _ :: _, h, _, _ => h.elim
  | _ :: _, [], h, _, _ => h.elim
  | d :: ds, a :: as, h, da, hm => by
    simp only [List.zip_cons_cons, List.mem_cons] at hm
    rcases hm with rfl | hm
    · exact h.1
    · exact accsOK_zip_mem ds as h.2 da hm

/-- one step of an aggregate function on its own accumulator: a new accumulator of the same kind
(unchanged when the argument cannot be evaluated), or outside the model; never a panic -/
theorem step_match (ext : Ext) (d : AggDef) (a : Acc) (row : Fields) (h : Match d a) :
    (∃ a', d.step ext a row = .st a' ∧ Match d a') ∨ (∃ w, d.step ext a row = .unmodelled w) := by
  cases d <;> cases a <;> simp only [Match] at h <;> simp only [AggDef.step]
  case count.count cond n =>
    cases cond with
    | none => exact .inl ⟨_, rfl, trivial⟩
    | some c =>
      dsimp only
      have hnp := evalBool_noPanic ext row c
      rcases hev : evalBool ext row c with b | k | p | w
      · cases b <;> exact .inl ⟨_, rfl, trivial⟩
      · exact .inl ⟨_, rfl, trivial⟩
      · exact absurd hev (hnp p)
      · exact .inr ⟨w, rfl⟩
  case sum.sum e t =>
    have hnp := evalF64_noPanic ext row e
    rcases hev : evalF64 ext row e with v | k | p | w
    · exact .inl ⟨_, rfl, trivial⟩
    · exact .inl ⟨_, rfl, trivial⟩
    · exact absurd hev (hnp p)
    · exact .inr ⟨w, rfl⟩
  case min.min e m =>
    have hnp := evalF64_noPanic ext row e
    rcases hev : evalF64 ext row e with v | k | p | w
    · refine .inl ⟨_, rfl, ?_⟩; split <;> trivial
    · exact .inl ⟨_, rfl, trivial⟩
    · exact absurd hev (hnp p)
    · exact .inr ⟨w, rfl⟩
  case max.max e m =>
    have hnp := evalF64_noPanic ext row e
    rcases hev : evalF64 ext row e with v | k | p | w
    · refine .inl ⟨_, rfl, ?_⟩; split <;> trivial
    · exact .inl ⟨_, rfl, trivial⟩
    · exact absurd hev (hnp p)
    · exact .inr ⟨w, rfl⟩
  case avg.avg e t n =>
    have hnp := evalF64_noPanic ext row e
    rcases hev : evalF64 ext row e with v | k | p | w
    · exact .inl ⟨_, rfl, trivial⟩
    · exact .inl ⟨_, rfl, trivial⟩
    · exact absurd hev (hnp p)
    · exact .inr ⟨w, rfl⟩
  case pct.pct q e vals =>
    have hnp := evalF64_noPanic ext row e
    rcases hev : evalF64 ext row e with v | k | p | w
    · exact .inl ⟨_, rfl, trivial⟩
    · exact .inl ⟨_, rfl, trivial⟩
    · exact absurd hev (hnp p)
    · exact .inr ⟨w, rfl⟩
  case countDistinct.distinct e seen =>
    have hnp := C11_eval_no_panic ext row e
    rcases hev : evalValue ext row e with v | k | p | w
    · refine .inl ⟨_, rfl, ?_⟩; split <;> trivial
    · exact .inl ⟨_, rfl, trivial⟩
    · exact absurd hev (hnp p)
    · exact .inr ⟨w, rfl⟩

/-- stepping all accumulators of a group -/
theorem stepAccs_ok (ext : Ext) (row : Fields) : ∀ (defs : List (String × AggDef))
    (accs : List (String × Acc)), AccsOK defs accs →
    (∃ accs', stepAccs ext defs accs row = .ok accs' ∧ AccsOK defs accs') ∨
    (∃ w, stepAccs ext defs accs row = .unmodelled w)
  | [], [], _ => .inl ⟨[], rfl, trivial⟩
  | [], _ :: _, h => h.elim
  | _ :: _, [], h => h.elim
  | d :: ds, a :: as, h => by
    have hrec := stepAccs_ok ext row ds as h.2
    unfold stepAccs at hrec ⊢
    rw [List.zip_cons_cons, List.mapM_cons]
    rcases step_match ext d.2 a.2 row h.1 with ⟨a', ha', hm'⟩ | ⟨w, hw⟩
    · simp only [ha']
      rcases hrec with ⟨accs', hr, hok⟩ | ⟨w, hr⟩
      · exact .inl ⟨(d.1, a') :: accs', by simp [hr], hm', hok⟩
      · exact .inr ⟨w, by simp [hr]⟩
    · exact .inr ⟨w, by simp [hw]⟩

/-- every group of the state has accumulators fitting the definitions -/
def GroupsOK (defs : List (String × AggDef)) (st : GroupState) : Prop :=
  ∀ e ∈ st, AccsOK defs e.2

theorem groupUpd_ok (ext : Ext) (defs : List (String × AggDef)) (row : Fields) (key : List Value) :
    ∀ st : GroupState, GroupsOK defs st →
    (∃ st', groupUpd ext defs row key st = .ok st' ∧ GroupsOK defs st') ∨
    (∃ w, groupUpd ext defs row key st = .unmodelled w)
  | [], _ => by
    simp only [groupUpd]
    rcases stepAccs_ok ext row defs _ (accsOK_empties defs) with ⟨accs', hr, hok⟩ | ⟨w, hr⟩
    · refine .inl ⟨[(key, accs')], by simp [hr], ?_⟩
      intro e he
      simp only [List.mem_singleton] at he
      subst he
      exact hok
    · exact .inr ⟨w, by simp [hr]⟩
  | (k, accs) :: rest, h => by
    simp only [groupUpd]
    split
    · rcases stepAccs_ok ext row defs accs (h (k, accs) (by simp)) with ⟨accs', hr, hok⟩ | ⟨w, hr⟩
      · refine .inl ⟨(k, accs') :: rest, by simp [hr], ?_⟩
        intro e he
        rcases List.mem_cons.1 he with rfl | he
        · exact hok
        · exact h e (by simp [he])
      · exact .inr ⟨w, by simp [hr]⟩
    · rcases groupUpd_ok ext defs row key rest (fun e he => h e (by simp [he])) with
        ⟨rest', hr, hok⟩ | ⟨w, hr⟩
      · refine .inl ⟨(k, accs) :: rest', by simp [hr], ?_⟩
        intro e he
        rcases List.mem_cons.1 he with rfl | he
        · exact h _ (by simp)
        · exact hok e he
      · exact .inr ⟨w, by simp [hr]⟩

/-- the key tuple of a row: evaluation errors are `None`, so a value or outside the model -/
theorem keyOf_fine (ext : Ext) (g : Grouper) (row : Fields) : Fine (g.keyOf ext row) := by
  unfold Grouper.keyOf
  apply fine_mapM
  intro e _
  have hnp := C11_eval_no_panic ext row e
  rcases hev : evalValue ext row e with v | k | p | w
  · exact fine_ok _
  · exact fine_ok _
  · exact absurd hev (hnp p)
  · exact fine_unmodelled _

/-- **`MultiGrouper::process_map` never fails**: a new state (whose groups still fit the
definitions) or outside the model -/
theorem processRow_ok (ext : Ext) (g : Grouper) (st : GroupState) (row : Fields)
    (h : GroupsOK g.accNames st) :
    (∃ st', g.processRow ext st row = .ok st' ∧ GroupsOK g.accNames st') ∨
    (∃ w, g.processRow ext st row = .unmodelled w) := by
  unfold Grouper.processRow
  rcases keyOf_fine ext g row with ⟨key, hk⟩ | ⟨w, hw⟩
  · simp only [hk]
    exact groupUpd_ok ext g.accNames row key st h
  · exact .inr ⟨w, by simp [hw]⟩

theorem processRow_fine (ext : Ext) (g : Grouper) (st : GroupState) (row : Fields)
    (h : GroupsOK g.accNames st) : Fine (g.processRow ext st row) := by
  rcases processRow_ok ext g st row h with ⟨st', hr, _⟩ | ⟨w, hr⟩
  · exact .inl ⟨st', hr⟩
  · exact .inr ⟨w, hr⟩

/-- feeding the rows of a table (the `go` of `applyStage (.group g)`) -/
theorem group_go_ok (ext : Ext) (g : Grouper) : ∀ (rows : List Fields) (st : GroupState),
    GroupsOK g.accNames st →
    (∃ st', applyStage.go ext g st rows = .ok st' ∧ GroupsOK g.accNames st') ∨
    (∃ w, applyStage.go ext g st rows = .unmodelled w)
  | [], st, h => .inl ⟨st, by simp [applyStage.go], h⟩
  | r :: rs, st, h => by
    simp only [applyStage.go]
    rcases processRow_ok ext g st r h with ⟨st', hr, hok⟩ | ⟨w, hr⟩
    · simp only [hr]
      exact group_go_ok ext g rs st' hok
    · exact .inr ⟨w, by simp [hr]⟩

/-! ### emit -/

/-- the CKMS query of the model: a value, nothing, or outside the model (≥ 500 samples, NaN) -/
theorem pctQuery_fine (vals : List F64) (q : F64) : Fine (pctQuery vals q) := by
  unfold pctQuery
  simp only
  split
  · exact fine_ok _
  · split
    · exact fine_unmodelled _
    · split
      · exact fine_unmodelled _
      · exact fine_ok _

/-- `AggregateFunction::emit` on the function's own accumulator -/
theorem emit_match_fine (d : AggDef) (a : Acc) (h : Match d a) : Fine (d.emit a) := by
  cases d <;> cases a <;> simp only [Match] at h <;> simp only [AggDef.emit] <;>
    try (exact fine_ok _)
  case pct.pct q e vals =>
    rcases pctQuery_fine vals q with ⟨o, ho⟩ | ⟨w, hw⟩
    · rw [ho]; cases o <;> exact fine_ok _
    · rw [hw]; exact fine_unmodelled _

/-- **`MultiGrouper::emit` never fails** on a state whose groups fit the definitions -/
theorem emit_fine (g : Grouper) (st : GroupState) (h : GroupsOK g.accNames st) :
    Fine (g.emit st) := by
  unfold Grouper.emit
  refine fine_bind _ _ ?_ (fun rows _ => fine_ok _)
  apply fine_mapM
  intro ka hka
  refine fine_bind _ _ ?_ (fun cells _ => fine_ok _)
  apply fine_mapM
  intro da hda
  have hm := accsOK_zip_mem g.accNames ka.2 (h ka hka) da hda
  exact fine_bind _ _ (emit_match_fine _ _ hm) (fun v _ => fine_ok _)

/-! ### one stage -/

/-- **an aggregation stage never panics** — for every grouper and every table -/
theorem C11_group_no_panic (ext : Ext) (g : Grouper) (t : Table) :
    RunNoPanic (applyStage ext (.group g) t) := by
  intro p
  simp only [applyStage]
  rcases group_go_ok ext g t.rows [] (fun e he => by simp at he) with ⟨st, hr, hok⟩ | ⟨w, hr⟩
  · rw [hr]
    rcases emit_fine g st hok with ⟨t', ht⟩ | ⟨w, hw⟩
    · simp [ht]
    · simp [hw]
  · rw [hr]; simp

/-- one aggregate stage applied to a table: grouping never fails, a sort whose keys cannot all be
evaluated is outside the model, a row operator needs a non-empty `split` separator -/
theorem C11_stage_no_panic (ext : Ext) (s : AggStage) (t : Table)
    (hs : ∀ op, s = .adapt op → SepOK op) : RunNoPanic (applyStage ext s t) := by
  cases s with
  | group g => exact C11_group_no_panic ext g t
  | sort cols dir =>
    intro p
    simp only [applyStage]
    split <;> simp
  | adapt op => exact C11_adaptTable_no_panic ext op t (hs op rfl)

/-- the head stage on the record stream, when it is not a row operator -/
theorem C11_head_no_panic (ext : Ext) (s : AggStage) (rows : List Record)
    (hs : ∀ op, s ≠ .adapt op) : RunNoPanic (headStage ext s rows) := by
  cases s with
  | group g =>
    simp only [headStage]
    exact C11_group_no_panic ext g _
  | sort cols dir =>
    intro p
    simp only [headStage]
    split <;> simp
  | adapt op => exact absurd rfl (hs op)

theorem go_noPanic (ext : Ext) : ∀ (ss : List AggStage) (t : Table),
    (∀ op, AggStage.adapt op ∈ ss → SepOK op) → RunNoPanic (runPlan.go ext ss t)
  | [], t, _ => by simp only [runPlan.go]; exact runNoPanic_ok _
  | s :: ss, t, h => by
    have hs := C11_stage_no_panic ext s t (fun op e => h op (by simp [e]))
    simp only [runPlan.go]
    cases hst : applyStage ext s t with
    | ok t' => exact go_noPanic ext ss t' (fun op ho => h op (by simp [ho]))
    | panic p => exact absurd hst (hs p)
    | unmodelled w => exact runNoPanic_unmodelled _

/-! ### the planner never starts the aggregate chain with a row operator -/

/-- the loop invariant of `Pipeline::new` (while no error has been recorded): before the first
aggregation there are no aggregate stages; after it there is at least one, and the oldest one (the
head of the final chain) is not a row operator -/
def ChainOK (inAgg : Bool) (post : List AggStage) : Prop :=
  (inAgg = false → post = []) ∧ (inAgg = true → post ≠ []) ∧
  ∀ op, post.getLast? ≠ some (.adapt op)

theorem chainOK_push (s : AggStage) (inAgg : Bool) (post : List AggStage) (h : ChainOK inAgg post)
    (hs : ∀ op, s ≠ .adapt op) : ChainOK true (s :: post) := by
  unfold ChainOK at h ⊢
  refine ⟨fun e => absurd e (by decide), fun _ => (by simp), ?_⟩
  intro op
  cases post with
  | nil => simp only [List.getLast?_singleton, ne_eq, Option.some.injEq]; exact hs op
  | cons y ys => rw [List.getLast?_cons_cons]; exact h.2.2 op

theorem chainOK_adapt (op : RowOp) (post : List AggStage) (h : ChainOK true post) :
    ChainOK true (.adapt op :: post) := by
  unfold ChainOK at h ⊢
  refine ⟨fun e => absurd e (by decide), fun _ => (by simp), ?_⟩
  intro op'
  cases post with
  | nil => exact absurd rfl (h.2.1 rfl)
  | cons y ys => rw [List.getLast?_cons_cons]; exact h.2.2 op'

theorem planLoop_head : ∀ (ops : List Operator) (inAgg hasErr : Bool) (pre : List RowOp)
    (post : List AggStage) (p : Plan),
    (hasErr = false → ChainOK inAgg post) →
    planLoop inAgg hasErr pre post ops = .ok p → ∀ op, p.post.head? ≠ some (.adapt op)
  | [], inAgg, hasErr, pre, post, p, hi, h => by
    simp only [planLoop] at h
    split at h
    · cases h
    · rename_i he
      cases h
      intro op
      simp only [List.head?_reverse]
      exact (hi (by simpa using he)).2.2 op
  | .error :: rest, inAgg, hasErr, pre, post, p, hi, h => by
    simp only [planLoop] at h
    exact planLoop_head rest _ _ _ _ p hi h
  | .alias _ :: rest, inAgg, hasErr, pre, post, p, hi, h => by
    simp only [planLoop] at h
    exact planLoop_head rest _ _ _ _ p hi h
  | .inline i :: rest, inAgg, hasErr, pre, post, p, hi, h => by
    simp only [planLoop] at h
    cases ht : typecheckInline i with
    | ok o =>
      simp only [ht] at h
      split at h
      · exact planLoop_head rest _ _ _ _ p hi h
      · rename_i hin
        have hin' : inAgg = true := by simpa using hin
        subst hin'
        exact planLoop_head rest _ _ _ _ p (fun he => chainOK_adapt o post (hi he)) h
    | typeError k => simp [ht] at h
    | panic s => simp [ht] at h
    | unmodelled w => simp [ht] at h
  | .agg m :: rest, inAgg, hasErr, pre, post, p, hi, h => by
    simp only [planLoop] at h
    cases hc : convertMultiAgg m with
    | ok g =>
      simp only [hc] at h
      split at h
      · refine planLoop_head rest _ _ _ _ p (fun he => ?_) h
        exact chainOK_push _ true _ (chainOK_push (.group g) inAgg post (hi he) (by intro op e; cases e))
          (by intro op e; cases e)
      · exact planLoop_head rest _ _ _ _ p
          (fun he => chainOK_push (.group g) inAgg post (hi he) (by intro op e; cases e)) h
    | typeError k =>
      simp only [hc] at h
      exact planLoop_head rest _ _ _ _ p (fun he => by cases he) h
    | panic s => simp [hc] at h
    | unmodelled w => simp [hc] at h
  | .sort cols dir :: rest, inAgg, hasErr, pre, post, p, hi, h => by
    simp only [planLoop] at h
    split at h
    · exact planLoop_head rest _ _ _ _ p
        (fun he => chainOK_push (.sort cols dir) inAgg post (hi he) (by intro op e; cases e)) h
    · cases h

/-- **`Pipeline::new` never makes a row operator the head of the aggregate chain** -/
theorem compile_head_not_adapt (q : Query) (p : Plan) (h : compile q = .ok p) :
    ∀ op, p.post.head? ≠ some (.adapt op) := by
  simp only [compile] at h
  cases hp0 : planLoop false false [] [] (flattenOps (opsDepth q.ops + 1) q.ops) with
  | ok p0 =>
    simp only [hp0, Compile.ok.injEq] at h
    subst h
    exact planLoop_head _ _ _ _ _ p0
      (fun _ => by unfold ChainOK; exact ⟨fun _ => rfl, fun e => absurd e (by decide), fun op => (by simp)⟩) hp0
  | error k => simp [hp0] at h
  | panic s => simp [hp0] at h
  | unmodelled w => simp [hp0] at h

/-! ### the whole run -/

/-- the run of a plan whose row operators have the separator property and whose aggregate chain
does not start with a row operator -/
theorem C11_runPlan_no_panic (ext : Ext) (pl : Plan) (lines : List String) (hp : PlanOK pl)
    (hh : ∀ op, pl.post.head? ≠ some (.adapt op)) : ∀ p, runPlan ext pl lines ≠ .panic p := by
  intro p
  have hpre := C11_runPre_no_panic ext pl lines hp.1
  unfold runPlan
  cases hr : runPre ext pl lines with
  | ok pre =>
    simp only
    cases hpost : pl.post with
    | nil => simp
    | cons head rest =>
      simp only
      have hhead : ∀ op, head ≠ .adapt op := by
        intro op e
        exact hh op (by rw [hpost, e]; rfl)
      have h1 := C11_head_no_panic ext head pre.rows hhead
      cases ht : headStage ext head pre.rows with
      | ok t0 =>
        simp only
        have h2 := go_noPanic ext rest t0 (fun op ho => hp.2 op (by rw [hpost]; simp [ho]))
        cases hg : runPlan.go ext rest t0 with
        | ok t => simp
        | panic q => exact absurd hg (h2 q)
        | unmodelled w => simp
      | panic q => exact absurd ht (h1 q)
      | unmodelled w => simp
  | panic q => exact absurd hr (hpre q)
  | unmodelled w => simp

/-- **C11 (the whole run of an accepted query).**  For every query `Pipeline::new` accepts, every
input and every behaviour of the external functions, the modelled run — reader side, aggregation,
implicit and explicit sorts, row operators after aggregations, limits — ends in `.ok` or leaves
the modelled fragment; it never reaches a panic site. -/
theorem C11_compiled_runPlan_no_panic (ext : Ext) (q : Query) (pl : Plan) (lines : List String)
    (hc : compile q = .ok pl) : ∀ p, runPlan ext pl lines ≠ .panic p :=
  C11_runPlan_no_panic ext pl lines (compile_planOK q pl hc) (compile_head_not_adapt q pl hc)

/-! ### the terminal loop re-runs the same stages -/

/-- a stage run by the live (terminal) loop on a frame's table, whatever state earlier frames left
in the operator, does not panic either (`C16_reentrant`: it computes `applyStage`) -/
theorem C11_liveStage_no_panic (ext : Ext) (s : AggStage) (old : Term.LiveState) (t : Table)
    (hs : ∀ op, s = .adapt op → SepOK op) : RunNoPanic (Term.liveStage ext s old t) := by
  intro p e
  have h := C16.C16_reentrant ext s old t
  rw [e] at h
  exact C11_stage_no_panic ext s t hs p h.symm

/-- `run_agg_pipeline` on the live states: no frame of the terminal loop panics in the stages
after the head -/
theorem C11_liveRest_no_panic (ext : Ext) : ∀ (ss : List AggStage) (sts : List Term.LiveState)
    (t : Table), (∀ op, AggStage.adapt op ∈ ss → SepOK op) → RunNoPanic (Term.liveRest ext ss sts t)
  | [], sts, t, _ => by simp only [Term.liveRest]; exact runNoPanic_ok _
  | s :: ss, sts, t, h => by
    have hs := C11_liveStage_no_panic ext s (sts.headD .fresh) t (fun op e => h op (by simp [e]))
    simp only [Term.liveRest]
    cases hst : Term.liveStage ext s (sts.headD .fresh) t with
    | ok r =>
      obtain ⟨st', t'⟩ := r
      simp only
      have ih := C11_liveRest_no_panic ext ss (sts.drop 1) t' (fun op ho => h op (by simp [ho]))
      cases hr : Term.liveRest ext ss (sts.drop 1) t' with
      | ok r2 => obtain ⟨a, b⟩ := r2; exact runNoPanic_ok _
      | panic q => exact absurd hr (ih q)
      | unmodelled w => exact runNoPanic_unmodelled _
    | panic q => exact absurd hst (hs q)
    | unmodelled w => exact runNoPanic_unmodelled _

/-- … for a compiled query: every frame the terminal loop draws (head stage on the rows received
so far, then the live stages) is computed without a panic -/
theorem C11_compiled_frame_no_panic (ext : Ext) (q : Query) (pl : Plan) (hc : compile q = .ok pl)
    (head : AggStage) (rest : List AggStage) (hpost : pl.post = head :: rest)
    (rows : List Record) (sts : List Term.LiveState) :
    RunNoPanic (headStage ext head rows) ∧
      ∀ t0, RunNoPanic (Term.liveRest ext rest sts t0) := by
  have hp := compile_planOK q pl hc
  have hh := compile_head_not_adapt q pl hc
  refine ⟨C11_head_no_panic ext head rows (fun op e => hh op (by rw [hpost, e]; rfl)), fun t0 => ?_⟩
  exact C11_liveRest_no_panic ext rest sts t0 (fun op ho => hp.2 op (by rw [hpost]; simp [ho]))

/-! ### non-vacuity -/

/-- `* | json | count, avg(n) by k | where _count > 1 | sort by k | limit` -/
def exQ : Query :=
  { search := .and [],
    ops := [.inline (.json none),
            .agg { keyCols := [.col "k" []], headers := ["k"],
                   fns := [("_count", .count none), ("_average", .avg (.col "n" []))] },
            .inline (.whereOp (some (.cmp .gt (.col "_count" []) (.val (.int 1))))),
            .sort [.col "k" []] .asc,
            .inline (.limit none)] }

/-- its plan: `json` on the reader side; aggregation, a row operator, a sort and a limit after it -/
def exPlan : Plan :=
  { filter := .and [], pre := [.json none],
    post := [.group { keyCols := [.col "k" []], headers := ["k"],
                      fns := [("_count", .count none), ("_average", .avg (.col "n" []))] },
             .adapt (.whereE (.cmp .gt (.col "_count" []) (.val (.int 1)))),
             .sort [.col "k" []] .asc,
             .adapt (.limit 10)] }

theorem exQ_compiles : compile exQ = .ok exPlan := by
  simp [compile, exQ, exPlan, flattenOps, opsDepth, planLoop, typecheckInline, convertMultiAgg,
    convertMultiAgg.fns, typecheckAgg, dupColumn, needsSortAfter, Expr.wellTyped, Expr.wellTypedL,
    optWellTyped]

/-- the headline on a concrete query with every kind of stage, for every input -/
example (ext : Ext) (lines : List String) : ∀ p, runPlan ext exPlan lines ≠ .panic p :=
  C11_compiled_runPlan_no_panic ext exQ exPlan lines exQ_compiles

/-- the plan of `* | count, avg(n) by k | where _count > 1 | sort by k | limit` -/
def exPlanB : Plan :=
  { filter := .and [], pre := [],
    post := [.group { keyCols := [.col "k" []], headers := ["k"],
                      fns := [("_count", .count none), ("_average", .avg (.col "n" []))] },
             .adapt (.whereE (.cmp .gt (.col "_count" []) (.val (.int 1)))),
             .sort [.col "k" []] .asc,
             .adapt (.limit 10)] }
def exRow : Fields := [("_average", .float .nan), ("_count", .int 2), ("k", .none)]
def exWhereOp : RowOp := .whereE (.cmp .gt (.col "_count" []) (.val (.int 1)))

theorem ex_avg : Value.fromFloat (F64.zero.div (F64.ofInt 0)) = .float .nan := by
  simp [Value.fromFloat, F64.div, F64.zero, F64.ofInt, F64.roundInt]

theorem ex_where (ext : Ext) (cols : List String) :
    adaptTable ext exWhereOp { columns := cols, rows := [exRow] } =
      .ok { columns := C10.adaptColumns cols [exRow], rows := [exRow] } := by
  have h1 : C03.rowOut ext exWhereOp exRow = some exRow := by
    simp [exWhereOp, exRow, C03.rowOut_where, C03.whereKeeps, evalBool, evalValue, Fields.get, access,
      cmpResult, Value.cmp, asBool]
    decide
  rw [C03.adaptTable_of_fine ext exWhereOp (C03.stateless_where ext _)]
  · simp only [List.filterMap_cons, h1, List.filterMap_nil]
  · intro d hd
    simp only [List.mem_singleton] at hd
    subst hd
    simp [C03.RowFine, exWhereOp, exRow, RowOp.init, stepOp, applyStateless, evalBool, evalValue,
      Fields.get, access, asBool]

set_option maxRecDepth 10000 in
/-- the run of that plan on ANY two input lines, evaluated: one group (the key `k` cannot be
evaluated on a raw line: `None`), counted twice, `avg(n)` of no values = NaN; it passes
`where _count > 1`, the sort and the limit -/
theorem exPlanB_run (ext : Ext) (l1 l2 : String) : ∃ cols, runPlan ext exPlanB [l1, l2] =
    .ok (.table { columns := cols, rows := [exRow] } 0) := by
  refine ⟨C10.adaptColumns (C10.adaptColumns ["k", "_count", "_average"] [exRow]) [exRow], ?_⟩
  simp [runPlan, runPlan.go, runPre, exPlanB, Search.sem, Search.semAll, Search.modelled, Search.modelledL,
    feed, procPreagg, drainLoop, headStage, applyStage, applyStage.go, Grouper.processRow,
    Grouper.keyOf, evalValue, Fields.get, groupUpd, stepAccs, Grouper.accNames, AggDef.step, AggDef.empty,
    evalF64, keyEq, Value.beqL, Value.beq, Grouper.emit, AggDef.emit, Fields.put, ex_avg]
  have hw := ex_where ext ["k", "_count", "_average"]
  simp only [exWhereOp, exRow] at hw
  simp only [hw]
  simp [sortKeysOk, sortRows, evalValue, Fields.get, access, C03.C03_limit_after_table ext 10 (by decide)]
  exact ⟨rfl, rfl⟩
/-- the same query without `json` compiles to `exPlanB` … -/
theorem exQB_compiles : compile { exQ with ops := exQ.ops.drop 1 } = .ok exPlanB := by
  simp [compile, exQ, exPlanB, flattenOps, opsDepth, planLoop, typecheckInline, convertMultiAgg,
    convertMultiAgg.fns, typecheckAgg, dupColumn, needsSortAfter, Expr.wellTyped, Expr.wellTypedL,
    optWellTyped]


end Ag.C11

#print axioms Ag.C11.step_match
#print axioms Ag.C11.processRow_fine
#print axioms Ag.C11.emit_fine
#print axioms Ag.C11.C11_group_no_panic
#print axioms Ag.C11.C11_stage_no_panic
#print axioms Ag.C11.C11_head_no_panic
#print axioms Ag.C11.compile_head_not_adapt
#print axioms Ag.C11.C11_runPlan_no_panic
#print axioms Ag.C11.C11_compiled_runPlan_no_panic
#print axioms Ag.C11.C11_liveStage_no_panic
#print axioms Ag.C11.C11_liveRest_no_panic
#print axioms Ag.C11.C11_compiled_frame_no_panic
#print axioms Ag.C11.exQ_compiles
#print axioms Ag.C11.exPlanB_run
