/-
C01 (state → printed value)  The cell of an aggregate column in the emitted row is the aggregate
function's `emit` of the accumulator folded over exactly the rows of that group.

`group_accs` (C01.lean) reaches the group's accumulators, the per-function specs (`count_spec`,
`sum_spec`, …) reach one accumulator folded by `foldStep`, `emitRow_get_header` (C13laws.lean) the
key cells of the emitted row.  Here the chain is closed:

* `emitRow_get_acc` — the j-th aggregate cell of the emitted row is `d_j.emit a_j`
  (`emitRow` fails as a whole when some `emit` fails, so for an emitted row every cell is a value);
* `foldAccs_foldStep` — the bridge: folding all accumulators of a group in lockstep (`foldAccs`,
  what `process_map` does) folds the j-th one by `foldStep` with `d_j.step`;
* `C01_cell_of_group` — after `foldRows ext g [] rows = .ok st`, for every entry of `st` and every
  aggregate j: the cell `name_j` of its emitted row is `d_j.emit` of `foldStep d_j d_j.empty` over
  exactly `groupRows … key rows`;
* `C01_count_cell`, `C01_sum_cell` — instances: the number of rows of the group, the sum of the
  numeric values of the argument over them.
-/
import AgProofs.Props.C01laws
import AgProofs.Props.C13laws

namespace Ag.C01
open C13

/-! ### the aggregate cells of an emitted row -/

/-- two lists related position by position (core has no `Forall₂`) -/
inductive All2 {α β : Type} (R : α → β → Prop) : List α → List β → Prop
  | nil : All2 R [] []
  | cons {a b as bs} : R a b → All2 R as bs → All2 R (a :: as) (b :: bs)

theorem mapM_ok_all {α β} (f : α → Outcome β) : ∀ (l : List α) (out : List β),
    l.mapM f = .ok out → All2 (fun a b => f a = .ok b) l out := by
  intro l
  induction l with
  | nil => intro out h; simp [List.mapM_nil] at h; subst h; exact .nil
  | cons a as ih =>
    intro out h
    rw [List.mapM_cons] at h
    cases hf : f a <;> simp [hf] at h
    cases hm : as.mapM f <;> simp [hm] at h
    subst h
    exact .cons hf (ih _ hm)

theorem forall₂_get {α β} {R : α → β → Prop} {l : List α} {m : List β} (h : All2 R l m) :
    ∀ (j : Nat) (a : α), l[j]? = some a → ∃ b, m[j]? = some b ∧ R a b := by
  induction h with
  | nil => intro j a e; simp at e
  | cons hr _ ih =>
    intro j a e
    cases j with
    | zero => simp at e; subst e; exact ⟨_, by simp, hr⟩
    | succ j => simp at e; simpa using ih j a e

theorem forall₂_map_eq {α β γ} {R : α → β → Prop} {l : List α} {m : List β} (f : α → γ) (g : β → γ)
    (h : All2 R l m) (hr : ∀ a b, R a b → g b = f a) : m.map g = l.map f := by
  induction h with
  | nil => rfl
  | cons hab _ ih => simp [hr _ _ hab, ih]

/-- **the j-th aggregate cell of the emitted row is `emit` of the j-th accumulator.**  `emitRow`
ends in `.ok` only if every `emit` does; then the cell named `name_j` holds that value.  Needed:
the aggregate names are pairwise different (always so for a compiled aggregation:
`C01dup.C01_compiled_names_nodup`) and the entry has one accumulator per function (an invariant of
`process_map`). -/
theorem emitRow_get_acc (g : Grouper) (e : List Value × List (String × Acc)) (row : Fields)
    (h : emitRow g e = .ok row) (hnd : (g.accNames.map Prod.fst).Nodup)
    (hlen : e.2.length = g.accNames.length)
    (j : Nat) (d : String × AggDef) (a : String × Acc)
    (hd : g.accNames[j]? = some d) (ha : e.2[j]? = some a) :
    ∃ v, d.2.emit a.2 = .ok v ∧ Fields.get d.1 row = some v := by
  unfold emitRow at h
  dsimp only at h
  generalize hm : List.mapM (m := Outcome) _ (g.accNames.zip e.2) = m at h
  cases m <;> simp at h
  rename_i cells
  subst h
  have hall := mapM_ok_all _ _ _ hm
  have hz : (g.accNames.zip e.2)[j]? = some (d, a) := by
    simp [List.getElem?_zip_eq_some, hd, ha]
  obtain ⟨c, hc, hfc⟩ := forall₂_get hall j (d, a) hz
  have hnames : cells.map Prod.fst = g.accNames.map Prod.fst := by
    have := forall₂_map_eq (fun da : (String × AggDef) × (String × Acc) => da.1.1) Prod.fst hall
      (by
        intro da b hr
        cases he : da.1.2.emit da.2.2 <;> simp [he] at hr
        rw [← hr])
    rw [this]
    have hz2 : (g.accNames.zip e.2).map Prod.fst = g.accNames := List.map_fst_zip (by omega)
    have hz3 : (g.accNames.zip e.2).map (fun da => da.1.1) =
        ((g.accNames.zip e.2).map Prod.fst).map Prod.fst := by
      simp [List.map_map, Function.comp_def]
    rw [hz3, hz2]
  cases he : d.2.emit a.2 <;> simp [he] at hfc
  rename_i v
  refine ⟨v, rfl, ?_⟩
  have hmem : c ∈ cells := List.mem_of_getElem? hc
  have := get_foldl_put_mem cells (by rw [hnames]; exact hnd)
    ((g.headers.zip e.1).foldl (fun d hv => Fields.put hv.1 hv.2 d) []) c hmem
  rw [← hfc] at this
  exact this

/-! ### the bridge: all accumulators in lockstep = each one by `foldStep` -/

theorem stepAccs_get (ext : Ext) (row : Fields) : ∀ (defs : List (String × AggDef))
    (accs accs' : List (String × Acc)), stepAccs ext defs accs row = .ok accs' →
    ∀ (j : Nat) (d : String × AggDef) (a : String × Acc), defs[j]? = some d → accs[j]? = some a →
      ∃ a', accs'[j]? = some a' ∧ d.2.step ext a.2 row = .st a'.2 := by
  intro defs accs accs' h j d a hd ha
  unfold stepAccs at h
  have hall := mapM_ok_all _ _ _ h
  have hz : (defs.zip accs)[j]? = some (d, a) := by simp [List.getElem?_zip_eq_some, hd, ha]
  obtain ⟨c, hc, hfc⟩ := forall₂_get hall j (d, a) hz
  cases hs : d.2.step ext a.2 row <;> simp [hs] at hfc
  exact ⟨c, hc, by rw [← hfc]⟩

theorem stepAccs_length (ext : Ext) (row : Fields) (defs : List (String × AggDef))
    (accs accs' : List (String × Acc)) (h : stepAccs ext defs accs row = .ok accs')
    (hl : accs.length = defs.length) : accs'.length = defs.length := by
  unfold stepAccs at h
  have := C13.mapM_ok_length _ _ _ h
  rw [this, List.length_zip]; omega

/-- **`foldAccs` is `foldStep`, accumulator by accumulator.**  (`foldStep ext d a rows` is the left
fold of `d.step ext · row` over `rows` from `a`, `none` when a step is not `.st`: C01.lean.) -/
theorem foldAccs_foldStep (ext : Ext) (defs : List (String × AggDef)) : ∀ (rows : List Fields)
    (accs accs' : List (String × Acc)), foldAccs ext defs accs rows = .ok accs' →
    ∀ (j : Nat) (d : String × AggDef) (a : String × Acc), defs[j]? = some d → accs[j]? = some a →
      ∃ a', accs'[j]? = some a' ∧ foldStep ext d.2 a.2 rows = some a'.2 := by
  intro rows
  induction rows with
  | nil =>
    intro accs accs' h j d a _ ha
    simp only [foldAccs, Outcome.ok.injEq] at h
    subst h
    exact ⟨a, ha, rfl⟩
  | cons r rs ih =>
    intro accs accs' h j d a hd ha
    simp only [foldAccs] at h
    cases hs : stepAccs ext defs accs r <;> simp only [hs] at h <;> try (exact absurd h (by simp))
    rename_i accs1
    obtain ⟨a1, ha1, hst⟩ := stepAccs_get ext r defs accs accs1 hs j d a hd ha
    obtain ⟨a', ha', hf⟩ := ih accs1 accs' h j d a1 hd ha1
    exact ⟨a', ha', by simp only [foldStep, hst]; exact hf⟩

theorem foldAccs_length (ext : Ext) (defs : List (String × AggDef)) : ∀ (rows : List Fields)
    (accs accs' : List (String × Acc)), foldAccs ext defs accs rows = .ok accs' →
    accs.length = defs.length → accs'.length = defs.length := by
  intro rows
  induction rows with
  | nil => intro accs accs' h hl; simp only [foldAccs, Outcome.ok.injEq] at h; subst h; exact hl
  | cons r rs ih =>
    intro accs accs' h hl
    simp only [foldAccs] at h
    cases hs : stepAccs ext defs accs r <;> simp only [hs] at h <;> try (exact absurd h (by simp))
    exact ih _ accs' h (stepAccs_length ext r defs accs _ hs hl)

/-! ### the clause of the property -/

/-- in a state with one entry per key, looking up an entry's key finds that entry -/
theorem lookup_of_mem : ∀ (st : GroupState), KeysDistinct st → ∀ e ∈ st, lookup e.1 st = some e.2 := by
  intro st
  induction st with
  | nil => intro _ e he; simp at he
  | cons hd rest ih =>
    intro hdist e he
    obtain ⟨k, accs⟩ := hd
    obtain ⟨h1, h2⟩ := hdist
    simp only [lookup]
    rcases List.mem_cons.1 he with rfl | he
    · simp [keyLaws.refl]
    · have : keyEq k e.1 = false := h1 e he
      simp only [this, Bool.false_eq_true, if_false]
      exact ih h2 e he

/-- **C01 (every aggregate column holds its own function applied to exactly the rows of that
group), down to the printed cell.**  After the rows have been processed, for every group `e` of
the state and every aggregate `(name, d)` of the stage (the j-th): there is the accumulator `acc`
obtained by folding `d.step` from `d.empty` over exactly the rows whose key is `e`'s
(`groupRows`), in arrival order; the entry stores it; and in the emitted row the cell `name` is
`d.emit acc`. -/
theorem C01_cell_of_group (ext : Ext) (g : Grouper) (rows : List Fields) (st : GroupState)
    (h : foldRows ext g [] rows = .ok st) (hnd : (g.accNames.map Prod.fst).Nodup)
    (e : List Value × List (String × Acc)) (he : e ∈ st)
    (j : Nat) (d : String × AggDef) (hd : g.accNames[j]? = some d) :
    ∃ a, foldStep ext d.2 d.2.empty (groupRows ext g e.1 rows) = some a.2 ∧ e.2[j]? = some a ∧
      ∀ row, emitRow g e = .ok row → ∃ v, d.2.emit a.2 = .ok v ∧ Fields.get d.1 row = some v := by
  have hdist := C01_one_row_per_key ext g rows st h
  have hl := lookup_of_mem st hdist e he
  have hg := C01_group_accs ext g rows st e.1 h
  split at hg
  · rw [hl] at hg; cases hg
  · obtain ⟨accs, hf, hlk⟩ := hg
    rw [hl] at hlk
    cases hlk
    have hemp : (empties g)[j]? = some (d.1, d.2.empty) := by simp [empties, hd]
    obtain ⟨a, ha, hfs⟩ := foldAccs_foldStep ext g.accNames _ _ _ hf j d _ hd hemp
    have hlen := foldAccs_length ext g.accNames _ _ _ hf (by simp [empties])
    exact ⟨a, hfs, ha, fun row hrow => emitRow_get_acc g e row hrow hnd hlen j d a hd ha⟩

/-- **`count`: the cell is the number of rows of the group.** -/
theorem C01_count_cell (ext : Ext) (g : Grouper) (rows : List Fields) (st : GroupState)
    (h : foldRows ext g [] rows = .ok st) (hnd : (g.accNames.map Prod.fst).Nodup)
    (e : List Value × List (String × Acc)) (he : e ∈ st) (j : Nat) (name : String)
    (hd : g.accNames[j]? = some (name, .count none)) (row : Fields) (hrow : emitRow g e = .ok row) :
    Fields.get name row = some (.int (groupRows ext g e.1 rows).length) := by
  obtain ⟨a, hfs, _, hcell⟩ := C01_cell_of_group ext g rows st h hnd e he j _ hd
  obtain ⟨v, hv, hget⟩ := hcell row hrow
  have := C01_count_all_rows ext _ _ hfs
  rw [this] at hv
  simp only [AggDef.emit, Outcome.ok.injEq] at hv
  rw [hget, ← hv]

/-- **`sum(e)`: the cell is the sum (left to right, in double arithmetic, shown as an integer when
integral) of the numeric values of `e` over the rows of the group.** -/
theorem C01_sum_cell (ext : Ext) (g : Grouper) (rows : List Fields) (st : GroupState)
    (h : foldRows ext g [] rows = .ok st) (hnd : (g.accNames.map Prod.fst).Nodup)
    (e : List Value × List (String × Acc)) (he : e ∈ st) (j : Nat) (name : String) (x : Expr)
    (hd : g.accNames[j]? = some (name, .sum x)) (row : Fields) (hrow : emitRow g e = .ok row) :
    Fields.get name row = some (Value.fromFloat
      ((numeric ext x (groupRows ext g e.1 rows)).foldl F64.add F64.zero)) := by
  obtain ⟨a, hfs, _, hcell⟩ := C01_cell_of_group ext g rows st h hnd e he j _ hd
  obtain ⟨v, hv, hget⟩ := hcell row hrow
  have := sum_spec ext x _ F64.zero _ hfs
  rw [this] at hv
  simp only [AggDef.emit, Outcome.ok.injEq] at hv
  rw [hget, ← hv]

/-- non-vacuity: `count by k` over k=1, k=2, k=1 — the row of key 1 has `_count = 2` -/
example (ext : Ext) (row : Fields)
    (hrow : emitRow gCount ([.int 1], [("_count", .count 2)]) = .ok row) :
    Fields.get "_count" row = some (.int 2) := by
  have hfold : foldRows ext gCount [] [[("k", .int 1)], [("k", .int 2)], [("k", .int 1)]] =
      .ok [([.int 1], [("_count", .count 2)]), ([.int 2], [("_count", .count 1)])] := by
    simp [foldRows, gCount, Grouper.processRow, Grouper.keyOf, evalValue, Fields.get, access,
      groupUpd, stepAccs, Grouper.accNames, AggDef.step, AggDef.empty, keyEq, Value.beqL, Value.beq]
  have := C01_count_cell ext gCount _ _ hfold (by simp [gCount, Grouper.accNames])
    ([.int 1], [("_count", .count 2)]) (by simp) 0 "_count" (by simp [gCount, Grouper.accNames])
    row hrow
  rw [this]
  simp [groupRows, gCount, Grouper.keyOf, evalValue, Fields.get, access, keyEq, Value.beqL,
    Value.beq]

end Ag.C01

#print axioms Ag.C01.emitRow_get_acc
#print axioms Ag.C01.foldAccs_foldStep
#print axioms Ag.C01.C01_cell_of_group
#print axioms Ag.C01.C01_count_cell
#print axioms Ag.C01.C01_sum_cell
