/-
C10  limit keeps exactly the first or the last N rows.

Theorems about the model of `Limit::{Head,Tail}` (src/operator/limit.rs), the reader loop and
drain loop (src/lib.rs:280-304), `PreAggAdapter` (src/operator.rs:177-192) and the static checks
(src/typecheck.rs:279-303).
-/
import AgModel.Pipeline

namespace Ag.C10

/-- the last `k` elements -/
def lastN {α} (k : Nat) (l : List α) : List α := l.drop (l.length - k)

/-! ### head -/

theorem proc_head (ext : Ext) (n : Int) (i : Nat) (r : Record) :
    procPreagg ext [.limit n] [.head i] r =
      .ok ([.head (i + 1)], if ((i + 1 : Nat) : Int) ≤ n then some r else none, 0) := by
  simp only [procPreagg, stepOp]
  split <;> simp_all

theorem feed_head (ext : Ext) (n : Int) (rows : List Record) :
    ∀ (i : Nat) (acc : List Record),
      feed ext [.limit n] [.head i] rows acc 0 =
        .ok ([.head (i + rows.length)], acc.reverse ++ rows.take (n.toNat - i), 0) := by
  induction rows with
  | nil => intro i acc; simp [feed]
  | cons r rs ih =>
    intro i acc
    simp only [feed, proc_head]
    by_cases h : ((i + 1 : Nat) : Int) ≤ n
    · simp only [h, if_true, Nat.add_zero]
      rw [ih]
      have : n.toNat - i = (n.toNat - (i + 1)) + 1 := by omega
      simp [this, List.take_succ_cons, Nat.add_assoc, Nat.add_comm 1]
    · simp only [h, if_false, Nat.add_zero]
      rw [ih]
      have h1 : n.toNat - i = 0 := by omega
      have h2 : n.toNat - (i + 1) = 0 := by omega
      simp [h1, h2, Nat.add_assoc, Nat.add_comm 1]

/-- **C10 (head).** `limit n`, `n > 0`, as the only operator passes exactly the first `n` rows,
in order, and nothing at end of input. -/
theorem C10_head (ext : Ext) (n : Int) (hn : 0 < n) (rows : List Record) :
    feed ext [.limit n] [RowOp.init (.limit n)] rows [] 0 =
      .ok ([.head rows.length], rows.take n.toNat, 0) := by
  have : RowOp.init (.limit n) = .head 0 := by simp [RowOp.init, hn]
  rw [this, feed_head]; simp

/-! ### tail -/

theorem proc_tail (ext : Ext) (n : Int) (q : List Record) (r : Record) :
    procPreagg ext [.limit n] [.tail q] r =
      .ok ([.tail ((if q.length == (-n).toNat then q.drop 1 else q) ++ [r])], none, 0) := by
  simp [procPreagg, stepOp]

theorem lastN_snoc {α} (k : Nat) (hk : 0 < k) (l : List α) (x : α) :
    lastN k (l ++ [x]) =
      (if (lastN k l).length == k then (lastN k l).drop 1 else lastN k l) ++ [x] := by
  unfold lastN
  simp only [List.length_append, List.length_cons, List.length_nil, List.length_drop]
  by_cases h : l.length < k
  · have h1 : l.length - k = 0 := by omega
    have h2 : l.length + 1 - k = 0 := by omega
    simp [h1, h2]
    intro hh; omega
  · have h2 : l.length + 1 - k = (l.length - k) + 1 := by omega
    have h3 : l.length - (l.length - k) = k := by omega
    simp only [h2, h3, beq_self_eq_true, if_true, List.drop_drop]
    rw [List.drop_append_of_le_length (by omega)]

theorem feed_tail (ext : Ext) (n : Int) (hn : n < 0) (rows : List Record) :
    ∀ (seen : List Record),
      feed ext [.limit n] [.tail (lastN (-n).toNat seen)] rows [] 0 =
        .ok ([.tail (lastN (-n).toNat (seen ++ rows))], [], 0) := by
  induction rows with
  | nil => intro seen; simp [feed]
  | cons r rs ih =>
    intro seen
    simp only [feed, proc_tail, Nat.add_zero]
    have hk : 0 < (-n).toNat := by omega
    rw [← lastN_snoc _ hk, ih]
    simp

/-- **C10 (tail).** `limit -k`: nothing is emitted while reading; at end of input the drain
yields exactly the last `k` rows in their original order (all rows if fewer arrived). -/
theorem C10_tail (ext : Ext) (n : Int) (hn : n < 0) (rows : List Record) :
    feed ext [.limit n] [RowOp.init (.limit n)] rows [] 0 =
        .ok ([.tail (lastN (-n).toNat rows)], [], 0)
    ∧ drainLoop ext [.limit n] [.tail (lastN (-n).toNat rows)] [] 0 =
        .ok (lastN (-n).toNat rows, 0) := by
  constructor
  · have h0 : RowOp.init (.limit n) = .tail (lastN (-n).toNat ([] : List Record)) := by
      have : ¬ (0 < n) := by omega
      simp [RowOp.init, this, lastN]
    rw [h0, feed_tail ext n hn]; simp
  · simp [drainLoop, drainOp]
    -- feeding the drained rows through the (empty) remaining operator list returns them unchanged
    generalize lastN (-n).toNat rows = l
    have key : ∀ (l acc : List Record), feed ext [] [] l acc 0 = .ok ([], acc.reverse ++ l, 0) := by
      intro l
      induction l with
      | nil => intro acc; simp [feed]
      | cons x xs ih => intro acc; simp [feed, procPreagg, ih]
    simp [key]

theorem lastN_all {α} (k : Nat) (l : List α) (h : l.length ≤ k) : lastN k l = l := by
  unfold lastN
  have : l.length - k = 0 := by omega
  simp [this]

theorem lastN_length {α} (k : Nat) (l : List α) : (lastN k l).length = min k l.length := by
  unfold lastN; simp; omega

/-! ### static checks (src/typecheck.rs:279-303) -/

/-- a bare `limit` means 10 -/
theorem C10_default : typecheckInline (.limit none) = .ok (.limit 10) := rfl

/-- zero is rejected at compile time -/
theorem trunc_zero : F64.feq (F64.trunc F64.zero) F64.zero = true := by
  simp [F64.trunc, F64.zero, F64.eMin, F64.truncInt, F64.smant, F64.roundInt, F64.feq, F64.pcmp,
    F64.cmpFin]

theorem C10_zero_rejected : typecheckInline (.limit (some F64.zero)) = .typeError "InvalidLimit" := by
  simp [typecheckInline, trunc_zero]

/-- every fractional limit is rejected at compile time -/
theorem C10_fraction_rejected (f : F64) (h : F64.fractNonzero f = true) :
    typecheckInline (.limit (some f)) = .typeError "InvalidLimit" := by
  simp [typecheckInline, h]

/-! ### after an aggregation or sort: `PreAggAdapter` builds a fresh limit per table -/

theorem adapt_go_head (ext : Ext) (n : Int) (recs : List Record) :
    ∀ (i : Nat) (acc : List Fields),
      adaptTable.go ext (.limit n) (.head i) recs acc =
        .ok (.head (i + recs.length), acc.reverse ++ (recs.take (n.toNat - i)).map (·.data)) := by
  induction recs with
  | nil => intro i acc; simp [adaptTable.go]
  | cons r rs ih =>
    intro i acc
    simp only [adaptTable.go, stepOp]
    by_cases h : ((i + 1 : Nat) : Int) ≤ n
    · simp only [h, if_true]
      rw [ih]
      have : n.toNat - i = (n.toNat - (i + 1)) + 1 := by omega
      simp [this, List.take_succ_cons, Nat.add_assoc, Nat.add_comm 1]
    · simp only [h, if_false]
      rw [ih]
      have h1 : n.toNat - i = 0 := by omega
      have h2 : n.toNat - (i + 1) = 0 := by omega
      simp [h1, h2, Nat.add_assoc, Nat.add_comm 1]

/-- **C10 (after a table).** On a table the limit keeps the first `n` rows of the table's row
order (for whatever order the upstream sort produced), independently of earlier frames. -/
theorem C10_after_table_head (ext : Ext) (n : Int) (hn : 0 < n) (t : Table) :
    ∃ cols, adaptTable ext (.limit n) t = .ok { columns := cols, rows := t.rows.take n.toNat } := by
  unfold adaptTable
  have h0 : RowOp.init (.limit n) = .head 0 := by simp [RowOp.init, hn]
  simp only [h0, adapt_go_head]
  simp [drainOp, List.map_take, Function.comp_def]

/-! ### chained limits compose -/

theorem proc_head_head (ext : Ext) (a b : Int) (i j : Nat) (r : Record) :
    procPreagg ext [.limit a, .limit b] [.head i, .head j] r =
      if (i : Int) + 1 ≤ a then
        .ok ([.head (i + 1), .head (j + 1)], if (j : Int) + 1 ≤ b then some r else none, 0)
      else .ok ([.head (i + 1), .head j], none, 0) := by
  by_cases h : (i : Int) + 1 ≤ a
  · by_cases h2 : (j : Int) + 1 ≤ b
    · simp [procPreagg, stepOp, h, h2]
    · simp [procPreagg, stepOp, h, h2]
  · simp [procPreagg, stepOp, h]

theorem feed_head_head (ext : Ext) (a b : Int) (rows : List Record) :
    ∀ (i j : Nat) (acc : List Record), j ≤ i →
      ∃ sts, feed ext [.limit a, .limit b] [.head i, .head j] rows acc 0 =
        .ok (sts, acc.reverse ++ (rows.take (a.toNat - i)).take (b.toNat - j), 0) := by
  induction rows with
  | nil => intro i j acc _; exact ⟨[.head i, .head j], by simp [feed]⟩
  | cons r rs ih =>
    intro i j acc hji
    simp only [feed, proc_head_head]
    by_cases h : (i : Int) + 1 ≤ a
    · by_cases h2 : (j : Int) + 1 ≤ b
      · simp only [h, h2, if_true, Nat.add_zero]
        obtain ⟨sts, hs⟩ := ih (i + 1) (j + 1) (r :: acc) (by omega)
        refine ⟨sts, ?_⟩
        rw [hs]
        have e1 : a.toNat - i = (a.toNat - (i + 1)) + 1 := by omega
        have e2 : b.toNat - j = (b.toNat - (j + 1)) + 1 := by omega
        simp [e1, e2, List.take_succ_cons]
      · simp only [h, h2, if_true, if_false, Nat.add_zero]
        obtain ⟨sts, hs⟩ := ih (i + 1) (j + 1) acc (by omega)
        refine ⟨sts, ?_⟩
        rw [hs]
        have e2 : b.toNat - j = 0 := by omega
        have e3 : b.toNat - (j + 1) = 0 := by omega
        simp [e2, e3]
    · simp only [h, if_false, Nat.add_zero]
      obtain ⟨sts, hs⟩ := ih (i + 1) j acc (by omega)
      refine ⟨sts, ?_⟩
      rw [hs]
      have e1 : a.toNat - i = 0 := by omega
      have e2 : a.toNat - (i + 1) = 0 := by omega
      simp [e1, e2]

/-- **C10 (composition).** `limit a | limit b` (both positive) passes exactly
`(rows.take a).take b`. -/
theorem C10_compose_head (ext : Ext) (a b : Int) (ha : 0 < a) (hb : 0 < b) (rows : List Record) :
    ∃ sts, feed ext [.limit a, .limit b] [RowOp.init (.limit a), RowOp.init (.limit b)] rows [] 0 =
      .ok (sts, (rows.take a.toNat).take b.toNat, 0) := by
  have h1 : RowOp.init (.limit a) = .head 0 := by simp [RowOp.init, ha]
  have h2 : RowOp.init (.limit b) = .head 0 := by simp [RowOp.init, hb]
  rw [h1, h2]
  simpa using feed_head_head ext a b rows 0 0 [] (Nat.le_refl 0)

/-- non-vacuity: the hypotheses are met by a concrete stream -/
example : (List.take (2 : Int).toNat [1, 2, 3]).take (1 : Int).toNat = [1] := by decide

end Ag.C10
