/-
C18  Machine-readable output modes are well-formed and faithful.

Model: AgModel/OutModes.lean for src/printer.rs:62-259 (LogFmtPrinter, FormatPrinter + the `strfmt`
crate's `strfmt_map`, JsonPrinter, PrintAggregateAsRows), src/data.rs:31-126 (Serialize impls),
src/bin/agrind.rs:69-121 (parse_output, flag exclusivity); AgModel/Render.lean for `ValueDisplay`.

JSON is modelled at the value level (`JVal` = the tree handed to serde_json); the text layer
(escaping, ryu) is serde_json's and is checked by re-parsing every emitted line in the harness.
Nested objects are written key-sorted (model and, since the repair 2099327, the code; before it the
code iterated an `im::HashMap` there: class C18/nested-key-order-nondeterministic, C13's defect).
-/
import AgModel.OutModes

namespace Ag.C18
open Ag.Out

/-! ### the stable sort by key behind `.sorted()` -/

/-- keys non-decreasing -/
def KeysSorted {α : Type} (l : List (String × α)) : Prop := l.Pairwise (fun a b => a.1 ≤ b.1)

theorem insertByKey_perm {α : Type} (p : String × α) (l : List (String × α)) :
    (insertByKey p l).Perm (p :: l) := by
  induction l with
  | nil => simp [insertByKey]
  | cons q t ih =>
    simp only [insertByKey]
    split
    · exact (List.Perm.cons q ih).trans (List.Perm.swap p q t)
    · exact List.Perm.refl _

theorem sortByKey_perm {α : Type} (l : List (String × α)) : (sortByKey l).Perm l := by
  induction l with
  | nil => simp [sortByKey]
  | cons p t ih =>
    have : sortByKey (p :: t) = insertByKey p (sortByKey t) := rfl
    rw [this]
    exact (insertByKey_perm p _).trans (List.Perm.cons p ih)

theorem insertByKey_sorted {α : Type} (p : String × α) (l : List (String × α)) (h : KeysSorted l) :
    KeysSorted (insertByKey p l) := by
  induction l with
  | nil => simp [insertByKey, KeysSorted]
  | cons q t ih =>
    simp only [insertByKey]
    have hq : ∀ x ∈ t, q.1 ≤ x.1 := (List.pairwise_cons.1 h).1
    have ht : KeysSorted t := (List.pairwise_cons.1 h).2
    split
    · rename_i hlt
      refine List.pairwise_cons.2 ⟨?_, ih ht⟩
      intro x hx
      have hx' : x ∈ p :: t := (insertByKey_perm p t).subset hx
      rcases List.mem_cons.1 hx' with rfl | hx'
      · exact String.lt_asymm hlt
      · exact hq x hx'
    · rename_i hnlt
      have hpq : p.1 ≤ q.1 := hnlt
      refine List.pairwise_cons.2 ⟨?_, h⟩
      intro x hx
      rcases List.mem_cons.1 hx with rfl | hx
      · exact hpq
      · exact String.le_trans hpq (hq x hx)

theorem sortByKey_sorted {α : Type} (l : List (String × α)) : KeysSorted (sortByKey l) := by
  induction l with
  | nil => simp [sortByKey, KeysSorted]
  | cons p t ih =>
    have : sortByKey (p :: t) = insertByKey p (sortByKey t) := rfl
    rw [this]
    exact insertByKey_sorted p _ ih

/-- a list whose keys are already non-decreasing is left as it is (stability) -/
theorem sortByKey_of_sorted {α : Type} (l : List (String × α)) (h : KeysSorted l) : sortByKey l = l := by
  induction l with
  | nil => rfl
  | cons p t ih =>
    have e : sortByKey (p :: t) = insertByKey p (sortByKey t) := rfl
    rw [e, ih (List.pairwise_cons.1 h).2]
    cases t with
    | nil => rfl
    | cons q t' =>
      have hpq : p.1 ≤ q.1 := (List.pairwise_cons.1 h).1 q (by simp)
      simp only [insertByKey]
      rw [if_neg hpq]

/-- the model's records (`Fields.Sorted`: keys strictly increasing) are key-sorted -/
theorem keysSorted_of_fieldsSorted : ∀ (f : Fields), Fields.Sorted f → KeysSorted f
  | [], _ => List.Pairwise.nil
  | [_], _ => by simp [KeysSorted]
  | (k, v) :: (k', v') :: t, h => by
    have h1 : k < k' := h.1
    have ih : KeysSorted ((k', v') :: t) := keysSorted_of_fieldsSorted _ h.2
    refine List.pairwise_cons.2 ⟨?_, ih⟩
    intro x hx
    rcases List.mem_cons.1 hx with rfl | hx
    · exact String.lt_asymm h1
    · exact String.le_trans (String.lt_asymm h1) ((List.pairwise_cons.1 ih).1 x hx)

/-! ### JSON mode -/

theorem toJsonKVs_eq_map (kvs : List (String × Value)) :
    toJsonKVs kvs = kvs.map (fun kv => (kv.1, toJson kv.2)) := by
  induction kvs with
  | nil => rfl
  | cons kv t ih => obtain ⟨k, v⟩ := kv; simp [toJsonKVs, ih]

/-- **C18 (json, record).** A record is written as ONE object whose members are exactly the row's
fields — a permutation of them, keys in non-decreasing order, each value the `Serialize` image of the
field's value.  For the model's records (keys strictly increasing = a finite map) the members are the
fields in their own order, so the key set of the object is the field set of the row. -/
theorem C18_json_record (r : Record) :
    jsonRecord r = .obj ((sortByKey r.data).map (fun kv => (kv.1, toJson kv.2))) ∧
    (sortByKey r.data).Perm r.data ∧ KeysSorted (sortByKey r.data) ∧
    (Fields.Sorted r.data → jsonRecord r = .obj (r.data.map (fun kv => (kv.1, toJson kv.2)))) := by
  refine ⟨by simp [jsonRecord, toJsonKVs_eq_map], sortByKey_perm _, sortByKey_sorted _, ?_⟩
  intro h
  simp [jsonRecord, toJsonKVs_eq_map, sortByKey_of_sorted _ (keysSorted_of_fieldsSorted _ h)]

/-- non-finite numbers are written as `null`, finite ones as themselves; dates and durations as
their ISO strings -/
theorem C18_json_values (f : F64) (i : Int) (s : String) (b : Bool) (ns : Int) :
    toJson (.float f) = (if f.isFinite then .num f else .null) ∧
    toJson (.int i) = .int i ∧ toJson (.str s) = .str s ∧ toJson (.bool b) = .bool b ∧
    toJson .none = .null ∧ toJson (.date ns) = .str (Time.rfc3339 ns) ∧
    toJson (.dur ns) = .str (Time.isoDuration ns) := by
  simp [toJson]

example : toJson (.float F64.nan) = .null := by simp [toJson, F64.isFinite]
example : toJson (.float (F64.inf true)) = .null := by simp [toJson, F64.isFinite]

/-- **C18 (json, aggregate).** An aggregate is written as ONE array with one element per row, in
row order; every element is an object that carries exactly the columns, in column order; a column
the row lacks is `null`. -/
theorem C18_json_aggregate (t : Table) :
    jsonTable t = .arr (t.rows.map (fun row =>
      .obj (t.columns.map (fun c => (c, toJson ((Fields.get c row).getD .none)))))) := by
  simp [jsonTable, columnsOf, toJsonKVs_eq_map, List.map_map, Function.comp_def]

theorem C18_json_aggregate_missing (c : String) (row : Fields) (h : Fields.get c row = none) :
    toJson ((Fields.get c row).getD .none) = .null := by
  simp [h, toJson]

/-- counterexample to "a valid JSON object per element" when two columns share a name
(class C18/duplicate-column-names): the element has the key twice -/
theorem C18_duplicate_columns_counterexample :
    jsonTable { columns := ["_count", "_count"], rows := [[("_count", .int 1)]] } =
      .arr [.obj [("_count", .int 1), ("_count", .int 1)]] := by
  simp [jsonTable, columnsOf, toJsonKVs, toJson, Fields.get]

/-! ### logfmt mode -/

/-- the characters of `joinWith sep l`: the items with exactly one separator between neighbours -/
theorem joinWith_cons_cons (sep x y : String) (l : List String) :
    joinWith sep (x :: y :: l) = x ++ sep ++ joinWith sep (y :: l) := rfl

/-- **C18 (logfmt).** A row is written as its `key=text` pairs, a permutation of the row's pairs
sorted by key, neighbours separated by exactly one blank (`joinWith " "`), the text being the
`ValueDisplay` rendering; a record line ends with the renderer's newline; an aggregate is one such
line per row over its columns (missing ↦ `None`). -/
theorem C18_logfmt (pairs : List (String × Value)) :
    logfmtRow pairs = joinWith " " ((sortByKey pairs).map (fun kv => kv.1 ++ "=" ++ kv.2.render)) ∧
    (sortByKey pairs).Perm pairs ∧ KeysSorted (sortByKey pairs) :=
  ⟨rfl, sortByKey_perm _, sortByKey_sorted _⟩

theorem C18_logfmt_record (r : Record) (h : Fields.Sorted r.data) :
    logfmtRecord r = joinWith " " (r.data.map (fun kv => kv.1 ++ "=" ++ kv.2.render)) ++ "\n" := by
  simp only [logfmtRecord, logfmtRow, sortByKey_of_sorted _ (keysSorted_of_fieldsSorted _ h)]
  rfl

theorem C18_logfmt_table (t : Table) :
    logfmtTable t = String.join (t.rows.map (fun row =>
      logfmtRow (t.columns.map (fun c => (c, (Fields.get c row).getD .none))) ++ "\n")) := rfl

example : logfmtRecord { data := [("a", .int 1), ("b", .none), ("c", .str "x y")], raw := "" } =
    "a=1 b=None c=x y\n" := by
  simp [logfmtRecord, logfmtRow, sortByKey, insertByKey, joinWith, showPair, Value.render]
  decide

/-! ### format mode: the tokenizer view of `strfmt_map` -/

/-- text of a token list under a formatter closure (`none` = the closure failed on some field) -/
def renderToks (f : Formatter → Option (List Char)) : List FmtTok → Option (List Char)
  | [] => some []
  | .lit c :: rest => (renderToks f rest).map (c :: ·)
  | .key fm :: rest =>
    match f fm, renderToks f rest with
    | some t, some r => some (t ++ r)
    | _, _ => none

/-- the same on the reversed token list, producing the reversed text -/
def renderRev (f : Formatter → Option (List Char)) : List FmtTok → Option (List Char)
  | [] => some []
  | .lit c :: rest => (renderRev f rest).map (c :: ·)
  | .key fm :: rest =>
    match renderRev f rest, f fm with
    | some r, some t => some (t.reverse ++ r)
    | _, _ => none

theorem renderToks_append_lit (f : Formatter → Option (List Char)) (l : List FmtTok) (c : Char) :
    renderToks f (l ++ [.lit c]) = (renderToks f l).map (· ++ [c]) := by
  induction l with
  | nil => simp [renderToks]
  | cons x t ih =>
    cases x with
    | lit d => simp [renderToks, ih, Option.map_map, Function.comp_def]
    | key fm =>
      simp only [List.cons_append, renderToks, ih]
      cases f fm <;> cases renderToks f t <;> simp

theorem renderToks_append_key (f : Formatter → Option (List Char)) (l : List FmtTok) (fm : Formatter) :
    renderToks f (l ++ [.key fm]) =
      match renderToks f l, f fm with
      | some r, some t => some (r ++ t)
      | _, _ => none := by
  induction l with
  | nil => simp [renderToks]; cases f fm <;> simp
  | cons x t ih =>
    cases x with
    | lit d =>
      simp only [List.cons_append, renderToks, ih]
      cases renderToks f t <;> cases f fm <;> simp
    | key fm' =>
      simp only [List.cons_append, renderToks, ih]
      cases f fm' <;> cases renderToks f t <;> cases f fm <;> simp

theorem renderRev_eq (f : Formatter → Option (List Char)) (l : List FmtTok) :
    renderRev f l = (renderToks f l.reverse).map List.reverse := by
  induction l with
  | nil => simp [renderRev, renderToks]
  | cons x t ih =>
    cases x with
    | lit c =>
      simp only [renderRev, List.reverse_cons, renderToks_append_lit, ih]
      cases renderToks f t.reverse <;> simp
    | key fm =>
      simp only [renderRev, List.reverse_cons, renderToks_append_key, ih]
      cases renderToks f t.reverse <;> cases f fm <;> simp

/-- the streaming state and the tokenizer state describe the same prefix -/
structure Rel (f : Formatter → Option (List Char)) (m : MapSt) (t : TokSt) : Prop where
  reading : m.reading = t.reading
  closing : m.closing = t.closing
  pat : m.pat = t.pat
  out : renderRev f t.toks = some m.out

/-- a state whose tokens cannot be rendered (the closure failed on one of them) -/
def Dead (f : Formatter → Option (List Char)) (t : TokSt) : Prop := renderRev f t.toks = none

theorem renderRev_cons_none (f : Formatter → Option (List Char)) (x : FmtTok) (l : List FmtTok)
    (h : renderRev f l = none) : renderRev f (x :: l) = none := by
  cases x <;> simp [renderRev, h]

theorem tokStep_dead (f : Formatter → Option (List Char)) (t t' : TokSt) (c : Char)
    (h : tokStep t c = some t') (hd : Dead f t) : Dead f t' := by
  unfold tokStep at h
  unfold Dead at *
  repeat' split at h
  all_goals first
    | (injection h with h; subst h; first | exact hd | exact renderRev_cons_none f _ _ hd)
    | (exact absurd h (by simp))

theorem tokRun_dead (f : Formatter → Option (List Char)) (cs : List Char) :
    ∀ (t t' : TokSt), tokRun t cs = some t' → Dead f t → Dead f t' := by
  induction cs with
  | nil => intro t t' h hd; simp [tokRun] at h; subst h; exact hd
  | cons c cs ih =>
    intro t t' h hd
    simp only [tokRun] at h
    cases hs : tokStep t c with
    | none => simp [hs] at h
    | some t1 =>
      simp only [hs] at h
      exact ih t1 t' h (tokStep_dead f t t1 c hs hd)

theorem step_rel (f : Formatter → Option (List Char)) (m : MapSt) (t : TokSt) (c : Char)
    (hr : Rel f m t) :
    match tokStep t c with
    | none => mapStep f m c = none
    | some t' => (∃ m', mapStep f m c = some m' ∧ Rel f m' t') ∨ (mapStep f m c = none ∧ Dead f t') := by
  obtain ⟨h1, h2, h3, h4⟩ := hr
  cases hrd : t.reading <;> cases hcl : t.closing <;> by_cases hb1 : c = '{' <;> by_cases hb2 : c = '}' <;>
    simp [tokStep, mapStep, h1, h2, h3, hrd, hcl, hb1, hb2]
  all_goals first
    | exact ⟨rfl, rfl, rfl, by simpa [renderRev] using h4⟩
    | (by_cases hp : t.pat = [] <;> simp [hp]
       exact ⟨rfl, rfl, rfl, by simpa [renderRev] using h4⟩)
    | (cases hfp : Formatter.ofPattern t.pat.reverse with
       | none => simp
       | some fm =>
         cases hf : f fm with
         | none => simp [hf, Dead, renderRev, h4]
         | some txt => simp [hf]; exact ⟨rfl, rfl, rfl, by simp [renderRev, h4, hf]⟩)

theorem run_rel (f : Formatter → Option (List Char)) (cs : List Char) :
    ∀ (m : MapSt) (t : TokSt), Rel f m t →
      match tokRun t cs with
      | none => mapRun f m cs = none
      | some t' => (∃ m', mapRun f m cs = some m' ∧ Rel f m' t') ∨ (mapRun f m cs = none ∧ Dead f t') := by
  induction cs with
  | nil => intro m t hr; simp only [tokRun, mapRun]; exact Or.inl ⟨m, rfl, hr⟩
  | cons c cs ih =>
    intro m t hr
    have hstep := step_rel f m t c hr
    simp only [tokRun, mapRun]
    cases hs : tokStep t c with
    | none =>
      simp only [hs] at hstep
      simp [hstep]
    | some t1 =>
      simp only [hs] at hstep
      rcases hstep with ⟨m1, hm1, hr1⟩ | ⟨hm, hd⟩
      · simp only [hm1]
        exact ih m1 t1 hr1
      · simp only [hm]
        cases htr : tokRun t1 cs with
        | none => trivial
        | some t' => exact Or.inr ⟨trivial, tokRun_dead f cs t1 t' htr hd⟩

/-- **C18 (format, substitution).** `strfmt_map(fmt, f)` — the streaming loop of the `strfmt`
crate — is: tokenize the format string (`fmtTokens`: literal characters with `{{` ↦ `{` and
`}}` ↦ `}`, and `{key[:spec]}` fields), then concatenate, each field replaced by what the closure
writes for it; it fails iff the tokenizer fails or the closure fails on some field. -/
theorem C18_format_subst (f : Formatter → Option (List Char)) (fmt : List Char) :
    strfmtMap f fmt = (fmtTokens fmt).bind (renderToks f) := by
  have h := run_rel f fmt {} {} ⟨rfl, rfl, rfl, by simp [renderRev]⟩
  unfold strfmtMap fmtTokens
  cases htr : tokRun {} fmt with
  | none => simp only [htr] at h; simp [h]
  | some t' =>
    simp only [htr] at h
    rcases h with ⟨m', hm, hr⟩ | ⟨hm, hd⟩
    · simp only [hm, hr.reading, hr.closing]
      by_cases hfl : (t'.closing || t'.reading) = true
      · simp [hfl]
      · simp only [hfl]
        have := hr.out
        rw [renderRev_eq] at this
        cases hrt : renderToks f t'.toks.reverse with
        | none => simp [hrt] at this
        | some txt =>
          simp only [hrt, Option.map_some, Option.some.injEq] at this
          simp [hrt, ← this]
    · simp only [hm]
      by_cases hfl : (t'.closing || t'.reading) = true
      · simp [hfl]
      · simp only [hfl]
        unfold Dead at hd
        rw [renderRev_eq] at hd
        cases hrt : renderToks f t'.toks.reverse with
        | none => simp [hrt]
        | some txt => simp [hrt] at hd

/-- a field without a format spec shows the text verbatim -/
theorem str_plain (k s : List Char) : Formatter.str { key := k, spec := {} } s = some s := by
  simp [Formatter.str]

/-- the only value-dependent failure of `Formatter::str` (`=` alignment with padding) already shows
on the empty text: a spec accepted at construction never fails at print time -/
theorem str_isSome_of_empty (fm : Formatter) (s : List Char) (h : (fm.str []).isSome) :
    (fm.str s).isSome := by
  unfold Formatter.str at h ⊢
  dsimp only at h ⊢
  split at h
  · simp at h
  split at h
  · simp at h
  split at h
  · simp at h
  split at h
  · simp at h
  rename_i c1 c2 c3 c4
  rw [if_neg c1, if_neg c2, if_neg c3, if_neg c4]
  cases hw : fm.spec.width with
  | none => simp
  | some w =>
    simp only [hw] at h ⊢
    cases ha : fm.spec.align with
    | equal =>
      simp only [ha] at h ⊢
      have hw0 : w = 0 := by
        cases hp : fm.spec.precision <;> simp [hp] at h <;> omega
      subst hw0
      simp
    | unspecified => (repeat' split) <;> simp_all
    | left => (repeat' split) <;> simp_all
    | center => (repeat' split) <;> simp_all
    | right => (repeat' split) <;> simp_all

theorem renderToks_isSome (f : Formatter → Option (List Char)) (toks : List FmtTok) :
    (renderToks f toks).isSome ↔ ∀ fm, FmtTok.key fm ∈ toks → (f fm).isSome := by
  induction toks with
  | nil => simp [renderToks]
  | cons x t ih =>
    cases x with
    | lit c => simp [renderToks, ih]
    | key fm =>
      simp only [renderToks, List.mem_cons]
      constructor
      · intro h g hg
        cases hf : f fm with
        | none => simp [hf] at h
        | some txt =>
          cases hr : renderToks f t with
          | none => simp [hf, hr] at h
          | some r =>
            rcases hg with hg | hg
            · injection hg with hg; subst hg; simp [hf]
            · exact (ih.1 (by simp [hr])) g hg
      · intro h
        have h1 : (f fm).isSome := h fm (Or.inl rfl)
        have h2 : (renderToks f t).isSome := ih.2 (fun g hg => h g (Or.inr hg))
        cases hf : f fm with
        | none => simp [hf] at h1
        | some txt =>
          cases hr : renderToks f t with
          | none => simp [hr] at h2
          | some r => simp

/-- **C18 (format, validation).** `FormatPrinter::new` (one `strfmt_map` run with a closure that
writes the empty string) succeeds iff the tokenizer accepts the format string and every field's
spec is one `Formatter::str` accepts — decided from the format string alone, i.e. before any input. -/
theorem C18_format_validation (fmt : String) :
    formatNew fmt = true ↔
      ∃ toks, fmtTokens fmt.toList = some toks ∧ ∀ fm, FmtTok.key fm ∈ toks → (fm.str []).isSome := by
  unfold formatNew
  rw [C18_format_subst]
  cases hft : fmtTokens fmt.toList with
  | none => simp
  | some toks => simp [renderToks_isSome]

/-- the text written for a row: the tokens' texts concatenated, a field showing `ValueDisplay` of
the looked-up value under its spec -/
theorem C18_format_text (fmt : String) (lookup : String → Value) :
    strformat fmt lookup =
      (fmtTokens fmt.toList).bind (fun toks =>
        (renderToks (fun fm => fm.str (lookup (String.ofList fm.key)).render.toList) toks).map String.ofList) := by
  unfold strformat
  rw [C18_format_subst]
  cases fmtTokens fmt.toList <;> simp

/-- **C18 (format, totality).** A format string accepted at construction never fails while
printing, whatever the row: the `Err(e) => format!("{}", e)` arms of `FormatPrinter` are dead. -/
theorem C18_format_total (fmt : String) (h : formatNew fmt = true) (lookup : String → Value) :
    (strformat fmt lookup).isSome := by
  obtain ⟨toks, ht, hk⟩ := (C18_format_validation fmt).1 h
  rw [C18_format_text, ht]
  simp only [Option.bind_some, Option.isSome_map]
  exact (renderToks_isSome _ toks).2 (fun fm hfm => str_isSome_of_empty fm _ (hk fm hfm))

/-- a plain `{field}` is replaced by the field's display text, `None` when the row lacks it -/
theorem C18_format_field (k : List Char) (data : Fields) :
    tokText (fun key => (Fields.get key data).getD .none) (.key { key := k, spec := {} }) =
      some ((Fields.get (String.ofList k) data).getD .none).render.toList := by
  simp [tokText, str_plain]

theorem C18_format_absent (k : String) (data : Fields) (h : Fields.get k data = none) :
    ((Fields.get k data).getD .none).render = "None" := by
  simp [h, Value.render]

/-- text without braces is copied character by character -/
theorem tokRun_literal (cs : List Char) (h : ∀ c ∈ cs, c ≠ '{' ∧ c ≠ '}') :
    ∀ (toks : List FmtTok) (pat : List Char),
      tokRun { toks := toks, reading := false, closing := false, pat := pat } cs =
        some { toks := (cs.map FmtTok.lit).reverse ++ toks, reading := false, closing := false, pat := pat } := by
  induction cs with
  | nil => intro toks pat; simp [tokRun]
  | cons c cs ih =>
    intro toks pat
    have hc := h c (by simp)
    have h' : ∀ d ∈ cs, d ≠ '{' ∧ d ≠ '}' := fun d hd => h d (by simp [hd])
    simp [tokRun, tokStep, hc.1, hc.2, ih h']

/-- **C18 (format, literal text intact).** -/
theorem C18_format_literal (cs : List Char) (h : ∀ c ∈ cs, c ≠ '{' ∧ c ≠ '}') :
    fmtTokens cs = some (cs.map FmtTok.lit) := by
  simp [fmtTokens, tokRun_literal cs h]

example : fmtTokens "{a} => {{b}}".toList =
    some [.key { key := ['a'], spec := {} }, .lit ' ', .lit '=', .lit '>', .lit ' ', .lit '{', .lit 'b', .lit '}'] := by
  decide
example : fmtTokens "{".toList = none := by decide
example : fmtTokens "}".toList = none := by decide
example : fmtTokens "{a{b}}".toList = none := by decide
example : fmtTokens "{}".toList = none := by decide
example : fmtTokens "{a:>8}".toList =
    some [.key { key := ['a'], spec := { align := .right, width := some 8 } }] := by decide
example : formatNew "{a} {b:<5}" = true := by decide
example : formatNew "{a:=5}" = false := by decide
example : formatNew "{a:q}" = false := by decide
example : formatNew "" = true := by decide

/-! ### CLI: the decision table -/

theorem split_spec (cs : List Char) :
    '=' ∉ cs.takeWhile (· != '=') ∧
    ((cs = cs.takeWhile (· != '=') ∧ (cs.dropWhile (· != '=')).drop 1 = []) ∨
      cs = cs.takeWhile (· != '=') ++ '=' :: (cs.dropWhile (· != '=')).drop 1) := by
  induction cs with
  | nil => simp
  | cons c t ih =>
    by_cases hc : c = '='
    · subst hc; simp
    · have hb : (c != '=') = true := by simpa using hc
      simp only [List.takeWhile_cons, List.dropWhile_cons, hb, if_true]
      refine ⟨?_, ?_⟩
      · simp only [List.mem_cons, not_or]; exact ⟨fun e => hc e.symm, ih.1⟩
      · rcases ih.2 with ⟨h1, h2⟩ | h
        · left; exact ⟨by rw [← h1], h2⟩
        · right; rw [List.cons_append, ← h]

/-- `-o` and `--format` together are rejected, whatever their values -/
theorem C18_cli_exclusive (o f : String) :
    chooseMode (some o) (some f) = .error .cantSupplyBoth ∧
    startup (some o) (some f) = .error .cantSupplyBoth := ⟨rfl, rfl⟩

/-- with `--format` alone the (non-empty) string is taken as the format, the empty string is
rejected like `-o format=`; nothing at all means `legacy` -/
theorem C18_cli_defaults (f : String) :
    chooseMode none (some f) =
      (if f.toList.isEmpty then .error .invalidFormatString else .ok (.format f)) ∧
    chooseMode none none = .ok .legacy := by
  exact ⟨rfl, rfl⟩

theorem eq_split_unique (a b v w : List Char) (ha : '=' ∉ a) (hb : '=' ∉ b) :
    a ++ '=' :: v = b ++ '=' :: w ↔ a = b ∧ v = w := by
  induction a generalizing b with
  | nil =>
    cases b with
    | nil => simp
    | cons c b' =>
      have : c ≠ '=' := fun e => hb (by simp [e])
      simp [eq_comm, this]
  | cons d a' ih =>
    cases b with
    | nil =>
      have : d ≠ '=' := fun e => ha (by simp [e])
      simp [this]
    | cons c b' =>
      have ha' : '=' ∉ a' := fun h => ha (by simp [h])
      have hb' : '=' ∉ b' := fun h => hb (by simp [h])
      simp only [List.cons_append, List.cons.injEq, ih b' ha' hb']
      constructor
      · rintro ⟨rfl, rfl, rfl⟩; exact ⟨⟨rfl, rfl⟩, rfl⟩
      · rintro ⟨⟨rfl, rfl⟩, rfl⟩; exact ⟨rfl, rfl, rfl⟩

theorem takeWhile_split (a v : List Char) (ha : '=' ∉ a) :
    (a ++ '=' :: v).takeWhile (· != '=') = a ∧ ((a ++ '=' :: v).dropWhile (· != '=')).drop 1 = v := by
  induction a with
  | nil => simp
  | cons d a' ih =>
    have hd : (d != '=') = true := by
      have : d ≠ '=' := fun e => ha (by simp [e])
      simpa using this
    have ha' : '=' ∉ a' := fun h => ha (by simp [h])
    simp [hd, ih ha']

theorem takeWhile_noeq (a : List Char) (ha : '=' ∉ a) :
    a.takeWhile (· != '=') = a ∧ (a.dropWhile (· != '=')).drop 1 = [] := by
  induction a with
  | nil => simp
  | cons d a' ih =>
    have hd : (d != '=') = true := by
      have : d ≠ '=' := fun e => ha (by simp [e])
      simpa using this
    have ha' : '=' ∉ a' := fun h => ha (by simp [h])
    simp [hd, ih ha']

/-- the decision table of `parse_output` on `arg=val` (no `=` in `arg`) and on a text without `=` -/
def table (arg val : List Char) : Except CliErr Mode :=
  if arg = "legacy".toList ∧ val = [] then .ok .legacy
  else if arg = "json".toList ∧ val = [] then .ok .json
  else if arg = "logfmt".toList ∧ val = [] then .ok .logfmt
  else if arg = "format".toList then
    if val = [] then .error .invalidFormatString else .ok (.format (String.ofList val))
  else .error (.invalidOutputMode (String.ofList arg))

/-- **C18 (CLI).** `parse_output` splits at the first `=`; `legacy`, `json`, `logfmt` are accepted
with no value (also with an empty one: `json=`), `format=<non-empty>` gives the format mode,
`format` / `format=` is `InvalidFormatString`, every other name is `InvalidOutputMode` —
nothing else is accepted. -/
theorem C18_cli (arg val : List Char) (h : '=' ∉ arg) :
    parseOutputL (arg ++ '=' :: val) = table arg val ∧ parseOutputL arg = table arg [] := by
  constructor
  · unfold parseOutputL table
    simp only [(takeWhile_split arg val h).1, (takeWhile_split arg val h).2]
  · unfold parseOutputL table
    simp only [(takeWhile_noeq arg h).1, (takeWhile_noeq arg h).2]

/-- every argument is one of the two shapes of `C18_cli` -/
theorem C18_cli_shapes (cs : List Char) :
    ('=' ∉ cs) ∨ ∃ arg val, '=' ∉ arg ∧ cs = arg ++ '=' :: val := by
  obtain ⟨hno, hsp⟩ := split_spec cs
  rcases hsp with ⟨h1, _⟩ | h
  · left; rw [h1]; exact hno
  · right; exact ⟨_, _, hno, h⟩

/-- accepted `-o` values, exhaustively -/
theorem C18_cli_accepts (cs : List Char) (m : Mode) :
    parseOutputL cs = .ok m ↔
      (m = .legacy ∧ (cs = "legacy".toList ∨ cs = "legacy=".toList)) ∨
      (m = .json ∧ (cs = "json".toList ∨ cs = "json=".toList)) ∨
      (m = .logfmt ∧ (cs = "logfmt".toList ∨ cs = "logfmt=".toList)) ∨
      (∃ v, v ≠ [] ∧ m = .format (String.ofList v) ∧ cs = "format=".toList ++ v) := by
  have e1 : "legacy=".toList = "legacy".toList ++ '=' :: [] := by decide
  have e2 : "json=".toList = "json".toList ++ '=' :: [] := by decide
  have e3 : "logfmt=".toList = "logfmt".toList ++ '=' :: [] := by decide
  have e4 : ∀ v, "format=".toList ++ v = "format".toList ++ '=' :: v := by intro v; rfl
  have n1 : '=' ∉ "legacy".toList := by decide
  have n2 : '=' ∉ "json".toList := by decide
  have n3 : '=' ∉ "logfmt".toList := by decide
  have n4 : '=' ∉ "format".toList := by decide
  constructor
  · intro hm
    rcases C18_cli_shapes cs with hno | ⟨arg, val, hno, rfl⟩
    · rw [(C18_cli cs [] hno).2] at hm
      unfold table at hm
      split at hm
      · rename_i h; injection hm with hm; subst hm; exact Or.inl ⟨rfl, Or.inl h.1⟩
      split at hm
      · rename_i h; injection hm with hm; subst hm; exact Or.inr (Or.inl ⟨rfl, Or.inl h.1⟩)
      split at hm
      · rename_i h; injection hm with hm; subst hm; exact Or.inr (Or.inr (Or.inl ⟨rfl, Or.inl h.1⟩))
      split at hm
      · simp at hm
      · simp at hm
    · rw [(C18_cli arg val hno).1] at hm
      unfold table at hm
      split at hm
      · rename_i h; injection hm with hm; subst hm
        exact Or.inl ⟨rfl, Or.inr (by rw [h.1, h.2, e1])⟩
      split at hm
      · rename_i h; injection hm with hm; subst hm
        exact Or.inr (Or.inl ⟨rfl, Or.inr (by rw [h.1, h.2, e2])⟩)
      split at hm
      · rename_i h; injection hm with hm; subst hm
        exact Or.inr (Or.inr (Or.inl ⟨rfl, Or.inr (by rw [h.1, h.2, e3])⟩))
      split at hm
      · rename_i h
        split at hm
        · simp at hm
        · rename_i hv; injection hm with hm; subst hm
          exact Or.inr (Or.inr (Or.inr ⟨val, hv, rfl, by rw [h, e4]⟩))
      · simp at hm
  · rintro (⟨rfl, rfl | rfl⟩ | ⟨rfl, rfl | rfl⟩ | ⟨rfl, rfl | rfl⟩ | ⟨v, hv, rfl, rfl⟩)
    · rw [(C18_cli _ [] n1).2]; simp [table]
    · rw [e1, (C18_cli _ [] n1).1]; simp [table]
    · rw [(C18_cli _ [] n2).2]; simp [table]
    · rw [e2, (C18_cli _ [] n2).1]; simp [table]
    · rw [(C18_cli _ [] n3).2]; simp [table]
    · rw [e3, (C18_cli _ [] n3).1]; simp [table]
    · rw [e4, (C18_cli _ v n4).1]; simp [table, hv]

/-- **C18 (rejected before any input).** `startup` — flag handling, then the construction of the
printers inside `Pipeline::new` — is a function of the two flags alone (no input is involved), and
whenever it accepts, the mode comes from the decision table and a format string passed validation. -/
theorem C18_startup (o f : Option String) (m : Mode) (h : startup o f = .ok m) :
    chooseMode o f = .ok m ∧ (∀ s, m = .format s → formatNew s = true) := by
  unfold startup at h
  cases hc : chooseMode o f with
  | error e => simp [hc] at h
  | ok m' =>
    simp only [hc] at h
    cases m' with
    | format s =>
      by_cases hf : formatNew s = true
      · simp only [hf, if_true] at h
        injection h with h; subst h
        exact ⟨rfl, fun s' hs => by injection hs with hs; subst hs; exact hf⟩
      · simp [hf] at h
    | legacy => injection h with h; subst h; exact ⟨rfl, fun s hs => by cases hs⟩
    | json => injection h with h; subst h; exact ⟨rfl, fun s hs => by cases hs⟩
    | logfmt => injection h with h; subst h; exact ⟨rfl, fun s hs => by cases hs⟩

deriving instance DecidableEq for Except

example : startup (some "yaml") none = .error (.invalidOutputMode "yaml") := by decide
example : startup (some "format=") none = .error .invalidFormatString := by decide
example : startup (some "format") none = .error .invalidFormatString := by decide
example : startup (some "format={") none = .error .badFormat := by decide
example : startup (some "format=}") none = .error .badFormat := by decide
example : startup (some "format={a{b}}") none = .error .badFormat := by decide
example : startup none (some "{") = .error .badFormat := by decide
example : startup (some "json") (some "{a}") = .error .cantSupplyBoth := by decide
example : startup (some "format={a} => {b}") none = .ok (.format "{a} => {b}") := by decide
example : startup (some "json") none = .ok .json := by decide
example : startup none none = .ok .legacy := by decide
/-- quirk of the table: an empty value after a fixed name is accepted -/
example : startup (some "json=") none = .ok .json := by decide

/-- **C18 (empty format strings).** Rejected through both spellings (`--format ''` was accepted
before the repair a3ef9ea: class C18/empty-format-accepted). -/
theorem C18_empty_format_rejected :
    startup none (some "") = .error .invalidFormatString ∧
    startup (some "format=") none = .error .invalidFormatString ∧
    startup (some "format") none = .error .invalidFormatString := by
  decide

end Ag.C18
