/-
C18  Machine-readable output modes are well-formed and faithful.

Model: AgModel/OutModes.lean for src/printer.rs:62-259 (LogFmtPrinter, FormatPrinter + the `strfmt`
crate's `strfmt_map`, JsonPrinter, PrintAggregateAsRows), src/data.rs:31-126 (Serialize impls),
src/bin/agrind.rs:69-121 (parse_output, flag exclusivity); AgModel/Render.lean for `ValueDisplay`.

JSON is modelled at the value level (`JVal` = the tree handed to serde_json); the text layer
(escaping, ryu) is serde_json's and is checked by re-parsing every emitted line in the harness.
Nested objects are listed key-sorted in the model; the real code iterates an `im::HashMap` there
(class C18/nested-key-order-nondeterministic, C13's defect) — the statements below are about the
record's / the aggregate's own members, whose order the code fixes itself.
-/
import AgModel.OutModes

namespace Ag.C18
open Ag.Out

/-! ### the stable sort by key behind `.sorted()` -/

/-- keys non-decreasing -/
def KeysSorted {α : Type} (l : List (String × α)) : Prop := l.Pairwise (fun a b => a.1 ≤ b.1)

theorem insertByKey_perm {α : Type} (p : String × α) (l : List (String × α)) :
    (insertByKey p l).Perm (p :: l) := by
  induction l with
  | nil => simp [insertByKey]
  | cons q t ih =>
    simp only [insertByKey]
    split
    · exact (List.Perm.cons q ih).trans (List.Perm.swap p q t)
    · exact List.Perm.refl _

theorem sortByKey_perm {α : Type} (l : List (String × α)) : (sortByKey l).Perm l := by
  induction l with
  | nil => simp [sortByKey]
  | cons p t ih =>
    have : sortByKey (p :: t) = insertByKey p (sortByKey t) := rfl
    rw [this]
    exact (insertByKey_perm p _).trans (List.Perm.cons p ih)

theorem insertByKey_sorted {α : Type} (p : String × α) (l : List (String × α)) (h : KeysSorted l) :
    KeysSorted (insertByKey p l) := by
  induction l with
  | nil => simp [insertByKey, KeysSorted]
  | cons q t ih =>
    simp only [insertByKey]
    have hq : ∀ x ∈ t, q.1 ≤ x.1 := (List.pairwise_cons.1 h).1
    have ht : KeysSorted t := (List.pairwise_cons.1 h).2
    split
    · rename_i hlt
      refine List.pairwise_cons.2 ⟨?_, ih ht⟩
      intro x hx
      have hx' : x ∈ p :: t := (insertByKey_perm p t).subset hx
      rcases List.mem_cons.1 hx' with rfl | hx'
      · exact String.lt_asymm hlt
      · exact hq x hx'
    · rename_i hnlt
      have hpq : p.1 ≤ q.1 := hnlt
      refine List.pairwise_cons.2 ⟨?_, h⟩
      intro x hx
      rcases List.mem_cons.1 hx with rfl | hx
      · exact hpq
      · exact String.le_trans hpq (hq x hx)

theorem sortByKey_sorted {α : Type} (l : List (String × α)) : KeysSorted (sortByKey l) := by
  induction l with
  | nil => simp [sortByKey, KeysSorted]
  | cons p t ih =>
    have : sortByKey (p :: t) = insertByKey p (sortByKey t) := rfl
    rw [this]
    exact insertByKey_sorted p _ ih

/-- a list whose keys are already non-decreasing is left as it is (stability) -/
theorem sortByKey_of_sorted {α : Type} (l : List (String × α)) (h : KeysSorted l) : sortByKey l = l := by
  induction l with
  | nil => rfl
  | cons p t ih =>
    have e : sortByKey (p :: t) = insertByKey p (sortByKey t) := rfl
    rw [e, ih (List.pairwise_cons.1 h).2]
    cases t with
    | nil => rfl
    | cons q t' =>
      have hpq : p.1 ≤ q.1 := (List.pairwise_cons.1 h).1 q (by simp)
      simp only [insertByKey]
      rw [if_neg hpq]

/-- the model's records (`Fields.Sorted`: keys strictly increasing) are key-sorted -/
theorem keysSorted_of_fieldsSorted : ∀ (f : Fields), Fields.Sorted f → KeysSorted f
  | [], _ => List.Pairwise.nil
  | [_], _ => by simp [KeysSorted]
  | (k, v) :: (k', v') :: t, h => by
    have h1 : k < k' := h.1
    have ih : KeysSorted ((k', v') :: t) := keysSorted_of_fieldsSorted _ h.2
    refine List.pairwise_cons.2 ⟨?_, ih⟩
    intro x hx
    rcases List.mem_cons.1 hx with rfl | hx
    · exact String.lt_asymm h1
    · exact String.le_trans (String.lt_asymm h1) ((List.pairwise_cons.1 ih).1 x hx)

/-! ### JSON mode -/

theorem toJsonKVs_eq_map (kvs : List (String × Value)) :
    toJsonKVs kvs = kvs.map (fun kv => (kv.1, toJson kv.2)) := by
  induction kvs with
  | nil => rfl
  | cons kv t ih => obtain ⟨k, v⟩ := kv; simp [toJsonKVs, ih]

/-- **C18 (json, record).** A record is written as ONE object whose members are exactly the row's
fields — a permutation of them, keys in non-decreasing order, each value the `Serialize` image of the
field's value.  For the model's records (keys strictly increasing = a finite map) the members are the
fields in their own order, so the key set of the object is the field set of the row. -/
theorem C18_json_record (r : Record) :
    jsonRecord r = .obj ((sortByKey r.data).map (fun kv => (kv.1, toJson kv.2))) ∧
    (sortByKey r.data).Perm r.data ∧ KeysSorted (sortByKey r.data) ∧
    (Fields.Sorted r.data → jsonRecord r = .obj (r.data.map (fun kv => (kv.1, toJson kv.2)))) := by
  refine ⟨by simp [jsonRecord, toJsonKVs_eq_map], sortByKey_perm _, sortByKey_sorted _, ?_⟩
  intro h
  simp [jsonRecord, toJsonKVs_eq_map, sortByKey_of_sorted _ (keysSorted_of_fieldsSorted _ h)]

/-- non-finite numbers are written as `null`, finite ones as themselves; dates and durations as
their ISO strings -/
theorem C18_json_values (f : F64) (i : Int) (s : String) (b : Bool) (ns : Int) :
    toJson (.float f) = (if f.isFinite then .num f else .null) ∧
    toJson (.int i) = .int i ∧ toJson (.str s) = .str s ∧ toJson (.bool b) = .bool b ∧
    toJson .none = .null ∧ toJson (.date ns) = .str (Time.rfc3339 ns) ∧
    toJson (.dur ns) = .str (Time.isoDuration ns) := by
  simp [toJson]

example : toJson (.float F64.nan) = .null := by simp [toJson, F64.isFinite]
example : toJson (.float (F64.inf true)) = .null := by simp [toJson, F64.isFinite]

/-- **C18 (json, aggregate).** An aggregate is written as ONE array with one element per row, in
row order; every element is an object that carries exactly the columns, in column order; a column
the row lacks is `null`. -/
theorem C18_json_aggregate (t : Table) :
    jsonTable t = .arr (t.rows.map (fun row =>
      .obj (t.columns.map (fun c => (c, toJson ((Fields.get c row).getD .none)))))) := by
  simp [jsonTable, columnsOf, toJsonKVs_eq_map, List.map_map, Function.comp_def]

theorem C18_json_aggregate_missing (c : String) (row : Fields) (h : Fields.get c row = none) :
    toJson ((Fields.get c row).getD .none) = .null := by
  simp [h, toJson]

/-- counterexample to "a valid JSON object per element" when two columns share a name
(class C18/duplicate-column-names): the element has the key twice -/
theorem C18_duplicate_columns_counterexample :
    jsonTable { columns := ["_count", "_count"], rows := [[("_count", .int 1)]] } =
      .arr [.obj [("_count", .int 1), ("_count", .int 1)]] := by
  simp [jsonTable, columnsOf, toJsonKVs, toJson, Fields.get]

/-! ### logfmt mode -/

/-- the characters of `joinWith sep l`: the items with exactly one separator between neighbours -/
theorem joinWith_cons_cons (sep x y : String) (l : List String) :
    joinWith sep (x :: y :: l) = x ++ sep ++ joinWith sep (y :: l) := rfl

/-- **C18 (logfmt).** A row is written as its `key=text` pairs, a permutation of the row's pairs
sorted by key, neighbours separated by exactly one blank (`joinWith " "`), the text being the
`ValueDisplay` rendering; a record line ends with the renderer's newline; an aggregate is one such
line per row over its columns (missing ↦ `None`). -/
theorem C18_logfmt (pairs : List (String × Value)) :
    logfmtRow pairs = joinWith " " ((sortByKey pairs).map (fun kv => kv.1 ++ "=" ++ kv.2.render)) ∧
    (sortByKey pairs).Perm pairs ∧ KeysSorted (sortByKey pairs) :=
  ⟨rfl, sortByKey_perm _, sortByKey_sorted _⟩

theorem C18_logfmt_record (r : Record) (h : Fields.Sorted r.data) :
    logfmtRecord r = joinWith " " (r.data.map (fun kv => kv.1 ++ "=" ++ kv.2.render)) ++ "\n" := by
  simp only [logfmtRecord, logfmtRow, sortByKey_of_sorted _ (keysSorted_of_fieldsSorted _ h)]
  rfl

theorem C18_logfmt_table (t : Table) :
    logfmtTable t = String.join (t.rows.map (fun row =>
      logfmtRow (t.columns.map (fun c => (c, (Fields.get c row).getD .none))) ++ "\n")) := rfl

example : logfmtRecord { data := [("a", .int 1), ("b", .none), ("c", .str "x y")], raw := "" } =
    "a=1 b=None c=x y\n" := by
  simp [logfmtRecord, logfmtRow, sortByKey, insertByKey, joinWith, showPair, Value.render]
  decide

/-! ### format mode: the tokenizer view of `strfmt_map` -/

/-- text of a token list under a formatter closure (`none` = the closure failed on some field) -/
def renderToks (f : Formatter → Option (List Char)) : List FmtTok → Option (List Char)
  | [] => some []
  | .lit c :: rest => (renderToks f rest).map (c :: ·)
  | .key fm :: rest =>
    match f fm, renderToks f rest with
    | some t, some r => some (t ++ r)
    | _, _ => none

/-- the same on the reversed token list, producing the reversed text -/
def renderRev (f : Formatter → Option (List Char)) : List FmtTok → Option (List Char)
  | [] => some []
  | .lit c :: rest => (renderRev f rest).map (c :: ·)
  | .key fm :: rest =>
    match renderRev f rest, f fm with
    | some r, some t => some (t.reverse ++ r)
    | _, _ => none

theorem renderToks_append_lit (f : Formatter → Option (List Char)) (l : List FmtTok) (c : Char) :
    renderToks f (l ++ [.lit c]) = (renderToks f l).map (· ++ [c]) := by
  induction l with
  | nil => simp [renderToks]
  | cons x t ih =>
    cases x with
    | lit d => simp [renderToks, ih, Option.map_map, Function.comp_def]
    | key fm =>
      simp only [List.cons_append, renderToks, ih]
      cases f fm <;> cases renderToks f t <;> simp

theorem renderToks_append_key (f : Formatter → Option (List Char)) (l : List FmtTok) (fm : Formatter) :
    renderToks f (l ++ [.key fm]) =
      match renderToks f l, f fm with
      | some r, some t => some (r ++ t)
      | _, _ => none := by
  induction l with
  | nil => simp [renderToks]; cases f fm <;> simp
  | cons x t ih =>
    cases x with
    | lit d =>
      simp only [List.cons_append, renderToks, ih]
      cases renderToks f t <;> cases f fm <;> simp
    | key fm' =>
      simp only [List.cons_append, renderToks, ih]
      cases f fm' <;> cases renderToks f t <;> cases f fm <;> simp

theorem renderRev_eq (f : Formatter → Option (List Char)) (l : List FmtTok) :
    renderRev f l = (renderToks f l.reverse).map List.reverse := by
  induction l with
  | nil => simp [renderRev, renderToks]
  | cons x t ih =>
    cases x with
    | lit c =>
      simp only [renderRev, List.reverse_cons, renderToks_append_lit, ih]
      cases renderToks f t.reverse <;> simp
    | key fm =>
      simp only [renderRev, List.reverse_cons, renderToks_append_key, ih]
      cases renderToks f t.reverse <;> cases f fm <;> simp

/-- the streaming state and the tokenizer state describe the same prefix -/
structure Rel (f : Formatter → Option (List Char)) (m : MapSt) (t : TokSt) : Prop where
  reading : m.reading = t.reading
  closing : m.closing = t.closing
  pat : m.pat = t.pat
  out : renderRev f t.toks = some m.out

/-- a state whose tokens cannot be rendered (the closure failed on one of them) -/
def Dead (f : Formatter → Option (List Char)) (t : TokSt) : Prop := renderRev f t.toks = none

theorem renderRev_cons_none (f : Formatter → Option (List Char)) (x : FmtTok) (l : List FmtTok)
    (h : renderRev f l = none) : renderRev f (x :: l) = none := by
  cases x <;> simp [renderRev, h]

theorem tokStep_dead (f : Formatter → Option (List Char)) (t t' : TokSt) (c : Char)
    (h : tokStep t c = some t') (hd : Dead f t) : Dead f t' := by
  unfold tokStep at h
  unfold Dead at *
  repeat' split at h
  all_goals first
    | (injection h with h; subst h; first | exact hd | exact renderRev_cons_none f _ _ hd)
    | (exact absurd h (by simp))

theorem tokRun_dead (f : Formatter → Option (List Char)) (cs : List Char) :
    ∀ (t t' : TokSt), tokRun t cs = some t' → Dead f t → Dead f t' := by
  induction cs with
  | nil => intro t t' h hd; simp [tokRun] at h; subst h; exact hd
  | cons c cs ih =>
    intro t t' h hd
    simp only [tokRun] at h
    cases hs : tokStep t c with
    | none => simp [hs] at h
    | some t1 =>
      simp only [hs] at h
      exact ih t1 t' h (tokStep_dead f t t1 c hs hd)

end Ag.C18
