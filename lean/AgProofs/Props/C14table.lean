/-
C14 (permuting the input, at the level of the printed cells)

`C14_groups_perm` only says that the same groups exist.  Here, for the functions that are exact
under permutation — count, count(cond), count_distinct, and sum / min / max on integer data (the
condition of `C14_int_*`) — the PRINTED CELL of every such aggregate column of every group is the
same for two permutations of the input (`C14_cell_perm_exact`), through `C01_cell_of_group`
(C01cells.lean) and the per-function `*_perm` theorems.

NOT closed here (see the report): equality of the whole emitted tables `g.emit st₁ = g.emit st₂`.
What is missing is bookkeeping, not a new idea: (1) the key a group is stored under is the key of
its FIRST row, so two states agree on keys only up to `keyEq`; with normalised canonical keys
(`inS`, `inC`: `C09.eqL_of_beqL`) `keyEq` is identity; (2) from "same keys, same cells" to "the
same multiset of emitted rows" (rows are determined by their key cells and aggregate cells:
`emitRow_get_header`, `emitRow_get_acc`, plus "no other field"), then
`C13_emit_order_independent_unconditional` for the order.
-/
import AgProofs.Props.C01cells
import AgProofs.Props.C14more

namespace Ag.C14
open C01 C13

/-- the aggregate functions whose result does not depend on the arrival order, with the data
condition under which that is exact -/
def ExactFn (ext : Ext) (rows : List Fields) : AggDef → Prop
  | .count _ => True
  | .countDistinct _ => True
  | .sum e => IntData (numeric ext e rows)
  | .min e => ∀ x ∈ numeric ext e rows, F64.IntValued x ∧ (F64.toInt x).natAbs ≤ F64.two53
  | .max e => ∀ x ∈ numeric ext e rows, F64.IntValued x ∧ (F64.toInt x).natAbs ≤ F64.two53
  | _ => False

/-- **C14 (permutation, exact functions, printed cells).**  Two permutations of the same rows, the
entries stored for the same key in the two states, an aggregate column of an exact kind: the two
accumulators emit the same value, and the cell of that column in the two emitted rows is the same. -/
theorem C14_cell_perm_exact (ext : Ext) (g : Grouper) {rows₁ rows₂ : List Fields}
    (hp : rows₁.Perm rows₂) (st₁ st₂ : GroupState)
    (h₁ : foldRows ext g [] rows₁ = .ok st₁) (h₂ : foldRows ext g [] rows₂ = .ok st₂)
    (hnd : (g.accNames.map Prod.fst).Nodup)
    (e₁ e₂ : List Value × List (String × Acc)) (he₁ : e₁ ∈ st₁) (he₂ : e₂ ∈ st₂) (hk : e₂.1 = e₁.1)
    (j : Nat) (d : String × AggDef) (hd : g.accNames[j]? = some d)
    (hex : ExactFn ext (groupRows ext g e₁.1 rows₁) d.2) :
    ∃ a₁ a₂, e₁.2[j]? = some a₁ ∧ e₂.2[j]? = some a₂ ∧ d.2.emit a₁.2 = d.2.emit a₂.2 ∧
      ∀ r₁ r₂, emitRow g e₁ = .ok r₁ → emitRow g e₂ = .ok r₂ →
        Fields.get d.1 r₁ = Fields.get d.1 r₂ := by
  obtain ⟨a₁, hf₁, hg₁, hc₁⟩ := C01_cell_of_group ext g rows₁ st₁ h₁ hnd e₁ he₁ j d hd
  obtain ⟨a₂, hf₂, hg₂, hc₂⟩ := C01_cell_of_group ext g rows₂ st₂ h₂ hnd e₂ he₂ j d hd
  rw [hk] at hf₂
  have hpg := groupRows_perm ext g e₁.1 hp
  have hemit : d.2.emit a₁.2 = d.2.emit a₂.2 := by
    obtain ⟨name, dd⟩ := d
    cases dd <;> simp only [ExactFn] at hex
    case count c =>
      rw [C14_count_perm ext c hpg a₁.2 a₂.2 hf₁ hf₂]
    case sum x =>
      rw [C14_int_sum_perm ext x hpg hex a₁.2 a₂.2 hf₁ hf₂]
    case min x =>
      rw [C14_int_min_perm ext x hpg hex a₁.2 a₂.2 hf₁ hf₂]
    case max x =>
      rw [C14_int_max_perm ext x hpg hex a₁.2 a₂.2 hf₁ hf₂]
    case countDistinct x =>
      exact (C14_distinct_perm ext x hpg a₁.2 a₂.2 hf₁ hf₂).1
  refine ⟨a₁, a₂, hg₁, hg₂, hemit, ?_⟩
  intro r₁ r₂ hr₁ hr₂
  obtain ⟨v₁, hv₁, hget₁⟩ := hc₁ r₁ hr₁
  obtain ⟨v₂, hv₂, hget₂⟩ := hc₂ r₂ hr₂
  rw [hget₁, hget₂]
  rw [hemit, hv₂] at hv₁
  cases hv₁
  rfl

/-- the key cells of the two emitted rows agree as well (same key tuple, `emitRow_get_header`) -/
theorem C14_key_cells_perm (g : Grouper) (e₁ e₂ : List Value × List (String × Acc))
    (hk : e₂.1 = e₁.1) (hhead : g.headers.Nodup)
    (hnames : ∀ n ∈ g.accNames.map Prod.fst, n ∉ g.headers) (hlen : e₁.1.length = g.headers.length)
    (r₁ r₂ : Fields) (hr₁ : emitRow g e₁ = .ok r₁) (hr₂ : emitRow g e₂ = .ok r₂) :
    ∀ hv ∈ g.headers.zip e₁.1, Fields.get hv.1 r₁ = Fields.get hv.1 r₂ := by
  intro hv hhv
  rw [emitRow_get_header g e₁ r₁ hr₁ hhead hnames hlen hv hhv,
    emitRow_get_header g e₂ r₂ hr₂ hhead hnames (by rw [hk]; exact hlen) hv (by rw [hk]; exact hhv)]

/-- the same groups exist (restated from `C14_groups_perm_all`) -/
theorem C14_same_groups (ext : Ext) (g : Grouper) {rows₁ rows₂ : List Fields}
    (hp : rows₁.Perm rows₂) (st₁ st₂ : GroupState) (k : List Value)
    (h₁ : foldRows ext g [] rows₁ = .ok st₁) (h₂ : foldRows ext g [] rows₂ = .ok st₂) :
    (lookup k st₁).isSome = (lookup k st₂).isSome :=
  C14_groups_perm_all ext g hp st₁ st₂ k h₁ h₂

end Ag.C14

#print axioms Ag.C14.C14_cell_perm_exact
#print axioms Ag.C14.C14_key_cells_perm
