/-
C05 (comparison part)  `== != < <= > >=` are self-consistent.

What the six operators compute is `Ag.cmpResult` (AgModel/Eval.lean, mirroring
`Expr::Comparison` in src/operator.rs): `==`/`!=` use the derived `PartialEq` (`Value.beq`),
the other four use `Ord::cmp` (`Value.cmp`).  Two different relations, so the consistency laws are
theorems, not definitions — and the full statement is false on raw `Value`s (`Float(1.0)` against
`Int(1)`), although since /repo 6cfc8ab / a77af1c every producer of a `Float` normalises through
`from_float`, so that pair is no longer reachable from a query.

Domain `Value.inS` (decidable, AgProofs/Lemmas/ValueOrder.lean): values whose numbers are
normalised the way `Value::from_float` leaves them — a `float` never holds an integer of the i64
range — and whose integers are i64s (the model's `Int` is mathematical; the range is part of the
Rust type); recursively through arrays and objects.  Before the `cmp_int_float` repair of
src/data.rs (exact `Int` against `Float` comparison instead of `i as f64`) the integers had to be
confined to ±2^53: beyond, none of `<`, `==`, `>` held between an integer and the double it
rounds to (`C05_int_float_trichotomy` and the two regression examples below).
-/
import AgModel.Eval
import AgProofs.Lemmas.FromFloat

namespace Ag.C05
open Ag.F64 Ag.Value

/-- what each operator computes -/
abbrev eq (a b : Value) : Bool := cmpResult .eq a b
abbrev ne (a b : Value) : Bool := cmpResult .neq a b
abbrev lt (a b : Value) : Bool := cmpResult .lt a b
abbrev le (a b : Value) : Bool := cmpResult .lte a b
abbrev gt (a b : Value) : Bool := cmpResult .gt a b
abbrev ge (a b : Value) : Bool := cmpResult .gte a b

/-- exactly one of three booleans holds -/
def ExactlyOne (p q r : Bool) : Prop :=
  (p = true ∧ q = false ∧ r = false) ∨ (p = false ∧ q = true ∧ r = false) ∨
  (p = false ∧ q = false ∧ r = true)

theorem eq_is_beq (a b : Value) : eq a b = beq a b := rfl

/-- the consistency laws, as one proposition about a pair of values -/
def Laws (a b : Value) : Prop :=
  ExactlyOne (lt a b) (eq a b) (gt a b) ∧
  (le a b = (lt a b || eq a b)) ∧
  (ge a b = (gt a b || eq a b)) ∧
  (ne a b = !eq a b) ∧
  (gt a b = lt b a) ∧
  (eq a b = eq b a)

/-- the full statement: the laws hold for all values -/
def C05_trichotomy_full : Prop := ∀ a b : Value, Laws a b

/-- one and a half … `1.0` that arithmetic produced is not `==` to `1`, nor `<`, nor `>` -/
def one : F64 := fin false two52 (-52)
def half : F64 := fin false two52 (-53)

/-- counterexample 1 (numbers): `Float(1.0)` against `Int(1)`: none of `<`, `==`, `>` holds,
yet `<=` and `>=` both hold and `!=` holds -/
theorem C05_float_int_counterexample :
    eq (float one) (int 1) = false ∧ lt (float one) (int 1) = false ∧
    gt (float one) (int 1) = false ∧ le (float one) (int 1) = true ∧
    ge (float one) (int 1) = true ∧ ne (float one) (int 1) = true := by
  simp only [eq, lt, gt, le, ge, ne, cmpResult, BEq.beq, beq, cmp]
  decide

theorem C05_trichotomy_not_full : ¬ C05_trichotomy_full := by
  intro h
  obtain ⟨h1, h2, h3, -⟩ := C05_float_int_counterexample
  rcases (h (float one) (int 1)).1 with ⟨a, -, -⟩ | ⟨-, a, -⟩ | ⟨-, -, a⟩ <;> simp_all

/-! ### … but the un-normalised `Float(1.0)` is no longer reachable

Every producer of a `Float` goes through `Value::from_float`: number literals and field text via
`from_string`, JSON numbers, functions, aggregates, and — since /repo a77af1c — also
`Float + Float`, `Float - Float`, `Float * Float`.  `0.5 + 0.5` is `Int(1)`. -/

theorem fromString_half : Value.fromString "0.5" = float half := by
  have h1 : Text.trim ['0', '.', '5'] = ['0', '.', '5'] := by decide
  have h2 : parseI64 ['0', '.', '5'] = Option.none := by decide
  have h3 : parseF64 ['0', '.', '5'] = some half := by decide +kernel
  have h4 : fromFloat half = float half := fromFloat_of_not_isI64Valued (by decide +kernel)
  simp [fromString, h1, h2, h3, h4]

theorem fromString_one : Value.fromString "1" = int 1 := by
  have h1 : Text.trim ['1'] = ['1'] := by decide
  have h2 : parseI64 ['1'] = some 1 := by decide
  simp [fromString, h1, h2]

theorem fromFloat_one : Value.fromFloat one = int 1 := by
  unfold one
  rw [fromFloat_of_isI64Valued (by decide +kernel)]
  exact congrArg Value.int (by decide +kernel)

theorem add_half_half : Value.add (float half) (float half) = .ok (int 1) := by
  have : F64.add half half = one := by decide
  simp [Value.add, this, fromFloat_one]

/-- regression: the query expression `0.5 + 0.5 == 1` now evaluates to `true`, `<` and `>` to
`false`, on every record -/
theorem C05_half_plus_half (ext : Ext) (r : Fields) (op : CmpOp) :
    evalValue ext r (.cmp op
      (.arith .add (.val (Value.fromString "0.5")) (.val (Value.fromString "0.5")))
      (.val (Value.fromString "1"))) =
    .ok (.bool (match op with | .eq => true | .lte => true | .gte => true | _ => false)) := by
  cases op <;>
    simp [evalValue, fromString_half, fromString_one, add_half_half, cmpResult, BEq.beq, beq, cmp]

/-- a `Float` that `from_float` returns never holds an integer of the i64 range, i.e. it lies in
the domain `inS` of the laws below -/
theorem C05_from_float_normalised (f g : F64) (h : Value.fromFloat f = float g) :
    normFloat g = true ∧ inS (float g) = true := by
  have := (fromFloat_eq_float f g h).2
  exact ⟨this, by simpa [inS] using this⟩

/-- and so does every arithmetic result on two floats -/
theorem C05_float_arith_normalised (a b : F64) (g : F64) :
    (Value.add (float a) (float b) = .ok (float g) → inS (float g) = true) ∧
    (Value.sub (float a) (float b) = .ok (float g) → inS (float g) = true) ∧
    (Value.mul (float a) (float b) = .ok (float g) → inS (float g) = true) := by
  refine ⟨?_, ?_, ?_⟩ <;>
    (simp only [Value.add, Value.sub, Value.mul, Outcome.ok.injEq]
     intro h; exact (C05_from_float_normalised _ g h).2)

example : Value.fromFloat half = float half := fromFloat_of_not_isI64Valued (by decide +kernel)

/-! ### the laws on values with normalised numbers (scalars, arrays, objects) -/

theorem C05_trichotomy_partial {a b : Value} (ha : inS a) (hb : inS b) : Laws a b := by
  have hE : beq a b = true ↔ cmp a b = .eq := beq_iff_cmp_eq a b ha hb
  have hE' : beq b a = true ↔ cmp b a = .eq := beq_iff_cmp_eq b a hb ha
  have hsw : cmp b a = (cmp a b).swap := (cmp_swap a b).symm
  simp only [Laws, ExactlyOne, eq, ne, lt, le, gt, ge, cmpResult, BEq.beq]
  rw [hsw] at hE' ⊢
  generalize cmp a b = o at *
  generalize beq a b = p at *
  generalize beq b a = q at *
  cases o <;> cases p <;> cases q <;> simp_all

/-- in particular for arrays of normalised values: exactly one of `<`, `==`, `>` holds, i.e. the
element-wise `==` (`beqL`) and the element-wise order (`cmpL`) agree -/
theorem C05_array_trichotomy_partial {a b : List Value} (ha : inSL a) (hb : inSL b) :
    Laws (arr a) (arr b) ∧ (beq (arr a) (arr b) = true ↔ cmp (arr a) (arr b) = .eq) ∧
    (beqL a b = true ↔ cmpL a b = .eq) :=
  ⟨C05_trichotomy_partial (by simpa [inS] using ha) (by simpa [inS] using hb),
   beq_iff_cmp_eq _ _ (by simpa [inS] using ha) (by simpa [inS] using hb),
   beqL_iff_cmpL_eq a b ha hb⟩

example : lt (arr [int 1, str "a"]) (arr [int 1, str "b"]) = true ∧
    eq (arr [int 1, str "a"]) (arr [int 1, str "b"]) = false ∧
    inSL [int 1, str "a"] = true := by
  refine ⟨?_, ?_, by decide⟩
  · simp [lt, cmpResult, cmpL_cons_cons, cmpL_nil_nil, cmp]; decide
  · simp [eq, cmpResult, BEq.beq, beq, beqL]

/-- an `Int` against a normalised `Float`: exactly one of `<`, `>` holds, `==` never does, and
`cmp` is never `Equal` — for EVERY i64, the ones beyond ±2^53 included (the former defect: there
`i as f64` rounds, `cmp` said `Equal` while `==` said no, and none of the three held) -/
theorem C05_int_float_trichotomy {i : Int} {f : F64} (hi : inI64 i = true)
    (hf : normFloat f = true) :
    ExactlyOne (lt (int i) (float f)) (eq (int i) (float f)) (gt (int i) (float f)) ∧
    ExactlyOne (lt (float f) (int i)) (eq (float f) (int i)) (gt (float f) (int i)) ∧
    eq (int i) (float f) = false ∧ eq (float f) (int i) = false ∧
    cmp (int i) (float f) ≠ .eq ∧ cmp (float f) (int i) ≠ .eq ∧
    (cmp (int i) (float f) = .lt ∨ cmp (int i) (float f) = .gt) := by
  have ha : inS (int i) = true := by simpa [inS] using hi
  have hb : inS (float f) = true := by simpa [inS] using hf
  have h1 : cmp (int i) (float f) ≠ .eq := by
    simp only [cmp]; exact cmpIntFloat_ne_eq_norm hi hf
  have h2 : cmp (float f) (int i) ≠ .eq := by
    rw [← cmp_swap]; intro h; apply h1; cases hc : cmp (int i) (float f) <;> simp_all
  refine ⟨(C05_trichotomy_partial ha hb).1, (C05_trichotomy_partial hb ha).1, ?_, ?_, h1, h2, ?_⟩
  · simp [eq, cmpResult, BEq.beq, beq]
  · simp [eq, cmpResult, BEq.beq, beq]
  · cases hc : cmp (int i) (float f) <;> simp_all

/-- i64::MAX against the double 2^63 (what `9223372036854775807 + 1` evaluates to) -/
def two63 : F64 := fin false two52 11
/-- −2^63 − 2048, the next double below −2^63 = i64::MIN -/
def belowMin : F64 := fin true (two52 + 1) 11

/-- regression, witness 1 of the former defect: `a = 9223372036854775807`, `r = a + 1` (the double
2^63): now `a < r`, `r > a`, and not `==` — before the repair all three were false -/
example : lt (int 9223372036854775807) (float two63) = true ∧
    eq (int 9223372036854775807) (float two63) = false ∧
    gt (int 9223372036854775807) (float two63) = false ∧
    lt (float two63) (int 9223372036854775807) = false ∧
    eq (float two63) (int 9223372036854775807) = false ∧
    gt (float two63) (int 9223372036854775807) = true ∧
    inS (int 9223372036854775807) = true ∧ inS (float two63) = true := by
  simp only [lt, eq, gt, cmpResult, BEq.beq, beq, cmp]
  decide

/-- regression, witness 2: 2^53 + 1 against the doubles around it.  Every double of magnitude
≥ 2^52 is an integer (2^53 + 0.5 is not a double), so the neighbours 2^53 and 2^53 + 2 are raw,
un-normalised `Float`s (`from_float` makes them `Int`s) and only the ORDER is stated for them:
2^53 + 1 lies strictly between — before the repair `cmp` called it `Equal` to 2^53.  Normalised
`Float`s of that size start at ±2^63: i64::MIN against the next double below −2^63. -/
example : cmp (int 9007199254740993) (float (fin false two52 1)) = .gt ∧
    cmp (int 9007199254740993) (float (fin false (two52 + 1) 1)) = .lt ∧
    cmp (float (fin false two52 1)) (int 9007199254740993) = .lt ∧
    gt (int (-9223372036854775808)) (float belowMin) = true ∧
    eq (int (-9223372036854775808)) (float belowMin) = false ∧
    lt (int (-9223372036854775808)) (float belowMin) = false ∧
    inS (float belowMin) = true := by
  simp only [lt, eq, gt, cmpResult, BEq.beq, beq, cmp]
  decide

/-- why `inS` asks an `Int` to be an i64: the model's integers are mathematical, and 2^63 (not an
i64) is `Equal` to — but not `==` — the normalised `Float` 2^63 -/
example : cmp (int 9223372036854775808) (float two63) = .eq ∧
    eq (int 9223372036854775808) (float two63) = false ∧
    inI64 9223372036854775808 = false := by
  simp only [eq, cmpResult, BEq.beq, beq, cmp]
  decide

/-- non-vacuity of `C05_int_float_trichotomy` at the extremes -/
example : cmp (int 9223372036854775807) (float two63) = .lt :=
  ((C05_int_float_trichotomy (i := 9223372036854775807) (f := two63) (by decide)
      (by decide)).2.2.2.2.2.2).resolve_right (by simp only [cmp]; decide)

/-- non-vacuity: the domain has every scalar kind, ints (every i64) and non-integral / non-finite
floats -/
example : inS .none ∧ inS (.bool true) ∧ inS (.int (-9223372036854775808)) ∧
    inS (.int 9223372036854775807) ∧ inS (.float half) ∧
    inS (.arr [.float half, .obj [("k", .int 1)]]) ∧
    inS (.float nan) ∧ inS (.float (inf true)) ∧ inS (.str "a") ∧ inS (.date 0) ∧ inS (.dur 1) ∧
    ¬ inS (.float one) := by decide

/-- `!=` is the negation of `==` for all values -/
theorem C05_ne_iff_not_eq (a b : Value) : ne a b = !eq a b := rfl

/-- `<=` is "not `>`" and `>=` is "not `<`" for all values (this much is definitional) -/
theorem C05_le_ge_def (a b : Value) : le a b = !gt a b ∧ ge a b = !lt a b := by
  simp only [le, gt, ge, lt, cmpResult]
  cases cmp a b <;> decide

theorem C05_none_eq_none : eq .none .none = true ∧ ne .none .none = false ∧
    lt .none .none = false ∧ gt .none .none = false := by
  simp [eq, ne, lt, gt, cmpResult, BEq.beq, beq, cmp, rank]

/-- `==` is reflexive on scalars of `inS` (NaN included: `OrderedFloat` makes NaN equal to itself) -/
theorem C05_eq_refl {a : Value} (ha : inS a) : eq a a = true :=
  (beq_iff_cmp_eq a a ha ha).2 (cmp_self a)

/-- numbers by numeric value, strings lexicographic, otherwise by rank (C05_cmp_numeric_lex_rank);
the order facts themselves are proved in C09order.lean -/
theorem C05_cmp_numeric_lex_rank :
    (∀ (a b : Value) (x y : Dyadic), inS a → inS b → num a = some x → num b = some y →
      ((lt a b = true ↔ x < y) ∧ (gt a b = true ↔ y < x) ∧ (eq a b = true ↔ x = y))) ∧
    (∀ s t : String, (lt (str s) (str t) = true ↔ compare s t = .lt) ∧
      (gt (str s) (str t) = true ↔ compare s t = .gt) ∧ (eq (str s) (str t) = true ↔ s = t)) ∧
    (∀ a b : Value, a.rank < b.rank → lt a b = true ∧ gt a b = false ∧ eq a b = false) := by
  refine ⟨?_, ?_, ?_⟩
  · intro a b x y ha hb hx hy
    have hc := cmp_eq_dcmp (inD_of_inS a ha) (inD_of_inS b hb) hx hy
    have hE := beq_iff_cmp_eq a b ha hb
    simp only [lt, gt, eq, cmpResult, BEq.beq]
    rw [hc] at hE ⊢
    rw [hE]
    simp only [decide_eq_true_eq]
    exact ⟨dcmp_eq_lt, dcmp_eq_gt, dcmp_eq_eq⟩
  · intro s t
    simp only [lt, gt, eq, cmpResult, cmp, beq_iff_eq]
    refine ⟨trivial, trivial, ?_⟩
    show beq (str s) (str t) = true ↔ s = t
    simp [beq]
  · intro a b h
    simp only [lt, gt, eq, cmpResult, cmp_rank_lt a b h, BEq.beq]
    refine ⟨rfl, rfl, ?_⟩
    cases a <;> cases b <;> simp [rank] at h <;> simp [beq]

/-- non-vacuity of the numeric clause: `0.5 < 1` as `Float` against `Int` -/
example : lt (float half) (int 1) = true := by
  have h := (C05_cmp_numeric_lex_rank.1 (float half) (int 1) (Dyadic.ofIntWithPrec 1 1) 1
    (by decide) (by decide) (by decide) (by decide)).1
  exact h.2 (by decide)

end Ag.C05
