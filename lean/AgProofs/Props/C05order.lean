/-
C05 (comparison part)  `== != < <= > >=` are self-consistent.

What the six operators compute is `Ag.cmpResult` (AgModel/Eval.lean, mirroring
`Expr::Comparison` in src/operator.rs): `==`/`!=` use the derived `PartialEq` (`Value.beq`),
the other four use `Ord::cmp` (`Value.cmp`).  Two different relations, so the consistency laws are
theorems, not definitions — and the full statement is false today.

Domain `Value.inS` (decidable, AgProofs/Lemmas/ValueOrder.lean): scalars (no arrays, no objects)
whose numbers are normalised the way `Value::from_float` leaves them — a `float` never holds an
integral value — with integers within ±2^53.
-/
import AgModel.Eval
import AgProofs.Lemmas.FromFloat

namespace Ag.C05
open Ag.F64 Ag.Value

/-- what each operator computes -/
abbrev eq (a b : Value) : Bool := cmpResult .eq a b
abbrev ne (a b : Value) : Bool := cmpResult .neq a b
abbrev lt (a b : Value) : Bool := cmpResult .lt a b
abbrev le (a b : Value) : Bool := cmpResult .lte a b
abbrev gt (a b : Value) : Bool := cmpResult .gt a b
abbrev ge (a b : Value) : Bool := cmpResult .gte a b

/-- exactly one of three booleans holds -/
def ExactlyOne (p q r : Bool) : Prop :=
  (p = true ∧ q = false ∧ r = false) ∨ (p = false ∧ q = true ∧ r = false) ∨
  (p = false ∧ q = false ∧ r = true)

theorem eq_is_beq (a b : Value) : eq a b = beq a b := rfl

/-- the consistency laws, as one proposition about a pair of values -/
def Laws (a b : Value) : Prop :=
  ExactlyOne (lt a b) (eq a b) (gt a b) ∧
  (le a b = (lt a b || eq a b)) ∧
  (ge a b = (gt a b || eq a b)) ∧
  (ne a b = !eq a b) ∧
  (gt a b = lt b a) ∧
  (eq a b = eq b a)

/-- the full statement: the laws hold for all values -/
def C05_trichotomy_full : Prop := ∀ a b : Value, Laws a b

/-- one and a half … `1.0` that arithmetic produced is not `==` to `1`, nor `<`, nor `>` -/
def one : F64 := fin false two52 (-52)
def half : F64 := fin false two52 (-53)

/-- counterexample 1 (numbers): `Float(1.0)` against `Int(1)`: none of `<`, `==`, `>` holds,
yet `<=` and `>=` both hold and `!=` holds -/
theorem C05_float_int_counterexample :
    eq (float one) (int 1) = false ∧ lt (float one) (int 1) = false ∧
    gt (float one) (int 1) = false ∧ le (float one) (int 1) = true ∧
    ge (float one) (int 1) = true ∧ ne (float one) (int 1) = true := by
  simp only [eq, lt, gt, le, ge, ne, cmpResult, BEq.beq, beq, cmp]
  decide

/-- counterexample 2 (arrays): any two arrays are `Equal` for `cmp`, whatever they contain, while
`==` compares them element-wise -/
theorem C05_array_counterexample :
    (∀ a b : List Value, cmp (arr a) (arr b) = .eq) ∧
    eq (arr [int 1]) (arr [int 2]) = false ∧ lt (arr [int 1]) (arr [int 2]) = false ∧
    gt (arr [int 1]) (arr [int 2]) = false := by
  refine ⟨fun a b => by simp [cmp, rank], ?_⟩
  simp [eq, lt, gt, cmpResult, BEq.beq, beq, beqL, cmp, rank]

theorem C05_trichotomy_not_full : ¬ C05_trichotomy_full := by
  intro h
  have h1 := (h (float one) (int 1)).1
  obtain ⟨h1, h2, h3, -⟩ := C05_float_int_counterexample
  rcases (h (float one) (int 1)).1 with ⟨a, -, -⟩ | ⟨-, a, -⟩ | ⟨-, -, a⟩ <;> simp_all

/-! ### the un-normalised `Float(1.0)` is reachable: `0.5 + 0.5`

`Value::from_float` turns integral doubles into `Int`, and every producer of a `Float` goes
through it (number literals and field text via `from_string`, JSON numbers, functions, aggregates)
EXCEPT `Float + Float`, `Float - Float`, `Float * Float` (src/data.rs `impl Add/Sub/Mul`), which
wrap the raw result. -/

theorem fromString_half : Value.fromString "0.5" = float half := by
  have h1 : Text.trim ['0', '.', '5'] = ['0', '.', '5'] := by decide
  have h2 : parseI64 ['0', '.', '5'] = Option.none := by decide
  have h3 : parseF64 ['0', '.', '5'] = some half := by decide +kernel
  have h4 : F64.lt (F64.abs (F64.sub half (F64.floor half))) F64.epsilon = false := by
    decide +kernel
  simp [fromString, h1, h2, h3, fromFloat, h4]

theorem fromString_one : Value.fromString "1" = int 1 := by
  have h1 : Text.trim ['1'] = ['1'] := by decide
  have h2 : parseI64 ['1'] = some 1 := by decide
  simp [fromString, h1, h2]

theorem add_half_half : Value.add (float half) (float half) = .ok (float one) := by
  have : F64.add half half = one := by decide
  simp [Value.add, this]

/-- the query expression `0.5 + 0.5 == 1` evaluates to `false` (and so do `<` and `>`), on
every record: the defect is reachable from query text -/
theorem C05_reachable_unnormalised (ext : Ext) (r : Fields) (op : CmpOp)
    (hop : op = .eq ∨ op = .lt ∨ op = .gt) :
    evalValue ext r (.cmp op
      (.arith .add (.val (Value.fromString "0.5")) (.val (Value.fromString "0.5")))
      (.val (Value.fromString "1"))) = .ok (.bool false) := by
  obtain ⟨h1, h2, h3, -⟩ := C05_float_int_counterexample
  simp only [eq, lt, gt] at h1 h2 h3
  rcases hop with rfl | rfl | rfl <;>
    simp [evalValue, fromString_half, fromString_one, add_half_half, h1, h2, h3]

/-- whereas everything `from_float` returns is normalised: an integral double becomes an `Int` -/
theorem fromFloat_one : Value.fromFloat one = int 1 := by
  have h4 : F64.lt (F64.abs (F64.sub one (F64.floor one))) F64.epsilon = true := by
    decide +kernel
  have h5 : F64.toI64 one = 1 := by decide
  simp [fromFloat, h4, h5]

/-- in general: a `Float` that `from_float` returns never holds an integral value, i.e. it lies
in the domain `inS` of the laws below -/
theorem C05_from_float_normalised (f g : F64) (hc : Canon f) (h : Value.fromFloat f = float g) :
    fractNonzero g = true ∧ inS (float g) = true := by
  suffices hs : fractNonzero g = true from ⟨hs, hs⟩
  cases f with
  | nan =>
    simp [fromFloat, F64.sub, F64.add, F64.abs, F64.lt, pcmp] at h
    subst h; rfl
  | inf b =>
    cases b <;> simp [fromFloat, F64.floor, F64.sub, F64.neg, F64.add, F64.abs, F64.lt, pcmp] at h <;>
      (subst h; rfl)
  | fin s m e =>
    rw [fromFloat_fin hc] at h
    by_cases hr : returnsInt s m e = true
    · rw [if_pos hr] at h; exact absurd h (by simp)
    · rw [if_neg hr] at h
      simp only [float.injEq] at h
      subst h
      simp only [returnsInt, Bool.or_eq_true, decide_eq_true_eq, not_or] at hr
      rw [fractNonzero_iff]
      refine ⟨by omega, fun h0 => hr.2 (fracSmall_of_zero h0)⟩

example : Value.fromFloat half = float half ∧ Canon half := by
  have := fromString_half
  have h4 : F64.lt (F64.abs (F64.sub half (F64.floor half))) F64.epsilon = false := by
    decide +kernel
  exact ⟨by simp [fromFloat, h4], by unfold half; rw [canon_fin]; decide⟩

/-! ### the laws on scalars with normalised numbers -/

theorem C05_trichotomy_partial {a b : Value} (ha : inS a) (hb : inS b) : Laws a b := by
  have hE : beq a b = true ↔ cmp a b = .eq := beq_iff_cmp_eq ha hb
  have hE' : beq b a = true ↔ cmp b a = .eq := beq_iff_cmp_eq hb ha
  have hsw : cmp b a = (cmp a b).swap :=
    (cmp_swap a b (fun h => rank_ne_obj_of_inD (inD_of_inS ha) h.1)).symm
  simp only [Laws, ExactlyOne, eq, ne, lt, le, gt, ge, cmpResult, BEq.beq]
  rw [hsw] at hE' ⊢
  generalize cmp a b = o at *
  generalize beq a b = p at *
  generalize beq b a = q at *
  cases o <;> cases p <;> cases q <;> simp_all

/-- non-vacuity: the domain has every scalar kind, ints and non-integral / non-finite floats -/
example : inS .none ∧ inS (.bool true) ∧ inS (.int (-9007199254740992)) ∧ inS (.float half) ∧
    inS (.float nan) ∧ inS (.float (inf true)) ∧ inS (.str "a") ∧ inS (.date 0) ∧ inS (.dur 1) ∧
    ¬ inS (.float one) := by decide

/-- `!=` is the negation of `==` for all values -/
theorem C05_ne_iff_not_eq (a b : Value) : ne a b = !eq a b := rfl

/-- `<=` is "not `>`" and `>=` is "not `<`" for all values (this much is definitional) -/
theorem C05_le_ge_def (a b : Value) : le a b = !gt a b ∧ ge a b = !lt a b := by
  simp only [le, gt, ge, lt, cmpResult]
  cases cmp a b <;> decide

theorem C05_none_eq_none : eq .none .none = true ∧ ne .none .none = false ∧
    lt .none .none = false ∧ gt .none .none = false := by
  simp [eq, ne, lt, gt, cmpResult, BEq.beq, beq, cmp, rank]

/-- `==` is reflexive on scalars of `inS` (NaN included: `OrderedFloat` makes NaN equal to itself) -/
theorem C05_eq_refl {a : Value} (ha : inS a) : eq a a = true := by
  have hsw := cmp_swap a a (fun h => rank_ne_obj_of_inD (inD_of_inS ha) h.1)
  have : cmp a a = .eq := by cases h : cmp a a <;> rw [h] at hsw <;> simp_all
  exact (beq_iff_cmp_eq ha ha).2 this

/-- numbers by numeric value, strings lexicographic, otherwise by rank (C05_cmp_numeric_lex_rank);
the order facts themselves are proved in C09order.lean -/
theorem C05_cmp_numeric_lex_rank :
    (∀ (a b : Value) (x y : Dyadic), inS a → inS b → num a = some x → num b = some y →
      ((lt a b = true ↔ x < y) ∧ (gt a b = true ↔ y < x) ∧ (eq a b = true ↔ x = y))) ∧
    (∀ s t : String, (lt (str s) (str t) = true ↔ compare s t = .lt) ∧
      (gt (str s) (str t) = true ↔ compare s t = .gt) ∧ (eq (str s) (str t) = true ↔ s = t)) ∧
    (∀ a b : Value, a.rank < b.rank → lt a b = true ∧ gt a b = false ∧ eq a b = false) := by
  refine ⟨?_, ?_, ?_⟩
  · intro a b x y ha hb hx hy
    have hc := cmp_eq_dcmp (inD_of_inS ha) (inD_of_inS hb) hx hy
    have hE := beq_iff_cmp_eq ha hb
    simp only [lt, gt, eq, cmpResult, BEq.beq]
    rw [hc] at hE ⊢
    rw [hE]
    simp only [decide_eq_true_eq]
    exact ⟨dcmp_eq_lt, dcmp_eq_gt, dcmp_eq_eq⟩
  · intro s t
    simp only [lt, gt, eq, cmpResult, cmp, beq_iff_eq]
    refine ⟨trivial, trivial, ?_⟩
    show beq (str s) (str t) = true ↔ s = t
    simp [beq]
  · intro a b h
    simp only [lt, gt, eq, cmpResult, cmp_rank_lt a b h, BEq.beq]
    refine ⟨rfl, rfl, ?_⟩
    cases a <;> cases b <;> simp [rank] at h <;> simp [beq]

/-- non-vacuity of the numeric clause: `0.5 < 1` as `Float` against `Int` -/
example : lt (float half) (int 1) = true := by
  have h := (C05_cmp_numeric_lex_rank.1 (float half) (int 1) (Dyadic.ofIntWithPrec 1 1) 1
    (by decide) (by decide) (by decide) (by decide)).1
  exact h.2 (by decide)

end Ag.C05
