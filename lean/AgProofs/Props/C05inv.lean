/-
C05 (precedence, the inversion)  Whenever a level of the expression grammar ACCEPTS, its value is
the LEFT fold over the operands of the next tighter level, in text order.

C05prec.lean proves the forward direction (a chain of operators and operands parses to the left
fold) and a collection of evaluated instances.  Here the converse, for every input and every
nesting fuel: an accepted `term` is a left fold of `*` `/` over `unary` values, an accepted
`arithExpr` a left fold of `+` `-` over `term` values, `logicalAnd` a left fold of `and` over
comparisons, `logicalOr` a left fold of `or` over conjunctions — hence `a + b * c` can never be
read as `(a + b) * c` unless the parentheses are in the text (`C05_precedence_arith`,
`C05_precedence_logic`).

The run of the loop combinator is `Run` (like C05prec's `Steps`, with "the element parser consumed
something" as `≠` — what `fold_many0` itself checks; `Run.toSteps` gives `Steps` for a `Mono`
element parser).
-/
import AgProofs.Props.C05prec

namespace Ag.C05prec
open Ag Ag.Lang Ag.LangEq

/-! ### the loop combinator -/

/-- a run of the element parser `f` as `fold_many0` performs it: `bs.length` successes, each
changing the input length, then a recoverable error -/
inductive Run {β : Type} (f : P β) : List Char → Nat → List β → List Char → Nat → Prop
  | done {i : List Char} {e : Nat} {pos : List Char} {e' : Nat} :
      f i e = .fail pos e' → Run f i e [] i e'
  | step {i : List Char} {e : Nat} {b : β} {i1 : List Char} {e1 : Nat} {bs : List β}
      {iF : List Char} {eF : Nat} :
      f i e = .ok b i1 e1 → i1.length ≠ i.length → Run f i1 e1 bs iF eF →
      Run f i e (b :: bs) iF eF

/-- every element of a run is a value the element parser returned -/
theorem Run.mem {β : Type} {f : P β} {i : List Char} {e : Nat} {bs : List β} {iF : List Char}
    {eF : Nat} (h : Run f i e bs iF eF) : ∀ b ∈ bs, ∃ j ej k ek, f j ej = .ok b k ek := by
  induction h with
  | done _ => intro b hb; simp at hb
  | step hf _ _ ih =>
    intro b hb
    rcases List.mem_cons.1 hb with rfl | hb
    · exact ⟨_, _, _, _, hf⟩
    · exact ih b hb

theorem Run.toSteps {β : Type} {f : P β} (hm : Mono f) {i : List Char} {e : Nat} {bs : List β}
    {iF : List Char} {eF : Nat} (h : Run f i e bs iF eF) : Steps f i e bs iF eF := by
  induction h with
  | done hf => exact .done hf
  | @step i e b i1 e1 bs iF eF hf hne _ ih =>
    have := hm i e
    rw [hf] at this
    simp only [ResLe] at this
    exact .step hf (by omega) ih

/-- **inversion of `fold_many0`'s loop**: an accepted loop is a run, and its value the left fold -/
theorem foldLoop_ok_inv {α β : Type} (f : P β) (g : α → β → α) : ∀ (n : Nat) (acc : α)
    (i : List Char) (e : Nat) (v : α) (r : List Char) (e' : Nat),
    foldLoop f g n acc i e = .ok v r e' → ∃ bs, Run f i e bs r e' ∧ v = bs.foldl g acc := by
  intro n
  induction n with
  | zero => intro acc i e v r e' h; simp [foldLoop] at h
  | succ n ih =>
    intro acc i e v r e' h
    simp only [foldLoop] at h
    cases hf : f i e with
    | ok o i1 e1 =>
      rw [hf] at h
      simp only at h
      by_cases hl : (i1.length == i.length) = true
      · simp [hl] at h
      · simp only [hl, Bool.false_eq_true, if_false] at h
        obtain ⟨bs, hr, hv⟩ := ih _ _ _ _ _ _ h
        exact ⟨o :: bs, .step hf (by simpa using hl) hr, by simpa using hv⟩
    | fail pos e1 =>
      rw [hf] at h
      simp only [Res.ok.injEq] at h
      obtain ⟨rfl, rfl, rfl⟩ := h
      exact ⟨[], .done hf, rfl⟩
    | failure pos e1 => rw [hf] at h; simp [Res.castErr] at h
    | panic s => rw [hf] at h; simp [Res.castErr] at h
    | unmod w => rw [hf] at h; simp [Res.castErr] at h

theorem foldMany0_ok_inv {α β : Type} (f : P β) (init : α) (g : α → β → α) {i : List Char} {e : Nat}
    {v : α} {r : List Char} {e' : Nat} (h : foldMany0 f init g i e = .ok v r e') :
    ∃ bs, Run f i e bs r e' ∧ v = bs.foldl g init :=
  foldLoop_ok_inv f g _ _ _ _ _ _ _ h

theorem bind_ok_inv {α β : Type} {p : P α} {f : α → P β} {i : List Char} {e : Nat} {v : β}
    {r : List Char} {e' : Nat} (h : P.bind' p f i e = .ok v r e') :
    ∃ a i1 e1, p i e = .ok a i1 e1 ∧ f a i1 e1 = .ok v r e' := by
  simp only [P.bind'] at h
  cases hp : p i e <;> rw [hp] at h <;> simp at h
  exact ⟨_, _, _, rfl, h⟩

/-! ### each level, inverted -/

/-- **`*` `/`**: an accepted `term` is `unary`'s value folded to the left with a run of `termElem` -/
theorem term_ok_inv (pe optE : P Expr) {i : List Char} {e : Nat} {v : Expr} {r : List Char}
    {e' : Nat} (h : term pe optE i e = .ok v r e') :
    ∃ u0 i1 e1 ps, unary pe optE i e = .ok u0 i1 e1 ∧ Run (termElem pe optE) i1 e1 ps r e' ∧
      v = ps.foldl (fun l (p : ArithOp × Expr) => Expr.arith p.1 l p.2) u0 := by
  rw [term_unfold] at h
  obtain ⟨u0, i1, e1, h0, h1⟩ := bind_ok_inv h
  obtain ⟨ps, hr, hv⟩ := foldMany0_ok_inv _ _ _ h1
  exact ⟨u0, i1, e1, ps, h0, hr, hv⟩

/-- **`+` `-`** over `term` values -/
theorem arithExpr_ok_inv (pe optE : P Expr) {i : List Char} {e : Nat} {v : Expr} {r : List Char}
    {e' : Nat} (h : arithExpr pe optE i e = .ok v r e') :
    ∃ t0 i1 e1 ps, term pe optE i e = .ok t0 i1 e1 ∧ Run (addElem pe optE) i1 e1 ps r e' ∧
      v = ps.foldl (fun l (p : ArithOp × Expr) => Expr.arith p.1 l p.2) t0 := by
  rw [arithExpr_unfold] at h
  obtain ⟨t0, i1, e1, h0, h1⟩ := bind_ok_inv h
  obtain ⟨ps, hr, hv⟩ := foldMany0_ok_inv _ _ _ h1
  exact ⟨t0, i1, e1, ps, h0, hr, hv⟩

/-- **`and` / `&&`** over comparisons -/
theorem logicalAnd_ok_inv (pe optE : P Expr) {i : List Char} {e : Nat} {v : Expr} {r : List Char}
    {e' : Nat} (h : logicalAnd pe optE i e = .ok v r e') :
    ∃ c0 i1 e1 cs, cmpExpr pe optE i e = .ok c0 i1 e1 ∧
      Run (logicElem "and" "&&" (cmpExpr pe optE)) i1 e1 cs r e' ∧
      v = cs.foldl (fun l x => Expr.logic .and l x) c0 := by
  rw [logicalAnd_unfold] at h
  obtain ⟨c0, i1, e1, h0, h1⟩ := bind_ok_inv h
  obtain ⟨cs, hr, hv⟩ := foldMany0_ok_inv _ _ _ h1
  exact ⟨c0, i1, e1, cs, h0, hr, hv⟩

/-- **`or` / `||`** over conjunctions -/
theorem logicalOr_ok_inv (pe optE : P Expr) {i : List Char} {e : Nat} {v : Expr} {r : List Char}
    {e' : Nat} (h : logicalOr pe optE i e = .ok v r e') :
    ∃ a0 i1 e1 as, logicalAnd pe optE i e = .ok a0 i1 e1 ∧
      Run (logicElem "or" "||" (logicalAnd pe optE)) i1 e1 as r e' ∧
      v = as.foldl (fun l x => Expr.logic .or l x) a0 := by
  rw [logicalOr_unfold] at h
  obtain ⟨a0, i1, e1, h0, h1⟩ := bind_ok_inv h
  obtain ⟨as, hr, hv⟩ := foldMany0_ok_inv _ _ _ h1
  exact ⟨a0, i1, e1, as, h0, hr, hv⟩

/-- **a comparison**: one arithmetic expression, or two joined by ONE comparison operator (the
right-hand side replaced by the error node when it is missing) — comparisons do not chain -/
theorem cmpExpr_ok_inv (pe optE : P Expr) {i : List Char} {e : Nat} {v : Expr} {r : List Char}
    {e' : Nat} (h : cmpExpr pe optE i e = .ok v r e') :
    ∃ l i1 e1, arithExpr pe optE (skipWs i) e = .ok l i1 e1 ∧
      (v = l ∨ ∃ op rhs, v = .cmp op l rhs) := by
  rw [cmpExpr_unfold] at h
  obtain ⟨_, j, ej, hws, h1⟩ := bind_ok_inv h
  simp only [ws0, Res.ok.injEq] at hws
  obtain ⟨-, rfl, rfl⟩ := hws
  obtain ⟨l, i1, e1, hl, h2⟩ := bind_ok_inv h1
  obtain ⟨o, i2, e2, _, h3⟩ := bind_ok_inv h2
  refine ⟨l, i1, e1, hl, ?_⟩
  cases o with
  | none => simp only [P.pure', Res.ok.injEq] at h3; exact .inl h3.1.symm
  | some p => obtain ⟨op, rhs⟩ := p; simp only [P.pure', Res.ok.injEq] at h3; exact .inr ⟨op, rhs, h3.1.symm⟩

/-! ### what the operators of a level are -/

theorem wsTok_ok_inv {τ : Type} (p : P τ) {i : List Char} {e : Nat} {t : τ} {r : List Char} {e' : Nat}
    (h : wsTok p i e = .ok t r e') : ∃ r0, p (skipWs i) e = .ok t r0 e' := by
  unfold wsTok at h
  obtain ⟨a, j, ej, h1, h2⟩ := bind_ok_inv h
  obtain ⟨_, j0, e0, hws, hp⟩ := bind_ok_inv h1
  simp only [ws0, Res.ok.injEq] at hws
  obtain ⟨-, rfl, rfl⟩ := hws
  obtain ⟨_, j2, e2, hws2, h3⟩ := bind_ok_inv h2
  simp only [ws0, Res.ok.injEq] at hws2
  obtain ⟨-, rfl, rfl⟩ := hws2
  simp only [P.pure', Res.ok.injEq] at h3
  obtain ⟨rfl, -, rfl⟩ := h3
  exact ⟨j, hp⟩

theorem muldivOp_ok {i : List Char} {e : Nat} {op : ArithOp} {r : List Char} {e' : Nat}
    (h : muldivOp i e = .ok op r e') : op = .mul ∨ op = .div := by
  simp only [muldivOp, alt, pmap, tag] at h
  cases h1 : Text.stripPrefix? ['*'] i <;> simp [h1, Res.castErr] at h
  · cases h2 : Text.stripPrefix? ['/'] i <;> simp [h2] at h
    exact .inr h.1.symm
  · exact .inl h.1.symm

theorem addsubOp_ok {i : List Char} {e : Nat} {op : ArithOp} {r : List Char} {e' : Nat}
    (h : addsubOp i e = .ok op r e') : op = .add ∨ op = .sub := by
  simp only [addsubOp, alt, pmap, tag] at h
  cases h1 : Text.stripPrefix? ['+'] i <;> simp [h1, Res.castErr] at h
  · cases h2 : Text.stripPrefix? ['-'] i <;> simp [h2] at h
    exact .inr h.1.symm
  · exact .inl h.1.symm

/-- a value `unary` returned somewhere (an atom, a negation, a PARENTHESISED expression …) -/
def UnaryVal (pe optE : P Expr) (x : Expr) : Prop := ∃ j ej k ek, unary pe optE j ej = .ok x k ek

/-- one `* u` / `/ u` step: the operator is `*` or `/`, the operand a `unary` value (the error node
when it is missing) -/
theorem termElem_ok_inv (pe optE : P Expr) {i : List Char} {e : Nat} {p : ArithOp × Expr}
    {k : List Char} {e' : Nat} (h : termElem pe optE i e = .ok p k e') :
    (p.1 = .mul ∨ p.1 = .div) ∧ (UnaryVal pe optE p.2 ∨ p.2 = Expr.error) := by
  unfold termElem at h
  obtain ⟨op, j, ej, h1, h2⟩ := bind_ok_inv h
  obtain ⟨r0, hop⟩ := wsTok_ok_inv _ h1
  obtain ⟨o, j2, e2, h3, h4⟩ := bind_ok_inv h2
  cases o with
  | some x =>
    simp only [P.pure', Res.ok.injEq] at h4
    obtain ⟨rfl, -, -⟩ := h4
    simp only [opt] at h3
    cases hu : unary pe optE j ej <;> rw [hu] at h3 <;> simp at h3
    obtain ⟨rfl, rfl, rfl⟩ := h3
    exact ⟨muldivOp_ok hop, .inl ⟨_, _, _, _, hu⟩⟩
  | none =>
    obtain ⟨_, j3, e3, _, h5⟩ := bind_ok_inv h4
    simp only [P.pure', Res.ok.injEq] at h5
    obtain ⟨rfl, -, -⟩ := h5
    exact ⟨muldivOp_ok hop, .inr rfl⟩

/-- a product: a left fold of `*` `/` over `unary` values -/
def ProdVal (pe optE : P Expr) (x : Expr) : Prop :=
  ∃ (u0 : Expr) (us : List (ArithOp × Expr)), UnaryVal pe optE u0 ∧
    x = us.foldl (fun l (p : ArithOp × Expr) => Expr.arith p.1 l p.2) u0 ∧
    ∀ q ∈ us, (q.1 = .mul ∨ q.1 = .div) ∧ (UnaryVal pe optE q.2 ∨ q.2 = Expr.error)

theorem term_prodVal (pe optE : P Expr) {i : List Char} {e : Nat} {v : Expr} {r : List Char}
    {e' : Nat} (h : term pe optE i e = .ok v r e') : ProdVal pe optE v := by
  obtain ⟨u0, i1, e1, ps, h0, hr, hv⟩ := term_ok_inv pe optE h
  refine ⟨u0, ps, ⟨_, _, _, _, h0⟩, hv, ?_⟩
  intro q hq
  obtain ⟨j, ej, k, ek, hf⟩ := hr.mem q hq
  exact termElem_ok_inv pe optE hf

/-- one `+ t` / `- t` step: the operator is `+` or `-`, the operand a product (the error node when
`term` did not accept what follows) -/
theorem addElem_ok_inv (pe optE : P Expr) {i : List Char} {e : Nat} {p : ArithOp × Expr}
    {k : List Char} {e' : Nat} (h : addElem pe optE i e = .ok p k e') :
    (p.1 = .add ∨ p.1 = .sub) ∧ (ProdVal pe optE p.2 ∨ p.2 = Expr.error) := by
  unfold addElem at h
  obtain ⟨op, j, ej, h1, h2⟩ := bind_ok_inv h
  obtain ⟨r0, hop⟩ := wsTok_ok_inv _ h1
  obtain ⟨o, j2, e2, h3, h4⟩ := bind_ok_inv h2
  simp only [P.pure', Res.ok.injEq] at h4
  obtain ⟨rfl, -, -⟩ := h4
  refine ⟨addsubOp_ok hop, ?_⟩
  cases o with
  | none => exact .inr rfl
  | some x =>
    left
    simp only [expectFn, expectAt] at h3
    cases ht : term pe optE j ej <;> rw [ht] at h3
    · simp only [Res.ok.injEq, Option.some.injEq] at h3
      obtain ⟨rfl, -, -⟩ := h3
      exact term_prodVal pe optE ht
    all_goals (first | (simp only [resumeAt] at h3; split at h3 <;> simp at h3) | simp at h3)

/-! ### the headlines -/

/-- **C05 (`*` `/` bind tighter than `+` `-`, left-associatively) — for every accepted input.**
Whatever `arithExpr` accepts is a left fold of `+` / `-` over products, each product a left fold of
`*` / `/` over `unary` values.  So a `+` or `-` can be an operand of `*` or `/` only inside a
`unary` value — i.e. when the text has the parentheses. -/
theorem C05_precedence_arith (pe optE : P Expr) {i : List Char} {e : Nat} {v : Expr} {r : List Char}
    {e' : Nat} (h : arithExpr pe optE i e = .ok v r e') :
    ∃ (t0 : Expr) (ts : List (ArithOp × Expr)), ProdVal pe optE t0 ∧
      v = ts.foldl (fun l (p : ArithOp × Expr) => Expr.arith p.1 l p.2) t0 ∧
      ∀ p ∈ ts, (p.1 = .add ∨ p.1 = .sub) ∧ (ProdVal pe optE p.2 ∨ p.2 = Expr.error) := by
  obtain ⟨t0, i1, e1, ps, h0, hr, hv⟩ := arithExpr_ok_inv pe optE h
  refine ⟨t0, ps, term_prodVal pe optE h0, hv, ?_⟩
  intro p hp
  obtain ⟨j, ej, k, ek, hf⟩ := hr.mem p hp
  exact addElem_ok_inv pe optE hf

/-- **C05 (`and` binds tighter than `or`, both left-associative; comparisons below them) — for
every accepted input.**  Whatever `logicalOr` accepts is a left fold of `or` over values each of
which was returned by the element parser of the `or` level, the first being a `logicalAnd` value;
every `logicalAnd` value is a left fold of `and` starting from a comparison. -/
theorem C05_precedence_logic (pe optE : P Expr) {i : List Char} {e : Nat} {v : Expr} {r : List Char}
    {e' : Nat} (h : logicalOr pe optE i e = .ok v r e') :
    ∃ (c0 : Expr) (cs as : List Expr), (∃ j ej k ek, cmpExpr pe optE j ej = .ok c0 k ek) ∧
      v = as.foldl (fun l x => Expr.logic .or l x) (cs.foldl (fun l x => Expr.logic .and l x) c0) ∧
      (∀ x ∈ cs, ∃ j ej k ek, logicElem "and" "&&" (cmpExpr pe optE) j ej = .ok x k ek) ∧
      (∀ x ∈ as, ∃ j ej k ek, logicElem "or" "||" (logicalAnd pe optE) j ej = .ok x k ek) := by
  obtain ⟨a0, i1, e1, as, h0, hr, hv⟩ := logicalOr_ok_inv pe optE h
  obtain ⟨c0, i2, e2, cs, hc, hrc, hvc⟩ := logicalAnd_ok_inv pe optE h0
  exact ⟨c0, cs, as, ⟨_, _, _, _, hc⟩, by rw [hv, hvc], hrc.mem, hr.mem⟩


/-! ### the chain is inhabited: a real text through the general theorems -/

/-- `arithExpr` (with the real sub-parsers, nesting fuel 3) accepts `a + b * c` … -/
def isOk {α : Type} : Res α → Bool
  | .ok _ _ _ => true
  | _ => false

theorem ex_accepts : isOk (arithExpr (exprN 3) (optExprN 3) q!"a + b * c" 0) = true := by decide

/-- … and therefore (inversion, not evaluation) its value is a left fold of `+`/`-` over products:
here one product `a`, then `+` applied to the product `b * c` -/
example : ∃ v r e', arithExpr (exprN 3) (optExprN 3) q!"a + b * c" 0 = .ok v r e' ∧
    ∃ (t0 : Expr) (ts : List (ArithOp × Expr)), ProdVal (exprN 3) (optExprN 3) t0 ∧
      v = ts.foldl (fun l (p : ArithOp × Expr) => Expr.arith p.1 l p.2) t0 ∧
      ∀ p ∈ ts, (p.1 = .add ∨ p.1 = .sub) ∧
        (ProdVal (exprN 3) (optExprN 3) p.2 ∨ p.2 = Expr.error) := by
  have h := ex_accepts
  cases hr : arithExpr (exprN 3) (optExprN 3) q!"a + b * c" 0 with
  | ok v r e' => exact ⟨v, r, e', rfl, C05_precedence_arith _ _ hr⟩
  | fail _ _ => rw [hr] at h; cases h
  | failure _ _ => rw [hr] at h; cases h
  | panic _ => rw [hr] at h; cases h
  | unmod _ => rw [hr] at h; cases h

/-- the run of the `+` level for that text is a `Steps` derivation of C05prec.lean as well (the
element parser is `Mono`), so the forward theorem `foldMany0_left_fold` applies to it -/
theorem run_steps_of_mono {β : Type} {f : P β} (hm : Mono f) {i : List Char} {e : Nat}
    {bs : List β} {iF : List Char} {eF : Nat} (h : Run f i e bs iF eF) (init : Expr)
    (g : Expr → β → Expr) : foldMany0 f init g i e = .ok (bs.foldl g init) iF eF :=
  foldMany0_left_fold f init g (h.toSteps hm)

end Ag.C05prec

#print axioms Ag.C05prec.foldLoop_ok_inv
#print axioms Ag.C05prec.term_ok_inv
#print axioms Ag.C05prec.arithExpr_ok_inv
#print axioms Ag.C05prec.cmpExpr_ok_inv
#print axioms Ag.C05prec.logicalAnd_ok_inv
#print axioms Ag.C05prec.logicalOr_ok_inv
#print axioms Ag.C05prec.C05_precedence_arith
#print axioms Ag.C05prec.C05_precedence_logic
