/-
C04  Every query is either fully honoured or rejected with a diagnostic.

Theorems over the parser model (AgModel/Lang/Parser.lean, tied to src/lang.rs by the PARSE
correspondence) and the type checker / planner model (AgModel/Pipeline.lean):

* `C04_static_*`: each documented static error is rejected, for ALL instances — zero / fractional
  limit, capture/field count mismatch, two `from` clauses, constant non-Boolean `where`, unknown
  function (anywhere inside an expression), missing arguments (`Expr.error` anywhere inside an
  expression, `count_distinct` with 0 or ≥ 2 arguments, `timeslice` without a duration, bare
  `where`), percentile outside (0,100);
* `C04_plan_rejects_*`: a statically wrong stage ANYWHERE in the pipeline makes `Pipeline::new`
  (model `planLoop`) refuse the whole query; `Operator.error` is skipped by the planner
  (`planLoop_skips_error`), which is why the parser must never let one through silently;
* the offset helpers of the error recovery never leave the string (`C04_sync_slice`,
  `C04_ws_slice`): with byte offsets (repo commit 8ce3d1f) `input.slice(end..)` is always on a
  char boundary; `C04_char_boundary_counterexample` is the failing case of the old helpers
  (`(a é` / `é|`);
* `C04_total`: the parser model is a total function (every loop carries fuel; accepted by Lean
  without `partial`); `parse_trichotomy` spells out the four possible outcomes; `C04_fuel_partial`:
  the fuel `length + 1` suffices for each repetition combinator (side conditions on the element
  parsers not yet discharged for the whole grammar);
* regressions of the repaired defects, evaluated through the whole parser model (`decide`):
  trailing text, silently dropped stage, blanks before the first bar, cut-short sort direction,
  non-ASCII recovery, duration overflow are now rejected (or fully parsed), and the parser-level
  static errors (unknown operator, unnamed regex captures, `as` on parse regex, percentile range,
  missing arguments) are rejected.

Not proved (stated in DESIGN.md §8 C04 as the target `C04_accept_sound`): that EVERY accepted text
is a rendering of its AST; the token-coverage oracle of harness/src/props/c04.rs checks it on
generated strings.  The former open finding C04/keyword-without-word-boundary is repaired (repo
commit 0324001): `C04_keyword_needs_boundary`, `C04_keyword_at_boundary`, `C04_glued_keywords_rejected`.
-/
import AgModel.Lang.Parser
import AgModel.Pipeline
import AgProofs.Lemmas.LangEq

set_option linter.unusedSimpArgs false

namespace Ag.C04
open Ag Ag.Lang Ag.LangEq

/-! ### static errors at the type checker, for all instances -/

/-- **zero limit** (incl. `-0`, `0.4`…: anything that truncates to zero) -/
theorem C04_static_limit_zero (f : F64) (h : F64.feq (F64.trunc f) F64.zero = true) :
    typecheckInline (.limit (some f)) = .typeError "InvalidLimit" := by
  simp [typecheckInline, h]

/-- **fractional limit** (incl. `inf`, `nan`) -/
theorem C04_static_limit_fraction (f : F64) (h : F64.fractNonzero f = true) :
    typecheckInline (.limit (some f)) = .typeError "InvalidLimit" := by
  simp [typecheckInline, h]

example : F64.fractNonzero (F64.fin false 3 (-1)) = true ∧ F64.fractNonzero F64.nan = true ∧
    F64.fractNonzero (F64.inf false) = true := by decide

/-- **capture / field count mismatch** of a wildcard `parse` -/
theorem C04_static_parse_count (pat : Keyword) (fs : List String) (f1 f2 : Option Expr) (nd nc : Bool)
    (hty : pat.ty ≠ .regex) (hfrom : f1 = none ∨ f2 = none)
    (hne : captureCount pat ≠ fs.length) :
    typecheckInline (.parse pat fs f1 f2 nd nc) = .typeError "ParseNumPatterns" := by
  have hty' : (pat.ty == KwType.regex) = false := by
    cases h : pat.ty <;> simp_all
  cases f1 <;> cases f2 <;> simp_all [typecheckInline]

/-- **two `from` clauses** -/
theorem C04_static_two_from (pat : Keyword) (fs : List String) (a b : Expr) (nd nc : Bool)
    (hty : pat.ty ≠ .regex) :
    typecheckInline (.parse pat fs (some a) (some b) nd nc) = .typeError "DoubleFromClause" := by
  have hty' : (pat.ty == KwType.regex) = false := by
    cases h : pat.ty <;> simp_all
  simp [typecheckInline, hty']

/-- a value that is not a Boolean -/
def notBool : Value → Prop
  | .bool _ => False
  | _ => True

/-- **constant non-Boolean `where`** -/
theorem C04_static_where_constant (v : Value) (h : notBool v) :
    typecheckInline (.whereOp (some (.val v))) = .typeError "ExpectedBool" := by
  cases v <;> simp_all [typecheckInline, Expr.wellTyped, notBool]

/-- **`where` without a condition** -/
theorem C04_static_where_missing : typecheckInline (.whereOp none) = .typeError "ExpectedExpr" := rfl

/-- **`timeslice` without a duration** -/
theorem C04_static_timeslice_missing (e : Expr) (o : Option String) :
    typecheckInline (.timeslice e none o) = .typeError "ExpectedDuration" := rfl

/-! #### unknown functions and missing operands, anywhere inside an expression -/

/-- `s` occurs inside `e` -/
inductive Sub : Expr → Expr → Prop where
  | refl (e : Expr) : Sub e e
  | not {s e : Expr} : Sub s e → Sub s (.not e)
  | cmpL {s l : Expr} (op : CmpOp) (r : Expr) : Sub s l → Sub s (.cmp op l r)
  | cmpR {s r : Expr} (op : CmpOp) (l : Expr) : Sub s r → Sub s (.cmp op l r)
  | arithL {s l : Expr} (op : ArithOp) (r : Expr) : Sub s l → Sub s (.arith op l r)
  | arithR {s r : Expr} (op : ArithOp) (l : Expr) : Sub s r → Sub s (.arith op l r)
  | logicL {s l : Expr} (op : LogicOp) (r : Expr) : Sub s l → Sub s (.logic op l r)
  | logicR {s r : Expr} (op : LogicOp) (l : Expr) : Sub s r → Sub s (.logic op l r)
  | call {s a : Expr} (fn : String) (args : List Expr) : a ∈ args → Sub s a → Sub s (.call fn args)
  | ifC {s c : Expr} (t f : Expr) : Sub s c → Sub s (.ifop c t f)
  | ifT {s t : Expr} (c f : Expr) : Sub s t → Sub s (.ifop c t f)
  | ifF {s f : Expr} (c t : Expr) : Sub s f → Sub s (.ifop c t f)

theorem wellTypedL_false_of_mem {a : Expr} : ∀ {args : List Expr}, a ∈ args → a.wellTyped = false →
    Expr.wellTypedL args = false
  | [], h, _ => by cases h
  | x :: xs, h, ha => by
    rcases List.mem_cons.mp h with rfl | h'
    · simp [Expr.wellTypedL, ha]
    · simp [Expr.wellTypedL, wellTypedL_false_of_mem h' ha]

/-- an ill-typed sub-expression makes the whole expression ill-typed -/
theorem illTyped_of_sub {s e : Expr} (h : Sub s e) (hs : s.wellTyped = false) : e.wellTyped = false := by
  induction h with
  | refl => exact hs
  | not _ ih => simp [Expr.wellTyped, ih]
  | cmpL _ _ _ ih => simp [Expr.wellTyped, ih]
  | cmpR _ _ _ ih => simp [Expr.wellTyped, ih]
  | arithL _ _ _ ih => simp [Expr.wellTyped, ih]
  | arithR _ _ _ ih => simp [Expr.wellTyped, ih]
  | logicL _ _ _ ih => simp [Expr.wellTyped, ih]
  | logicR _ _ _ ih => simp [Expr.wellTyped, ih]
  | call fn args hm _ ih => simp [Expr.wellTyped, wellTypedL_false_of_mem hm ih]
  | ifC _ _ _ ih => simp [Expr.wellTyped, ih]
  | ifT _ _ _ ih => simp [Expr.wellTyped, ih]
  | ifF _ _ _ ih => simp [Expr.wellTyped, ih]

/-- **unknown function**: a call of a name outside the function table is ill-typed … -/
theorem C04_static_unknown_function (n : String) (args : List Expr) (h : isFunction n = false) :
    (Expr.call n args).wellTyped = false := by
  simp [Expr.wellTyped, h]

/-- … wherever it occurs -/
theorem C04_static_unknown_function_anywhere {n : String} {args : List Expr} {e : Expr}
    (h : isFunction n = false) (hs : Sub (.call n args) e) : e.wellTyped = false :=
  illTyped_of_sub hs (C04_static_unknown_function n args h)

/-- **missing operand / argument**: the parser's `Expr.error` placeholder is ill-typed wherever it
occurs -/
theorem C04_static_error_node_anywhere {e : Expr} (hs : Sub .error e) : e.wellTyped = false :=
  illTyped_of_sub hs rfl

example : isFunction "nosuchfn" = false ∧ isFunction "lenght" = false := by decide

/-- every inline operator rejects an ill-typed expression in any of its expression slots -/
theorem C04_static_illTyped_inline (e : Expr) (h : e.wellTyped = false) (n : String) (sep : String)
    (hsep : sep.isEmpty = false) (d : Int) (o : Option String) (x : Option Expr) :
    typecheckInline (.json (some e)) = .typeError "ExpectedExpr" ∧
    typecheckInline (.logfmt (some e)) = .typeError "ExpectedExpr" ∧
    typecheckInline (.whereOp (some e)) = .typeError "ExpectedExpr" ∧
    typecheckInline (.split sep (some e) x) = .typeError "ExpectedExpr" ∧
    typecheckInline (.split sep x (some e)) = .typeError "ExpectedExpr" ∧
    typecheckInline (.timeslice e (some d) o) = .typeError "ExpectedExpr" ∧
    typecheckInline (.total e n) = .typeError "ExpectedExpr" ∧
    typecheckInline (.fieldExpr e n) = .typeError "ExpectedExpr" := by
  refine ⟨?_, ?_, ?_, ?_, ?_, ?_, ?_, ?_⟩ <;> simp [typecheckInline, optWellTyped, h, hsep]

/-- every aggregate function rejects an ill-typed argument; `count_distinct` needs exactly one -/
theorem C04_static_illTyped_agg (e : Expr) (h : e.wellTyped = false) (p : F64) (s : String) :
    typecheckAgg (.count (some e)) = .typeError "ExpectedExpr" ∧
    typecheckAgg (.sum e) = .typeError "ExpectedExpr" ∧
    typecheckAgg (.min e) = .typeError "ExpectedExpr" ∧
    typecheckAgg (.max e) = .typeError "ExpectedExpr" ∧
    typecheckAgg (.avg e) = .typeError "ExpectedExpr" ∧
    typecheckAgg (.pct p s e) = .typeError "ExpectedExpr" ∧
    typecheckAgg (.countDistinct (some [e])) = .typeError "ExpectedExpr" := by
  refine ⟨?_, ?_, ?_, ?_, ?_, ?_, ?_⟩ <;> simp [typecheckAgg, optWellTyped, h]

theorem C04_static_count_distinct_arity (a b : Expr) (l : List Expr) :
    typecheckAgg (.countDistinct none) = .typeError "ExpectedExpr" ∧
    typecheckAgg (.countDistinct (some [])) = .typeError "ExpectedExpr" ∧
    typecheckAgg (.countDistinct (some (a :: b :: l))) = .typeError "ExpectedExpr" := by
  refine ⟨rfl, rfl, rfl⟩

/-! ### the planner: one bad stage anywhere rejects the whole query -/

/-- once `has_errors` is set the planner can no longer accept -/
theorem planLoop_hasErrors (ops : List Operator) :
    ∀ (inAgg : Bool) (pre : List RowOp) (post : List AggStage) (p : Plan),
      planLoop inAgg true pre post ops ≠ .ok p := by
  induction ops with
  | nil => intro inAgg pre post p; simp [planLoop]
  | cons o rest ih =>
    intro inAgg pre post p
    cases o with
    | error => simpa [planLoop] using ih inAgg pre post p
    | alias a => simpa [planLoop] using ih inAgg pre post p
    | inline i =>
      simp only [planLoop]
      cases typecheckInline i with
      | ok op => by_cases hA : inAgg = true <;> simp [hA, ih]
      | typeError k => simp
      | panic s => simp
      | unmodelled w => simp
    | agg m =>
      simp only [planLoop]
      cases convertMultiAgg m with
      | ok g => by_cases hN : needsSortAfter rest = true <;> simp [hN, ih]
      | typeError k => simp [ih]
      | panic s => simp
      | unmodelled w => simp
    | sort cols dir =>
      simp only [planLoop]
      by_cases hW : Expr.wellTypedL cols = true <;> simp [hW, ih]

/-- **C04 (planner, inline stages).** If some stage of the (alias-free) operator list is an inline
operator that the type checker refuses, `Pipeline::new` does not return a pipeline — whatever
surrounds that stage. -/
theorem C04_plan_rejects_bad_inline (ops : List Operator) (i : Inline) (k : String)
    (hm : Operator.inline i ∈ ops) (hk : typecheckInline i = .typeError k) :
    ∀ (inAgg he : Bool) (pre : List RowOp) (post : List AggStage) (p : Plan),
      planLoop inAgg he pre post ops ≠ .ok p := by
  induction ops with
  | nil => cases hm
  | cons o rest ih =>
    intro inAgg he pre post p
    rcases List.mem_cons.mp hm with h0 | h1
    · subst h0
      simp [planLoop, hk]
    · have ih' := ih h1
      cases o with
      | error => simpa [planLoop] using ih' inAgg he pre post p
      | alias a => simpa [planLoop] using ih' inAgg he pre post p
      | inline j =>
        simp only [planLoop]
        cases typecheckInline j with
        | ok op => by_cases hA : inAgg = true <;> simp [hA, ih']
        | typeError k => simp
        | panic s => simp
        | unmodelled w => simp
      | agg m =>
        simp only [planLoop]
        cases convertMultiAgg m with
        | ok g => by_cases hN : needsSortAfter rest = true <;> simp [hN, ih']
        | typeError k => simp [ih']
        | panic s => simp
        | unmodelled w => simp
      | sort cols dir =>
        simp only [planLoop]
        by_cases hW : Expr.wellTypedL cols = true <;> simp [hW, ih']

/-- **C04 (planner, aggregations).** Likewise for an aggregation whose functions or keys the type
checker refuses (`has_errors`). -/
theorem C04_plan_rejects_bad_agg (ops : List Operator) (m : MultiAgg) (k : String)
    (hm : Operator.agg m ∈ ops) (hk : convertMultiAgg m = .typeError k) :
    ∀ (inAgg he : Bool) (pre : List RowOp) (post : List AggStage) (p : Plan),
      planLoop inAgg he pre post ops ≠ .ok p := by
  induction ops with
  | nil => cases hm
  | cons o rest ih =>
    intro inAgg he pre post p
    rcases List.mem_cons.mp hm with h0 | h1
    · subst h0
      simp [planLoop, hk, planLoop_hasErrors]
    · have ih' := ih h1
      cases o with
      | error => simpa [planLoop] using ih' inAgg he pre post p
      | alias a => simpa [planLoop] using ih' inAgg he pre post p
      | inline j =>
        simp only [planLoop]
        cases typecheckInline j with
        | ok op => by_cases hA : inAgg = true <;> simp [hA, ih']
        | typeError k => simp
        | panic s => simp
        | unmodelled w => simp
      | agg m' =>
        simp only [planLoop]
        cases convertMultiAgg m' with
        | ok g => by_cases hN : needsSortAfter rest = true <;> simp [hN, ih']
        | typeError k => simp [ih']
        | panic s => simp
        | unmodelled w => simp
      | sort cols dir =>
        simp only [planLoop]
        by_cases hW : Expr.wellTypedL cols = true <;> simp [hW, ih']

/-- an ill-typed sort key rejects the query -/
theorem C04_plan_rejects_bad_sort (cols : List Expr) (dir : SortDir) (rest : List Operator)
    (h : Expr.wellTypedL cols = false) (inAgg he : Bool) (pre : List RowOp) (post : List AggStage) :
    planLoop inAgg he pre post (.sort cols dir :: rest) = .error "ExpectedExpr" := by
  simp [planLoop, h]

/-- `Pipeline::new` SKIPS `Operator::Error` (src/lib.rs `Operator::Error => {}`): an Error stage
that reaches the planner is silently dropped — the parser must report whenever it produces one
(repo commits aca43de, a4c4b50; before them `* | json | count by x y` ran as `* | json`). -/
theorem planLoop_skips_error (inAgg he : Bool) (pre : List RowOp) (post : List AggStage)
    (rest : List Operator) :
    planLoop inAgg he pre post (.error :: rest) = planLoop inAgg he pre post rest := by
  simp [planLoop]

/-- non-vacuity: a zero limit after two good stages -/
example : ∀ p, planLoop false false [] []
    [.inline (.json none), .inline (.fields .only ["a"]), .inline (.limit (some F64.zero))] ≠ .ok p :=
  C04_plan_rejects_bad_inline _ (.limit (some F64.zero)) "InvalidLimit" (by simp)
    (C04_static_limit_zero F64.zero (by
      simp [F64.trunc, F64.zero, F64.eMin, F64.truncInt, F64.smant, F64.roundInt, F64.feq, F64.pcmp,
        F64.cmpFin])) false false [] []

/-! ### percentile range -/

/-- **percentile outside (0,100)** is reported by the parser (`pctValue = none` is the branch of
`pct` that calls `report_error_for`) -/
theorem C04_static_percentile_range (ds : List Char)
    (h : ¬ (0 < Value.digitsToNat ds ∧ Value.digitsToNat ds < 100)) : pctValue ds = none := by
  unfold pctValue
  by_cases h1 : 0 < Value.digitsToNat ds <;> by_cases h2 : Value.digitsToNat ds < 100 <;> simp_all

theorem C04_percentile_in_range (ds : List Char)
    (h : 0 < Value.digitsToNat ds ∧ Value.digitsToNat ds < 100) :
    pctValue ds = some (F64.div (F64.ofInt (Value.digitsToNat ds)) (F64.ofInt 100),
      toString (Value.digitsToNat ds)) := by
  unfold pctValue
  simp [h.1, h.2]

example : pctValue q!"0" = none ∧ pctValue q!"100" = none ∧ pctValue q!"000" = none := by
  refine ⟨?_, ?_, ?_⟩ <;> exact C04_static_percentile_range _ (by decide)

/-! ### the offset helpers of the error recovery -/

/-- byte length, recursively -/
def len8 : List Char → Nat
  | [] => 0
  | c :: cs => c.utf8Size + len8 cs

theorem foldl_len8 (l : List Char) : ∀ k : Nat, l.foldl (fun n c => n + c.utf8Size) k = k + len8 l := by
  induction l with
  | nil => intro k; simp [len8]
  | cons c cs ih => intro k; simp only [List.foldl_cons, len8]; rw [ih]; omega

theorem utf8Len_eq_len8 (l : List Char) : Text.utf8Len l = len8 l := by
  simp [Text.utf8Len, foldl_len8]

theorem sliceBytes_len8_append (b : List Char) :
    ∀ (a : List Char) (n : Nat), sliceBytes (a ++ b) (len8 a + n) = sliceBytes b n := by
  intro a
  induction a with
  | nil => intro n; simp [len8]
  | cons c cs ih =>
    intro n
    obtain ⟨k, hk⟩ : ∃ k, c.utf8Size = k + 1 := ⟨c.utf8Size - 1, by have := Char.utf8Size_pos c; omega⟩
    have e1 : len8 (c :: cs) + n = (k + len8 cs + n) + 1 := by simp only [len8, hk]; omega
    rw [List.cons_append, e1]
    simp only [sliceBytes]
    have e2 : c.utf8Size ≤ k + len8 cs + n + 1 := by omega
    have e3 : k + len8 cs + n + 1 - c.utf8Size = len8 cs + n := by omega
    simp only [e2, if_true, e3]
    exact ih n

theorem sliceBytes_utf8Len_append (a b : List Char) :
    sliceBytes (a ++ b) (Text.utf8Len a) = some b := by
  have h := sliceBytes_len8_append b a 0
  rw [Nat.add_zero] at h
  rw [utf8Len_eq_len8, h]
  cases b <;> simp [sliceBytes]

theorem takeWhile_append_dropWhile_eq (p : Char → Bool) (s : List Char) :
    s.takeWhile p ++ s.dropWhile p = s := List.takeWhile_append_dropWhile

/-- **C04 (sync point).** `input.slice(to_sync_point..)` never panics and resumes exactly at the
first `|`, `)`, `]`, `}` (or at the end): for ALL strings, ASCII or not. -/
theorem C04_sync_slice (s : List Char) :
    sliceBytes s (syncIdx s) = some (s.dropWhile (fun c => !isSyncCh c)) := by
  have h := sliceBytes_utf8Len_append (s.takeWhile (fun c => !isSyncCh c)) (s.dropWhile (fun c => !isSyncCh c))
  rw [takeWhile_append_dropWhile_eq] at h
  exact h

/-- **C04 (whitespace sync).** Likewise for `to_whitespace` (`req_quoted_string`). -/
theorem C04_ws_slice (s : List Char) :
    sliceBytes s (wsIdx s) = some (s.dropWhile (fun c => !isWsSyncCh c)) := by
  have h := sliceBytes_utf8Len_append (s.takeWhile (fun c => !isWsSyncCh c)) (s.dropWhile (fun c => !isWsSyncCh c))
  rw [takeWhile_append_dropWhile_eq] at h
  exact h

/-- hence `resumeAt` (the only place where the model can answer `panic`) never does -/
theorem C04_resume_no_panic {α} (line : String) (pos : List Char) (errs : Nat) (v : α) :
    resumeAt line pos (syncIdx pos) errs v = .ok v (pos.dropWhile (fun c => !isSyncCh c)) errs ∧
    resumeAt line pos (wsIdx pos) errs v = .ok v (pos.dropWhile (fun c => !isWsSyncCh c)) errs := by
  simp [resumeAt, C04_sync_slice, C04_ws_slice]

/-- `to_sync_point` before repo commit 8ce3d1f: the CHARACTER index of the sync point (or the byte
length), used as a byte offset -/
def syncIdxOld (s : List Char) : Nat :=
  match s.findIdx? isSyncCh with
  | some k => k
  | none => Text.utf8Len s

/-- **Counterexample for the old helpers** (`* | where é|`, `* | json | count(é)`): character index
1 is inside the two-byte `é`, so `input.slice(1..)` panics. -/
theorem C04_char_boundary_counterexample :
    sliceBytes q!"é|" (syncIdxOld q!"é|") = none ∧ sliceBytes q!"é)" (syncIdxOld q!"é)") = none := by
  decide

/-! ### totality -/

/-- the four possible outcomes -/
theorem parse_trichotomy (s : List Char) :
    (∃ q, parseChars s = .accept q) ∨ parseChars s = .reject ∨
    (∃ site, parseChars s = .panic site) ∨ (∃ w, parseChars s = .unmodelled w) := by
  cases h : parseChars s with
  | accept q => exact Or.inl ⟨q, rfl⟩
  | reject => exact Or.inr (Or.inl rfl)
  | panic site => exact Or.inr (Or.inr (Or.inl ⟨site, rfl⟩))
  | unmodelled w => exact Or.inr (Or.inr (Or.inr ⟨w, rfl⟩))

/-- **C04 (totality).** The parser model is a total function on all strings: every repetition
(`many0`, `fold_many0`, `many_till`, `separated_list`) recurses structurally on fuel = remaining
length + 1 and nesting on fuel = length + 2, so Lean's termination checker accepted it without
`partial`.  That the fuel never runs out — answer `unmodelled "fuel"` — is a separate theorem:
`C04_parse_never_out_of_fuel` in AgProofs/Props/C04fuel.lean (for every input).  This statement
itself is definitional and kept only as the place where that is said. -/
theorem C04_total (s : String) : ∃ r : ParseResult, parseQuery s = r := ⟨_, rfl⟩

/-! ### fuel sufficiency of the repetition combinators (partial) -/

/-- the element parser never hands back more input than it was given -/
def NonLengthening {α} (f : P α) : Prop := ∀ i e v r e', f i e = .ok v r e' → r.length ≤ i.length
/-- the element parser does not itself run out of fuel -/
def FuelOK {α} (f : P α) : Prop := ∀ i e, f i e ≠ .unmod "fuel"

theorem many0Loop_fuel {α} (f : P α) (hl : NonLengthening f) (hf : FuelOK f) :
    ∀ (n : Nat) (acc : List α) (i : List Char) (e : Nat), i.length < n →
      many0Loop f n acc i e ≠ .unmod "fuel" := by
  intro n
  induction n with
  | zero => intro acc i e h; omega
  | succ n ih =>
    intro acc i e h
    simp only [many0Loop]
    cases hfi : f i e with
    | ok o i1 e1 =>
      have hle := hl i e o i1 e1 hfi
      by_cases heq : (i1.length == i.length) = true
      · simp [heq]
      · have hne : i1.length ≠ i.length := by simpa using heq
        simp only [heq]
        exact ih (o :: acc) i1 e1 (by omega)
    | fail p e1 => simp
    | failure p e1 => simp [Res.castErr]
    | panic s => simp [Res.castErr]
    | unmod w =>
      have := hf i e
      rw [hfi] at this
      simp [Res.castErr]
      intro hw; subst hw; exact this rfl

theorem foldLoop_fuel {α β} (f : P β) (g : α → β → α) (hl : NonLengthening f) (hf : FuelOK f) :
    ∀ (n : Nat) (acc : α) (i : List Char) (e : Nat), i.length < n →
      foldLoop f g n acc i e ≠ .unmod "fuel" := by
  intro n
  induction n with
  | zero => intro acc i e h; omega
  | succ n ih =>
    intro acc i e h
    simp only [foldLoop]
    cases hfi : f i e with
    | ok o i1 e1 =>
      have hle := hl i e o i1 e1 hfi
      by_cases heq : (i1.length == i.length) = true
      · simp [heq]
      · have hne : i1.length ≠ i.length := by simpa using heq
        simp only [heq]
        exact ih (g acc o) i1 e1 (by omega)
    | fail p e1 => simp
    | failure p e1 => simp [Res.castErr]
    | panic s => simp [Res.castErr]
    | unmod w =>
      have := hf i e
      rw [hfi] at this
      simp [Res.castErr]
      intro hw; subst hw; exact this rfl

theorem manyTillLoop_fuel {α β} (f : P α) (g : P β) (hl : NonLengthening f) (hf : FuelOK f) (hg : FuelOK g) :
    ∀ (n : Nat) (acc : List α) (i : List Char) (e : Nat), i.length < n →
      manyTillLoop f g n acc i e ≠ .unmod "fuel" := by
  intro n
  induction n with
  | zero => intro acc i e h; omega
  | succ n ih =>
    intro acc i e h
    simp only [manyTillLoop]
    cases hgi : g i e with
    | ok o i1 e1 => simp
    | fail p e1 =>
      simp only
      cases hfi : f i e1 with
      | ok o i1 e2 =>
        have hle := hl i e1 o i1 e2 hfi
        by_cases heq : (i1.length == i.length) = true
        · simp [heq]
        · have hne : i1.length ≠ i.length := by simpa using heq
          simp only [heq]
          exact ih (o :: acc) i1 e2 (by omega)
      | fail p e2 => simp
      | failure p e2 => simp [Res.castErr]
      | panic s => simp [Res.castErr]
      | unmod w =>
        have := hf i e1
        rw [hfi] at this
        simp [Res.castErr]
        intro hw; subst hw; exact this rfl
    | failure p e1 => simp [Res.castErr]
    | panic s => simp [Res.castErr]
    | unmod w =>
      have := hg i e
      rw [hgi] at this
      simp [Res.castErr]
      intro hw; subst hw; exact this rfl

theorem sepLoop_fuel {α β} (sep : P β) (f : P α) (hls : NonLengthening sep) (hl : NonLengthening f)
    (hs : FuelOK sep) (hf : FuelOK f) :
    ∀ (n : Nat) (acc : List α) (i : List Char) (e : Nat), i.length < n →
      sepLoop sep f n acc i e ≠ .unmod "fuel" := by
  intro n
  induction n with
  | zero => intro acc i e h; omega
  | succ n ih =>
    intro acc i e h
    simp only [sepLoop]
    cases hsi : sep i e with
    | ok o i1 e1 =>
      have hle := hls i e o i1 e1 hsi
      by_cases heq : (i1.length == i.length) = true
      · simp [heq]
      · have hne : i1.length ≠ i.length := by simpa using heq
        simp only [heq]
        cases hfi : f i1 e1 with
        | ok o2 i2 e2 =>
          have hle2 := hl i1 e1 o2 i2 e2 hfi
          exact ih (o2 :: acc) i2 e2 (by omega)
        | fail p e2 => simp
        | failure p e2 => simp [Res.castErr]
        | panic s => simp [Res.castErr]
        | unmod w =>
          have := hf i1 e1
          rw [hfi] at this
          simp [Res.castErr]
          intro hw; subst hw; exact this rfl
    | fail p e1 => simp
    | failure p e1 => simp [Res.castErr]
    | panic s => simp [Res.castErr]
    | unmod w =>
      have := hs i e
      rw [hsi] at this
      simp [Res.castErr]
      intro hw; subst hw; exact this rfl

/-- **C04 (fuel, partial).** With the fuel the model uses (`remaining length + 1`) none of the four
repetition combinators runs out of fuel, provided the element parsers do not lengthen their input
and do not themselves run out of fuel.  (The two side conditions are proved for every grammar function — in the stronger,
length-bounded form `Good` — in AgProofs/Props/C04fuel.lean, where `parseChars s ≠ unmodelled
"fuel"` for all `s` is `C04_parse_never_out_of_fuel`.) -/
theorem C04_fuel_partial {α β} (f : P α) (g : P β) (hl : NonLengthening f) (hlg : NonLengthening g)
    (hf : FuelOK f) (hg : FuelOK g) (i : List Char) (e : Nat) :
    many0 f i e ≠ .unmod "fuel" ∧ manyTill f g i e ≠ .unmod "fuel" ∧
    (∀ (i1 : List Char) (acc : List α), sepLoop g f (i1.length + 1) acc i1 e ≠ .unmod "fuel") := by
  refine ⟨?_, ?_, ?_⟩
  · exact many0Loop_fuel f hl hf _ _ _ _ (by omega)
  · exact manyTillLoop_fuel f g hl hf hg _ _ _ _ (by omega)
  · intro i1 acc; exact sepLoop_fuel g f hlg hl hg hf _ _ _ _ (by omega)

theorem stripPrefix_len : ∀ (p s r : List Char), Text.stripPrefix? p s = some r → r.length ≤ s.length
  | [], s, r, h => by simp [Text.stripPrefix?] at h; subst h; exact Nat.le_refl _
  | _ :: _, [], r, h => by simp [Text.stripPrefix?] at h
  | p :: ps, c :: cs, r, h => by
    simp only [Text.stripPrefix?] at h
    split at h
    · have := stripPrefix_len ps cs r h
      simp only [List.length_cons]; omega
    · simp at h

/-- non-vacuity: every `tag` satisfies both side conditions -/
theorem tag_side_conditions (s : String) : NonLengthening (tag s) ∧ FuelOK (tag s) := by
  constructor
  · intro i e v r e' h
    simp only [tag] at h
    split at h
    · rename_i r' hr
      simp only [Res.ok.injEq] at h
      obtain ⟨_, h2, _⟩ := h
      subst h2
      exact stripPrefix_len _ _ _ hr
    · simp at h
  · intro i e h
    simp only [tag] at h
    split at h <;> simp at h

/-! ### regressions of the repaired defects and parser-level static errors (evaluated) -/

/-- rejected by the parser model -/
abbrev rejects (q : List Char) : Prop := isReject (parseChars q) = true
/-- accepted with exactly `n` operators and no `Operator.error` among them -/
def acceptsWith (q : List Char) (n : Nat) : Bool :=
  match parseChars q with
  | .accept q => q.ops.length == n && q.ops.all (fun o => match o with
      | .error => false
      | _ => true)
  | _ => false

-- A: text after the last parsable operator
theorem reg_trailing_1 : rejects q!"* | json | fields x b" := by decide
theorem reg_trailing_2 : rejects q!"* | json | n + 1 as m extra | limit 1" := by decide
theorem reg_trailing_3 : rejects q!"* | json | sorted by x | limit 1" := by decide
theorem reg_trailing_4 : rejects q!"* | json | sort by x desc,y" := by decide
theorem reg_trailing_5 : rejects q!"* | json | apache x" := by decide
theorem reg_leading_blank : acceptsWith q!" | count" 1 = true := by decide
theorem reg_descending : acceptsWith q!"* | json | sort by x descending | limit 1" 3 = true := by decide
-- B: a stage that cannot be parsed is reported, not dropped
theorem reg_dropped_1 : rejects q!"* | json | count by x y" := by decide
theorem reg_dropped_2 : rejects q!"* | json | fields except" := by decide
theorem reg_dropped_3 : rejects q!"* | json | count_distinct x" := by decide
theorem reg_dropped_4 : rejects q!"* | parse" := by decide
theorem reg_dropped_5 : rejects q!"* | json | count by x," := by decide
-- F: recovery over non-ASCII text and duration overflow: rejected, no panic
theorem reg_nonascii_1 : rejects q!"(a é" := by decide
theorem reg_nonascii_2 : rejects q!"* | where é|" := by decide
theorem reg_nonascii_3 : rejects q!"* | json | count(é)" := by decide
theorem reg_nonascii_4 : rejects q!"* | parse é x" := by decide
theorem reg_duration_1 : rejects q!"* | where x == 9223372036854775807w" := by decide
theorem reg_duration_2 : rejects q!"* | where -9223372036854775808ms" := by decide
theorem reg_duration_3 : rejects q!"* | where 9000000000000000s9000000000000000s" := by decide
-- E: non-ASCII letters are not identifier characters
theorem reg_truncating_cast : rejects q!"* | json | š1 as x" := by decide
-- parser-level static errors
theorem static_unknown_operator_1 : rejects q!"* | nosuchop" := by decide
theorem static_unknown_operator_2 : rejects q!"* | json | cuont by x" := by decide
theorem static_unknown_operator_3 : rejects q!"* | json | count, nosuch by x" := by decide
theorem static_unnamed_capture : rejects q!"* | parse regex \"(\\d+)\"" := by decide
theorem static_as_on_parse_regex : rejects q!"* | parse regex \"(?P<a>\\d+)\" as x" := by decide
theorem static_percentile_0 : rejects q!"* | json | p0(x)" := by decide
theorem static_percentile_100 : rejects q!"* | json | pct100(x)" := by decide
theorem static_missing_arg_1 : rejects q!"* | json | sum" := by decide
theorem static_missing_arg_2 : rejects q!"* | json | sum()" := by decide
theorem static_missing_arg_3 : rejects q!"* | json | total" := by decide
theorem static_missing_arg_4 : rejects q!"* | json | x + as y" := by decide
theorem static_missing_arg_5 : rejects q!"* | json | where x >" := by decide
theorem static_missing_arg_6 : rejects q!"* | json | if(a, b) as c" := by decide
theorem static_missing_arg_7 : rejects q!"* | json | sort by" := by decide

/-- **C04 (regressions).** The witnesses of the defects repaired in this round (known_findings.json,
status fixed) are rejected — or, for the two spellings that were cut short, parsed completely —
by the model of the repaired parser. -/
theorem C04_regressions :
    rejects q!"* | json | fields x b" ∧ rejects q!"* | json | count by x y" ∧
    rejects q!"(a é" ∧ rejects q!"* | where x == 9223372036854775807w" ∧
    acceptsWith q!" | count" 1 = true ∧
    acceptsWith q!"* | json | sort by x descending | limit 1" 3 = true :=
  ⟨reg_trailing_1, reg_dropped_1, reg_nonascii_1, reg_duration_1, reg_leading_blank, reg_descending⟩

/-- **C04 (parser-level static errors).** Unknown operator, unnamed regex captures, `as` on parse
regex, percentile outside (0,100), missing arguments: rejected by the parser model. -/
theorem C04_static_parser_level :
    rejects q!"* | nosuchop" ∧ rejects q!"* | parse regex \"(\\d+)\"" ∧
    rejects q!"* | parse regex \"(?P<a>\\d+)\" as x" ∧ rejects q!"* | json | p0(x)" ∧
    rejects q!"* | json | pct100(x)" ∧ rejects q!"* | json | sum" ∧ rejects q!"* | json | where x >" :=
  ⟨static_unknown_operator_1, static_unnamed_capture, static_as_on_parse_regex, static_percentile_0,
   static_percentile_100, static_missing_arg_1, static_missing_arg_5⟩

/-! ### keywords end at a word boundary (finding C04/keyword-without-word-boundary, fixed by repo
commit 0324001) -/

/-- **C04 (keyword boundary), for every keyword and every continuation.** A keyword directly
followed by an identifier character is NOT recognised as that keyword (`countby`, `asx`, `onlyx`,
`trueish`): the keyword parser fails at the offending character, whatever follows. -/
theorem C04_keyword_needs_boundary (w : String) (c : Char) (rest : List Char) (e : Nat)
    (hc : isIdentCh c = true) : kw w (w.toList ++ c :: rest) e = .fail (c :: rest) e :=
  kw_glued w w.toList rfl c rest e hc

/-- … and at a word boundary (end of input, blank, punctuation) it consumes exactly the word. -/
theorem C04_keyword_at_boundary (w : String) (rest : List Char) (e : Nat) (h : Boundary rest) :
    kw w (w.toList ++ rest) e = .ok () rest e :=
  kw_boundary w w.toList rest rfl e h

example : isIdentCh 'b' = true ∧ isIdentCh '_' = true ∧ isIdentCh '5' = true ∧
    isIdentCh '(' = false ∧ isIdentCh ' ' = false := by decide

-- the glued spellings that used to be accepted as if a blank followed the keyword
theorem glued_1 : rejects q!"* | json | countby x" := by decide
theorem glued_2 : rejects q!"* | parse \"*\" asx" := by decide
theorem glued_3 : isAccept (parseChars q!"* | json | count_distinct(x)by y") = true := by decide
theorem glued_4 : rejects q!"* | json | sort by x descx" := by decide
theorem glued_5 : rejects q!"* | json | where a andb" := by decide

/-- **C04 (glued keywords, evaluated).** `countby x`, `parse "*" asx`, `sort by x descx` are rejected;
`fields onlyx` keeps the field `onlyx` (the mode is optional).  `count_distinct(x)by y` stays
accepted: `)` ends the word before `by`. -/
theorem C04_glued_keywords_rejected :
    rejects q!"* | json | countby x" ∧ rejects q!"* | parse \"*\" asx" ∧
    rejects q!"* | json | sort by x descx" ∧
    sameAst q!"* | json | fields onlyx" q!"* | json | fields [\"onlyx\"]" = true :=
  ⟨glued_1, glued_2, glued_4, by decide⟩

end Ag.C04
