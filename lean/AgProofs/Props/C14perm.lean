/-
C14 (permuting the input does not change the emitted table) — the whole-table statement for the
aggregate functions that are exact under permutation.

`C14_cell_perm_exact` (C14table.lean) gives equal printed cells for matching groups.  Here the
bookkeeping that was left:

* `keyEq_eq` — on normalised keys with canonical doubles (`inS`, `inC`) the HashMap's key equality
  is identity, so the two states store the SAME key tuples (`keys_mem_iff`, `keys_nodup`);
* `emitRow_congr` — `emitRow` is a function of the key tuple and of the emitted values: entries with
  the same key whose accumulators emit the same values produce the same row (same outcome, even);
* `C14_table_perm_exact` — hence the two states produce the same multiset of rows, and the sorted
  emission (`C13.rowOrderLaws_of_state`) is the same table.
-/
import AgProofs.Props.C14table

namespace Ag.C14
open C01 C13 Value

/-! ### (1) normalised keys: `keyEq` is identity -/

theorem keyEq_eq : ∀ (a b : List Value), (∀ v ∈ a, inS v = true ∧ C09.inC v = true) →
    (∀ v ∈ b, inS v = true ∧ C09.inC v = true) → keyEq a b = true → a = b
  | [], b, _, _, h => by cases b <;> simp [keyEq, beqL] at h ⊢
  | x :: xs, b, ha, hb, h => by
    cases b with
    | nil => simp [keyEq, beqL] at h
    | cons y ys =>
      simp only [keyEq, beqL, Bool.and_eq_true] at h
      have hx := ha x (by simp)
      have hy := hb y (by simp)
      rw [C09.eq_of_beq x y hx.1 hy.1 hx.2 hy.2 h.1,
        keyEq_eq xs ys (fun v hv => ha v (by simp [hv])) (fun v hv => hb v (by simp [hv])) h.2]

theorem lookup_some_mem : ∀ (st : GroupState) (k : List Value) (accs : List (String × Acc)),
    lookup k st = some accs → ∃ e ∈ st, keyEq e.1 k = true ∧ e.2 = accs := by
  intro st
  induction st with
  | nil => intro k accs h; simp [lookup] at h
  | cons hd rest ih =>
    intro k accs h
    obtain ⟨k0, a0⟩ := hd
    simp only [lookup] at h
    by_cases hk : keyEq k0 k = true
    · simp only [hk, if_true, Option.some.injEq] at h
      exact ⟨(k0, a0), by simp, hk, h⟩
    · simp only [hk, Bool.false_eq_true, if_false] at h
      obtain ⟨e, he, h1, h2⟩ := ih k accs h
      exact ⟨e, by simp [he], h1, h2⟩

def NormKeys (st : GroupState) : Prop := ∀ e ∈ st, ∀ v ∈ e.1, inS v = true ∧ C09.inC v = true

/-- the keys stored in a reachable state with normalised keys are pairwise different -/
theorem keys_nodup (st : GroupState) (hd : KeysDistinct st) : (st.map Prod.fst).Nodup := by
  induction st with
  | nil => simp
  | cons e rest ih =>
    obtain ⟨k, accs⟩ := e
    obtain ⟨h1, h2⟩ := hd
    rw [List.map_cons, List.nodup_cons]
    refine ⟨?_, ih h2⟩
    intro hm
    obtain ⟨e', he', hk⟩ := List.mem_map.1 hm
    have := h1 e' he'
    rw [hk, keyLaws.refl] at this
    cases this

/-- permuted inputs store the same key tuples -/
theorem keys_subset (ext : Ext) (g : Grouper) {rows₁ rows₂ : List Fields} (hp : rows₁.Perm rows₂)
    (st₁ st₂ : GroupState) (h₁ : foldRows ext g [] rows₁ = .ok st₁)
    (h₂ : foldRows ext g [] rows₂ = .ok st₂) (hn₁ : NormKeys st₁) (hn₂ : NormKeys st₂) :
    ∀ k ∈ st₁.map Prod.fst, k ∈ st₂.map Prod.fst := by
  intro k hk
  obtain ⟨e₁, he₁, rfl⟩ := List.mem_map.1 hk
  have hl := lookup_of_mem st₁ (C01_one_row_per_key ext g rows₁ st₁ h₁) e₁ he₁
  have hs := C14_groups_perm_all ext g hp st₁ st₂ e₁.1 h₁ h₂
  rw [hl] at hs
  simp only [Option.isSome_some] at hs
  obtain ⟨accs, ha⟩ := Option.isSome_iff_exists.1 hs.symm
  obtain ⟨e₂, he₂, hke, _⟩ := lookup_some_mem st₂ e₁.1 accs ha
  have := keyEq_eq e₂.1 e₁.1 (hn₂ e₂ he₂) (hn₁ e₁ he₁) hke
  exact List.mem_map.2 ⟨e₂, he₂, this⟩

/-! ### (2) an emitted row is a function of the key tuple and the emitted values -/

theorem entry_length (ext : Ext) (g : Grouper) (rows : List Fields) (st : GroupState)
    (h : foldRows ext g [] rows = .ok st) (e : List Value × List (String × Acc)) (he : e ∈ st) :
    e.2.length = g.accNames.length := by
  have hl := lookup_of_mem st (C01_one_row_per_key ext g rows st h) e he
  have hg := C01_group_accs ext g rows st e.1 h
  split at hg
  · rw [hl] at hg; cases hg
  · obtain ⟨accs, hf, hlk⟩ := hg
    rw [hl] at hlk
    cases hlk
    exact foldAccs_length ext g.accNames _ _ _ hf (by simp [empties])

theorem mapM_zip_congr {δ α β : Type} (F : δ → α → Outcome β) : ∀ (defs : List δ) (as bs : List α),
    as.length = defs.length → bs.length = defs.length →
    (∀ (j : Nat) (d : δ) (a b : α), defs[j]? = some d → as[j]? = some a → bs[j]? = some b →
      F d a = F d b) →
    (defs.zip as).mapM (fun da => F da.1 da.2) = (defs.zip bs).mapM (fun da => F da.1 da.2)
  | [], as, bs, _, _, _ => by simp
  | d :: ds, [], _, h, _, _ => by simp at h
  | d :: ds, _ :: _, [], _, h, _ => by simp at h
  | d :: ds, a :: as, b :: bs, ha, hb, hf => by
    simp only [List.zip_cons_cons, List.mapM_cons]
    rw [hf 0 d a b rfl rfl rfl,
      mapM_zip_congr F ds as bs (by simpa using ha) (by simpa using hb)
        (fun j d' a' b' h1 h2 h3 => hf (j + 1) d' a' b' (by simpa using h1) (by simpa using h2)
          (by simpa using h3))]

/-- entries with the same key whose accumulators emit the same values produce the same row -/
theorem emitRow_congr (g : Grouper) (e₁ e₂ : List Value × List (String × Acc)) (hk : e₂.1 = e₁.1)
    (hl₁ : e₁.2.length = g.accNames.length) (hl₂ : e₂.2.length = g.accNames.length)
    (hcell : ∀ (j : Nat) (d : String × AggDef) (a b : String × Acc), g.accNames[j]? = some d →
      e₁.2[j]? = some a → e₂.2[j]? = some b → d.2.emit a.2 = d.2.emit b.2) :
    emitRow g e₂ = emitRow g e₁ := by
  have hm := mapM_zip_congr
    (fun (d : String × AggDef) (a : String × Acc) => (do
      let v ← d.2.emit a.2
      pure (d.1, v) : Outcome (String × Value)))
    g.accNames e₁.2 e₂.2 hl₁ hl₂
    (fun j d a b h1 h2 h3 => by simp only [hcell j d a b h1 h2 h3])
  unfold emitRow
  simp only [hk]
  rw [hm]

/-! ### (3) the whole table -/

/-- **C14 (permutation, exact functions): the emitted tables are equal.**  Hypotheses:
`hhead`, `hnd`, `hnames` — the name conditions (key headers pairwise different, aggregate names
pairwise different and none of them a header: `C01dup.C01_compiled_names_nodup` for compiled
groupers); `hkl` — one header per key column; `hn₁`, `hn₂` — the stored key values are normalised
with canonical doubles (under which the HashMap's key equality is identity; without it the two
runs may store different representatives of `==` keys); `hex` — every aggregate is of an exact
kind on the rows of every group; `hok` — every group of the first state can be emitted (the second
state's groups then can, too). -/
theorem C14_table_perm_exact (ext : Ext) (g : Grouper) {rows₁ rows₂ : List Fields}
    (hp : rows₁.Perm rows₂) (st₁ st₂ : GroupState)
    (h₁ : foldRows ext g [] rows₁ = .ok st₁) (h₂ : foldRows ext g [] rows₂ = .ok st₂)
    (hhead : g.headers.Nodup) (hnd : (g.accNames.map Prod.fst).Nodup)
    (hnames : ∀ n ∈ g.accNames.map Prod.fst, n ∉ g.headers)
    (hkl : g.keyCols.length = g.headers.length)
    (hn₁ : NormKeys st₁) (hn₂ : NormKeys st₂)
    (hex : ∀ e ∈ st₁, ∀ d ∈ g.accNames, ExactFn ext (groupRows ext g e.1 rows₁) d.2)
    (hok : ∀ e ∈ st₁, (emitRow g e).isOk = true) :
    g.emit st₁ = g.emit st₂ := by
  have hd₁ := C01_one_row_per_key ext g rows₁ st₁ h₁
  have hd₂ := C01_one_row_per_key ext g rows₂ st₂ h₂
  -- matching entries emit the same row
  have hrow : ∀ e₁ ∈ st₁, ∀ e₂ ∈ st₂, e₂.1 = e₁.1 → emitRow g e₂ = emitRow g e₁ := by
    intro e₁ he₁ e₂ he₂ hk
    refine emitRow_congr g e₁ e₂ hk (entry_length ext g rows₁ st₁ h₁ e₁ he₁)
      (entry_length ext g rows₂ st₂ h₂ e₂ he₂) ?_
    intro j d a b hd ha hb
    obtain ⟨a₁, a₂, ha₁, ha₂, hemit, _⟩ := C14_cell_perm_exact ext g hp st₁ st₂ h₁ h₂ hnd e₁ e₂
      he₁ he₂ hk j d hd (hex e₁ he₁ d (List.mem_of_getElem? hd))
    rw [ha] at ha₁; rw [hb] at ha₂
    cases ha₁; cases ha₂
    exact hemit
  -- the row as a function of the key
  let frow := emitRowD g
  let ρ : List Value → Fields := fun k => frow (k, (lookup k st₁).getD [])
  have hρ₁ : ∀ e ∈ st₁, frow e = ρ e.1 := by
    intro e he
    show frow e = frow (e.1, (lookup e.1 st₁).getD [])
    rw [lookup_of_mem st₁ hd₁ e he]
    rfl
  have hsub₁₂ := keys_subset ext g hp st₁ st₂ h₁ h₂ hn₁ hn₂
  have hsub₂₁ := keys_subset ext g hp.symm st₂ st₁ h₂ h₁ hn₂ hn₁
  have hmatch : ∀ e₂ ∈ st₂, ∃ e₁ ∈ st₁, e₂.1 = e₁.1 := by
    intro e₂ he₂
    obtain ⟨e₁, he₁, hk⟩ := List.mem_map.1 (hsub₂₁ e₂.1 (List.mem_map_of_mem he₂))
    exact ⟨e₁, he₁, hk.symm⟩
  have hρ₂ : ∀ e ∈ st₂, frow e = ρ e.1 := by
    intro e₂ he₂
    obtain ⟨e₁, he₁, hk⟩ := hmatch e₂ he₂
    have : frow e₂ = frow e₁ := by
      show emitRowD g e₂ = emitRowD g e₁
      unfold emitRowD
      rw [hrow e₁ he₁ e₂ he₂ hk]
    rw [this, hρ₁ e₁ he₁, hk]
  have hemit₁ : ∀ e ∈ st₁, emitRow g e = .ok (frow e) := by
    intro e he
    have := hok e he
    show emitRow g e = .ok (emitRowD g e)
    unfold emitRowD
    cases hr : emitRow g e <;> simp [hr, Outcome.isOk] at this ⊢
  have hemit₂ : ∀ e ∈ st₂, emitRow g e = .ok (frow e) := by
    intro e₂ he₂
    obtain ⟨e₁, he₁, hk⟩ := hmatch e₂ he₂
    have h1 := hemit₁ e₁ he₁
    have hfe : frow e₂ = frow e₁ := by rw [hρ₂ e₂ he₂, hρ₁ e₁ he₁, hk]
    rw [hrow e₁ he₁ e₂ he₂ hk, hfe]
    exact h1
  -- the same multiset of rows
  have hkeys : (st₁.map Prod.fst).Perm (st₂.map Prod.fst) :=
    (List.perm_ext_iff_of_nodup (keys_nodup st₁ hd₁) (keys_nodup st₂ hd₂)).2
      (fun k => ⟨hsub₁₂ k, hsub₂₁ k⟩)
  have hr₁ : st₁.map frow = (st₁.map Prod.fst).map ρ := by
    rw [List.map_map]; exact List.map_congr_left (fun e he => hρ₁ e he)
  have hr₂ : st₂.map frow = (st₂.map Prod.fst).map ρ := by
    rw [List.map_map]; exact List.map_congr_left (fun e he => hρ₂ e he)
  have hperm : (st₁.map frow).Perm (st₂.map frow) := by
    rw [hr₁, hr₂]; exact hkeys.map ρ
  -- sorted emission
  have hlen₁ : ∀ e ∈ st₁, e.1.length = g.headers.length := by
    obtain ⟨_, hl⟩ := reachable_keys ext g rows₁ [] st₁ trivial (by intro e he; simp at he) h₁
    exact fun e he => (hl e he).trans hkl
  have laws := rowOrderLaws_of_state g st₁ frow hemit₁ hhead hnames hlen₁ hd₁
    (fun e he v hv => (hn₁ e he v hv).1)
  rw [emit_eq g st₁ frow hemit₁, emit_eq g st₂ frow hemit₂]
  congr 2
  apply List.Perm.eq_of_pairwise (le := fun a b => (orderingRef g.headers a b != .gt) = true)
  · intro a b ha hb hab hba
    have ha' : a ∈ st₁.map frow := (List.mergeSort_perm _ _).mem_iff.mp ha
    have hb' : b ∈ st₁.map frow := hperm.mem_iff.mpr ((List.mergeSort_perm _ _).mem_iff.mp hb)
    exact laws.anti a b ha' hb' hab hba
  · exact List.pairwise_mergeSort (le := fun l r => orderingRef g.headers l r != .gt)
      laws.trans laws.total _
  · exact List.pairwise_mergeSort (le := fun l r => orderingRef g.headers l r != .gt)
      laws.trans laws.total _
  · exact (List.mergeSort_perm _ _).trans (hperm.trans (List.mergeSort_perm _ _).symm)

/-! ### non-vacuity -/

/-- `count, max(n) by k` -/
def gCM : Grouper :=
  { keyCols := [.col "k" []], headers := ["k"],
    fns := [("_count", .count none), ("_max", .max (.col "n" []))] }
def r1 : Fields := [("k", .int 1), ("n", .int 5)]
def r2 : Fields := [("k", .int 2), ("n", .int 7)]
def r3 : Fields := [("k", .int 1), ("n", .int 9)]
def stA : GroupState :=
  [([.int 1], [("_count", .count 2), ("_max", .max (F64.ofInt 9))]),
   ([.int 2], [("_count", .count 1), ("_max", .max (F64.ofInt 7))])]
def stB : GroupState :=
  [([.int 2], [("_count", .count 1), ("_max", .max (F64.ofInt 7))]),
   ([.int 1], [("_count", .count 2), ("_max", .max (F64.ofInt 9))])]

theorem gt_facts : F64.gt (F64.ofInt 5) F64.negInf = true ∧ F64.gt (F64.ofInt 7) F64.negInf = true ∧
    F64.gt (F64.ofInt 9) F64.negInf = true ∧ F64.gt (F64.ofInt 9) (F64.ofInt 5) = true ∧
    F64.gt (F64.ofInt 5) (F64.ofInt 9) = false := by decide

theorem foldA (ext : Ext) : foldRows ext gCM [] [r1, r2, r3] = .ok stA := by
  simp [foldRows, r1, r2, r3, stA, gCM, Grouper.processRow, Grouper.keyOf, evalValue, evalF64,
    Value.toF64Agg, Fields.get, access, groupUpd, stepAccs, Grouper.accNames, AggDef.step,
    AggDef.empty, keyEq, Value.beqL, Value.beq, gt_facts]

theorem foldB (ext : Ext) : foldRows ext gCM [] [r2, r3, r1] = .ok stB := by
  simp [foldRows, r1, r2, r3, stB, gCM, Grouper.processRow, Grouper.keyOf, evalValue, evalF64,
    Value.toF64Agg, Fields.get, access, groupUpd, stepAccs, Grouper.accNames, AggDef.step,
    AggDef.empty, keyEq, Value.beqL, Value.beq, gt_facts]

theorem int_facts : ∀ x ∈ [F64.ofInt 5, F64.ofInt 7, F64.ofInt 9],
    F64.IntValued x ∧ (F64.toInt x).natAbs ≤ F64.two53 := by
  intro x hx
  simp only [List.mem_cons, List.not_mem_nil, or_false] at hx
  rcases hx with rfl | rfl | rfl <;> (unfold F64.IntValued; decide)

/-- **non-vacuity of `C14_table_perm_exact`**: `count, max(n) by k` over three rows and a rotation
of them — two different states (the groups are stored in different orders), the same table -/
example (ext : Ext) : gCM.emit stA = gCM.emit stB := by
  refine C14_table_perm_exact ext gCM (rows₁ := [r1, r2, r3]) (rows₂ := [r2, r3, r1])
    (List.perm_append_comm (l₁ := [r1]) (l₂ := [r2, r3])) stA stB (foldA ext) (foldB ext)
    (by simp [gCM]) (by simp [gCM, Grouper.accNames]) (by simp [gCM, Grouper.accNames]) rfl
    ?_ ?_ ?_ ?_
  · simp [NormKeys, stA, inS, C09.inC, inI64, F64.i64Min, F64.i64Max]
  · simp [NormKeys, stB, inS, C09.inC, inI64, F64.i64Min, F64.i64Max]
  · intro e he d hd
    simp only [gCM, Grouper.accNames, List.foldl_cons, List.foldl_nil, List.filter_nil,
      List.nil_append] at hd
    simp at hd
    rcases hd with rfl | rfl
    · trivial
    · simp only [ExactFn]
      intro x hx
      apply int_facts
      simp only [stA, List.mem_cons, List.not_mem_nil, or_false] at he
      rcases he with rfl | rfl <;>
        simp [numeric, groupRows, r1, r2, r3, gCM, Grouper.keyOf, evalValue, evalF64,
          Value.toF64Agg, Fields.get, access, keyEq, Value.beqL, Value.beq] at hx <;>
        first
          | (rcases hx with rfl | rfl <;> simp)
          | (subst hx; simp)
  · intro e he
    simp only [stA, List.mem_cons, List.not_mem_nil, or_false] at he
    rcases he with rfl | rfl <;>
      simp [emitRow, gCM, Grouper.accNames, AggDef.emit, Outcome.isOk]

end Ag.C14

#print axioms Ag.C14.keyEq_eq
#print axioms Ag.C14.emitRow_congr
#print axioms Ag.C14.C14_table_perm_exact
