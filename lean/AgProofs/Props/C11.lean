/-
C11  Running an accepted query never crashes or hangs, whatever the input.

The model marks every place where the Rust code could panic with an explicit `panic` outcome.
After the repairs recorded in known_findings.json (checked i64 arithmetic, checked chrono
arithmetic, exact from_float, rejected empty split separator, `unsigned_abs` for a negative
limit, consistent sort comparator) the theorems below show that no such outcome is reachable
from the evaluator, the row operators and the reader loop:

* `C11_arith_no_panic`      — `+ - * /` on any two values return a value or an `EvalError`;
* `C11_eval_no_panic`       — expression evaluation never panics, for every expression, record and
                              every behaviour of the external functions (`Ext`);
* `C11_row_op_no_panic`     — every compiled stateless row operator returns a row, a drop or an
                              `EvalError` (split: because an accepted separator is non-empty);
* `C11_step_no_panic`       — the same for the stateful ones (limit, total) in their own states;
* `C11_procPreagg_no_panic`, `C11_feed_no_panic`, `C11_drainLoop_no_panic`, `C11_runPre_no_panic`,
  `C11_adaptTable_no_panic` — one record / all records / the end-of-input drain / the whole reader
                              side / a row operator after an aggregation: no panic, the operator
                              states stay admissible (`StatesOK`);
* `typecheck_sepOK`, `compile_planOK`, `C11_compiled_runPre_no_panic` — the separator hypothesis
                              holds for everything `Pipeline::new` accepts, so the reader side of an
                              accepted query is panic-free unconditionally;
* `C11_typecheck_no_panic_limit`, `C11_typecheck_inline_no_panic`, `C11_typecheck_agg_panic_iff`
                            — the type checker: no inline operator panics (limit included, after
                              repo commit 68d8770); an aggregate function panics exactly for the
                              parser's error node and for a percentile level ≥ 1;
* `C11_row_isolation`       — a row an operator rejects does not change the result for the others
                              (from C12: the per-line function has no hidden state);
* termination: every model function is a total Lean function (structural recursion, or fuel that
  is proved sufficient where it matters: `C07_split_compiled_terminates`).

Not covered by a theorem (exploration only): panic-freedom of external crates (regex, serde_json,
dtparse, strfmt), allocation failure, and the printers (C19 has its own no-panic theorem).  The
aggregation stages and the whole run are covered in AgProofs/Props/C11plan.lean
(`C11_compiled_runPlan_no_panic`: `processRow`/`emit` never fail, so the panic marker that
`applyStage .group` would make of an `EvalError` is unreachable).
-/
import AgModel.Pipeline
import AgProofs.Lemmas.Basic
import AgProofs.Props.C07
import AgProofs.Props.C12

namespace Ag.C11

def NoPanic {α} (x : Outcome α) : Prop := ∀ p, x ≠ .panic p

theorem noPanic_ok {α} (a : α) : NoPanic (Outcome.ok a) := by intro p; simp
theorem noPanic_err {α} (k : String) : NoPanic (Outcome.err k : Outcome α) := by intro p; simp
theorem noPanic_unmodelled {α} (k : String) : NoPanic (Outcome.unmodelled k : Outcome α) := by
  intro p; simp
theorem noPanic_pure {α} (a : α) : NoPanic (pure a : Outcome α) := noPanic_ok a
theorem not_noPanic_panic {α} (p : String) : NoPanic (Outcome.panic p : Outcome α) → False :=
  fun h => h p rfl

theorem noPanic_bind {α β} (x : Outcome α) (f : α → Outcome β) (hx : NoPanic x)
    (hf : ∀ a, NoPanic (f a)) : NoPanic (x >>= f) := by
  cases x with
  | ok a => exact hf a
  | err k => exact noPanic_err k
  | panic p => exact absurd rfl (hx p)
  | unmodelled w => exact noPanic_unmodelled w

/-- close a goal `NoPanic leaf` where `leaf` is a non-panic constructor or a hypothesis -/
macro "np_leaf" : tactic =>
  `(tactic| with_reducible first
    | exact noPanic_ok _ | exact noPanic_err _ | exact noPanic_unmodelled _ | exact noPanic_pure _
    | assumption
    | (exfalso; exact not_noPanic_panic _ (by assumption)))

/-- `if`/`match` trees whose leaves are constructors -/
macro "leaves" : tactic =>
  `(tactic| ((first | dsimp only | skip); repeat' (first | np_leaf | split)))

/-! ### values -/

theorem aggressivelyToNum_noPanic (s : String) : NoPanic (Value.aggressivelyToNum s) := by
  unfold Value.aggressivelyToNum
  generalize Value.fromString s = v
  cases v <;> try (intro p; simp; done)
  all_goals
    dsimp only
    split
    · intro p; simp
    · generalize Value.fromString _ = w
      cases w <;> (intro p; simp)

theorem toF64_noPanic (v : Value) : NoPanic v.toF64 := by
  cases v <;> first | exact aggressivelyToNum_noPanic _ | (intro p; simp [Value.toF64])

theorem toF64Agg_noPanic (v : Value) : NoPanic v.toF64Agg := by
  cases v <;> first | exact aggressivelyToNum_noPanic _ | (intro p; simp [Value.toF64Agg])

theorem binaryOp_noPanic (op : F64 → F64 → F64) (l r : Value) : NoPanic (Value.binaryOp op l r) := by
  unfold Value.binaryOp
  leaves

theorem mkDur_noPanic (s : String) (n : Int) : NoPanic (Value.mkDur s n) := by
  unfold Value.mkDur; leaves
theorem mkDate_noPanic (s : String) (n : Int) : NoPanic (Value.mkDate s n) := by
  unfold Value.mkDate; leaves
theorem durMul_noPanic (a b : Int) : NoPanic (Value.durMul a b) := by
  unfold Value.durMul; leaves
theorem durDiv_noPanic (a b : Int) : NoPanic (Value.durDiv a b) := by
  unfold Value.durDiv; leaves

/-- **C11 (arithmetic).** `+ - * /` never panic: integer results that do not fit become floats,
date/duration results chrono cannot represent become `EvalError::OutOfRange`. -/
theorem C11_arith_no_panic (a b : Value) :
    NoPanic (Value.add a b) ∧ NoPanic (Value.sub a b) ∧ NoPanic (Value.mul a b) ∧
    NoPanic (Value.div a b) := by
  refine ⟨?_, ?_, ?_, ?_⟩
  · unfold Value.add
    split <;> first | exact mkDate_noPanic _ _ | exact mkDur_noPanic _ _ | exact noPanic_ok _ | exact binaryOp_noPanic _ _ _
  · unfold Value.sub
    split <;> first | exact mkDate_noPanic _ _ | exact mkDur_noPanic _ _ | exact noPanic_ok _ | exact binaryOp_noPanic _ _ _
  · unfold Value.mul
    split <;> first | exact durMul_noPanic _ _ | exact noPanic_ok _ | exact binaryOp_noPanic _ _ _
  · unfold Value.div
    split <;> first | exact durDiv_noPanic _ _ | exact binaryOp_noPanic _ _ _

theorem display_noPanic (v : Value) : NoPanic v.display := by
  unfold Value.display Value.displayFull
  leaves

theorem toUsize_noPanic (v : Value) : NoPanic v.toUsize := by
  cases v <;> try (unfold Value.toUsize; leaves; done)
  rename_i s
  simp only [Value.toUsize]
  split
  · leaves
  · np_leaf
  · rename_i h; exact absurd h (aggressivelyToNum_noPanic s _)
  · np_leaf

/-! ### functions -/

theorem mapM_noPanic {α β} (f : α → Outcome β) (hf : ∀ a, NoPanic (f a)) :
    ∀ l : List α, NoPanic (l.mapM f)
  | [] => noPanic_ok _
  | x :: xs => by
    rw [List.mapM_cons]
    exact noPanic_bind _ _ (hf x) (fun b =>
      noPanic_bind _ _ (mapM_noPanic f hf xs) (fun _ => noPanic_ok _))

theorem invalidArgs_noPanic : NoPanic invalidArgs := noPanic_err _

/-- `do` blocks / `if` / `match` trees over the value coercions -/
macro "np_val" : tactic =>
  `(tactic| ((first | dsimp only | skip); repeat' (first
    | np_leaf
    | with_reducible first
      | exact invalidArgs_noPanic
      | exact toF64_noPanic _ | exact toF64Agg_noPanic _ | exact toUsize_noPanic _
      | exact display_noPanic _ | exact aggressivelyToNum_noPanic _
      | exact mapM_noPanic _ display_noPanic _
      | refine noPanic_bind _ _ ?_ (fun _ => ?_)
    | split)))

theorem generic_noPanic (n : String) (args : List Value) : NoPanic (generic n args) := by
  unfold generic
  split
  · np_val
  · np_val
  · np_val
  · np_val
  · np_val
  · np_val
  · split
    · rename_i a
      split
      · np_leaf
      · np_leaf
      · rename_i h; exact absurd h (toF64_noPanic a _)
      · np_leaf
    · exact invalidArgs_noPanic
  · np_val
  · np_val

theorem string1_noPanic (ext : Ext) (n s : String) : NoPanic (string1 ext n s) := by
  unfold string1
  leaves

theorem evalFunc_noPanic (ext : Ext) (n : String) (args : List Value) :
    NoPanic (evalFunc ext n args) := by
  unfold evalFunc
  split
  · np_val
  split
  · np_val
  split
  · split
    · exact noPanic_bind _ _ (display_noPanic _) (fun _ => string1_noPanic _ _ _)
    · exact invalidArgs_noPanic
  split
  · np_val
  exact generic_noPanic _ _

theorem access_noPanic : ∀ (path : List Ref) (v : Value), NoPanic (access v path)
  | [], v => noPanic_ok _
  | .field k :: rest, v => by
    unfold access
    repeat' (first | np_leaf | exact access_noPanic rest _ | split)
  | .idx i :: rest, v => by
    unfold access
    dsimp only
    repeat' (first | np_leaf | exact access_noPanic rest _ | split)

/-! ### expressions -/

theorem of_eq_panic {α} {x : Outcome α} (h : NoPanic x) {p : String} (e : x = .panic p) : False :=
  h p e

mutual
/-- **C11 (expressions).** Evaluating any expression on any record returns a value, an `EvalError`
or (outside the modelled fragment) `unmodelled` — never a panic, for every `Ext`. -/
theorem C11_eval_no_panic (ext : Ext) (r : Fields) : ∀ e : Expr, NoPanic (evalValue ext r e)
  | .col head rest => by
    unfold evalValue
    split
    · exact access_noPanic _ _
    · exact noPanic_err _
  | .not e => by
    have := C11_eval_no_panic ext r e
    unfold evalValue
    split
    · exact noPanic_ok _
    · exact noPanic_err _
    · rename_i o _ _; exact this
  | .cmp op l rr => by
    have h1 := C11_eval_no_panic ext r l
    have h2 := C11_eval_no_panic ext r rr
    unfold evalValue
    split
    · split
      · exact noPanic_ok _
      · exact h2
    · exact h1
  | .arith op l rr => by
    have h1 := C11_eval_no_panic ext r l
    have h2 := C11_eval_no_panic ext r rr
    unfold evalValue
    split
    · split
      · cases op
        · exact (C11_arith_no_panic _ _).1
        · exact (C11_arith_no_panic _ _).2.1
        · exact (C11_arith_no_panic _ _).2.2.1
        · exact (C11_arith_no_panic _ _).2.2.2
      · exact h2
    · exact h1
  | .logic op l rr => by
    have h1 := C11_eval_no_panic ext r l
    have h2 := C11_eval_no_panic ext r rr
    unfold evalValue
    split
    · cases op
      · dsimp only; split
        · exact h2
        · exact noPanic_ok _
      · dsimp only; split
        · exact noPanic_ok _
        · exact h2
    · exact noPanic_err _
    · exact h1
  | .call fn args => by
    have h := C11_evalArgs_no_panic ext r args
    unfold evalValue
    split
    · exact evalFunc_noPanic _ _ _
    · exact noPanic_err _
    · rename_i p hp; exact absurd hp (h p)
    · exact noPanic_unmodelled _
  | .ifop c t f => by
    have h1 := C11_eval_no_panic ext r c
    have h2 := C11_eval_no_panic ext r t
    have h3 := C11_eval_no_panic ext r f
    unfold evalValue
    split
    · split
      · exact h2
      · exact h3
    · exact noPanic_err _
    · exact h1
  | .val v => by unfold evalValue; exact noPanic_ok _
  | .error => by unfold evalValue; exact noPanic_err _
theorem C11_evalArgs_no_panic (ext : Ext) (r : Fields) : ∀ es : List Expr, NoPanic (evalArgs ext r es)
  | [] => by unfold evalArgs; exact noPanic_ok _
  | e :: es => by
    have h1 := C11_eval_no_panic ext r e
    have h2 := C11_evalArgs_no_panic ext r es
    unfold evalArgs
    split
    · split
      · exact noPanic_ok _
      · exact h2
    · exact noPanic_err _
    · rename_i p hp; exact absurd hp (h1 p)
    · exact noPanic_unmodelled _
end

theorem evalBool_noPanic (ext : Ext) (r : Fields) (e : Expr) : NoPanic (evalBool ext r e) := by
  have := C11_eval_no_panic ext r e
  unfold evalBool
  split
  · unfold asBool; leaves
  · exact noPanic_err _
  · rename_i p hp; exact absurd hp (this p)
  · exact noPanic_unmodelled _

theorem evalF64_noPanic (ext : Ext) (r : Fields) (e : Expr) : NoPanic (evalF64 ext r e) := by
  have := C11_eval_no_panic ext r e
  unfold evalF64
  split
  · exact toF64Agg_noPanic _
  · exact noPanic_err _
  · rename_i p hp; exact absurd hp (this p)
  · exact noPanic_unmodelled _

theorem evalStr_noPanic (ext : Ext) (r : Fields) (e : Expr) : NoPanic (evalStr ext r e) := by
  have := C11_eval_no_panic ext r e
  unfold evalStr
  split
  · exact noPanic_err _
  · exact noPanic_ok _
  · exact noPanic_err _
  · exact noPanic_err _
  · rename_i p hp; exact absurd hp (this p)
  · exact noPanic_unmodelled _

theorem getInput_noPanic (ext : Ext) (rec : Record) (src : Option Expr) :
    NoPanic (getInput ext rec src) := by
  cases src with
  | none => exact noPanic_ok _
  | some e => exact evalStr_noPanic ext rec.data e

/-! ### row operators -/

theorem putPath_noPanic (newv : Value) : ∀ (path : List Ref) (v : Value), NoPanic (putPath v path newv)
  | [], v => by unfold putPath; exact noPanic_ok _
  | .field k :: rest, v => by
    have := putPath_noPanic newv rest
    unfold putPath
    repeat' (first | np_leaf | exact this _ | split)
  | .idx i :: rest, v => by
    have := putPath_noPanic newv rest
    unfold putPath
    dsimp only
    repeat' (first | np_leaf | exact this _ | split)

theorem putExpr_noPanic (data : Fields) (key : Expr) (newv : Value) :
    NoPanic (putExpr data key newv) := by
  unfold putExpr
  split
  · split
    · leaves
    · split
      · np_leaf
      · np_leaf
      · rename_i h; exact absurd h (putPath_noPanic newv _ _ _)
      · np_leaf
  · np_leaf

theorem durationTrunc_noPanic (stamp span : Int) : NoPanic (durationTrunc stamp span) := by
  unfold durationTrunc; leaves

theorem split_isSome (inp sep : List Char) (hsep : sep ≠ []) : Split.split inp sep ≠ none := by
  have := Ag.Split.splitLoop_isSome sep hsep (inp.length + 1) inp [] (by omega)
  unfold Split.split
  intro h; rw [h] at this; simp at this

/-- the hypothesis under which a row operator is one the type checker produces, as far as
panic-freedom is concerned: a `split` has a non-empty separator (`C07_split_compiled_terminates`) -/
def SepOK (op : RowOp) : Prop := ∀ sep src dst, op = .split sep src dst → sep.toList ≠ []

/-- **C11 (stateless row operators).** Every stateless row operator the type checker can produce
maps a record to a row, a drop, an `EvalError` or `unmodelled` — never a panic. -/
theorem C11_row_op_no_panic (ext : Ext) (op : RowOp) (rec : Record)
    (hst : op.isStateless = true)
    (hsep : ∀ sep src dst, op = .split sep src dst → sep.toList ≠ []) :
    NoPanic (applyStateless ext op rec) := by
  cases op with
  | json src =>
    unfold applyStateless
    refine noPanic_bind _ _ (getInput_noPanic ext rec src) (fun inp => ?_)
    leaves
  | logfmt src =>
    unfold applyStateless
    refine noPanic_bind _ _ (getInput_noPanic ext rec src) (fun inp => ?_)
    leaves
  | parse pat fields src drop noConvert =>
    unfold applyStateless
    refine noPanic_bind _ _ (getInput_noPanic ext rec src) (fun inp => ?_)
    leaves
  | fields mode names => unfold applyStateless; leaves
  | whereE e =>
    unfold applyStateless
    exact noPanic_bind _ _ (evalBool_noPanic ext rec.data e) (fun _ => noPanic_ok _)
  | whereConst b => unfold applyStateless; np_leaf
  | fieldExpr e name =>
    unfold applyStateless
    exact noPanic_bind _ _ (C11_eval_no_panic ext rec.data e) (fun _ => noPanic_ok _)
  | split sep src dst =>
    have hs : sep.toList ≠ [] := hsep sep src dst rfl
    unfold applyStateless
    refine noPanic_bind _ _ (getInput_noPanic ext rec src) (fun inp => ?_)
    split
    · rename_i h; exact absurd h (split_isSome _ _ hs)
    · dsimp only
      split
      · exact noPanic_bind _ _ (putExpr_noPanic _ _ _) (fun _ => noPanic_ok _)
      · np_leaf
  | timeslice src dur dst =>
    unfold applyStateless
    refine noPanic_bind _ _ (C11_eval_no_panic ext rec.data src) (fun v => ?_)
    split
    · exact noPanic_bind _ _ (durationTrunc_noPanic _ _) (fun _ => noPanic_ok _)
    · np_leaf
  | limit n => simp [RowOp.isStateless] at hst
  | total src dst => simp [RowOp.isStateless] at hst

/-! ### stateful row operators -/

/-- the states an operator can be in: `limit` counts (`head`) or buffers (`tail`), `total` holds its
running sum; the stateless operators ignore their state -/
def StateOK (op : RowOp) (st : OpState) : Prop :=
  match op with
  | .limit _ => (∃ i, st = .head i) ∨ (∃ q, st = .tail q)
  | .total .. => ∃ acc, st = .total acc
  | _ => True

theorem init_stateOK (op : RowOp) : StateOK op op.init := by
  cases op <;> simp only [StateOK, RowOp.init]
  · split
    · exact Or.inl ⟨_, rfl⟩
    · exact Or.inr ⟨_, rfl⟩
  · exact ⟨_, rfl⟩

theorem step_limit_noPanic (ext : Ext) (n : Int) (st : OpState) (rec : Record)
    (h : StateOK (.limit n) st) : NoPanic (stepOp ext (.limit n) st rec).2 := by
  rcases h with ⟨i, rfl⟩ | ⟨q, rfl⟩ <;> (simp only [stepOp]; np_leaf)

theorem step_total_noPanic (ext : Ext) (src : Expr) (dst : String) (acc : F64) (rec : Record) :
    NoPanic (stepOp ext (.total src dst) (.total acc) rec).2 := by
  simp only [stepOp]
  split <;> np_leaf

theorem step_stateless_eq (ext : Ext) (op : RowOp) (st : OpState) (rec : Record)
    (hst : op.isStateless = true) : stepOp ext op st rec = (st, applyStateless ext op rec) := by
  cases op <;> first | rfl | simp [RowOp.isStateless] at hst

/-- one step of any operator from an admissible state never panics -/
theorem step_noPanic (ext : Ext) (op : RowOp) (st : OpState) (rec : Record)
    (hok : StateOK op st) (hsep : SepOK op) : NoPanic (stepOp ext op st rec).2 := by
  by_cases hst : op.isStateless = true
  · rw [step_stateless_eq ext op st rec hst]
    exact C11_row_op_no_panic ext op rec hst hsep
  · cases op <;> first | (exfalso; exact hst rfl) | skip
    · exact step_limit_noPanic ext _ st rec hok
    · obtain ⟨acc, rfl⟩ := hok
      exact step_total_noPanic ext _ _ acc rec

/-- … and leaves the operator in an admissible state -/
theorem step_stateOK (ext : Ext) (op : RowOp) (st : OpState) (rec : Record)
    (hok : StateOK op st) : StateOK op (stepOp ext op st rec).1 := by
  by_cases hst : op.isStateless = true
  · rw [step_stateless_eq ext op st rec hst]; exact hok
  · cases op <;> first | (exfalso; exact hst rfl) | skip
    · rcases hok with ⟨i, rfl⟩ | ⟨q, rfl⟩
      · exact Or.inl ⟨_, rfl⟩
      · exact Or.inr ⟨_, rfl⟩
    · obtain ⟨acc, rfl⟩ := hok
      simp only [stepOp]
      split <;> exact ⟨_, rfl⟩

/-- **C11 (stateful row operators).** `limit` (counting or buffering) and `total` (with its running
sum) never panic on any record; a stateless operator never panics whatever state it is paired with. -/
theorem C11_step_no_panic (ext : Ext) (rec : Record) :
    (∀ n idx, NoPanic (stepOp ext (.limit n) (.head idx) rec).2) ∧
    (∀ n q, NoPanic (stepOp ext (.limit n) (.tail q) rec).2) ∧
    (∀ src dst acc, NoPanic (stepOp ext (.total src dst) (.total acc) rec).2) ∧
    (∀ op st, op.isStateless = true →
      (∀ sep src dst, op = .split sep src dst → sep.toList ≠ []) →
      NoPanic (stepOp ext op st rec).2) := by
  refine ⟨fun n idx => ?_, fun n q => ?_, fun src dst acc => ?_, fun op st hst hsep => ?_⟩
  · exact step_limit_noPanic ext n _ rec (Or.inl ⟨_, rfl⟩)
  · exact step_limit_noPanic ext n _ rec (Or.inr ⟨_, rfl⟩)
  · exact step_total_noPanic ext src dst acc rec
  · rw [step_stateless_eq ext op st rec hst]
    exact C11_row_op_no_panic ext op rec hst hsep

/-- the state hypothesis is needed: a stateful operator paired with a foreign state is the model's
"length/kind mismatch" panic (unreachable: `Pipeline::new` builds the states from the operators) -/
theorem step_limit_stateless_panics (ext : Ext) (n : Int) (rec : Record) :
    ¬ NoPanic (stepOp ext (.limit n) .stateless rec).2 := by
  intro h; exact h _ rfl

/-! ### the type checker -/

/-- **C11 (limit).** In the current model (after repo commit 68d8770: `unsigned_abs` and a capped
`VecDeque` capacity) type-checking `limit` has no panic branch at all: every limit literal is either
accepted or rejected with `InvalidLimit`. -/
theorem C11_typecheck_no_panic_limit (f : Option F64) :
    ∀ p, typecheckInline (.limit f) ≠ .panic p := by
  intro p
  cases f with
  | none => simp [typecheckInline]
  | some f => simp only [typecheckInline]; split <;> simp

/-- exactly what `limit f` type-checks to -/
theorem typecheck_limit_some (f : F64) :
    typecheckInline (.limit (some f)) =
      if F64.feq (F64.trunc f) F64.zero || F64.fractNonzero f then .typeError "InvalidLimit"
      else .ok (.limit (F64.toI64 f)) := by
  simp only [typecheckInline]

/-- no inline operator makes the type checker panic -/
theorem C11_typecheck_inline_no_panic (i : Inline) : ∀ p, typecheckInline i ≠ .panic p := by
  intro p
  cases i with
  | limit f => exact C11_typecheck_no_panic_limit f p
  | whereOp e =>
    cases e with
    | none => simp [typecheckInline]
    | some e => simp only [typecheckInline]; repeat' (first | (simp; done) | split)
  | timeslice src d dst =>
    cases d <;> (simp only [typecheckInline]; repeat' (first | (simp; done) | split))
  | _ => simp only [typecheckInline]; repeat' (first | (simp; done) | split)

/-- **C11 (aggregate functions).** `typecheckAgg` panics exactly for the parser's error node and
for a well-typed percentile whose level is not below 1 (`p100`/`pct100` and above). -/
theorem C11_typecheck_agg_panic_iff (f : AggFn) :
    (∃ p, typecheckAgg f = .panic p) ↔
      f = .error ∨ ∃ pc s e, f = .pct pc s e ∧ e.wellTyped = true ∧ F64.le (F64.ofInt 1) pc = true := by
  cases f with
  | pct pc s e =>
    simp only [typecheckAgg]
    by_cases hw : e.wellTyped = true
    · by_cases hp : F64.le (F64.ofInt 1) pc = true
      · simp only [hw, hp]
        exact ⟨fun _ => Or.inr ⟨_, _, _, rfl, hw, hp⟩, fun _ => ⟨_, rfl⟩⟩
      · simp [hw, hp]
    · simp [hw]
  | error => simp [typecheckAgg]
  | countDistinct a =>
    constructor
    · rintro ⟨p, hp⟩
      rcases a with _ | (_ | ⟨e, _ | _⟩) <;> simp only [typecheckAgg] at hp <;>
        first | cases hp | (split at hp <;> cases hp)
    · simp
  | _ =>
    simp only [typecheckAgg]
    constructor
    · rintro ⟨p, hp⟩; split at hp <;> cases hp
    · simp

/-! ### the reader loop -/

def RunNoPanic {α} (x : RunR α) : Prop := ∀ p, x ≠ .panic p

theorem runNoPanic_ok {α} (a : α) : RunNoPanic (RunR.ok a) := fun _ h => by cases h
theorem runNoPanic_unmodelled {α} (w : String) : RunNoPanic (RunR.unmodelled w : RunR α) :=
  fun _ h => by cases h

/-- every operator has a state, and an admissible one -/
def StatesOK : List RowOp → List OpState → Prop
  | [], _ => True
  | _ :: _, [] => False
  | op :: ops, st :: sts => StateOK op st ∧ StatesOK ops sts

def OpsOK (ops : List RowOp) : Prop := ∀ op ∈ ops, SepOK op

theorem init_statesOK : ∀ ops : List RowOp, StatesOK ops (ops.map RowOp.init)
  | [] => trivial
  | op :: ops => ⟨init_stateOK op, init_statesOK ops⟩

theorem OpsOK.tail {op : RowOp} {ops : List RowOp} (h : OpsOK (op :: ops)) : OpsOK ops :=
  fun o ho => h o (List.mem_cons_of_mem _ ho)

/-- `proc_preagg` on admissible states: no panic, and the new states are admissible again -/
theorem procPreagg_ok (ext : Ext) : ∀ (ops : List RowOp) (sts : List OpState) (rec : Record),
    OpsOK ops → StatesOK ops sts →
    RunNoPanic (procPreagg ext ops sts rec) ∧
      ∀ sts' out e, procPreagg ext ops sts rec = .ok (sts', out, e) → StatesOK ops sts'
  | [], sts, rec, _, _ => by
    simp only [procPreagg]
    exact ⟨runNoPanic_ok _, fun _ _ _ _ => trivial⟩
  | op :: ops, [], rec, _, hs => hs.elim
  | op :: ops, st :: sts, rec, ho, hs => by
    have hnp := step_noPanic ext op st rec hs.1 (ho op (List.mem_cons_self ..))
    have hst := step_stateOK ext op st rec hs.1
    simp only [procPreagg]
    generalize stepOp ext op st rec = res at hnp hst
    obtain ⟨st', o⟩ := res
    cases o with
    | ok r =>
      cases r with
      | none =>
        refine ⟨runNoPanic_ok _, fun sts' out e h => ?_⟩
        simp only [RunR.ok.injEq, Prod.mk.injEq] at h
        obtain ⟨rfl, _, _⟩ := h
        exact ⟨hst, hs.2⟩
      | some r' =>
        have ih := procPreagg_ok ext ops sts r' ho.tail hs.2
        dsimp only
        generalize procPreagg ext ops sts r' = inner at ih
        cases inner with
        | ok t =>
          obtain ⟨sts1, out1, e1⟩ := t
          refine ⟨runNoPanic_ok _, fun sts' out e h => ?_⟩
          simp only [RunR.ok.injEq, Prod.mk.injEq] at h
          obtain ⟨rfl, _, _⟩ := h
          exact ⟨hst, ih.2 _ _ _ rfl⟩
        | panic p => exact absurd rfl (ih.1 p)
        | unmodelled w => exact ⟨runNoPanic_unmodelled _, fun _ _ _ h => nomatch h⟩
    | err k =>
      refine ⟨runNoPanic_ok _, fun sts' out e h => ?_⟩
      simp only [RunR.ok.injEq, Prod.mk.injEq] at h
      obtain ⟨rfl, _, _⟩ := h
      exact ⟨hst, hs.2⟩
    | panic p => exact absurd rfl (hnp p)
    | unmodelled w => exact ⟨runNoPanic_unmodelled _, fun _ _ _ h => nomatch h⟩

/-- **C11 (one record through the operators).** -/
theorem C11_procPreagg_no_panic (ext : Ext) (ops : List RowOp) (sts : List OpState) (rec : Record)
    (ho : ∀ op ∈ ops, ∀ sep src dst, op = .split sep src dst → sep.toList ≠ [])
    (hs : StatesOK ops sts) : ∀ p, procPreagg ext ops sts rec ≠ .panic p :=
  (procPreagg_ok ext ops sts rec ho hs).1

theorem feed_ok (ext : Ext) (ops : List RowOp) (ho : OpsOK ops) :
    ∀ (rows : List Record) (sts : List OpState) (acc : List Record) (e : Nat), StatesOK ops sts →
    RunNoPanic (feed ext ops sts rows acc e) ∧
      ∀ sts' outs e', feed ext ops sts rows acc e = .ok (sts', outs, e') → StatesOK ops sts'
  | [], sts, acc, e, hs => by
    simp only [feed]
    refine ⟨runNoPanic_ok _, fun sts' outs e' h => ?_⟩
    simp only [RunR.ok.injEq, Prod.mk.injEq] at h
    obtain ⟨rfl, _, _⟩ := h
    exact hs
  | r :: rs, sts, acc, e, hs => by
    have h1 := procPreagg_ok ext ops sts r ho hs
    simp only [feed]
    generalize procPreagg ext ops sts r = res at h1
    cases res with
    | ok t =>
      obtain ⟨sts1, out1, e1⟩ := t
      have hs1 := h1.2 _ _ _ rfl
      cases out1 with
      | none => exact feed_ok ext ops ho rs sts1 acc (e + e1) hs1
      | some o => exact feed_ok ext ops ho rs sts1 (o :: acc) (e + e1) hs1
    | panic p => exact absurd rfl (h1.1 p)
    | unmodelled w => exact ⟨runNoPanic_unmodelled _, fun _ _ _ h => nomatch h⟩

theorem C11_feed_no_panic (ext : Ext) (ops : List RowOp) (sts : List OpState) (rows acc : List Record)
    (e : Nat) (ho : ∀ op ∈ ops, ∀ sep src dst, op = .split sep src dst → sep.toList ≠ [])
    (hs : StatesOK ops sts) : ∀ p, feed ext ops sts rows acc e ≠ .panic p :=
  (feed_ok ext ops ho rows sts acc e hs).1

theorem C11_drainLoop_no_panic (ext : Ext) : ∀ (ops : List RowOp) (sts : List OpState)
    (acc : List Record) (e : Nat),
    (∀ op ∈ ops, ∀ sep src dst, op = .split sep src dst → sep.toList ≠ []) → StatesOK ops sts →
    ∀ p, drainLoop ext ops sts acc e ≠ .panic p
  | [], sts, acc, e, _, _ => by intro p h; simp [drainLoop] at h
  | _ :: _, [], acc, e, _, hs => hs.elim
  | op :: ops, st :: sts, acc, e, ho, hs => by
    have ho' : OpsOK ops := OpsOK.tail ho
    have h1 := feed_ok ext ops ho' (drainOp st) sts [] 0 hs.2
    simp only [drainLoop]
    generalize feed ext ops sts (drainOp st) [] 0 = res at h1
    cases res with
    | ok t =>
      obtain ⟨sts1, outs, e1⟩ := t
      exact C11_drainLoop_no_panic ext ops sts1 (acc ++ outs) (e + e1) ho' (h1.2 _ _ _ rfl)
    | panic p => exact absurd rfl (h1.1 p)
    | unmodelled w => intro p h; cases h

/-- **C11 (reader side).** The whole reader side of `process()` — filter, `proc_preagg` on every line,
end-of-input drain — never panics for a plan whose `split`s have non-empty separators. -/
theorem C11_runPre_no_panic (ext : Ext) (pl : Plan) (lines : List String)
    (ho : ∀ op ∈ pl.pre, ∀ sep src dst, op = .split sep src dst → sep.toList ≠ []) :
    ∀ p, runPre ext pl lines ≠ .panic p := by
  intro p
  simp only [runPre]
  split
  · simp
  · have h1 := feed_ok ext pl.pre ho
      (List.map (fun l => ({ data := [], raw := l } : Record))
        (lines.filter fun l => Search.sem pl.filter l.toList))
      (pl.pre.map RowOp.init) [] 0 (init_statesOK _)
    generalize feed ext pl.pre _ _ [] 0 = res at h1
    cases res with
    | ok t =>
      obtain ⟨sts1, outs, e1⟩ := t
      have h2 := C11_drainLoop_no_panic ext pl.pre sts1 [] 0 ho (h1.2 _ _ _ rfl)
      dsimp only
      generalize drainLoop ext pl.pre sts1 [] 0 = r2 at h2
      cases r2 with
      | ok u => simp
      | panic q => exact absurd rfl (h2 q)
      | unmodelled w => simp
    | panic q => exact absurd rfl (h1.1 q)
    | unmodelled w => simp

/-! ### compiled plans satisfy the hypothesis -/

/-- whatever the type checker accepts satisfies the separator hypothesis of the theorems above -/
theorem typecheck_sepOK (i : Inline) (op : RowOp) (h : typecheckInline i = .ok op) : SepOK op := by
  intro sep src dst heq
  subst heq
  cases i with
  | split sep' src' dst' =>
    obtain ⟨h1, h2, _⟩ := C07.C07_split_compiled_terminates sep' src' dst' _ h
    cases h1; exact h2
  | whereOp e =>
    cases e with
    | none => simp [typecheckInline] at h
    | some e =>
      simp only [typecheckInline] at h
      repeat' (first | (simp at h; done) | split at h)
  | limit f =>
    cases f with
    | none => simp [typecheckInline] at h
    | some f => simp only [typecheckInline] at h; split at h <;> simp at h
  | timeslice s d t =>
    cases d <;> (simp only [typecheckInline] at h; repeat' (first | (simp at h; done) | split at h))
  | _ => simp only [typecheckInline] at h; repeat' (first | (simp at h; done) | split at h)

/-- every row operator of a plan, before and after the aggregation, has the separator property -/
def PlanOK (p : Plan) : Prop := OpsOK p.pre ∧ ∀ op, AggStage.adapt op ∈ p.post → SepOK op

theorem planLoop_planOK : ∀ (ops : List Operator) (inAgg hasErr : Bool) (pre : List RowOp)
    (post : List AggStage) (p : Plan),
    OpsOK pre → (∀ op, AggStage.adapt op ∈ post → SepOK op) →
    planLoop inAgg hasErr pre post ops = .ok p → PlanOK p
  | [], inAgg, hasErr, pre, post, p, h1, h2, h => by
    simp only [planLoop] at h
    split at h
    · cases h
    · cases h
      exact ⟨fun o ho => h1 o (by simpa using ho), fun o ho => h2 o (by simpa using ho)⟩
  | .error :: rest, inAgg, hasErr, pre, post, p, h1, h2, h => by
    simp only [planLoop] at h
    exact planLoop_planOK rest _ _ _ _ p h1 h2 h
  | .alias _ :: rest, inAgg, hasErr, pre, post, p, h1, h2, h => by
    simp only [planLoop] at h
    exact planLoop_planOK rest _ _ _ _ p h1 h2 h
  | .inline i :: rest, inAgg, hasErr, pre, post, p, h1, h2, h => by
    simp only [planLoop] at h
    cases ht : typecheckInline i with
    | ok o =>
      have hso := typecheck_sepOK i o ht
      simp only [ht] at h
      split at h
      · refine planLoop_planOK rest _ _ _ _ p (fun o' ho' => ?_) h2 h
        rcases List.mem_cons.mp ho' with rfl | hm
        · exact hso
        · exact h1 _ hm
      · refine planLoop_planOK rest _ _ _ _ p h1 (fun o' ho' => ?_) h
        rcases List.mem_cons.mp ho' with he | hm
        · cases he; exact hso
        · exact h2 _ hm
    | typeError k => simp [ht] at h
    | panic s => simp [ht] at h
    | unmodelled w => simp [ht] at h
  | .agg m :: rest, inAgg, hasErr, pre, post, p, h1, h2, h => by
    simp only [planLoop] at h
    cases hc : convertMultiAgg m with
    | ok g =>
      simp only [hc] at h
      split at h
      · refine planLoop_planOK rest _ _ _ _ p h1 (fun o' ho' => ?_) h
        simp only [List.mem_cons, reduceCtorEq, false_or] at ho'
        exact h2 _ ho'
      · refine planLoop_planOK rest _ _ _ _ p h1 (fun o' ho' => ?_) h
        simp only [List.mem_cons, reduceCtorEq, false_or] at ho'
        exact h2 _ ho'
    | typeError k => simp only [hc] at h; exact planLoop_planOK rest _ _ _ _ p h1 h2 h
    | panic s => simp [hc] at h
    | unmodelled w => simp [hc] at h
  | .sort cols dir :: rest, inAgg, hasErr, pre, post, p, h1, h2, h => by
    simp only [planLoop] at h
    split at h
    · refine planLoop_planOK rest _ _ _ _ p h1 (fun o' ho' => ?_) h
      simp only [List.mem_cons, reduceCtorEq, false_or] at ho'
      exact h2 _ ho'
    · cases h

/-- a compiled query only contains row operators with the separator property -/
theorem compile_planOK (q : Query) (p : Plan) (h : compile q = .ok p) : PlanOK p := by
  simp only [compile] at h
  cases hp0 : planLoop false false [] [] (flattenOps (opsDepth q.ops + 1) q.ops) with
  | ok p0 =>
    simp only [hp0, Compile.ok.injEq] at h
    subst h
    exact planLoop_planOK _ _ _ _ _ p0 (fun _ ho => by cases ho) (fun _ ho => by cases ho) hp0
  | error k => simp [hp0] at h
  | panic s => simp [hp0] at h
  | unmodelled w => simp [hp0] at h

/-- **C11 (reader side of an accepted query).** For every query `Pipeline::new` accepts, every input
and every behaviour of the external functions, the reader side never reaches a panic site. -/
theorem C11_compiled_runPre_no_panic (ext : Ext) (q : Query) (pl : Plan) (lines : List String)
    (h : compile q = .ok pl) : ∀ p, runPre ext pl lines ≠ .panic p :=
  C11_runPre_no_panic ext pl lines (compile_planOK q pl h).1

/-! ### row operators after an aggregation (`PreAggAdapter`) -/

theorem adaptTable_go_noPanic (ext : Ext) (op : RowOp) (hsep : SepOK op) :
    ∀ (rs : List Record) (st : OpState) (acc : List Fields), StateOK op st →
    RunNoPanic (adaptTable.go ext op st rs acc)
  | [], st, acc, _ => by simp only [adaptTable.go]; exact runNoPanic_ok _
  | r :: rs, st, acc, hs => by
    have hnp := step_noPanic ext op st r hs hsep
    have hst := step_stateOK ext op st r hs
    simp only [adaptTable.go]
    generalize stepOp ext op st r = res at hnp hst
    obtain ⟨st', o⟩ := res
    cases o with
    | ok x =>
      cases x with
      | none => exact adaptTable_go_noPanic ext op hsep rs st' acc hst
      | some r' => exact adaptTable_go_noPanic ext op hsep rs st' _ hst
    | err k => exact adaptTable_go_noPanic ext op hsep rs st' acc hst
    | panic p => exact absurd rfl (hnp p)
    | unmodelled w => exact runNoPanic_unmodelled _

/-- a row operator applied to an aggregate table never panics either -/
theorem C11_adaptTable_no_panic (ext : Ext) (op : RowOp) (t : Table)
    (hsep : ∀ sep src dst, op = .split sep src dst → sep.toList ≠ []) :
    ∀ p, adaptTable ext op t ≠ .panic p := by
  intro p
  have h := adaptTable_go_noPanic ext op hsep
    (t.rows.map fun d => ({ data := d, raw := "" } : Record)) op.init [] (init_stateOK op)
  simp only [adaptTable]
  generalize adaptTable.go ext op op.init _ [] = res at h
  cases res with
  | ok x => simp
  | panic q => exact absurd rfl (h q)
  | unmodelled w => simp

/-! ### the hypotheses are satisfiable, and needed -/

example : (RowOp.split "," none none).isStateless = true ∧
    ∀ sep src dst, RowOp.split "," none none = .split sep src dst → sep.toList ≠ [] := by
  refine ⟨rfl, ?_⟩
  intro sep src dst h
  cases h
  simp

/-- without the separator hypothesis the model does reach its panic site (the hang of
`* | split on ""` before repo commit 5855035) -/
theorem split_empty_sep_panics (ext : Ext) :
    ¬ NoPanic (applyStateless ext (.split "" none none) { data := [], raw := "a" }) := by
  intro h
  refine h "split.rs:58 loop makes no progress (empty separator)" ?_
  have : Split.split "a".toList "".toList = none :=
    C07.C07_split_empty_sep_no_progress 'a' [] (by decide) (by decide)
  simp only [applyStateless, getInput, Outcome.bind_ok, this]

example : StatesOK [RowOp.limit 3, .total (.col "x" []) "t", .whereConst true]
    [.head 0, .total F64.zero, .stateless] :=
  ⟨Or.inl ⟨0, rfl⟩, ⟨F64.zero, rfl⟩, trivial, trivial⟩

/-- a row an operator rejects does not influence the others: restatement of C12 -/
theorem C11_row_isolation (ext : Ext) (ops : List RowOp) (hs : C12.Stateless ops) (r : Record) :
    procPreagg ext ops (ops.map RowOp.init) r =
      match C12.lineFn ext ops r with
      | .ok (o, e) => .ok (ops.map RowOp.init, o, e)
      | .panic p => .panic p
      | .unmodelled w => .unmodelled w :=
  C12.proc_stateless ext ops hs r

end Ag.C11
