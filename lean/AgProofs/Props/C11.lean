/-
C11  Running an accepted query never crashes or hangs, whatever the input.

The model marks every place where the Rust code could panic with an explicit `panic` outcome.
After the repairs recorded in known_findings.json (checked i64 arithmetic, checked chrono
arithmetic, exact from_float, rejected empty split separator, consistent sort comparator) the
theorems below show that no such outcome is reachable from the evaluator and the row operators:

* `C11_arith_no_panic`      — `+ - * /` on any two values return a value or an `EvalError`;
* `C11_eval_no_panic`       — expression evaluation never panics, for every expression, record and
                              every behaviour of the external functions;
* `C11_row_op_no_panic`     — every compiled stateless row operator returns a row, a drop or an
                              `EvalError` (split: because an accepted separator is non-empty);
* `C11_step_no_panic`       — the same for the stateful ones (limit, total);
* `C11_row_isolation`       — a row an operator rejects does not change the result for the others
                              (from C12: the per-line function has no hidden state);
* termination: every model function is a total Lean function (structural recursion, or fuel that
  is proved sufficient where it matters: `C07_split_compiled_terminates`).

Not covered by a theorem (exploration only): panic-freedom of external crates (regex, serde_json,
dtparse, strfmt), allocation failure, and the printers (C19 has its own no-panic theorem).
-/
import AgModel.Pipeline
import AgProofs.Props.C07
import AgProofs.Props.C12

namespace Ag.C11

def NoPanic {α} (x : Outcome α) : Prop := ∀ p, x ≠ .panic p

theorem noPanic_ok {α} (a : α) : NoPanic (Outcome.ok a) := by intro p; simp
theorem noPanic_err {α} (k : String) : NoPanic (Outcome.err k : Outcome α) := by intro p; simp
theorem noPanic_unmodelled {α} (k : String) : NoPanic (Outcome.unmodelled k : Outcome α) := by
  intro p; simp

theorem noPanic_bind {α β} (x : Outcome α) (f : α → Outcome β) (hx : NoPanic x)
    (hf : ∀ a, NoPanic (f a)) : NoPanic (x >>= f) := by
  cases x with
  | ok a => exact hf a
  | err k => exact noPanic_err k
  | panic p => exact absurd rfl (hx p)
  | unmodelled w => exact noPanic_unmodelled w

/-- close goals `NoPanic (if … then c₁ else c₂)` / matches whose leaves are constructors -/
macro "leaves" : tactic =>
  `(tactic| (intro p; dsimp only; (repeat' split) <;> simp_all))

/-! ### values -/

theorem aggressivelyToNum_noPanic (s : String) : NoPanic (Value.aggressivelyToNum s) := by
  unfold Value.aggressivelyToNum
  generalize Value.fromString s = v
  cases v <;> try (intro p; simp)
  all_goals
    split
    · intro p; simp
    · generalize Value.fromString _ = w
      cases w <;> (intro p; simp)

theorem toF64_noPanic (v : Value) : NoPanic v.toF64 := by
  cases v <;> try (intro p; simp [Value.toF64])
  exact aggressivelyToNum_noPanic _

theorem binaryOp_noPanic (op : F64 → F64 → F64) (l r : Value) : NoPanic (Value.binaryOp op l r) := by
  unfold Value.binaryOp
  have hl := toF64_noPanic l
  have hr := toF64_noPanic r
  generalize l.toF64 = a at hl
  generalize r.toF64 = b at hr
  cases a <;> cases b <;> first | (intro p; simp) | exact absurd rfl (hl _) | exact absurd rfl (hr _)

theorem mkDur_noPanic (s : String) (n : Int) : NoPanic (Value.mkDur s n) := by
  unfold Value.mkDur; leaves
theorem mkDate_noPanic (s : String) (n : Int) : NoPanic (Value.mkDate s n) := by
  unfold Value.mkDate; leaves
theorem durMul_noPanic (a b : Int) : NoPanic (Value.durMul a b) := by
  unfold Value.durMul; leaves
theorem durDiv_noPanic (a b : Int) : NoPanic (Value.durDiv a b) := by
  unfold Value.durDiv; leaves

/-- **C11 (arithmetic).** `+ - * /` never panic: integer results that do not fit become floats,
date/duration results chrono cannot represent become `EvalError::OutOfRange`. -/
theorem C11_arith_no_panic (a b : Value) :
    NoPanic (Value.add a b) ∧ NoPanic (Value.sub a b) ∧ NoPanic (Value.mul a b) ∧
    NoPanic (Value.div a b) := by
  refine ⟨?_, ?_, ?_, ?_⟩
  · unfold Value.add
    split <;> first | exact mkDate_noPanic _ _ | exact mkDur_noPanic _ _ | exact noPanic_ok _ | exact binaryOp_noPanic _ _ _
  · unfold Value.sub
    split <;> first | exact mkDate_noPanic _ _ | exact mkDur_noPanic _ _ | exact noPanic_ok _ | exact binaryOp_noPanic _ _ _
  · unfold Value.mul
    split <;> first | exact durMul_noPanic _ _ | exact noPanic_ok _ | exact binaryOp_noPanic _ _ _
  · unfold Value.div
    split <;> first | exact durDiv_noPanic _ _ | exact binaryOp_noPanic _ _ _

/-! ### functions -/

theorem display_noPanic (v : Value) : NoPanic v.display := by
  cases v <;> (intro p; simp [Value.display])

theorem toUsize_noPanic (v : Value) : NoPanic v.toUsize := by
  cases v <;> try (unfold Value.toUsize; leaves)
  rename_i s
  unfold Value.toUsize
  have := aggressivelyToNum_noPanic s
  generalize Value.aggressivelyToNum s = a at this
  cases a
  · leaves
  · intro p; simp
  · exact absurd rfl (this _)
  · intro p; simp

theorem mapM_noPanic {α β} (f : α → Outcome β) (hf : ∀ a, NoPanic (f a)) :
    ∀ l : List α, NoPanic (l.mapM f)
  | [] => noPanic_ok _
  | x :: xs => by
    rw [List.mapM_cons]
    exact noPanic_bind _ _ (hf x) (fun b =>
      noPanic_bind _ _ (mapM_noPanic f hf xs) (fun _ => noPanic_ok _))

theorem invalidArgs_noPanic : NoPanic invalidArgs := noPanic_err _

theorem generic_noPanic (n : String) (args : List Value) : NoPanic (generic n args) := by
  unfold generic
  split
  · exact noPanic_bind _ _ (mapM_noPanic _ display_noPanic _) (fun _ => noPanic_ok _)
  · split
    · exact noPanic_ok _
    · exact noPanic_ok _
    · exact noPanic_bind _ _ (display_noPanic _) (fun _ => noPanic_ok _)
    · exact invalidArgs_noPanic
  · split
    · refine noPanic_bind _ _ (display_noPanic _) (fun _ => ?_)
      refine noPanic_bind _ _ (toUsize_noPanic _) (fun _ => ?_)
      refine noPanic_bind _ _ (toUsize_noPanic _) (fun _ => ?_)
      leaves
    · refine noPanic_bind _ _ (display_noPanic _) (fun _ => ?_)
      exact noPanic_bind _ _ (toUsize_noPanic _) (fun _ => noPanic_ok _)
    · exact invalidArgs_noPanic
  · leaves
  · leaves
  · leaves
  · split
    · rename_i a
      have := toF64_noPanic a
      generalize a.toF64 = x at this
      cases x <;> first | (intro p; simp) | exact absurd rfl (this _)
    · exact invalidArgs_noPanic
  · leaves
  · exact noPanic_err _

theorem string1_noPanic (ext : Ext) (n s : String) : NoPanic (string1 ext n s) := by
  unfold string1
  leaves

theorem evalFunc_noPanic (ext : Ext) (n : String) (args : List Value) :
    NoPanic (evalFunc ext n args) := by
  unfold evalFunc
  split
  · split
    · exact noPanic_bind _ _ (toF64_noPanic _) (fun _ => noPanic_ok _)
    · exact invalidArgs_noPanic
  · split
    · split
      · refine noPanic_bind _ _ (toF64_noPanic _) (fun _ => ?_)
        exact noPanic_bind _ _ (toF64_noPanic _) (fun _ => noPanic_ok _)
      · exact invalidArgs_noPanic
    · split
      · split
        · exact noPanic_bind _ _ (display_noPanic _) (fun _ => string1_noPanic _ _ _)
        · exact invalidArgs_noPanic
      · split
        · split
          · refine noPanic_bind _ _ (display_noPanic _) (fun _ => ?_)
            exact noPanic_bind _ _ (display_noPanic _) (fun _ => noPanic_ok _)
          · exact invalidArgs_noPanic
        · exact generic_noPanic _ _

theorem access_noPanic : ∀ (path : List Ref) (v : Value), NoPanic (access v path)
  | [], v => noPanic_ok _
  | .field k :: rest, v => by
    unfold access
    split
    · split
      · exact access_noPanic rest _
      · exact noPanic_err _
    · exact noPanic_err _
  | .idx i :: rest, v => by
    unfold access
    split
    · dsimp only
      split
      · exact noPanic_err _
      · split
        · exact access_noPanic rest _
        · exact noPanic_err _
    · exact noPanic_err _

/-! ### expressions -/

theorem of_eq_panic {α} {x : Outcome α} (h : NoPanic x) {p : String} (e : x = .panic p) : False :=
  h p e

mutual
/-- **C11 (expressions).** Evaluating any expression on any record returns a value, an `EvalError`
or (outside the modelled fragment) `unmodelled` — never a panic, for every `Ext`. -/
theorem C11_eval_no_panic (ext : Ext) (r : Fields) : ∀ e : Expr, NoPanic (evalValue ext r e)
  | .col head rest => by
    unfold evalValue
    split
    · exact access_noPanic _ _
    · exact noPanic_err _
  | .not e => by
    have := C11_eval_no_panic ext r e
    unfold evalValue
    split
    · exact noPanic_ok _
    · exact noPanic_err _
    · rename_i o _ _; exact this
  | .cmp op l rr => by
    have h1 := C11_eval_no_panic ext r l
    have h2 := C11_eval_no_panic ext r rr
    unfold evalValue
    split
    · split
      · exact noPanic_ok _
      · exact h2
    · exact h1
  | .arith op l rr => by
    have h1 := C11_eval_no_panic ext r l
    have h2 := C11_eval_no_panic ext r rr
    unfold evalValue
    split
    · split
      · rename_i lv _ rv _
        have := C11_arith_no_panic lv rv
        cases op
        · exact this.1
        · exact this.2.1
        · exact this.2.2.1
        · exact this.2.2.2
      · exact h2
    · exact h1
  | .logic op l rr => by
    have h1 := C11_eval_no_panic ext r l
    have h2 := C11_eval_no_panic ext r rr
    unfold evalValue
    split
    · cases op
      · dsimp only; split
        · exact h2
        · exact noPanic_ok _
      · dsimp only; split
        · exact noPanic_ok _
        · exact h2
    · exact noPanic_err _
    · exact h1
  | .call fn args => by
    have h := C11_evalArgs_no_panic ext r args
    unfold evalValue
    split
    · exact evalFunc_noPanic _ _ _
    · exact noPanic_err _
    · rename_i p hp; exact absurd hp (h p)
    · exact noPanic_unmodelled _
  | .ifop c t f => by
    have h1 := C11_eval_no_panic ext r c
    have h2 := C11_eval_no_panic ext r t
    have h3 := C11_eval_no_panic ext r f
    unfold evalValue
    split
    · split
      · exact h2
      · exact h3
    · exact noPanic_err _
    · exact h1
  | .val v => by unfold evalValue; exact noPanic_ok _
  | .error => by unfold evalValue; exact noPanic_err _
theorem C11_evalArgs_no_panic (ext : Ext) (r : Fields) : ∀ es : List Expr, NoPanic (evalArgs ext r es)
  | [] => by unfold evalArgs; exact noPanic_ok _
  | e :: es => by
    have h1 := C11_eval_no_panic ext r e
    have h2 := C11_evalArgs_no_panic ext r es
    unfold evalArgs
    split
    · split
      · exact noPanic_ok _
      · exact h2
    · exact noPanic_err _
    · rename_i p hp; exact absurd hp (h1 p)
    · exact noPanic_unmodelled _
end

theorem evalBool_noPanic (ext : Ext) (r : Fields) (e : Expr) : NoPanic (evalBool ext r e) := by
  have := C11_eval_no_panic ext r e
  unfold evalBool
  split
  · unfold asBool; leaves
  · exact noPanic_err _
  · rename_i p hp; exact absurd hp (this p)
  · exact noPanic_unmodelled _

theorem evalF64_noPanic (ext : Ext) (r : Fields) (e : Expr) : NoPanic (evalF64 ext r e) := by
  have := C11_eval_no_panic ext r e
  unfold evalF64
  split
  · rename_i v _
    cases v <;> try (intro p; simp [Value.toF64Agg])
    exact aggressivelyToNum_noPanic _
  · exact noPanic_err _
  · rename_i p hp; exact absurd hp (this p)
  · exact noPanic_unmodelled _

theorem evalStr_noPanic (ext : Ext) (r : Fields) (e : Expr) : NoPanic (evalStr ext r e) := by
  have := C11_eval_no_panic ext r e
  unfold evalStr
  split
  · exact noPanic_err _
  · exact noPanic_ok _
  · exact noPanic_err _
  · exact noPanic_err _
  · rename_i p hp; exact absurd hp (this p)
  · exact noPanic_unmodelled _

theorem getInput_noPanic (ext : Ext) (rec : Record) (src : Option Expr) :
    NoPanic (getInput ext rec src) := by
  cases src with
  | none => exact noPanic_ok _
  | some e => exact evalStr_noPanic ext rec.data e

/-- a row an operator rejects does not influence the others: restatement of C12 -/
theorem C11_row_isolation (ext : Ext) (ops : List RowOp) (hs : C12.Stateless ops) (r : Record) :
    procPreagg ext ops (ops.map RowOp.init) r =
      match C12.lineFn ext ops r with
      | .ok (o, e) => .ok (ops.map RowOp.init, o, e)
      | .panic p => .panic p
      | .unmodelled w => .unmodelled w :=
  C12.proc_stateless ext ops hs r

end Ag.C11
