/-
C07  parse and split extract exactly the delimited text.

Model: `applyStateless` for `.parse` / `.split` (src/operator/parse.rs:31-83, src/operator/split.rs),
`Kw.captures` (first match of the regex built by `Keyword::to_regex`, src/lang.rs:396-413),
`typecheckInline` (src/typecheck.rs:190-232), `Split.split` (`split_with_delimiters`,
`find_close_delimiter`).

Specification vocabulary: PART A / PART C of AgProofs/Lemmas/Kw.lean (`kwSpec`, `segsHere`,
`LazyGaps`, `Recon`, `substitute`, `matchedText`) and AgProofs/Lemmas/Split.lean (`splitOn`,
`cleanup`, `NoQuote`, `step`, `emit`).  The frame part of `parse` (fields not named stay
untouched, raw line kept) is `Ag.C12.C12_parse_frame`; `parse regex` is outside the model
(`typecheckInline` answers `unmodelled`).
-/
import AgModel.Pipeline
import AgProofs.Lemmas.Kw
import AgProofs.Lemmas.Split
import AgProofs.Lemmas.Fields
import AgProofs.Lemmas.Basic

namespace Ag.C07

open Kw

/-! ### parse: what the operator does with its input text -/

/-- `from_string` unless `noconvert` -/
def conv (noConvert : Bool) (c : List Char) : Value :=
  if noConvert then Value.str (String.ofList c) else Value.fromString (String.ofList c)

/-- the operator on a row whose input text (`from` field or the raw line) is `inp`: first match on
the trimmed text; bind by `zip`; otherwise drop, or (nodrop) fill the absent fields with None -/
theorem parse_apply (ext : Ext) (pat : Keyword) (fs : List String) (src : Option Expr)
    (drop nc : Bool) (r : Record) (inp : String)
    (hi : getInput ext r src = .ok inp)
    (hm : Kw.modelled pat (Text.trim inp.toList) = true) :
    applyStateless ext (.parse pat fs src drop nc) r =
      match Kw.captures pat (Text.trim inp.toList) with
      | none =>
        if drop then .ok none
        else .ok (some { r with data := fs.foldl (fun d f =>
          if Fields.contains f r.data then d else Fields.put f .none d) r.data })
      | some caps =>
        .ok (some { r with data :=
          (fs.zip (caps.map (conv nc))).foldl (fun d fv => Fields.put fv.1 fv.2 d) r.data }) := by
  simp only [applyStateless, bind, Outcome.bind, hi, hm, Bool.not_true, Bool.false_eq_true,
    if_false]
  cases Kw.captures pat (Text.trim inp.toList) with
  | none => cases drop <;> rfl
  | some caps => rfl

/-- `from`: the text parsed is the raw line, or the named field rendered as a string -/
theorem C07_from (ext : Ext) (r : Record) :
    getInput ext r none = .ok r.raw ∧ ∀ e, getInput ext r (some e) = evalStr ext r.data e :=
  ⟨rfl, fun _ => rfl⟩

theorem captures_none_iff (k : Keyword) (l : List Char) :
    Kw.captures k l = none ↔ kwSpec k l = false := by
  rw [← isMatch_eq_kwSpec]
  simp only [isMatch, captures]
  cases find (toToks k) l <;> simp

/-- **C07 (match iff).** The row survives `parse` iff the literal segments of the pattern occur, in
order and non-overlapping, in the trimmed input (ASCII-case-insensitively, a blank standing for any
whitespace, no newline inside a gap, a trailing `*` reaching the end) — `kwSpec`, shared with C02 —
and is dropped otherwise. -/
theorem C07_parse_match_iff (ext : Ext) (pat : Keyword) (fs : List String) (src : Option Expr)
    (nc : Bool) (r : Record) (inp : String)
    (hi : getInput ext r src = .ok inp)
    (hm : Kw.modelled pat (Text.trim inp.toList) = true) :
    ((∃ r', applyStateless ext (.parse pat fs src true nc) r = .ok (some r')) ↔
        kwSpec pat (Text.trim inp.toList) = true) ∧
    (applyStateless ext (.parse pat fs src true nc) r = .ok none ↔
        kwSpec pat (Text.trim inp.toList) = false) := by
  rw [parse_apply ext pat fs src true nc r inp hi hm]
  have hnone := captures_none_iff pat (Text.trim inp.toList)
  cases hc : Kw.captures pat (Text.trim inp.toList) with
  | none =>
    have hf : kwSpec pat (Text.trim inp.toList) = false := hnone.mp hc
    simp [hf]
  | some caps =>
    have ht : kwSpec pat (Text.trim inp.toList) = true := by
      cases hk : kwSpec pat (Text.trim inp.toList) with
      | true => rfl
      | false => rw [hnone.mpr hk] at hc; cases hc
    simp [ht]

/-- **C07 (leftmost, shortest).** `captures` returns `caps` exactly when the line splits as
`pre ++ t` such that (leftmost) at no earlier position can the pattern be matched in any way, and
(`LazyGaps`) from `t` on the segments occur with gaps `caps`, the first gap being the shortest
newline-free one after which the rest of the pattern can still be matched in some way, then the
second likewise, …; with a pattern ending in `*` the last gap runs to the end of the text. -/
theorem C07_parse_leftmost_shortest (k : Keyword) (l : List Char) (caps : Caps) :
    Kw.captures k l = some caps ↔
      ∃ pre t, l = pre ++ t ∧ LazyGaps (anchored k) (segmentsOf k) t caps ∧
        ∀ pre' t', l = pre' ++ t' → pre'.length < pre.length →
          segsHere (anchored k) (segmentsOf k) t' = false :=
  captures_some_iff k l caps

theorem segmentsOf_ne_nil (k : Keyword) : segmentsOf k ≠ [] := by
  unfold segmentsOf
  split
  · exact splitStar_ne_nil _
  · simp

/-- **C07 (reconstruct).** If `captures` returns `caps`, the line is `pre ++ m ++ post` where the
matched part `m = matchedText …` is the pattern with each literal segment replaced by an occurrence
of it and the i-th `*` replaced by `caps[i]` (`Recon`); hence substituting the captures for the
`*`s in the pattern text reproduces `m` up to ASCII case / whitespace class; `post` is empty when
the pattern ends in `*`. -/
theorem C07_reconstruct (k : Keyword) (l : List Char) (caps : Caps)
    (h : Kw.captures k l = some caps) :
    ∃ pre t post, l = pre ++ t ∧ t = matchedText (segmentsOf k) caps t ++ post ∧
      Recon (segmentsOf k) caps (matchedText (segmentsOf k) caps t) ∧
      SegMatch (substitute (segmentsOf k) caps) (matchedText (segmentsOf k) caps t) ∧
      (anchored k = true → post = []) := by
  obtain ⟨pre, t, e, hl, _⟩ := (captures_some_iff k l caps).mp h
  obtain ⟨m, post, e2, hr, ha⟩ := LazyGaps_recon _ _ (segmentsOf_ne_nil k) t caps hl
  have hlen := Recon_length _ _ _ hr
  have hm : matchedText (segmentsOf k) caps t = m := by
    simp [matchedText, e2, ← hlen]
  refine ⟨pre, t, post, e, ?_, ?_, ?_, ha⟩
  · rw [hm]; exact e2
  · rw [hm]; exact hr
  · rw [hm]; exact Recon_substitute _ _ _ hr

/-- no capture contains a newline -/
theorem C07_captures_no_newline (anch : Bool) (segs : List (List Char)) (s : List Char) (caps : Caps)
    (h : LazyGaps anch segs s caps) : ∀ g ∈ caps, '\n' ∉ g := by
  induction segs generalizing s caps with
  | nil => simp only [LazyGaps] at h; simp [h]
  | cons seg rest ih =>
    cases rest with
    | nil => simp only [LazyGaps] at h; simp [h.1]
    | cons r rest =>
      simp only [LazyGaps] at h
      obtain ⟨u, _, g, t, caps', _, hc, hn, hl, _⟩ := h
      subst hc
      intro x hx
      simp only [List.mem_cons] at hx
      rcases hx with hx | hx
      · subst hx; exact hn
      · exact ih t caps' hl x hx

/-- the number of captures is the number of `*` wildcards of the pattern -/
theorem C07_capture_count (k : Keyword) (l : List Char) (caps : Caps)
    (h : Kw.captures k l = some caps) : caps.length = captureCount k := by
  obtain ⟨pre, t, _, hl, _⟩ := (captures_some_iff k l caps).mp h
  have := LazyGaps_length _ _ _ _ hl
  rw [this]
  simp only [segmentsOf, captureCount]
  split
  · simp [splitStar_length, patText, unescapeQuotes_stars]
  · simp

/-- **C07 (field count).** A wildcard pattern whose number of `*`s differs from the number of
fields is rejected by the type checker. -/
theorem C07_field_count (pat : Keyword) (fs : List String) (f1 f2 : Option Expr) (nd nc : Bool)
    (hre : pat.ty ≠ .regex) (hfrom : ¬ (f1.isSome = true ∧ f2.isSome = true))
    (hcnt : captureCount pat ≠ fs.length) :
    typecheckInline (.parse pat fs f1 f2 nd nc) = .typeError "ParseNumPatterns" := by
  have h1 : (pat.ty == .regex) = false := by simpa using hre
  have h2 : (captureCount pat != fs.length) = true := by simpa using hcnt
  cases f1 <;> cases f2 <;> simp_all [typecheckInline]

/-- a pattern that passes the type checker binds every field: as many captures as fields -/
theorem C07_field_count_ok (pat : Keyword) (fs : List String) (f1 f2 : Option Expr) (nd nc : Bool)
    (op : RowOp) (h : typecheckInline (.parse pat fs f1 f2 nd nc) = .ok op) :
    captureCount pat = fs.length ∧
      op = .parse pat fs (f1.orElse fun _ => f2) (!nd) nc := by
  simp only [typecheckInline] at h
  split at h
  · cases h
  · split at h
    · cases h
    · split at h
      · cases h
      · split at h
        · cases h
        · rename_i hc _
          simp only [Static.ok.injEq] at h
          refine ⟨by simpa using hc, h.symm⟩

theorem get_foldl_zip (fs : List String) (vals : List Value) (d : Fields) (hnd : fs.Nodup)
    (i : Nat) (hi : i < fs.length) (hv : i < vals.length) :
    Fields.get fs[i] ((fs.zip vals).foldl (fun d fv => Fields.put fv.1 fv.2 d) d) = some vals[i] := by
  induction fs generalizing vals d i with
  | nil => simp at hi
  | cons f fs ih =>
    cases vals with
    | nil => simp at hv
    | cons v vals =>
      simp only [List.zip_cons_cons, List.foldl_cons]
      have hnd' := List.nodup_cons.mp hnd
      cases i with
      | zero =>
        simp only [List.getElem_cons_zero]
        rw [Fields.get_foldl_put_ne]
        · exact Fields.get_put_eq f v d
        · intro kv hkv e
          have := (List.of_mem_zip hkv).1
          rw [e] at this
          exact hnd'.1 this
      | succ j =>
        simp only [List.getElem_cons_succ]
        exact ih vals _ hnd'.2 j (by simpa using hi) (by simpa using hv)

/-- **C07 (binding / convert).** On a matching row (distinct field names) field `i` is bound to
capture `i`: as text under `noconvert`, otherwise `from_string` of that text. -/
theorem C07_convert (ext : Ext) (pat : Keyword) (fs : List String) (src : Option Expr)
    (drop nc : Bool) (r : Record) (inp : String) (caps : Caps)
    (hi : getInput ext r src = .ok inp)
    (hm : Kw.modelled pat (Text.trim inp.toList) = true)
    (hc : Kw.captures pat (Text.trim inp.toList) = some caps)
    (hnd : fs.Nodup) :
    ∃ r', applyStateless ext (.parse pat fs src drop nc) r = .ok (some r') ∧ r'.raw = r.raw ∧
      ∀ i (h1 : i < fs.length) (h2 : i < caps.length),
        Fields.get fs[i] r'.data = some (conv nc caps[i]) := by
  rw [parse_apply ext pat fs src drop nc r inp hi hm, hc]
  refine ⟨_, rfl, rfl, ?_⟩
  intro i h1 h2
  have := get_foldl_zip fs (caps.map (conv nc)) r.data hnd i h1 (by simpa using h2)
  simpa using this

theorem get_foldl_absent (base : Fields) (f : String) (l : List String) (d : Fields) :
    Fields.get f (l.foldl (fun d g => if Fields.contains g base then d else Fields.put g .none d) d) =
      if f ∈ l ∧ Fields.contains f base = false then some .none else Fields.get f d := by
  induction l generalizing d with
  | nil => simp
  | cons g l ih =>
    simp only [List.foldl_cons]
    rw [ih]
    by_cases hg : g = f
    · subst hg
      cases hb : Fields.contains g base with
      | true => simp
      | false => simp [Fields.get_put_eq]
    · have hne : f ≠ g := fun e => hg e.symm
      have hget : Fields.get f (if Fields.contains g base then d else Fields.put g .none d) =
          Fields.get f d := by
        split
        · rfl
        · exact Fields.get_put_ne f g _ d hne
      rw [hget]
      simp [hne]

/-- **C07 (nodrop).** Under `nodrop` a non-matching row is kept with its raw line; every listed
field that the row already has keeps its value, every other listed field becomes None.  (Fields not
listed are untouched: `Ag.C12.C12_parse_frame`.) -/
theorem C07_nodrop (ext : Ext) (pat : Keyword) (fs : List String) (src : Option Expr)
    (nc : Bool) (r : Record) (inp : String)
    (hi : getInput ext r src = .ok inp)
    (hm : Kw.modelled pat (Text.trim inp.toList) = true)
    (hno : kwSpec pat (Text.trim inp.toList) = false) :
    ∃ r', applyStateless ext (.parse pat fs src false nc) r = .ok (some r') ∧ r'.raw = r.raw ∧
      ∀ f ∈ fs, Fields.get f r'.data =
        if Fields.contains f r.data then Fields.get f r.data else some .none := by
  rw [parse_apply ext pat fs src false nc r inp hi hm, (captures_none_iff _ _).mpr hno]
  refine ⟨_, rfl, rfl, ?_⟩
  intro f hf
  rw [get_foldl_absent]
  cases hb : Fields.contains f r.data <;> simp [hf]

/-! ### split -/

open Split

/-- the result of `split` on a non-empty text, one round unfolded: the token of the first round
(if non-blank, trimmed) followed by the tokens of the rest -/
theorem C07_split_step (sep : List Char) (hsep : sep ≠ []) (c : Char) (cs : List Char) :
    Split.split (c :: cs) sep =
      (Split.split (step sep (c :: cs)).2 sep).map ((emit [] (step sep (c :: cs)).1) ++ ·) := by
  unfold Split.split
  rw [splitLoop_succ]
  have hp := step_progress sep hsep c cs
  simp only [hp, if_true]
  rw [splitLoop_acc, emit_nil_reverse]
  congr 1
  apply splitLoop_fuel sep hsep <;> first | omega | (simp at hp ⊢; omega)

/-- **C07 (split).** For a non-empty separator: the loop terminates (the model's fuel never runs
out: every round strictly shortens the work string); every token is non-empty and trimmed; and for
a text without quote characters the tokens are exactly `s.split(sep)`, trimmed, empties removed —
in that order. -/
theorem C07_split_spec (input sep : List Char) (hsep : sep ≠ []) :
    (∃ toks, Split.split input sep = some toks ∧
      (∀ t ∈ toks, t ≠ [] ∧ Text.trim t = t) ∧
      (NoQuote input → toks = cleanup (splitOn sep input))) := by
  have hsome := splitLoop_isSome sep hsep (input.length + 1) input [] (by omega)
  cases h : splitLoop sep (input.length + 1) input [] with
  | none => rw [h] at hsome; cases hsome
  | some toks =>
    refine ⟨toks, h, ?_, ?_⟩
    · exact splitLoop_clean sep _ input [] toks (by intro t ht; cases ht) h
    · intro hq
      have := splitLoop_noquote sep hsep (input.length + 1) input (by omega) hq
      rw [h] at this
      simpa [splitOn] using this

/-- `splitOn` really splits: joining its pieces with the separator gives the text back -/
theorem C07_splitOn_join (sep s : List Char) : joinSep sep (splitOn sep s) = s :=
  joinSep_splitOnAux sep _ s

/-- **C07 (quoted token).** A text that starts with a quote character `q` whose closing quote —
the first `q` not preceded by a backslash — exists yields the text between the quotes as one token
(trimmed; dropped if blank), whatever separators it contains, followed by the tokens of what comes
after the closing quote. -/
theorem C07_split_quoted (sep : List Char) (hsep : sep ≠ []) (q : Char) (hq : q = '"' ∨ q = '\'')
    (body rest : List Char)
    (hesc : ∀ pre post, body = pre ++ q :: post → pre.getLast? = some '\\')
    (hlast : body.getLast? ≠ some '\\') :
    Split.split (q :: (body ++ q :: rest)) sep =
      (Split.split rest sep).map ((emit [] body) ++ ·) := by
  rw [C07_split_step sep hsep]
  have hfc : findClose q (q :: (body ++ q :: rest)) [] (body ++ q :: rest) = some (body, rest) := by
    have := findClose_found q (q :: (body ++ q :: rest)) [] body rest
      (by simpa using hesc) (by simpa using hlast)
    simpa using this
  have hstep : step sep (q :: (body ++ q :: rest)) = (body, rest) := by
    rcases hq with hq | hq <;> subst hq <;> simp [step, closeDelim, hfc]
  rw [hstep]

/-- an unterminated quote: the rest of the text, opening quote included, is one token -/
theorem C07_split_unterminated (sep : List Char) (hsep : sep ≠ []) (q : Char)
    (hq : q = '"' ∨ q = '\'') (body : List Char)
    (hnone : findClose q (q :: body) [] body = none) :
    Split.split (q :: body) sep = some (emit [] (q :: body)) := by
  rw [C07_split_step sep hsep]
  have hstep : step sep (q :: body) = (q :: body, []) := by
    rcases hq with hq | hq <;> subst hq <;> simp [step, closeDelim, hnone]
  rw [hstep]
  simp [Split.split, splitLoop]

/-- **C07 (empty separator).** With the empty separator a non-empty text that does not start with a
quote makes no progress: `split_once(wip, "")` returns `("", wip)` for ever — the model reports
`none`, the implementation hangs (`* | split on ""`). -/
theorem C07_split_empty_sep_no_progress (c : Char) (cs : List Char) (h1 : c ≠ '"') (h2 : c ≠ '\'') :
    Split.split (c :: cs) [] = none := by
  have e1 : (c == '"') = false := by simpa using h1
  have e2 : (c == '\'') = false := by simpa using h2
  unfold Split.split
  rw [splitLoop_succ]
  have : step [] (c :: cs) = ([], c :: cs) := by
    simp [step, e1, e2, Split.splitOnce, Text.splitOnce, Text.stripPrefix?]
  rw [this]
  simp

/-- **C07 (empty separator rejected).** Since repo commit 5855035 the type checker refuses
`split on ""` (it used to be accepted and then hung, see the theorem above). -/
theorem C07_split_empty_sep_rejected (src dst : Option Expr) :
    typecheckInline (.split "" src dst) = .typeError "EmptySeparator" := by
  simp [typecheckInline]

theorem sep_toList_ne_nil (sep : String) (h : sep.isEmpty = false) : sep.toList ≠ [] := by
  intro e
  have : sep = "" := by simpa using e
  subst this
  simp at h

/-- a `split` that passes the type checker has a non-empty separator, so on every input text the
loop terminates with a token list (`C07_split_spec` applies): the no-progress branch of the model
is unreachable from a compiled query -/
theorem C07_split_compiled_terminates (sep : String) (src dst : Option Expr) (op : RowOp)
    (h : typecheckInline (.split sep src dst) = .ok op) :
    op = .split sep src dst ∧ sep.toList ≠ [] ∧
      ∀ inp : List Char, ∃ toks, Split.split inp sep.toList = some toks := by
  simp only [typecheckInline] at h
  split at h
  · cases h
  · rename_i hne
    have hs : sep.toList ≠ [] := sep_toList_ne_nil sep (by simpa using hne)
    split at h
    · simp only [Static.ok.injEq] at h
      refine ⟨h.symm, hs, fun inp => ?_⟩
      obtain ⟨toks, ht, _⟩ := C07_split_spec inp sep.toList hs
      exact ⟨toks, ht⟩
    · cases h

/-- the array `split` stores: `from_string` of every token -/
def splitValue (toks : List (List Char)) : Value :=
  Value.arr (toks.map (fun t => Value.fromString (String.ofList t)))

/-- the operator stores `from_string` of every token, as an array, under `_split` (or the `as`
column / the input column) -/
theorem C07_split_apply (ext : Ext) (sep : String) (r : Record) (toks : List (List Char))
    (h : Split.split r.raw.toList sep.toList = some toks) :
    applyStateless ext (.split sep none none) r =
      .ok (some { r with data := Fields.put "_split" (splitValue toks) r.data }) := by
  simp only [applyStateless, getInput, bind, Outcome.bind, h]
  rfl

/-! ### non-vacuity -/

example : Kw.captures { text := "a*b*", ty := .wildcard } ['x', 'A', '1', 'b', 'B', '2'] =
    some [['1'], ['B', '2']] := by decide
example : Split.split ['a', ',', ' ', '"', 'b', ',', 'c', '"', ',', 'd'] [','] =
    some [['a'], ['"', 'b'], ['c', '"'], ['d']] := by decide
example : Split.split ['"', 'b', ',', 'c', '"', ',', 'd'] [','] =
    some [['b', ',', 'c'], ['d']] := by decide
example : NoQuote ['a', ',', 'b'] := by simp [NoQuote]

end Ag.C07
