/-
C04 (fuel).  The fuel of the parser model never runs out.

`AgModel/Lang/Parser.lean` makes every repetition recurse on FUEL = remaining length + 1 and every
nesting (`optExprN`, `lowFilterN`) on FUEL = query length + 2, answering `unmod "fuel"` when it is
used up.  Here: for EVERY input the whole parser `parseChars` never answers `unmodelled "fuel"`.

Invariant (`ROK L r`): a result `r` obtained on an input of length `L` hands back (as rest, or as the
position of a nom error — `expect`/`expect_fn` RESUME from that position) at most `L` characters and
is not `unmod "fuel"`.  `Good N f`: `f` satisfies this on every input shorter than `N`.  Leaf parsers
are `Good N` for all `N`; the nesting levels are `Good n (optExprN n)` / `Good n (lowFilterN n)`
because every nesting site consumes at least one character (`(`, `NOT` blank, …) first
(`Consumes`, `good_bind_strict`, `good_expectDelimited_strict`).
-/
import AgProofs.Props.C04

set_option linter.unusedSimpArgs false
set_option linter.unusedVariables false
set_option linter.unnecessarySimpa false

namespace Ag.C04
open Ag Ag.Lang Ag.LangEq

theorem dropWhile_len (f : Char → Bool) : ∀ l : List Char, (l.dropWhile f).length ≤ l.length
  | [] => by simp
  | c :: cs => by
    have := dropWhile_len f cs
    simp only [List.dropWhile_cons]; split <;> simp <;> omega

/-! ### the invariant -/

/-- result of a parser run on an input of length `L`: nothing longer than `L` comes back (rest or
error position) and the fuel did not run out -/
def ROK {α} (L : Nat) : Res α → Prop
  | .ok _ r _ => r.length ≤ L
  | .fail p _ => p.length ≤ L
  | .failure p _ => p.length ≤ L
  | .panic _ => True
  | .unmod w => w ≠ "fuel"

@[simp] theorem ROK_ok {α} (L : Nat) (v : α) (r : List Char) (e : Nat) :
    ROK L (Res.ok v r e) ↔ r.length ≤ L := Iff.rfl
@[simp] theorem ROK_fail {α} (L : Nat) (p : List Char) (e : Nat) :
    ROK L (Res.fail p e : Res α) ↔ p.length ≤ L := Iff.rfl
@[simp] theorem ROK_failure {α} (L : Nat) (p : List Char) (e : Nat) :
    ROK L (Res.failure p e : Res α) ↔ p.length ≤ L := Iff.rfl
@[simp] theorem ROK_panic {α} (L : Nat) (s : String) : ROK L (Res.panic s : Res α) ↔ True := Iff.rfl
@[simp] theorem ROK_unmod {α} (L : Nat) (w : String) : ROK L (Res.unmod w : Res α) ↔ w ≠ "fuel" := Iff.rfl

theorem ROK.mono {α} {L M : Nat} {r : Res α} (h : ROK L r) (hle : L ≤ M) : ROK M r := by
  cases r <;> simp at h ⊢ <;> first | omega | exact h

theorem ROK.castErr {α β} {L : Nat} {r : Res α} (h : ROK L r) : ROK L (r.castErr : Res β) := by
  cases r <;> simp [Res.castErr] at h ⊢ <;> first | omega | exact h | decide

/-- `f` is well behaved on every input shorter than `N` -/
def Good {α} (N : Nat) (f : P α) : Prop := ∀ i e, i.length < N → ROK i.length (f i e)

/-- `f` consumes at least one character whenever it succeeds -/
def Consumes {α} (f : P α) : Prop := ∀ i e v r e', f i e = .ok v r e' → r.length < i.length

theorem Good.mono {α} {N M : Nat} {f : P α} (h : Good N f) (hle : M ≤ N) : Good M f :=
  fun i e hi => h i e (by omega)

/-! ### closure under the combinators -/

section closure
variable {α β γ : Type} {N : Nat}

theorem good_pure (a : α) : Good N (pure a : P α) := by
  intro i e _; show ROK _ (Res.ok a i e); simp

theorem good_bind {p : P α} {f : α → P β} (hp : Good N p) (hf : ∀ a, Good N (f a)) :
    Good N (p >>= f) := by
  intro i e hi
  show ROK i.length (P.bind' p f i e)
  unfold P.bind'
  have h := hp i e hi
  generalize p i e = x at h
  cases x with
  | ok a r e1 => simp at h ⊢; exact (hf a r e1 (by omega)).mono h
  | fail p e1 => simpa using h
  | failure p e1 => simpa using h
  | panic s => simp
  | unmod w => simpa using h

/-- the nesting step: `p` consumes a character, so the continuation only needs the smaller bound -/
theorem good_bind_strict {p : P α} {f : α → P β} (hp : Good (N + 1) p) (hc : Consumes p)
    (hf : ∀ a, Good N (f a)) : Good (N + 1) (p >>= f) := by
  intro i e hi
  show ROK i.length (P.bind' p f i e)
  unfold P.bind'
  have h := hp i e hi
  have hc' := hc i e
  generalize p i e = x at h hc'
  cases x with
  | ok a r e1 =>
    have := hc' a r e1 rfl
    simp at h ⊢; exact (hf a r e1 (by omega)).mono h
  | fail p e1 => simpa using h
  | failure p e1 => simpa using h
  | panic s => simp
  | unmod w => simpa using h

theorem good_seqRight {p : P α} {q : P β} (hp : Good N p) (hq : Good N q) : Good N (p *> q) :=
  good_bind (f := fun _ => q) hp (fun _ => hq)

theorem good_seqRight_strict {p : P α} {q : P β} (hp : Good (N + 1) p) (hc : Consumes p)
    (hq : Good N q) : Good (N + 1) (p *> q) :=
  good_bind_strict (f := fun _ => q) hp hc (fun _ => hq)

theorem good_seqLeft {p : P α} {q : P β} (hp : Good N p) (hq : Good N q) : Good N (p <* q) :=
  good_bind (f := fun a => q >>= fun _ => pure a) hp
    (fun a => good_bind hq (fun _ => good_pure a))

theorem consumes_bind_left {p : P α} {f : α → P β} (hc : Consumes p)
    (hf : ∀ a i e v r e', f a i e = .ok v r e' → r.length ≤ i.length) : Consumes (p >>= f) := by
  intro i e v r e' h
  change P.bind' p f i e = _ at h
  unfold P.bind' at h
  have hc' := hc i e
  generalize p i e = x at h hc'
  cases x with
  | ok a r1 e1 =>
    have h1 := hc' a r1 e1 rfl
    have h2 := hf a r1 e1 v r e' h
    omega
  | _ => simp at h

theorem good_alt {p q : P α} (hp : Good N p) (hq : Good N q) : Good N (alt p q) := by
  intro i e hi
  unfold alt
  have h := hp i e hi
  generalize p i e = x at h
  cases x with
  | fail p e1 => exact hq i e1 hi
  | _ => simpa using h

theorem good_failHere : Good N (failHere : P α) := by
  intro i e _; simp [failHere]

theorem good_altL : ∀ {ps : List (P α)}, (∀ p ∈ ps, Good N p) → Good N (altL ps)
  | [], _ => good_failHere
  | [p], h => h p (by simp)
  | p :: q :: ps, h => by
    show Good N (alt p (altL (q :: ps)))
    exact good_alt (h p (by simp)) (good_altL (fun x hx => h x (by simp [hx])))

theorem good_opt {p : P α} (hp : Good N p) : Good N (opt p) := by
  intro i e hi
  unfold opt
  have h := hp i e hi
  generalize p i e = x at h
  cases x <;> simp at h ⊢ <;> exact h

theorem good_peek {p : P α} (hp : Good N p) : Good N (peek p) := by
  intro i e hi
  unfold peek
  have h := hp i e hi
  generalize p i e = x at h
  cases x <;> simp at h ⊢ <;> exact h

theorem good_notP {p : P α} (hp : Good N p) : Good N (notP p) := by
  intro i e hi
  unfold notP
  have h := hp i e hi
  generalize p i e = x at h
  cases x <;> simp at h ⊢ <;> exact h

theorem good_recognize {p : P α} (hp : Good N p) : Good N (recognize p) := by
  intro i e hi
  unfold recognize
  have h := hp i e hi
  generalize p i e = x at h
  cases x <;> simp [Res.castErr] at h ⊢ <;> exact h

theorem good_pmap {p : P α} (f : α → β) (hp : Good N p) : Good N (pmap f p) := by
  intro i e hi
  unfold pmap
  have h := hp i e hi
  generalize p i e = x at h
  cases x <;> simp [Res.castErr] at h ⊢ <;> exact h

theorem consumes_pmap {p : P α} (f : α → β) (hc : Consumes p) : Consumes (pmap f p) := by
  intro i e v r e' h
  unfold pmap at h
  have hc' := hc i e
  generalize p i e = x at h hc'
  cases x with
  | ok a r1 e1 => simp at h; obtain ⟨_, h2, _⟩ := h; subst h2; exact hc' a r1 e1 rfl
  | _ => simp [Res.castErr] at h

end closure

/-! ### repetition -/

section repetition
variable {α β γ : Type} {N : Nat}

theorem good_many0Loop {f : P α} (hf : Good N f) :
    ∀ (n : Nat) (acc : List α) (i : List Char) (e : Nat), i.length < n → i.length < N →
      ROK i.length (many0Loop f n acc i e) := by
  intro n
  induction n with
  | zero => intro acc i e h; omega
  | succ n ih =>
    intro acc i e h hN
    unfold many0Loop
    have hx := hf i e hN
    generalize f i e = x at hx
    cases x with
    | ok o i1 e1 =>
      simp at hx ⊢
      split
      · simp
      · rename_i hne
        exact (ih (o :: acc) i1 e1 (by omega) (by omega)).mono hx
    | fail p e1 => simp
    | failure p e1 => simpa [Res.castErr] using hx
    | panic s => simp [Res.castErr]
    | unmod w => simpa [Res.castErr] using hx

theorem good_many0 {f : P α} (hf : Good N f) : Good N (many0 f) :=
  fun i e hi => good_many0Loop hf _ _ i e (by omega) hi

theorem good_foldLoop {f : P β} {g : α → β → α} (hf : Good N f) :
    ∀ (n : Nat) (acc : α) (i : List Char) (e : Nat), i.length < n → i.length < N →
      ROK i.length (foldLoop f g n acc i e) := by
  intro n
  induction n with
  | zero => intro acc i e h; omega
  | succ n ih =>
    intro acc i e h hN
    unfold foldLoop
    have hx := hf i e hN
    generalize f i e = x at hx
    cases x with
    | ok o i1 e1 =>
      simp at hx ⊢
      split
      · simp
      · rename_i hne
        exact (ih (g acc o) i1 e1 (by omega) (by omega)).mono hx
    | fail p e1 => simp
    | failure p e1 => simpa [Res.castErr] using hx
    | panic s => simp [Res.castErr]
    | unmod w => simpa [Res.castErr] using hx

theorem good_foldMany0 {f : P β} (init : α) (g : α → β → α) (hf : Good N f) :
    Good N (foldMany0 f init g) :=
  fun i e hi => good_foldLoop hf _ _ i e (by omega) hi

theorem good_manyTillLoop {f : P α} {g : P β} (hf : Good N f) (hg : Good N g) :
    ∀ (n : Nat) (acc : List α) (i : List Char) (e : Nat), i.length < n → i.length < N →
      ROK i.length (manyTillLoop f g n acc i e) := by
  intro n
  induction n with
  | zero => intro acc i e h; omega
  | succ n ih =>
    intro acc i e h hN
    unfold manyTillLoop
    have hy := hg i e hN
    generalize g i e = y at hy
    cases y with
    | ok o i1 e1 => simpa using hy
    | fail p e1 =>
      simp only
      have hx := hf i e1 hN
      generalize f i e1 = x at hx
      cases x with
      | ok o i1 e2 =>
        simp at hx ⊢
        split
        · simpa using hx
        · rename_i hne
          exact (ih (o :: acc) i1 e2 (by omega) (by omega)).mono hx
      | fail p e2 => simpa using hx
      | failure p e2 => simpa [Res.castErr] using hx
      | panic s => simp [Res.castErr]
      | unmod w => simpa [Res.castErr] using hx
    | failure p e1 => simpa [Res.castErr] using hy
    | panic s => simp [Res.castErr]
    | unmod w => simpa [Res.castErr] using hy

theorem good_manyTill {f : P α} {g : P β} (hf : Good N f) (hg : Good N g) : Good N (manyTill f g) :=
  fun i e hi => good_manyTillLoop hf hg _ _ i e (by omega) hi

theorem good_sepLoop {sep : P β} {f : P α} (hs : Good N sep) (hf : Good N f) :
    ∀ (n : Nat) (acc : List α) (i : List Char) (e : Nat), i.length < n → i.length < N →
      ROK i.length (sepLoop sep f n acc i e) := by
  intro n
  induction n with
  | zero => intro acc i e h; omega
  | succ n ih =>
    intro acc i e h hN
    unfold sepLoop
    have hy := hs i e hN
    generalize sep i e = y at hy
    cases y with
    | ok o i1 e1 =>
      simp at hy ⊢
      split
      · simpa using hy
      · rename_i hne
        have hx := hf i1 e1 (by omega)
        generalize f i1 e1 = x at hx
        cases x with
        | ok o2 i2 e2 =>
          simp at hx ⊢
          exact (ih (o2 :: acc) i2 e2 (by omega) (by omega)).mono (by omega)
        | fail p e2 => simp
        | failure p e2 => simp [Res.castErr] at hx ⊢; omega
        | panic s => simp [Res.castErr]
        | unmod w => simpa [Res.castErr] using hx
    | fail p e1 => simp
    | failure p e1 => simpa [Res.castErr] using hy
    | panic s => simp [Res.castErr]
    | unmod w => simpa [Res.castErr] using hy

theorem good_sepList1 {sep : P β} {f : P α} (hs : Good N sep) (hf : Good N f) :
    Good N (sepList1 sep f) := by
  intro i e hi
  unfold sepList1
  have hx := hf i e hi
  generalize f i e = x at hx
  cases x with
  | ok o i1 e1 =>
    simp at hx ⊢
    exact (good_sepLoop hs hf _ _ i1 e1 (by omega) (by omega)).mono hx
  | fail p e1 => simpa [Res.castErr] using hx
  | failure p e1 => simpa [Res.castErr] using hx
  | panic s => simp [Res.castErr]
  | unmod w => simpa [Res.castErr] using hx

theorem good_sepList0 {sep : P β} {f : P α} (hs : Good N sep) (hf : Good N f) :
    Good N (sepList0 sep f) := by
  intro i e hi
  unfold sepList0
  have hx := hf i e hi
  generalize f i e = x at hx
  cases x with
  | ok o i1 e1 =>
    simp at hx ⊢
    exact (good_sepLoop hs hf _ _ i1 e1 (by omega) (by omega)).mono hx
  | fail p e1 => simp
  | failure p e1 => simpa [Res.castErr] using hx
  | panic s => simp [Res.castErr]
  | unmod w => simpa [Res.castErr] using hx

end repetition

/-! ### leaf parsers -/

section leaves
variable {α β γ : Type} {N : Nat}

theorem good_tag (s : String) : Good N (tag s) := by
  intro i e _
  unfold tag
  split
  · rename_i r hr; simpa using stripPrefix_len _ _ _ hr
  · simp

theorem stripPrefix_lt : ∀ (p s r : List Char), p ≠ [] → Text.stripPrefix? p s = some r → r.length < s.length
  | [], _, _, hp, _ => absurd rfl hp
  | _ :: _, [], r, _, h => by simp [Text.stripPrefix?] at h
  | p :: ps, c :: cs, r, _, h => by
    simp only [Text.stripPrefix?] at h
    split at h
    · have := stripPrefix_len ps cs r h
      simp only [List.length_cons]; omega
    · simp at h

theorem consumes_tag (s : String) (hs : s.toList ≠ []) : Consumes (tag s) := by
  intro i e v r e' h
  unfold tag at h
  split at h
  · rename_i r' hr
    simp at h; obtain ⟨h2, _⟩ := h; subst h2
    exact stripPrefix_lt _ _ _ hs hr
  · simp at h

theorem good_satisfy (f : Char → Bool) : Good N (satisfy f) := by
  intro i e _
  unfold satisfy
  split
  · split <;> simp
  · simp

theorem good_anychar : Good N anychar := good_satisfy _

theorem good_takeWhile0 (f : Char → Bool) : Good N (takeWhile0 f) := by
  intro i e _; simp [takeWhile0, dropWhile_len]

theorem good_takeWhile1 (f : Char → Bool) : Good N (takeWhile1 f) := by
  intro i e _
  unfold takeWhile1
  split
  · rename_i c cs _
    have := dropWhile_len f (c :: cs)
    split <;> simp at this ⊢ <;> omega
  · simp

theorem good_digit1 : Good N digit1 := good_takeWhile1 _

theorem good_ws0 : Good N ws0 := by
  intro i e _; simp [ws0, dropWhile_len]

theorem good_ws1 : Good N ws1 := by
  intro i e _
  unfold ws1
  split
  · rename_i c cs _
    have := dropWhile_len Text.isMultispace (c :: cs)
    split <;> simp at this ⊢ <;> omega
  · simp

theorem consumes_ws1 : Consumes ws1 := by
  intro i e v r e' h
  unfold ws1 at h
  split at h
  · rename_i c cs
    split at h
    · rename_i hc
      simp at h; obtain ⟨h2, _⟩ := h; subst h2
      simp [List.dropWhile_cons, hc]
      have := dropWhile_len Text.isMultispace cs
      omega
    · simp at h
  · simp at h

theorem good_eof : Good N eof := by
  intro i e _; unfold eof; split <;> simp

theorem good_report : Good N report := by
  intro i e _; simp [report]

theorem good_getErrs : Good N getErrs := by
  intro i e _; simp [getErrs]

theorem good_unmodP (why : String) (h : why ≠ "fuel") : Good N (unmodP why : P α) := by
  intro i e _; simpa [unmodP] using h

theorem good_reportN : ∀ n, Good N (reportN n)
  | 0 => good_pure ()
  | n + 1 => good_bind good_report (fun _ => good_reportN n)

theorem good_kw (s : String) : Good N (kw s) :=
  good_seqLeft (good_tag s) (good_notP (good_satisfy _))

/-! recovery -/

theorem ROK_resume_sync (line : String) (pos : List Char) (errs : Nat) (v : α) {L : Nat}
    (h : pos.length ≤ L) : ROK L (resumeAt line pos (syncIdx pos) errs v) := by
  rw [(C04_resume_no_panic line pos errs v).1]
  have := dropWhile_len (fun c => !isSyncCh c) pos
  simp; omega

theorem ROK_resume_ws (line : String) (pos : List Char) (errs : Nat) (v : α) {L : Nat}
    (h : pos.length ≤ L) : ROK L (resumeAt line pos (wsIdx pos) errs v) := by
  rw [(C04_resume_no_panic line pos errs v).2]
  have := dropWhile_len (fun c => !isWsSyncCh c) pos
  simp; omega

theorem good_expectAt (line : String) {p : P α} (hp : Good N p) : Good N (expectAt line p) := by
  intro i e hi
  unfold expectAt
  have h := hp i e hi
  generalize p i e = x at h
  cases x with
  | ok v r e1 => simpa using h
  | fail pos e1 => exact ROK_resume_sync _ _ _ _ (by simpa using h)
  | failure pos e1 => exact ROK_resume_sync _ _ _ _ (by simpa using h)
  | panic s => simp
  | unmod w => simpa using h

theorem good_expect {p : P α} (hp : Good N p) : Good N (expect p) := good_expectAt _ hp
theorem good_expectFn {p : P α} (hp : Good N p) : Good N (expectFn p) := good_expectAt _ hp

theorem good_exprOf {p : P Expr} (hp : Good N p) : Good N (exprOf p) := by
  intro i e hi
  unfold exprOf
  have h := hp i e hi
  generalize p i e = x at h
  cases x with
  | ok v r e1 => simpa using h
  | fail pos e1 => exact ROK_resume_sync _ _ _ _ (Nat.le_refl _)
  | failure pos e1 => exact ROK_resume_sync _ _ _ _ (Nat.le_refl _)
  | panic s => simp
  | unmod w => simpa using h

theorem good_skipLoop {third : P Unit} (o2 : α) (ht : Good N third) :
    ∀ (l : List Char) (e : Nat), l.length < N → ROK l.length (skipLoop third o2 l e)
  | [], e, _ => by simp [skipLoop]
  | c :: cs, e, hl => by
    unfold skipLoop
    simp only [List.length_cons] at hl
    have h := ht cs e (by omega)
    generalize third cs e = x at h
    cases x with
    | ok v r e1 => simp at h ⊢; omega
    | fail pos e1 => exact (good_skipLoop o2 ht cs e1 (by omega)).mono (by simp)
    | failure pos e1 => exact (good_skipLoop o2 ht cs e1 (by omega)).mono (by simp)
    | panic s => simp
    | unmod w => simpa using h

theorem good_expectDelimited {first : P β} {second : P α} {third : P Unit}
    (h1 : Good N first) (h2 : Good N second) (h3 : Good N third) :
    Good N (expectDelimited first second third) := by
  intro i e hi
  unfold expectDelimited
  have hx := h1 i e hi
  generalize first i e = x at hx
  cases x with
  | ok v1 r1 e1 =>
    simp at hx ⊢
    have hy := h2 r1 e1 (by omega)
    generalize second r1 e1 = y at hy
    cases y with
    | ok o2 r2 e2 =>
      simp at hy ⊢
      have hz := h3 r2 e2 (by omega)
      generalize third r2 e2 = z at hz
      cases z with
      | ok v3 r3 e3 => simp at hz ⊢; omega
      | fail p e3 => exact (good_skipLoop o2 h3 r2 e3 (by omega)).mono (by omega)
      | failure p e3 => exact (good_skipLoop o2 h3 r2 e3 (by omega)).mono (by omega)
      | panic s => simp
      | unmod w => simpa using hz
    | fail p e2 => simp [Res.castErr] at hy ⊢; omega
    | failure p e2 => simp [Res.castErr] at hy ⊢; omega
    | panic s => simp [Res.castErr]
    | unmod w => simpa [Res.castErr] using hy
  | fail p e1 => simpa [Res.castErr] using hx
  | failure p e1 => simpa [Res.castErr] using hx
  | panic s => simp [Res.castErr]
  | unmod w => simpa [Res.castErr] using hx

/-- the nesting form: `first` consumes a character, so `second` only needs the smaller bound -/
theorem good_expectDelimited_strict {first : P β} {second : P α} {third : P Unit}
    (h1 : Good (N + 1) first) (hc : Consumes first) (h2 : Good N second) (h3 : Good (N + 1) third) :
    Good (N + 1) (expectDelimited first second third) := by
  intro i e hi
  unfold expectDelimited
  have hx := h1 i e hi
  have hc' := hc i e
  generalize first i e = x at hx hc'
  cases x with
  | ok v1 r1 e1 =>
    have hlt := hc' v1 r1 e1 rfl
    simp at hx ⊢
    have hy := h2 r1 e1 (by omega)
    generalize second r1 e1 = y at hy
    cases y with
    | ok o2 r2 e2 =>
      simp at hy ⊢
      have hz := h3 r2 e2 (by omega)
      generalize third r2 e2 = z at hz
      cases z with
      | ok v3 r3 e3 => simp at hz ⊢; omega
      | fail p e3 => exact (good_skipLoop o2 h3 r2 e3 (by omega)).mono (by omega)
      | failure p e3 => exact (good_skipLoop o2 h3 r2 e3 (by omega)).mono (by omega)
      | panic s => simp
      | unmod w => simpa using hz
    | fail p e2 => simp [Res.castErr] at hy ⊢; omega
    | failure p e2 => simp [Res.castErr] at hy ⊢; omega
    | panic s => simp [Res.castErr]
    | unmod w => simpa [Res.castErr] using hy
  | fail p e1 => simpa [Res.castErr] using hx
  | failure p e1 => simpa [Res.castErr] using hx
  | panic s => simp [Res.castErr]
  | unmod w => simpa [Res.castErr] using hx

theorem good_endOfQuery : Good N endOfQuery :=
  good_peek (good_seqRight good_ws0 (good_alt (good_peek (good_tag _)) good_eof))

theorem good_expectPipe : Good N expectPipe :=
  good_pmap _ (good_expect (good_peek (good_seqRight good_ws0 (good_alt (good_tag _) good_eof))))

end leaves

/-! ### strings, identifiers, numbers, durations, values -/

section tokens
variable {α β γ : Type} {N : Nat}

/-- successful runs never lengthen the input (the unbounded consequence of `Good`) -/
def NL {α} (f : P α) : Prop := ∀ i e v r e', f i e = .ok v r e' → r.length ≤ i.length

theorem nl_of_good {p : P α} (h : ∀ N, Good N p) : NL p := by
  intro i e v r e' hp
  have := h (i.length + 1) i e (by omega)
  rw [hp] at this
  simpa using this

theorem consumes_bind_right {p : P α} {f : α → P β} (hp : NL p) (hf : ∀ a, Consumes (f a)) :
    Consumes (p >>= f) := by
  intro i e v r e' h
  change P.bind' p f i e = _ at h
  unfold P.bind' at h
  have hp' := hp i e
  generalize p i e = x at h hp'
  cases x with
  | ok a r1 e1 =>
    have h1 := hp' a r1 e1 rfl
    have h2 := hf a r1 e1 v r e' h
    omega
  | _ => simp at h

theorem consumes_seqRight_left {p : P α} {q : P β} (hc : Consumes p) (hq : NL q) : Consumes (p *> q) :=
  consumes_bind_left (f := fun _ => q) hc (fun _ => hq)

theorem consumes_seqRight_right {p : P α} {q : P β} (hp : NL p) (hq : Consumes q) : Consumes (p *> q) :=
  consumes_bind_right (f := fun _ => q) hp (fun _ => hq)

theorem nl_pure (a : α) : NL (pure a : P α) := nl_of_good (fun _ => good_pure a)

theorem nl_bind {p : P α} {f : α → P β} (hp : NL p) (hf : ∀ a, NL (f a)) : NL (p >>= f) := by
  intro i e v r e' h
  change P.bind' p f i e = _ at h
  unfold P.bind' at h
  have hp' := hp i e
  generalize p i e = x at h hp'
  cases x with
  | ok a r1 e1 =>
    have h1 := hp' a r1 e1 rfl
    have h2 := hf a r1 e1 v r e' h
    omega
  | _ => simp at h

theorem consumes_seqLeft_left {p : P α} {q : P β} (hc : Consumes p) (hq : NL q) : Consumes (p <* q) :=
  consumes_bind_left (f := fun a => q >>= fun _ => pure a) hc
    (fun a => nl_bind hq (fun _ => nl_pure a))

theorem consumes_alt {p q : P α} (hp : Consumes p) (hq : Consumes q) : Consumes (alt p q) := by
  intro i e v r e' h
  unfold alt at h
  have hp' := hp i e
  generalize p i e = x at h hp'
  cases x with
  | ok a r1 e1 => simp at h; obtain ⟨_, h2, _⟩ := h; subst h2; exact hp' a r1 e1 rfl
  | fail p e1 => exact hq i e1 v r e' h
  | _ => simp at h

theorem consumes_recognize {p : P α} (hp : Consumes p) : Consumes (recognize p) := by
  intro i e v r e' h
  unfold recognize at h
  have hp' := hp i e
  generalize p i e = x at h hp'
  cases x with
  | ok a r1 e1 => simp at h; obtain ⟨_, h2, _⟩ := h; subst h2; exact hp' a r1 e1 rfl
  | _ => simp [Res.castErr] at h

theorem consumes_takeWhile1 (f : Char → Bool) : Consumes (takeWhile1 f) := by
  intro i e v r e' h
  unfold takeWhile1 at h
  split at h
  · rename_i c cs
    split at h
    · rename_i hc
      simp at h; obtain ⟨_, h2, _⟩ := h; subst h2
      have := dropWhile_len f cs
      simp [List.dropWhile_cons, hc]; omega
    · simp at h
  · simp at h

theorem consumes_digit1 : Consumes digit1 := consumes_takeWhile1 _

/-! quoted strings -/

theorem escScan_len (q : Char) : ∀ (n : Nat) (i a r : List Char), i.length ≤ n →
    escScan q i = some (a, r) → r.length ≤ i.length := by
  intro n
  induction n with
  | zero =>
    intro i a r hn h
    cases i with
    | nil => simp [escScan] at h; simp [h.2]
    | cons c cs => simp at hn
  | succ n ih =>
    intro i a r hn h
    cases i with
    | nil => simp [escScan] at h; simp [h.2]
    | cons c cs =>
      unfold escScan at h
      split at h
      · cases cs with
        | nil => simp at h
        | cons d ds =>
          simp only at h
          cases hds : escScan q ds with
          | none => simp [hds] at h
          | some ar =>
            obtain ⟨a1, r1⟩ := ar
            simp [hds] at h
            have := ih ds a1 r1 (by simp at hn; omega) hds
            rw [← h.2]; simp; omega
      · split at h
        · simp at h; rw [← h.2]; simp
        · cases hcs : escScan q cs with
          | none => simp [hcs] at h
          | some ar =>
            obtain ⟨a1, r1⟩ := ar
            simp [hcs] at h
            have := ih cs a1 r1 (by simp at hn; omega) hcs
            rw [← h.2]; simp; omega

theorem good_escBody (q : Char) : Good N (escBody q) := by
  intro i e _
  unfold escBody
  split
  · rename_i a r h; simpa using escScan_len q _ i a r (Nat.le_refl _) h
  · simp

theorem good_quotedString : Good N quotedString :=
  good_pmap _ (good_alt (good_expectDelimited (good_tag _) (good_escBody _) (good_tag _))
    (good_expectDelimited (good_tag _) (good_escBody _) (good_tag _)))

theorem good_reqQuotedString : Good N reqQuotedString := by
  intro i e hi
  unfold reqQuotedString
  have h := good_quotedString (N := N) i e hi
  generalize quotedString i e = x at h
  cases x with
  | ok v r e1 => simpa using h
  | fail pos e1 => exact ROK_resume_ws _ _ _ _ (Nat.le_refl _)
  | failure pos e1 => exact ROK_resume_ws _ _ _ _ (Nat.le_refl _)
  | panic s => simp
  | unmod w => simpa using h

/-! identifiers -/

theorem good_bareIdent : Good N bareIdent := by
  intro i e _
  unfold bareIdent
  split
  · rename_i c cs _
    have := dropWhile_len isIdentCh cs
    split <;> simp <;> omega
  · simp

theorem good_escapedIdent : Good N escapedIdent :=
  good_expectDelimited (good_tag _) good_quotedString (good_tag _)

theorem good_ident : Good N ident := good_alt good_bareIdent good_escapedIdent

theorem good_reqIdent : Good N reqIdent := good_pmap _ (good_expectFn good_ident)

/-! numbers, durations -/

theorem good_i64Parse : Good N i64Parse := by
  intro i e hi
  unfold i64Parse
  have h := good_recognize (good_seqRight (good_opt (good_tag "-")) good_digit1) (N := N) i e hi
  generalize recognize (opt (tag "-") *> digit1) i e = x at h
  cases x with
  | ok txt r e1 => simp at h ⊢; split <;> simp [h]
  | fail pos e1 => simpa [Res.castErr] using h
  | failure pos e1 => simpa [Res.castErr] using h
  | panic s => simp [Res.castErr]
  | unmod w => simpa [Res.castErr] using h

theorem consumes_i64Parse : Consumes i64Parse := by
  intro i e v r e' h
  unfold i64Parse at h
  have hc := consumes_recognize (consumes_seqRight_right
    (nl_of_good (fun N => good_opt (good_tag "-") (N := N))) consumes_digit1) i e
  generalize recognize (opt (tag "-") *> digit1) i e = x at h hc
  cases x with
  | ok txt r1 e1 =>
    have := hc txt r1 e1 rfl
    simp at h
    split at h
    · simp at h; rw [← h.2.1]; exact this
    · simp at h
  | _ => simp [Res.castErr] at h

theorem good_unitTag : ∀ (l : List (String × Int)), Good N (unitTag l)
  | [] => good_failHere
  | [(u, k)] => good_pmap _ (good_tag u)
  | (u, k) :: x :: rest => by
    show Good N (alt (pmap (fun _ => (u, k)) (tag u)) (unitTag (x :: rest)))
    exact good_alt (good_pmap _ (good_tag u)) (good_unitTag (x :: rest))

theorem good_durationFragment : Good N durationFragment := by
  intro i e hi
  unfold durationFragment
  have h := good_i64Parse (N := N) i e hi
  generalize i64Parse i e = x at h
  cases x with
  | ok amount r e1 =>
    simp at h ⊢
    have h2 := good_unitTag (N := N) unitNs r e1 (by omega)
    generalize unitTag unitNs r e1 = y at h2
    cases y with
    | ok uk r2 e2 =>
      obtain ⟨u, k⟩ := uk
      simp at h2 ⊢
      split <;> simp <;> omega
    | fail pos e2 => simp [Res.castErr] at h2 ⊢; omega
    | failure pos e2 => simp [Res.castErr] at h2 ⊢; omega
    | panic s => simp [Res.castErr]
    | unmod w => simpa [Res.castErr] using h2
  | fail pos e1 => simpa [Res.castErr] using h
  | failure pos e1 => simpa [Res.castErr] using h
  | panic s => simp [Res.castErr]
  | unmod w => simpa [Res.castErr] using h

theorem consumes_durationFragment : Consumes durationFragment := by
  intro i e v r e' h
  unfold durationFragment at h
  have hc := consumes_i64Parse i e
  generalize i64Parse i e = x at h hc
  cases x with
  | ok amount r1 e1 =>
    have h1 := hc amount r1 e1 rfl
    simp at h
    have h2 := nl_of_good (fun N => good_unitTag (N := N) unitNs) r1 e1
    generalize unitTag unitNs r1 e1 = y at h h2
    cases y with
    | ok uk r2 e2 =>
      obtain ⟨u, k⟩ := uk
      have := h2 (u, k) r2 e2 rfl
      simp at h
      split at h
      · simp at h; rw [← h.2.1]; omega
      · simp at h
    | _ => simp [Res.castErr] at h
  | _ => simp [Res.castErr] at h

theorem good_durLoop :
    ∀ (n : Nat) (acc : Option Int) (i : List Char) (e : Nat), i.length < n →
      ROK i.length (durLoop n acc i e) := by
  intro n
  induction n with
  | zero => intro acc i e h; omega
  | succ n ih =>
    intro acc i e h
    unfold durLoop
    have hx := good_durationFragment (N := i.length + 1) i e (by omega)
    have hc := consumes_durationFragment i e
    generalize durationFragment i e = x at hx hc
    cases x with
    | ok d i1 e1 =>
      have := hc d i1 e1 rfl
      simp only
      exact (ih _ i1 e1 (by omega)).mono (by omega)
    | fail p e1 => simp
    | failure p e1 => simpa [Res.castErr] using hx
    | panic s => simp [Res.castErr]
    | unmod w => simpa [Res.castErr] using hx

theorem good_duration : Good N duration := by
  intro i e hi
  unfold duration
  have hx := good_durationFragment (N := N) i e hi
  generalize durationFragment i e = x at hx
  cases x with
  | ok d i1 e1 =>
    simp at hx ⊢
    have hy := good_durLoop (i1.length + 1) (some d) i1 e1 (by omega)
    generalize durLoop (i1.length + 1) (some d) i1 e1 = y at hy
    cases y with
    | ok t r e2 =>
      cases t with
      | some total => simp at hy ⊢; omega
      | none => simp
    | fail p e2 => simp [Res.castErr] at hy ⊢; omega
    | failure p e2 => simp [Res.castErr] at hy ⊢; omega
    | panic s => simp [Res.castErr]
    | unmod w => simpa [Res.castErr] using hy
  | fail p e1 => simp
  | failure p e1 => simpa using hx
  | panic s => simp
  | unmod w => simpa using hx

theorem good_valueP : Good N valueP := by
  unfold valueP
  apply good_altL
  intro p hp
  simp only [List.mem_cons, List.mem_nil_iff, or_false] at hp
  rcases hp with rfl | rfl | rfl | rfl | rfl | rfl
  · exact good_pmap _ good_quotedString
  · exact good_pmap _ good_duration
  · exact good_pmap _ good_digit1
  · exact good_pmap _ (good_kw _)
  · exact good_pmap _ (good_kw _)
  · exact good_pmap _ (good_kw _)

theorem good_dotProperty : Good N dotProperty := good_pmap _ (good_seqRight (good_tag _) good_ident)
theorem good_indexAccess : Good N indexAccess :=
  good_pmap _ (good_seqLeft (good_seqRight (good_tag _) good_i64Parse) (good_tag _))

theorem good_columnRef : Good N columnRef :=
  good_bind good_ident (fun _ => good_bind (good_many0 (good_alt good_dotProperty good_indexAccess))
    (fun _ => good_pure _))

end tokens

/-! ### automation: one closure step -/

macro "good_step" : tactic => `(tactic| first
  | assumption
  | exact good_pure _ | exact good_tag _ | exact good_kw _ | exact good_ws0 | exact good_ws1
  | exact good_eof | exact good_report | exact good_getErrs | exact good_failHere
  | exact good_digit1 | exact good_anychar | exact good_satisfy _ | exact good_takeWhile1 _
  | exact good_takeWhile0 _ | exact good_reportN _
  | exact good_quotedString | exact good_reqQuotedString | exact good_ident | exact good_reqIdent
  | exact good_i64Parse | exact good_duration | exact good_valueP | exact good_columnRef
  | exact good_endOfQuery | exact good_expectPipe
  | refine good_seqRight ?_ ?_
  | refine good_seqLeft ?_ ?_
  | refine good_bind ?_ (fun _ => ?_)
  | refine good_alt ?_ ?_
  | refine good_opt ?_ | refine good_pmap _ ?_ | refine good_peek ?_ | refine good_notP ?_
  | refine good_recognize ?_ | refine good_expect ?_ | refine good_expectFn ?_
  | refine good_many0 ?_ | refine good_foldMany0 _ _ ?_ | refine good_manyTill ?_ ?_
  | refine good_sepList1 ?_ ?_ | refine good_sepList0 ?_ ?_
  | refine good_expectDelimited ?_ ?_ ?_
  | exact good_unmodP _ (by decide)
  | split
  | simp only [altL])

macro "good_auto" : tactic => `(tactic| repeat' good_step)

/-! ### expressions -/

section expressions
variable {N M : Nat} {pe optE : P Expr}

theorem nl_ws0 : NL ws0 := nl_of_good (fun _ => good_ws0)

theorem consumes_open_ws0 : Consumes (tag "(" *> ws0) :=
  consumes_seqRight_left (consumes_tag "(" (by decide)) nl_ws0

/-- `arg_list`: the arguments are parsed after `(` -/
theorem good_argList_strict (ho : Good N optE) : Good (N + 1) (argList optE) := by
  unfold argList
  refine good_expectDelimited_strict ?_ consumes_open_ws0 ?_ ?_ <;> good_auto

theorem good_argList (ho : Good N optE) : Good N (argList optE) :=
  (good_argList_strict ho).mono (by omega)

/-- `single_arg`: the argument is parsed after `(` -/
theorem good_singleArg_strict (ho : Good N optE) : Good (N + 1) (singleArg optE) := by
  unfold singleArg
  refine good_expectDelimited_strict ?_ consumes_open_ws0 ?_ ?_ <;> good_auto

theorem good_singleArg (ho : Good N optE) : Good N (singleArg optE) :=
  (good_singleArg_strict ho).mono (by omega)

theorem good_reqSingleArg (ho : Good N optE) : Good N (reqSingleArg optE) := by
  have := good_singleArg ho
  unfold reqSingleArg; good_auto

theorem good_kwExpr (k : String) (ho : Good N optE) : Good N (kwExpr k optE) := by
  unfold kwExpr; good_auto

theorem good_fcall (hal : Good M (argList optE)) : Good M (fcall optE) := by
  unfold fcall; good_auto

theorem good_ifOp (hal : Good M (argList optE)) : Good M (ifOp optE) := by
  unfold ifOp; good_auto

/-- `atomic`: `pe` / `optE` are only reached after an opening parenthesis -/
theorem good_atomic_strict (hp : Good N pe) (ho : Good N optE) : Good (N + 1) (atomic pe optE) := by
  have hal := good_argList_strict ho
  unfold atomic
  apply good_altL
  intro p hp'
  simp only [List.mem_cons, List.mem_nil_iff, or_false] at hp'
  rcases hp' with rfl | rfl | rfl | rfl | rfl
  · exact good_ifOp hal
  · exact good_fcall hal
  · exact good_pmap _ good_valueP
  · exact good_columnRef
  · refine good_expectDelimited_strict ?_ (consumes_tag "(" (by decide)) hp ?_ <;> good_auto

theorem good_unary (ha : Good M (atomic pe optE)) : Good M (unary pe optE) := by
  unfold unary; good_auto

theorem good_muldivOp : Good M muldivOp := by unfold muldivOp; good_auto
theorem good_addsubOp : Good M addsubOp := by unfold addsubOp; good_auto

theorem good_compOp : Good M compOp := by
  unfold compOp
  apply good_altL
  intro p hp'
  simp only [List.mem_cons, List.mem_nil_iff, or_false] at hp'
  rcases hp' with rfl | rfl | rfl | rfl | rfl | rfl | rfl <;> exact good_pmap _ (good_tag _)

theorem good_term (hu : Good M (unary pe optE)) : Good M (term pe optE) := by
  have := good_muldivOp (M := M)
  unfold term; good_auto

theorem good_arithExpr (ht : Good M (term pe optE)) : Good M (arithExpr pe optE) := by
  have := good_addsubOp (M := M)
  unfold arithExpr; good_auto

theorem good_cmpExpr (ht : Good M (arithExpr pe optE)) : Good M (cmpExpr pe optE) := by
  have := good_compOp (M := M)
  unfold cmpExpr; good_auto

theorem good_logicalAnd (ht : Good M (cmpExpr pe optE)) : Good M (logicalAnd pe optE) := by
  unfold logicalAnd; good_auto

theorem good_logicalOr (ht : Good M (logicalAnd pe optE)) : Good M (logicalOr pe optE) := by
  unfold logicalOr; good_auto

/-- one nesting level -/
theorem good_logicalOr_strict (hp : Good N pe) (ho : Good N optE) : Good (N + 1) (logicalOr pe optE) :=
  good_logicalOr (good_logicalAnd (good_cmpExpr (good_arithExpr (good_term (good_unary
    (good_atomic_strict hp ho))))))

/-- **nesting fuel of expressions**: `optExprN n` is well behaved on every input shorter than `n` -/
theorem good_optExprN : ∀ n, Good n (optExprN n)
  | 0 => fun i e h => absurd h (Nat.not_lt_zero _)
  | n + 1 => by
    show Good (n + 1) (ws0 *> logicalOr (exprOf (optExprN n)) (optExprN n))
    exact good_seqRight good_ws0 (good_logicalOr_strict (good_exprOf (good_optExprN n)) (good_optExprN n))

theorem good_exprN (n : Nat) : Good n (exprN n) := good_exprOf (good_optExprN n)

end expressions

/-! ### filters -/

section filters
variable {N M : Nat} {low : P (Option Search)}

theorem good_filterAtom : Good M filterAtom := by unfold filterAtom; good_auto

/-- `NOT` and a blank are consumed before the operand -/
theorem good_filterNot_strict (hl : Good N low) : Good (N + 1) (filterNot low) := by
  unfold filterNot
  refine good_pmap _ (good_seqRight_strict ?_ ?_ hl)
  · good_auto
  · exact consumes_seqRight_left (consumes_tag "NOT" (by decide)) (nl_of_good (fun _ => good_ws1))

theorem good_midFilter (hl : Good M low) : Good M (midFilter low) := by
  unfold midFilter; good_auto

theorem good_highFilter (hl : Good M low) : Good M (highFilter low) := by
  have := good_midFilter hl
  unfold highFilter; good_auto

/-- **nesting fuel of filters** -/
theorem good_lowFilterN : ∀ n, Good n (lowFilterN n)
  | 0 => fun i e h => absurd h (Nat.not_lt_zero _)
  | n + 1 => by
    have ih := good_lowFilterN n
    show Good (n + 1) (altL [filterNot (lowFilterN n), filterAtom,
          expectDelimited (tag "(" <* ws0) (highFilter (lowFilterN n)) (ws0 *> tag ")")])
    simp only [altL]
    refine good_alt (good_filterNot_strict ih) (good_alt good_filterAtom ?_)
    refine good_expectDelimited_strict ?_
      (consumes_seqLeft_left (consumes_tag "(" (by decide)) nl_ws0) (good_highFilter ih) ?_ <;> good_auto

theorem good_parseSearch (n : Nat) : Good n (parseSearch n) := by
  have := good_highFilter (good_lowFilterN n)
  unfold parseSearch; good_auto

end filters

/-! ### operators -/

section operators
variable {N : Nat} {env : Env}

theorem good_varList : Good N varList := by unfold varList; good_auto

theorem good_sourcedExpr (hp : Good N env.pe) : Good N (sourcedExpr env) := by
  intro i e hi
  unfold sourcedExpr
  have hx := hp i e hi
  generalize env.pe i e = x at hx
  cases x with
  | ok v r e1 =>
    simp only
    have hlen : (i.take (i.length - r.length)).length < N := by simp; omega
    have hy := hp _ e1 hlen
    generalize env.pe (i.take (i.length - r.length)) e1 = y at hy
    cases y <;> simp at hx hy ⊢ <;> first | omega | exact hy | decide
  | fail p e1 => simpa [Res.castErr] using hx
  | failure p e1 => simpa [Res.castErr] using hx
  | panic s => simp [Res.castErr]
  | unmod w => simpa [Res.castErr] using hx

theorem good_sourcedExprList (hp : Good N env.pe) : Good N (sourcedExprList env) := by
  have := good_sourcedExpr hp
  unfold sourcedExprList; good_auto

theorem good_sortMode : Good N sortMode := by unfold sortMode; good_auto

theorem good_sortOp (hp : Good N env.pe) : Good N (sortOp env) := by
  have := good_sourcedExprList hp
  have := good_sortMode (N := N)
  unfold sortOp; good_auto

theorem good_oper0Args (name : String) : Good N (oper0Args name) := by
  unfold oper0Args; good_auto

theorem good_fromClause (hp : Good N env.pe) : Good N (fromClause env) := by
  unfold fromClause; good_auto

theorem good_parseOp (hp : Good N env.pe) : Good N (parseOp env) := by
  have := good_fromClause hp
  have := good_varList (N := N)
  unfold parseOp
  -- (sequentially: `getErrs` reads the state, `repeat'` would unify it away)
  iterate 11 (refine good_bind ?_ (fun _ => ?_); (focus (good_auto; done)))
  good_auto

theorem good_fieldsMode : Good N fieldsMode := by unfold fieldsMode; good_auto

theorem good_fieldsOp : Good N fieldsOp := by
  have := good_fieldsMode (N := N)
  have := good_varList (N := N)
  unfold fieldsOp; good_auto

theorem good_jsonOp (ho : Good N env.optE) : Good N (jsonOp env) := by
  have := good_oper0Args (N := N) "json"
  have := good_kwExpr "from" ho
  unfold jsonOp; good_auto

theorem good_logfmtOp (ho : Good N env.optE) : Good N (logfmtOp env) := by
  have := good_oper0Args (N := N) "logfmt"
  have := good_kwExpr "from" ho
  unfold logfmtOp; good_auto

end operators

/-! nom `double` -/

section operators2
variable {N : Nat} {env : Env}

theorem stripPrefixNoCase_len (p s r : List Char) (h : stripPrefixNoCase p s = some r) :
    r.length ≤ s.length := by
  unfold stripPrefixNoCase at h
  split at h
  · simp at h
  · split at h
    · simp at h; subst h; simp
    · simp at h

theorem recognizeFloat_len (i txt rest : List Char) (h : recognizeFloat i = .ok txt rest) :
    rest.length ≤ i.length := by
  unfold recognizeFloat at h
  split at h
  rename_i sgn r0 hsr
  have hr0 : r0.length ≤ i.length := by
    split at hsr <;> (simp at hsr; obtain ⟨_, rfl⟩ := hsr; simp)
  clear hsr
  simp only [] at h
  generalize hm : (if (!(List.takeWhile Char.isDigit r0).isEmpty) = true then _ else _ :
    Option (List Char × List Char)) = mant at h
  have hmant : ∀ m r2, mant = some (m, r2) → r2.length ≤ r0.length := by
    intro m r2 hm2
    rw [hm2] at hm
    have h1 := dropWhile_len Char.isDigit r0
    split at hm
    · split at hm
      · rename_i t ht
        have := dropWhile_len Char.isDigit t
        rw [ht] at h1; simp at h1 hm; rw [← hm.2]; omega
      · simp at hm; rw [← hm.2]; exact h1
    · split at hm
      · rename_i t ht
        have := dropWhile_len Char.isDigit t
        rw [ht] at h1
        split at hm
        · simp at hm
        · simp at h1 hm; rw [← hm.2]; omega
      · simp at hm
  cases mant with
  | none =>
    simp only at h
    split at h
    · rename_i r hr; simp at h; rw [← h.2]; exact stripPrefixNoCase_len _ _ _ hr
    · split at h
      · rename_i r hr; simp at h; rw [← h.2]; exact stripPrefixNoCase_len _ _ _ hr
      · split at h
        · rename_i r hr; simp at h; rw [← h.2]; exact stripPrefixNoCase_len _ _ _ hr
        · simp at h
  | some mr =>
    obtain ⟨m, r2⟩ := mr
    have h2 := hmant m r2 rfl
    simp only at h
    split at h
    · rename_i c t
      split at h
      · split at h <;> (try simp only [] at h) <;> split at h <;>
          first
          | (simp at h; done)
          | (simp only [FloatRec.ok.injEq] at h
             obtain ⟨_, rfl⟩ := h
             refine Nat.le_trans (dropWhile_len _ _) ?_
             simp at h2 ⊢; omega)
      · simp only [FloatRec.ok.injEq] at h; rw [← h.2]; omega
    · simp only [FloatRec.ok.injEq] at h; rw [← h.2]; omega

theorem good_double : Good N double := by
  intro i e _
  unfold double
  split
  · rename_i txt rest h
    have := recognizeFloat_len i txt rest h
    split <;> simpa using this
  · simp
  · simp

theorem good_limitOp : Good N limitOp := by
  have := good_double (N := N)
  have := good_oper0Args (N := N) "limit"
  unfold limitOp; good_auto

theorem good_splitOp (hp : Good N env.pe) (ho : Good N env.optE) : Good N (splitOp env) := by
  have := good_singleArg ho
  unfold splitOp; good_auto

theorem good_timesliceOp (ho : Good N env.optE) : Good N (timesliceOp env) := by
  have := good_reqSingleArg ho
  unfold timesliceOp; good_auto

theorem good_totalOp (ho : Good N env.optE) : Good N (totalOp env) := by
  have := good_reqSingleArg ho
  unfold totalOp; good_auto

theorem good_whereOp (hp : Good N env.pe) : Good N (whereOp env) := by
  unfold whereOp; good_auto

theorem good_inlineOpers (hp : Good N env.pe) (ho : Good N env.optE) :
    Good N (inlineOpers env) := by
  have := good_parseOp hp
  have := good_jsonOp ho
  have := good_logfmtOp ho
  have := good_fieldsOp (N := N)
  have := good_limitOp (N := N)
  have := good_splitOp hp ho
  have := good_timesliceOp ho
  have := good_totalOp ho
  have := good_whereOp hp
  unfold inlineOpers; good_auto

theorem good_pctTag : Good N pctTag := by unfold pctTag; good_auto

theorem good_pctFn (ho : Good N env.optE) : Good N (pctFn env) := by
  have := good_reqSingleArg ho
  have := good_pctTag (N := N)
  unfold pctFn; good_auto

theorem good_aggFn (ho : Good N env.optE) : Good N (aggFn env) := by
  have := good_reqSingleArg ho
  have := good_singleArg ho
  have := good_argList ho
  have := good_pctFn ho
  unfold aggFn; good_auto

theorem good_aggOper (ho : Good N env.optE) : Good N (aggOper env) := by
  have := good_aggFn ho
  unfold aggOper; good_auto

theorem good_byClause (hp : Good N env.pe) : Good N (byClause env) := by
  have := good_sourcedExprList hp
  unfold byClause; good_auto

theorem good_multiAgg (hp : Good N env.pe) (ho : Good N env.optE) : Good N (multiAgg env) := by
  have := good_aggOper ho
  have := good_byClause hp
  unfold multiAgg; good_auto

theorem good_fieldExpr (hp : Good N env.pe) : Good N (fieldExpr env) := by
  unfold fieldExpr; good_auto

theorem good_aliasOp : Good N (aliasOp env) := by
  intro i e hi
  unfold aliasOp
  have h := good_recognize good_ident (N := N) i e hi
  generalize recognize ident i e = x at h
  cases x with
  | ok txt r e1 => simp at h ⊢; split <;> simp [h]
  | fail pos e1 => simpa [Res.castErr] using h
  | failure pos e1 => simpa [Res.castErr] using h
  | panic s => simp [Res.castErr]
  | unmod w => simpa [Res.castErr] using h

theorem good_skipToEndOfQuery : Good N skipToEndOfQuery := by
  intro i e hi
  unfold skipToEndOfQuery
  split
  · exact good_pmap _ (good_manyTill good_anychar good_endOfQuery) i e hi
  · simp

theorem good_didYouMean (hp : Good N env.pe) (ho : Good N env.optE) : Good N (didYouMean env) := by
  have := good_argList ho
  have := good_byClause hp
  unfold didYouMean; good_auto

theorem good_garbage : Good N garbage := by unfold garbage; good_auto

theorem good_oper (hp : Good N env.pe) (ho : Good N env.optE) : Good N (oper env) := by
  have := good_inlineOpers hp ho
  have := good_multiAgg hp ho
  have := good_sortOp hp
  have := good_fieldExpr hp
  have := good_aliasOp (N := N) (env := env)
  have := good_skipToEndOfQuery (N := N)
  have := good_didYouMean hp ho
  have := good_garbage (N := N)
  unfold oper; good_auto

theorem good_parseOperators (hp : Good N env.pe) (ho : Good N env.optE) :
    Good N (parseOperators env) := by
  have := good_oper hp ho
  unfold parseOperators; good_auto

end operators2

/-! ### the query -/

/-- the environment `parseChars` builds -/
def queryEnv (cs : List Char) : Env :=
  { pe := exprN (cs.length + 2), optE := optExprN (cs.length + 2), aliases := aliasTable }

/-- the operator part of `parseChars` -/
def queryTail (cs : List Char) : P (Option (List Operator)) :=
  opt (ws0 *> tag "|" *> parseOperators (queryEnv cs)) <* ws0

theorem good_queryTail (cs : List Char) :
    Good (cs.length + 2) (queryTail cs) := by
  have := good_parseOperators (env := queryEnv cs) (good_exprN _) (good_optExprN _)
  unfold queryTail; good_auto

/-- **C04 (fuel).** For EVERY input the parser model ends in accept, reject, a modelled panic site
or a genuine "outside the modelled fragment" (`parse regex` beyond `reAnalyse`) — never because the
fuel of a repetition (`remaining length + 1`) or of the nesting (`query length + 2`) ran out.  No
side conditions. -/
theorem C04_parse_never_out_of_fuel (s : List Char) : parseChars s ≠ .unmodelled "fuel" := by
  have hs := good_parseSearch (s.length + 2) s 0 (by omega)
  show (match parseSearch (s.length + 2) s 0 with
    | .ok search r1 e1 =>
      match queryTail s r1 e1 with
      | .ok ops rest e2 =>
        if e2 > 0 || !rest.isEmpty then ParseResult.reject
        else .accept { search := search, ops := ops.getD [] }
      | .fail _ _ => .reject
      | .failure _ _ => .reject
      | .panic s => .panic s
      | .unmod w => .unmodelled w
    | .fail _ _ => .reject
    | .failure _ _ => .reject
    | .panic s => .panic s
    | .unmod w => .unmodelled w) ≠ .unmodelled "fuel"
  generalize parseSearch (s.length + 2) s 0 = x at hs
  cases x with
  | ok search r1 e1 =>
    simp at hs
    have ht := good_queryTail s r1 e1 (by omega)
    simp only
    generalize queryTail s r1 e1 = y at ht
    cases y with
    | ok ops rest e2 => simp only; split <;> simp
    | fail p e2 => simp
    | failure p e2 => simp
    | panic st => simp
    | unmod w => simpa using ht
  | fail p e1 => simp
  | failure p e1 => simp
  | panic st => simp
  | unmod w => simpa using hs

/-- the same for `parseQuery` (the `String` entry point) -/
theorem C04_parseQuery_never_out_of_fuel (s : String) : parseQuery s ≠ .unmodelled "fuel" :=
  C04_parse_never_out_of_fuel s.toList

/-- sharper form of `parse_trichotomy`: the fourth outcome is never the fuel -/
theorem C04_parse_outcomes (s : List Char) :
    (∃ q, parseChars s = .accept q) ∨ parseChars s = .reject ∨
    (∃ site, parseChars s = .panic site) ∨ (∃ w, w ≠ "fuel" ∧ parseChars s = .unmodelled w) := by
  have hne := C04_parse_never_out_of_fuel s
  rcases parse_trichotomy s with h | h | h | ⟨w, h⟩
  · exact Or.inl h
  · exact Or.inr (Or.inl h)
  · exact Or.inr (Or.inr (Or.inl h))
  · refine Or.inr (Or.inr (Or.inr ⟨w, ?_, h⟩))
    intro hw; subst hw; exact hne h

/-- the alias templates are parsed with the same nesting fuel: `renderAlias` never drops a template
because of the fuel (its `| _ => []` branch is not reached through `unmod "fuel"`) -/
theorem C04_alias_never_out_of_fuel (tpl : String) :
    parseOperators { pe := exprN (tpl.toList.length + 2), optE := optExprN (tpl.toList.length + 2),
                     aliases := [] } tpl.toList 0 ≠ .unmod "fuel" := by
  have h := good_parseOperators (N := tpl.toList.length + 2)
    (env := { pe := exprN (tpl.toList.length + 2), optE := optExprN (tpl.toList.length + 2), aliases := [] })
    (good_exprN _) (good_optExprN _) tpl.toList 0 (by omega)
  intro hc; rw [hc] at h; simp at h

/-- the old interface (`NonLengthening` / `FuelOK` of C04.lean) for parsers that are good at every bound -/
theorem nonLengthening_of_good {α} {p : P α} (h : ∀ N, Good N p) : NonLengthening p := nl_of_good h
theorem fuelOK_of_good {α} {p : P α} (h : ∀ N, Good N p) : FuelOK p := by
  intro i e hc
  have := h (i.length + 1) i e (by omega)
  rw [hc] at this; simp at this

/-! ### non-vacuity -/

/-- the answer the headline excludes does exist in the model … -/
theorem optExprN_zero (i : List Char) (e : Nat) : optExprN 0 i e = .unmod "fuel" := rfl
theorem lowFilterN_zero (i : List Char) (e : Nat) : lowFilterN 0 i e = .unmod "fuel" := rfl

def isFuel {α} : Res α → Bool
  | .unmod w => w == "fuel"
  | _ => false

/-- … and with LESS nesting fuel than nesting depth it is produced (so the bound in
`good_optExprN` / `good_lowFilterN` is about the right `n`), while the fuel `parseChars` hands out
is enough for the same nesting.  (Evaluated; `q!` literals — `String.toList` in the kernel is slow.) -/
example : isFuel (optExprN 1 q!"(a)" 0) = true := by decide
example : isFuel (optExprN 1 q!"a" 0) = false := by decide
example : isFuel (lowFilterN 1 q!"(a)" 0) = true := by decide
example : Ag.LangEq.isAccept (parseChars q!"((a)) | where ((x))") = true := by decide

end Ag.C04
