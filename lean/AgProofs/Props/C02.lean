/-
C02  Filters select exactly the matching lines.

Model: `Kw.toToks` / `Kw.renderRegex` (src/lang.rs:396-413 `Keyword::to_regex`), `Kw.matchHere` /
`Kw.wildK` / `Kw.find` (the regex crate's leftmost-first semantics on the emitted fragment),
`Search.sem` (src/filter.rs:9-18 over src/lib.rs:60-67 `convert_filter`), `runPre` (the filter is
applied to every raw line before any operator, src/lib.rs:286-291).

The specification vocabulary (`Kw.kwSpec`, `Kw.segsHere`, `Kw.SegsOccur`, `Kw.anyTail`, `Kw.anyGap`,
`Kw.charMatches`, `Kw.splitStar`) is PART A of AgProofs/Lemmas/Kw.lean; it does not mention the
matcher.  Case-insensitivity is ASCII (`Kw.foldEq`); for quoted keywords too, as in the code.
-/
import AgModel.Pipeline
import AgModel.Lang.Parser
import AgProofs.Lemmas.Kw

namespace Ag.C02

open Kw

/-! ### the filter tree -/

theorem semAll_eq (l : List Search) (s : List Char) :
    Search.semAll l s = l.all (fun f => Search.sem f s) := by
  induction l with
  | nil => simp [Search.semAll]
  | cons f fs ih => simp [Search.semAll, ih]

theorem semAny_eq (l : List Search) (s : List Char) :
    Search.semAny l s = l.any (fun f => Search.sem f s) := by
  induction l with
  | nil => simp [Search.semAny]
  | cons f fs ih => simp [Search.semAny, ih]

/-- **C02 (tree semantics).** `Filter::matches` is the Boolean semantics of the filter tree:
`And` = all, `Or` = any, `Not` = negation, a keyword = its regex matching somewhere in the line;
`*` alone (`And []`) selects every line. -/
theorem C02_tree_semantics (s : List Char) :
    (∀ l, Search.sem (.and l) s = l.all (fun f => Search.sem f s)) ∧
    (∀ l, Search.sem (.or l) s = l.any (fun f => Search.sem f s)) ∧
    (∀ f, Search.sem (.not f) s = !Search.sem f s) ∧
    (∀ k, Search.sem (.kw k) s = Kw.isMatch k s) ∧
    Search.sem (.and []) s = true := by
  refine ⟨fun l => ?_, fun l => ?_, fun f => ?_, fun k => ?_, ?_⟩
  · simp only [Search.sem]; exact semAll_eq l s
  · simp only [Search.sem]; exact semAny_eq l s
  · simp only [Search.sem]
  · simp only [Search.sem]
  · simp [Search.sem, Search.semAll]

/-! ### the grammar's construction of the tree: `*` (an empty keyword) as an operand -/

/-- the parser's optional filter: `none` (a `*`-only or empty keyword) = every line -/
def optSem : Option Search → List Char → Bool
  | none, _ => true
  | some f, s => Search.sem f s

theorem all_filterMap (ops : List (Option Search)) (s : List Char) :
    (ops.filterMap id).all (fun f => Search.sem f s) = ops.all (fun o => optSem o s) := by
  induction ops with
  | nil => rfl
  | cons o os ih => cases o <;> simp [optSem, ih]

theorem any_filterMap (ops : List (Option Search)) (s : List Char)
    (h : ops.any Option.isNone = false) :
    (ops.filterMap id).any (fun f => Search.sem f s) = ops.any (fun o => optSem o s) := by
  induction ops with
  | nil => rfl
  | cons o os ih =>
    cases o with
    | none => simp at h
    | some f =>
      have h' : os.any Option.isNone = false := by simpa using h
      simp [optSem, ih h']

/-- semantics of `Lang.filterChain mk` for `mk = And` -/
theorem C02_and_chain (ops : List (Option Search)) (s : List Char) :
    optSem (Lang.filterChain Search.and ops) s = ops.all (fun o => optSem o s) := by
  rw [← all_filterMap]
  unfold Lang.filterChain
  split
  · rename_i h; simp [h, optSem]
  · rename_i x h; simp [h, optSem]
  · rename_i xs h1 h2; simp [optSem, Search.sem, semAll_eq]

/-- **C02 (`*` as an operand of OR).** For every non-empty operand list the parsed OR chain selects
exactly the lines selected by SOME operand, an empty keyword (`*`, `**`, `""`) standing for every
line. -/
theorem C02_or_chain (ops : List (Option Search)) (s : List Char) (hne : ops ≠ []) :
    optSem (Lang.orChain ops) s = ops.any (fun o => optSem o s) := by
  unfold Lang.orChain
  by_cases h : ops.any Option.isNone = true
  · simp only [h, if_true, optSem]
    obtain ⟨o, ho, hn⟩ := List.any_eq_true.mp h
    cases o with
    | none => exact (List.any_eq_true.mpr ⟨none, ho, rfl⟩).symm
    | some f => simp at hn
  · have h' : ops.any Option.isNone = false := by
      cases hb : ops.any Option.isNone with
      | true => exact absurd hb h
      | false => rfl
    simp only [h', Bool.false_eq_true, if_false]
    rw [← any_filterMap ops s h']
    unfold Lang.filterChain
    split
    · rename_i hf
      exfalso
      cases ops with
      | nil => exact hne rfl
      | cons o os =>
        cases o with
        | none => simp at h'
        | some f => simp at hf
    · rename_i x hf; simp [hf, optSem]
    · rename_i xs h1 h2; simp [optSem, Search.sem, semAny_eq]

/-- **C02 (`NOT *`).** The negation built by `filter_not` selects exactly the lines its operand does
not select; `NOT *` selects nothing. -/
theorem C02_not_operand (o : Option Search) (s : List Char) :
    optSem (some (Search.not (o.getD (Search.and [])))) s = !optSem o s := by
  cases o <;> simp [optSem, Search.sem, Search.semAll]

/-- **Counterexample for the code before repo commit 0ef6700** (finding C02/star-operand-dropped):
the OR chain was built by `Lang.filterChain` too, which drops the `*` operand, so `k OR *` selected only
the lines matching `k`; and `NOT *` was `*`. -/
theorem C02_star_operand_counterexample (k : Keyword) (s : List Char) :
    optSem (Lang.filterChain Search.or [some (.kw k), none]) s = Kw.isMatch k s ∧
    optSem ((none : Option Search).map Search.not) s = true := by
  simp [Lang.filterChain, optSem, Search.sem]

example : Lang.orChain [some (.kw ⟨"a", .wildcard⟩), none] = none := by decide
/-! ### one keyword -/

/-- **C02 (keyword specification).** For every keyword and every line, the model's matcher
(leftmost-first, lazy groups, backtracking) says "match" exactly when the regex-free specification
holds: somewhere in the line the `*`-separated segments of a bare keyword occur in order and
non-overlapping, a blank standing for any whitespace character and every other character for itself
up to ASCII case, no newline inside a wildcard gap, and — keyword text ending in `*` — the last gap
reaching the end of the line; for a quoted keyword the whole text is one segment (`*` literal). -/
theorem C02_keyword_spec (k : Keyword) (l : List Char) : Kw.isMatch k l = Kw.kwSpec k l :=
  isMatch_eq_kwSpec k l

/-- the same, with the specification spelled out as a decomposition of the line -/
theorem C02_keyword_spec_decl (k : Keyword) (l : List Char) :
    Kw.isMatch k l = true ↔
      ∃ pre t, l = pre ++ t ∧ SegsOccur (anchored k) (segmentsOf k) t := by
  rw [C02_keyword_spec, kwSpec_iff]

/-- quoted keyword: it matches iff an occurrence `m` of the whole text sits somewhere in the line -/
theorem C02_exact_keyword (text : String) (l : List Char) :
    Kw.isMatch { text := text, ty := .exact } l = true ↔
      ∃ pre m post, l = pre ++ (m ++ post) ∧ SegMatch (unescapeQuotes text.toList) m := by
  rw [C02_keyword_spec_decl]
  have hs : segmentsOf { text := text, ty := .exact } = [unescapeQuotes text.toList] := by
    simp [segmentsOf, patText]
  have ha : anchored { text := text, ty := .exact } = false := by simp [anchored]
  rw [hs, ha]
  simp only [SegsOccur]
  constructor
  · rintro ⟨pre, t, e, m, post, e2, hm, _⟩; exact ⟨pre, m, post, by rw [e, e2], hm⟩
  · rintro ⟨pre, m, post, e, hm⟩; exact ⟨pre, m ++ post, e, m, post, rfl, hm, by simp⟩

/-- the lazy-vs-greedy choice inside `(.*?)` is invisible to match existence -/
theorem C02_lazy_irrelevant (k : List Char → Option Caps) (acc s : List Char) :
    (wildK k acc s).isSome = true ↔ ∃ g t, s = g ++ t ∧ '\n' ∉ g ∧ (k t).isSome = true := by
  rw [wildK_isSome, anyGap_iff]

/-! ### the whole filter against the specification -/

mutual
/-- the filter tree over `kwSpec` (no regex, no matcher) -/
def filterSpec : Search → List Char → Bool
  | .and l, s => filterSpecAll l s
  | .or l, s => filterSpecAny l s
  | .not f, s => !filterSpec f s
  | .kw k, s => kwSpec k s
def filterSpecAll : List Search → List Char → Bool
  | [], _ => true
  | f :: fs, s => filterSpec f s && filterSpecAll fs s
def filterSpecAny : List Search → List Char → Bool
  | [], _ => false
  | f :: fs, s => filterSpec f s || filterSpecAny fs s
end

mutual
theorem sem_eq_filterSpec : ∀ (f : Search) (s : List Char), Search.sem f s = filterSpec f s
  | .and l, s => by simp only [Search.sem, filterSpec]; exact semAll_eq_filterSpec l s
  | .or l, s => by simp only [Search.sem, filterSpec]; exact semAny_eq_filterSpec l s
  | .not f, s => by simp only [Search.sem, filterSpec, sem_eq_filterSpec f s]
  | .kw k, s => by simp only [Search.sem, filterSpec]; exact isMatch_eq_kwSpec k s
theorem semAll_eq_filterSpec : ∀ (l : List Search) (s : List Char),
    Search.semAll l s = filterSpecAll l s
  | [], _ => rfl
  | f :: fs, s => by
    simp only [Search.semAll, filterSpecAll, sem_eq_filterSpec f s, semAll_eq_filterSpec fs s]
theorem semAny_eq_filterSpec : ∀ (l : List Search) (s : List Char),
    Search.semAny l s = filterSpecAny l s
  | [], _ => rfl
  | f :: fs, s => by
    simp only [Search.semAny, filterSpecAny, sem_eq_filterSpec f s, semAny_eq_filterSpec fs s]
end

/-- **C02 (filter = specification).** -/
theorem C02_filter_spec (f : Search) (s : List Char) : Search.sem f s = filterSpec f s :=
  sem_eq_filterSpec f s

/-! ### selection: no operators -/

theorem feed_nil_ops (ext : Ext) (rows acc : List Record) (e : Nat) :
    feed ext [] [] rows acc e = .ok ([], acc.reverse ++ rows, e) := by
  induction rows generalizing acc e with
  | nil => simp [feed]
  | cons r rs ih => simp [feed, procPreagg, ih]

/-- **C02 (selection).** With no operators, the rows that reach the printer are exactly the lines
satisfying the filter, each once, in input order — no non-matching line is passed on and no
matching line is lost. -/
theorem C02_selection (ext : Ext) (f : Search) (lines : List String)
    (hm : lines.all (fun l => Search.modelled f l.toList) = true) :
    runPlan ext { filter := f, pre := [], post := [] } lines =
      .ok (.records ((lines.filter (fun l => filterSpec f l.toList)).map
        (fun l => ({ data := [], raw := l } : Record))) 0) := by
  simp only [runPlan, runPre, hm, Bool.not_true, Bool.false_eq_true, if_false, List.map_nil,
    feed_nil_ops, drainLoop]
  simp [C02_filter_spec]

/-- a query that consists of a filter only compiles to that plan -/
theorem C02_compile_filter_only (f : Search) :
    compile { search := f, ops := [] } = .ok { filter := f, pre := [], post := [] } := by
  simp [compile, planLoop, flattenOps]

/-! ### the regex text -/

/-- what one pattern character contributes to the regex text -/
def renderChar (wild : Bool) (c : Char) : List Char :=
  if c == ' ' then ['\\', 's']
  else if c == '*' && wild then "(.*?)".toList
  else if isMeta c then ['\\', c]
  else [c]

/-- **C02 (escaping).** The regex text is `(?i)`, then per keyword character (after `\"` → `"`):
`\s` for a blank, `(.*?)` for `*` in a wildcard keyword only, the character escaped with a
backslash iff it is a regex metacharacter (`isMeta`), itself otherwise; and a final `$` iff the
keyword is a wildcard keyword whose text ends in `*`. -/
theorem renderRegex_escapes (k : Keyword) :
    (renderRegex k).toList =
      "(?i)".toList ++ (patText k).flatMap (renderChar (k.ty == .wildcard)) ++
        (if anchored k then ['$'] else []) := by
  have hfold : ∀ (cs : List Char),
      cs.foldr (fun c acc =>
        if c == ' ' then '\\' :: 's' :: acc
        else if c == '*' && k.ty == .wildcard then "(.*?)".toList ++ acc
        else if isMeta c then '\\' :: c :: acc
        else c :: acc) [] = cs.flatMap (renderChar (k.ty == .wildcard)) := by
    intro cs
    induction cs with
    | nil => rfl
    | cons c cs ih =>
      simp only [List.foldr_cons, List.flatMap_cons, ih, renderChar]
      split
      · rfl
      · split
        · rfl
        · split <;> rfl
  simp only [renderRegex, String.toList_ofList, hfold, patText, anchored]
  rfl

/-- the token the matcher interprets, as regex text -/
def renderTok : Tok → List Char
  | .lit c => if isMeta c then ['\\', c] else [c]
  | .ws => ['\\', 's']
  | .wild => "(.*?)".toList
  | .eol => ['$']

/-- the regex text handed to the regex crate is, token by token, the token list whose semantics
`Kw.matchHere` implements -/
theorem renderRegex_toToks (k : Keyword) :
    (renderRegex k).toList = "(?i)".toList ++ (toToks k).flatMap renderTok := by
  rw [renderRegex_escapes, toToks_eq, List.flatMap_append, ← List.append_assoc]
  congr 1
  · congr 1
    rw [List.flatMap_map]
    congr 1
    funext c
    simp only [renderChar, tokOf]
    split
    · rfl
    · split <;> rfl
  · cases anchored k <;> rfl

/-! ### non-vacuity -/

example : kwSpec { text := "a*b c", ty := .wildcard } ['x', 'A', 'y', 'B', '\t', 'C', 'z'] = true := by
  decide
example : kwSpec { text := "a*b", ty := .wildcard } ['a', '\n', 'b'] = false := by decide
example : kwSpec { text := "a*", ty := .wildcard } ['x', 'a', 'b', '\n'] = false := by decide
example : kwSpec { text := "a*", ty := .exact } ['x', 'A', '*'] = true := by decide
example : kwSpec { text := "a*", ty := .exact } ['x', 'A', 'b'] = false := by decide

end Ag.C02
