/-
C04 (no crash).  The parser model never answers `panic`.

`Res.panic site` marks the places where the real parser (src/lang.rs) could panic.  In the model
of the REPAIRED parser there is exactly one source: `resumeAt` (`&s[n..]` with a byte offset that is
not a char boundary, `sliceBytes = none`), reached from `expect`/`expect_fn` (`expectAt`, lang.rs:262 /
287), `req_quoted_string` (lang.rs:1252) and `expr` (`exprOf`, lang.rs:1148).  All three hand it
`syncIdx pos` / `wsIdx pos` OF THE SAME `pos`, which `C04_resume_no_panic` (C04.lean; byte offsets
since repo commit 8ce3d1f) shows to be a char boundary.  Every other `.panic` in Parser.lean only
passes one on.  Here the composition: `NP f` (no run of `f` answers `panic`) is closed under all
combinators and holds for every grammar function, hence `parseChars s ≠ .panic site` for EVERY input.
(The duration overflow of repo commit c7b3e3a is modelled as `fail`, not `panic`, in the repaired
model: `durationFragment`/`durLoop`.)
-/
import AgProofs.Props.C04fuel

set_option linter.unusedSimpArgs false
set_option linter.unusedVariables false
set_option linter.unnecessarySimpa false

namespace Ag.C04
open Ag Ag.Lang Ag.LangEq

/-! ### the invariant -/

/-- the result is not a panic -/
def RNP {α} : Res α → Prop
  | .panic _ => False
  | _ => True

@[simp] theorem RNP_ok {α} (v : α) (r : List Char) (e : Nat) : RNP (Res.ok v r e) ↔ True := Iff.rfl
@[simp] theorem RNP_fail {α} (p : List Char) (e : Nat) : RNP (Res.fail p e : Res α) ↔ True := Iff.rfl
@[simp] theorem RNP_failure {α} (p : List Char) (e : Nat) : RNP (Res.failure p e : Res α) ↔ True := Iff.rfl
@[simp] theorem RNP_panic {α} (s : String) : RNP (Res.panic s : Res α) ↔ False := Iff.rfl
@[simp] theorem RNP_unmod {α} (w : String) : RNP (Res.unmod w : Res α) ↔ True := Iff.rfl

theorem RNP_iff {α} (r : Res α) : RNP r ↔ ∀ site, r ≠ .panic site := by
  cases r <;> simp

/-- no run of `f` answers `panic` -/
def NP {α} (f : P α) : Prop := ∀ i e, RNP (f i e)

theorem NP_iff {α} (f : P α) : NP f ↔ ∀ i e site, f i e ≠ .panic site := by
  simp [NP, RNP_iff]

/-! ### the one panic source: `resumeAt` at a sync point of the same position -/

theorem RNP_resume_sync {α} (line : String) (pos : List Char) (errs : Nat) (v : α) :
    RNP (resumeAt line pos (syncIdx pos) errs v) := by
  rw [(C04_resume_no_panic line pos errs v).1]; simp

theorem RNP_resume_ws {α} (line : String) (pos : List Char) (errs : Nat) (v : α) :
    RNP (resumeAt line pos (wsIdx pos) errs v) := by
  rw [(C04_resume_no_panic line pos errs v).2]; simp

/-! ### closure under the combinators -/

section closure
variable {α β γ : Type}

theorem np_pure (a : α) : NP (pure a : P α) := by
  intro i e; show RNP (Res.ok a i e); simp

theorem np_bind {p : P α} {f : α → P β} (hp : NP p) (hf : ∀ a, NP (f a)) : NP (p >>= f) := by
  intro i e
  show RNP (P.bind' p f i e)
  unfold P.bind'
  have h := hp i e
  generalize p i e = x at h
  cases x with
  | ok a r e1 => exact hf a r e1
  | _ => simp at h ⊢

theorem np_seqRight {p : P α} {q : P β} (hp : NP p) (hq : NP q) : NP (p *> q) :=
  np_bind (f := fun _ => q) hp (fun _ => hq)

theorem np_seqLeft {p : P α} {q : P β} (hp : NP p) (hq : NP q) : NP (p <* q) :=
  np_bind (f := fun a => q >>= fun _ => pure a) hp (fun a => np_bind hq (fun _ => np_pure a))

theorem np_alt {p q : P α} (hp : NP p) (hq : NP q) : NP (alt p q) := by
  intro i e
  unfold alt
  have h := hp i e
  generalize p i e = x at h
  cases x with
  | fail p e1 => exact hq i e1
  | _ => simp at h ⊢

theorem np_failHere : NP (failHere : P α) := by intro i e; simp [failHere]

theorem np_altL : ∀ {ps : List (P α)}, (∀ p ∈ ps, NP p) → NP (altL ps)
  | [], _ => np_failHere
  | [p], h => h p (by simp)
  | p :: q :: ps, h => by
    show NP (alt p (altL (q :: ps)))
    exact np_alt (h p (by simp)) (np_altL (fun x hx => h x (by simp [hx])))

theorem np_opt {p : P α} (hp : NP p) : NP (opt p) := by
  intro i e; unfold opt
  have h := hp i e; generalize p i e = x at h
  cases x <;> simp at h ⊢

theorem np_peek {p : P α} (hp : NP p) : NP (peek p) := by
  intro i e; unfold peek
  have h := hp i e; generalize p i e = x at h
  cases x <;> simp at h ⊢

theorem np_notP {p : P α} (hp : NP p) : NP (notP p) := by
  intro i e; unfold notP
  have h := hp i e; generalize p i e = x at h
  cases x <;> simp at h ⊢

theorem np_recognize {p : P α} (hp : NP p) : NP (recognize p) := by
  intro i e; unfold recognize
  have h := hp i e; generalize p i e = x at h
  cases x <;> simp [Res.castErr] at h ⊢

theorem np_pmap {p : P α} (f : α → β) (hp : NP p) : NP (pmap f p) := by
  intro i e; unfold pmap
  have h := hp i e; generalize p i e = x at h
  cases x <;> simp [Res.castErr] at h ⊢

/-! repetition (no length side condition: running out of fuel is `unmod`, not `panic`) -/

theorem np_many0Loop {f : P α} (hf : NP f) :
    ∀ (n : Nat) (acc : List α) (i : List Char) (e : Nat), RNP (many0Loop f n acc i e) := by
  intro n
  induction n with
  | zero => intro acc i e; simp [many0Loop]
  | succ n ih =>
    intro acc i e
    unfold many0Loop
    have hx := hf i e
    generalize f i e = x at hx
    cases x with
    | ok o i1 e1 => simp only; split <;> first | simp | exact ih _ _ _
    | _ => simp [Res.castErr] at hx ⊢

theorem np_many0 {f : P α} (hf : NP f) : NP (many0 f) := fun i e => np_many0Loop hf _ _ i e

theorem np_foldLoop {f : P β} {g : α → β → α} (hf : NP f) :
    ∀ (n : Nat) (acc : α) (i : List Char) (e : Nat), RNP (foldLoop f g n acc i e) := by
  intro n
  induction n with
  | zero => intro acc i e; simp [foldLoop]
  | succ n ih =>
    intro acc i e
    unfold foldLoop
    have hx := hf i e
    generalize f i e = x at hx
    cases x with
    | ok o i1 e1 => simp only; split <;> first | simp | exact ih _ _ _
    | _ => simp [Res.castErr] at hx ⊢

theorem np_foldMany0 {f : P β} (init : α) (g : α → β → α) (hf : NP f) : NP (foldMany0 f init g) :=
  fun i e => np_foldLoop hf _ _ i e

theorem np_manyTillLoop {f : P α} {g : P β} (hf : NP f) (hg : NP g) :
    ∀ (n : Nat) (acc : List α) (i : List Char) (e : Nat), RNP (manyTillLoop f g n acc i e) := by
  intro n
  induction n with
  | zero => intro acc i e; simp [manyTillLoop]
  | succ n ih =>
    intro acc i e
    unfold manyTillLoop
    have hy := hg i e
    generalize g i e = y at hy
    cases y with
    | fail p e1 =>
      simp only
      have hx := hf i e1
      generalize f i e1 = x at hx
      cases x with
      | ok o i1 e2 => simp only; split <;> first | simp | exact ih _ _ _
      | _ => simp [Res.castErr] at hx ⊢
    | _ => simp [Res.castErr] at hy ⊢

theorem np_manyTill {f : P α} {g : P β} (hf : NP f) (hg : NP g) : NP (manyTill f g) :=
  fun i e => np_manyTillLoop hf hg _ _ i e

theorem np_sepLoop {sep : P β} {f : P α} (hs : NP sep) (hf : NP f) :
    ∀ (n : Nat) (acc : List α) (i : List Char) (e : Nat), RNP (sepLoop sep f n acc i e) := by
  intro n
  induction n with
  | zero => intro acc i e; simp [sepLoop]
  | succ n ih =>
    intro acc i e
    unfold sepLoop
    have hy := hs i e
    generalize sep i e = y at hy
    cases y with
    | ok o i1 e1 =>
      simp only
      split
      · simp
      · have hx := hf i1 e1
        generalize f i1 e1 = x at hx
        cases x with
        | ok o2 i2 e2 => exact ih _ _ _
        | _ => simp [Res.castErr] at hx ⊢
    | _ => simp [Res.castErr] at hy ⊢

theorem np_sepList1 {sep : P β} {f : P α} (hs : NP sep) (hf : NP f) : NP (sepList1 sep f) := by
  intro i e
  unfold sepList1
  have hx := hf i e
  generalize f i e = x at hx
  cases x with
  | ok o i1 e1 => exact np_sepLoop hs hf _ _ _ _
  | _ => simp [Res.castErr] at hx ⊢

theorem np_sepList0 {sep : P β} {f : P α} (hs : NP sep) (hf : NP f) : NP (sepList0 sep f) := by
  intro i e
  unfold sepList0
  have hx := hf i e
  generalize f i e = x at hx
  cases x with
  | ok o i1 e1 => exact np_sepLoop hs hf _ _ _ _
  | _ => simp [Res.castErr] at hx ⊢

/-! recovery: the three callers of `resumeAt` -/

/-- `expect` / `expect_fn`: the slice offset is the sync point of the SAME position -/
theorem np_expectAt (line : String) {p : P α} (hp : NP p) : NP (expectAt line p) := by
  intro i e
  unfold expectAt
  have h := hp i e
  generalize p i e = x at h
  cases x with
  | fail pos e1 => exact RNP_resume_sync _ _ _ _
  | failure pos e1 => exact RNP_resume_sync _ _ _ _
  | _ => simp at h ⊢

theorem np_expect {p : P α} (hp : NP p) : NP (expect p) := np_expectAt _ hp
theorem np_expectFn {p : P α} (hp : NP p) : NP (expectFn p) := np_expectAt _ hp

/-- `expr` -/
theorem np_exprOf {p : P Expr} (hp : NP p) : NP (exprOf p) := by
  intro i e
  unfold exprOf
  have h := hp i e
  generalize p i e = x at h
  cases x with
  | fail pos e1 => exact RNP_resume_sync _ _ _ _
  | failure pos e1 => exact RNP_resume_sync _ _ _ _
  | _ => simp at h ⊢

theorem np_skipLoop {third : P Unit} (o2 : α) (ht : NP third) :
    ∀ (l : List Char) (e : Nat), RNP (skipLoop third o2 l e)
  | [], e => by simp [skipLoop]
  | c :: cs, e => by
    unfold skipLoop
    have h := ht cs e
    generalize third cs e = x at h
    cases x with
    | fail pos e1 => exact np_skipLoop o2 ht cs e1
    | failure pos e1 => exact np_skipLoop o2 ht cs e1
    | _ => simp at h ⊢

theorem np_expectDelimited {first : P β} {second : P α} {third : P Unit}
    (h1 : NP first) (h2 : NP second) (h3 : NP third) : NP (expectDelimited first second third) := by
  intro i e
  unfold expectDelimited
  have hx := h1 i e
  generalize first i e = x at hx
  cases x with
  | ok v1 r1 e1 =>
    simp only
    have hy := h2 r1 e1
    generalize second r1 e1 = y at hy
    cases y with
    | ok o2 r2 e2 =>
      simp only
      have hz := h3 r2 e2
      generalize third r2 e2 = z at hz
      cases z with
      | fail p e3 => exact np_skipLoop o2 h3 r2 e3
      | failure p e3 => exact np_skipLoop o2 h3 r2 e3
      | _ => simp at hz ⊢
    | _ => simp [Res.castErr] at hy ⊢
  | _ => simp [Res.castErr] at hx ⊢

end closure

/-! ### leaf parsers (no `panic` in their text) -/

section leaves
variable {α : Type}

theorem np_tag (s : String) : NP (tag s) := by intro i e; unfold tag; split <;> simp
theorem np_satisfy (f : Char → Bool) : NP (satisfy f) := by
  intro i e; unfold satisfy; split <;> (try split) <;> simp
theorem np_anychar : NP anychar := np_satisfy _
theorem np_takeWhile0 (f : Char → Bool) : NP (takeWhile0 f) := by intro i e; simp [takeWhile0]
theorem np_takeWhile1 (f : Char → Bool) : NP (takeWhile1 f) := by
  intro i e; unfold takeWhile1; split <;> (try split) <;> simp
theorem np_digit1 : NP digit1 := np_takeWhile1 _
theorem np_ws0 : NP ws0 := by intro i e; simp [ws0]
theorem np_ws1 : NP ws1 := by intro i e; unfold ws1; split <;> (try split) <;> simp
theorem np_eof : NP eof := by intro i e; unfold eof; split <;> simp
theorem np_report : NP report := by intro i e; simp [report]
theorem np_getErrs : NP getErrs := by intro i e; simp [getErrs]
theorem np_unmodP (why : String) : NP (unmodP why : P α) := by intro i e; simp [unmodP]
theorem np_reportN : ∀ n, NP (reportN n)
  | 0 => np_pure ()
  | n + 1 => np_bind np_report (fun _ => np_reportN n)
theorem np_kw (s : String) : NP (kw s) := np_seqLeft (np_tag s) (np_notP (np_satisfy _))
theorem np_endOfQuery : NP endOfQuery :=
  np_peek (np_seqRight np_ws0 (np_alt (np_peek (np_tag _)) np_eof))
theorem np_expectPipe : NP expectPipe :=
  np_pmap _ (np_expect (np_peek (np_seqRight np_ws0 (np_alt (np_tag _) np_eof))))

theorem np_escBody (q : Char) : NP (escBody q) := by intro i e; unfold escBody; split <;> simp

theorem np_quotedString : NP quotedString :=
  np_pmap _ (np_alt (np_expectDelimited (np_tag _) (np_escBody _) (np_tag _))
    (np_expectDelimited (np_tag _) (np_escBody _) (np_tag _)))

/-- `req_quoted_string`: the slice offset is `to_whitespace` of the SAME input -/
theorem np_reqQuotedString : NP reqQuotedString := by
  intro i e
  unfold reqQuotedString
  have h := np_quotedString i e
  generalize quotedString i e = x at h
  cases x with
  | fail pos e1 => exact RNP_resume_ws _ _ _ _
  | failure pos e1 => exact RNP_resume_ws _ _ _ _
  | _ => simp at h ⊢

theorem np_bareIdent : NP bareIdent := by
  intro i e; unfold bareIdent; split <;> (try split) <;> simp
theorem np_escapedIdent : NP escapedIdent := np_expectDelimited (np_tag _) np_quotedString (np_tag _)
theorem np_ident : NP ident := np_alt np_bareIdent np_escapedIdent
theorem np_reqIdent : NP reqIdent := np_pmap _ (np_expectFn np_ident)

theorem np_i64Parse : NP i64Parse := by
  intro i e
  unfold i64Parse
  have h := np_recognize (np_seqRight (np_opt (np_tag "-")) np_digit1) i e
  generalize recognize (opt (tag "-") *> digit1) i e = x at h
  cases x with
  | ok txt r e1 => simp only; split <;> simp
  | _ => simp [Res.castErr] at h ⊢

theorem np_unitTag : ∀ (l : List (String × Int)), NP (unitTag l)
  | [] => np_failHere
  | [(u, k)] => np_pmap _ (np_tag u)
  | (u, k) :: x :: rest => by
    show NP (alt (pmap (fun _ => (u, k)) (tag u)) (unitTag (x :: rest)))
    exact np_alt (np_pmap _ (np_tag u)) (np_unitTag (x :: rest))

/-- `duration_fragment`: the checked chrono constructors (repo c7b3e3a) answer an error -/
theorem np_durationFragment : NP durationFragment := by
  intro i e
  unfold durationFragment
  have h := np_i64Parse i e
  generalize i64Parse i e = x at h
  cases x with
  | ok amount r e1 =>
    simp only
    have h2 := np_unitTag unitNs r e1
    generalize unitTag unitNs r e1 = y at h2
    cases y with
    | ok uk r2 e2 => obtain ⟨u, k⟩ := uk; simp only; split <;> simp
    | _ => simp [Res.castErr] at h2 ⊢
  | _ => simp [Res.castErr] at h ⊢

theorem np_durLoop : ∀ (n : Nat) (acc : Option Int) (i : List Char) (e : Nat), RNP (durLoop n acc i e) := by
  intro n
  induction n with
  | zero => intro acc i e; simp [durLoop]
  | succ n ih =>
    intro acc i e
    unfold durLoop
    have hx := np_durationFragment i e
    generalize durationFragment i e = x at hx
    cases x with
    | ok d i1 e1 => exact ih _ _ _
    | _ => simp [Res.castErr] at hx ⊢

theorem np_duration : NP duration := by
  intro i e
  unfold duration
  have hx := np_durationFragment i e
  generalize durationFragment i e = x at hx
  cases x with
  | ok d i1 e1 =>
    simp only
    have hy := np_durLoop (i1.length + 1) (some d) i1 e1
    generalize durLoop (i1.length + 1) (some d) i1 e1 = y at hy
    cases y with
    | ok t r e2 => cases t <;> simp
    | _ => simp [Res.castErr] at hy ⊢
  | _ => simp at hx ⊢

theorem np_double : NP double := by
  intro i e; unfold double; split <;> (try split) <;> simp

end leaves

/-! ### automation -/

macro "np_step" : tactic => `(tactic| first
  | assumption
  | exact np_pure _ | exact np_tag _ | exact np_kw _ | exact np_ws0 | exact np_ws1
  | exact np_eof | exact np_report | exact np_getErrs | exact np_failHere
  | exact np_digit1 | exact np_anychar | exact np_satisfy _ | exact np_takeWhile1 _
  | exact np_takeWhile0 _ | exact np_reportN _ | exact np_unmodP _
  | exact np_quotedString | exact np_reqQuotedString | exact np_ident | exact np_reqIdent
  | exact np_i64Parse | exact np_duration | exact np_double
  | exact np_endOfQuery | exact np_expectPipe
  | refine np_seqRight ?_ ?_
  | refine np_seqLeft ?_ ?_
  | refine np_bind ?_ (fun _ => ?_)
  | refine np_alt ?_ ?_
  | refine np_opt ?_ | refine np_pmap _ ?_ | refine np_peek ?_ | refine np_notP ?_
  | refine np_recognize ?_ | refine np_expect ?_ | refine np_expectFn ?_
  | refine np_many0 ?_ | refine np_foldMany0 _ _ ?_ | refine np_manyTill ?_ ?_
  | refine np_sepList1 ?_ ?_ | refine np_sepList0 ?_ ?_
  | refine np_expectDelimited ?_ ?_ ?_
  | split
  | simp only [altL])

macro "np_auto" : tactic => `(tactic| repeat' np_step)

/-! ### values, expressions -/

section expressions
variable {pe optE : P Expr}

theorem np_valueP : NP valueP := by unfold valueP; np_auto
theorem np_dotProperty : NP dotProperty := by unfold dotProperty; np_auto
theorem np_indexAccess : NP indexAccess := by unfold indexAccess; np_auto
theorem np_columnRef : NP columnRef := by
  have := np_dotProperty; have := np_indexAccess
  unfold columnRef; np_auto

theorem np_argList (ho : NP optE) : NP (argList optE) := by unfold argList; np_auto
theorem np_singleArg (ho : NP optE) : NP (singleArg optE) := by unfold singleArg; np_auto
theorem np_reqSingleArg (ho : NP optE) : NP (reqSingleArg optE) := by
  have := np_singleArg ho
  unfold reqSingleArg; np_auto
theorem np_kwExpr (k : String) (ho : NP optE) : NP (kwExpr k optE) := by unfold kwExpr; np_auto
theorem np_fcall (ho : NP optE) : NP (fcall optE) := by
  have := np_argList ho
  unfold fcall; np_auto
theorem np_ifOp (ho : NP optE) : NP (ifOp optE) := by
  have := np_argList ho
  unfold ifOp; np_auto
theorem np_atomic (hp : NP pe) (ho : NP optE) : NP (atomic pe optE) := by
  have := np_ifOp ho; have := np_fcall ho; have := np_valueP; have := np_columnRef
  unfold atomic; np_auto
theorem np_unary (hp : NP pe) (ho : NP optE) : NP (unary pe optE) := by
  have := np_atomic hp ho
  unfold unary; np_auto
theorem np_muldivOp : NP muldivOp := by unfold muldivOp; np_auto
theorem np_addsubOp : NP addsubOp := by unfold addsubOp; np_auto
theorem np_compOp : NP compOp := by unfold compOp; np_auto
theorem np_term (hp : NP pe) (ho : NP optE) : NP (term pe optE) := by
  have := np_unary hp ho; have := np_muldivOp
  unfold term; np_auto
theorem np_arithExpr (hp : NP pe) (ho : NP optE) : NP (arithExpr pe optE) := by
  have := np_term hp ho; have := np_addsubOp
  unfold arithExpr; np_auto
theorem np_cmpExpr (hp : NP pe) (ho : NP optE) : NP (cmpExpr pe optE) := by
  have := np_arithExpr hp ho; have := np_compOp
  unfold cmpExpr; np_auto
theorem np_logicalAnd (hp : NP pe) (ho : NP optE) : NP (logicalAnd pe optE) := by
  have := np_cmpExpr hp ho
  unfold logicalAnd; np_auto
theorem np_logicalOr (hp : NP pe) (ho : NP optE) : NP (logicalOr pe optE) := by
  have := np_logicalAnd hp ho
  unfold logicalOr; np_auto

/-- every nesting level, whatever the fuel -/
theorem np_optExprN : ∀ n, NP (optExprN n)
  | 0 => fun i e => by simp [optExprN]
  | n + 1 => by
    show NP (ws0 *> logicalOr (exprOf (optExprN n)) (optExprN n))
    exact np_seqRight np_ws0 (np_logicalOr (np_exprOf (np_optExprN n)) (np_optExprN n))

theorem np_exprN (n : Nat) : NP (exprN n) := np_exprOf (np_optExprN n)

end expressions

/-! ### filters -/

section filters
variable {low : P (Option Search)}

theorem np_filterAtom : NP filterAtom := by unfold filterAtom; np_auto
theorem np_filterNot (hl : NP low) : NP (filterNot low) := by unfold filterNot; np_auto
theorem np_midFilter (hl : NP low) : NP (midFilter low) := by unfold midFilter; np_auto
theorem np_highFilter (hl : NP low) : NP (highFilter low) := by
  have := np_midFilter hl
  unfold highFilter; np_auto

theorem np_lowFilterN : ∀ n, NP (lowFilterN n)
  | 0 => fun i e => by simp [lowFilterN]
  | n + 1 => by
    have ih := np_lowFilterN n
    have := np_filterNot ih; have := np_filterAtom; have := np_highFilter ih
    show NP (altL [filterNot (lowFilterN n), filterAtom,
          expectDelimited (tag "(" <* ws0) (highFilter (lowFilterN n)) (ws0 *> tag ")")])
    np_auto

theorem np_parseSearch (n : Nat) : NP (parseSearch n) := by
  have := np_highFilter (np_lowFilterN n)
  unfold parseSearch; np_auto

end filters

/-! ### operators -/

section operators
variable {env : Env}

theorem np_varList : NP varList := by unfold varList; np_auto

/-- `sourced_expr`: the second run of `expr` (on the recognised text) does not panic either -/
theorem np_sourcedExpr (hp : NP env.pe) : NP (sourcedExpr env) := by
  intro i e
  unfold sourcedExpr
  have hx := hp i e
  generalize env.pe i e = x at hx
  cases x with
  | ok v r e1 =>
    simp only
    have hy := hp (i.take (i.length - r.length)) e1
    generalize env.pe (i.take (i.length - r.length)) e1 = y at hy
    cases y <;> simp at hy ⊢
  | _ => simp [Res.castErr] at hx ⊢

theorem np_sourcedExprList (hp : NP env.pe) : NP (sourcedExprList env) := by
  have := np_sourcedExpr hp
  unfold sourcedExprList; np_auto
theorem np_sortMode : NP sortMode := by unfold sortMode; np_auto
theorem np_sortOp (hp : NP env.pe) : NP (sortOp env) := by
  have := np_sourcedExprList hp; have := np_sortMode
  unfold sortOp; np_auto
theorem np_oper0Args (name : String) : NP (oper0Args name) := by unfold oper0Args; np_auto
theorem np_fromClause (hp : NP env.pe) : NP (fromClause env) := by unfold fromClause; np_auto

theorem np_parseOp (hp : NP env.pe) : NP (parseOp env) := by
  have := np_fromClause hp; have := np_varList
  unfold parseOp
  iterate 11 (refine np_bind ?_ (fun _ => ?_); (focus (np_auto; done)))
  np_auto

theorem np_fieldsMode : NP fieldsMode := by unfold fieldsMode; np_auto
theorem np_fieldsOp : NP fieldsOp := by
  have := np_fieldsMode; have := np_varList
  unfold fieldsOp; np_auto
theorem np_jsonOp (ho : NP env.optE) : NP (jsonOp env) := by
  have := np_oper0Args "json"; have := np_kwExpr "from" ho
  unfold jsonOp; np_auto
theorem np_logfmtOp (ho : NP env.optE) : NP (logfmtOp env) := by
  have := np_oper0Args "logfmt"; have := np_kwExpr "from" ho
  unfold logfmtOp; np_auto
theorem np_limitOp : NP limitOp := by
  have := np_oper0Args "limit"
  unfold limitOp; np_auto
theorem np_splitOp (hp : NP env.pe) (ho : NP env.optE) : NP (splitOp env) := by
  have := np_singleArg ho
  unfold splitOp; np_auto
theorem np_timesliceOp (ho : NP env.optE) : NP (timesliceOp env) := by
  have := np_reqSingleArg ho
  unfold timesliceOp; np_auto
theorem np_totalOp (ho : NP env.optE) : NP (totalOp env) := by
  have := np_reqSingleArg ho
  unfold totalOp; np_auto
theorem np_whereOp (hp : NP env.pe) : NP (whereOp env) := by unfold whereOp; np_auto

theorem np_inlineOpers (hp : NP env.pe) (ho : NP env.optE) : NP (inlineOpers env) := by
  have := np_parseOp hp; have := np_jsonOp ho; have := np_logfmtOp ho; have := np_fieldsOp
  have := np_limitOp; have := np_splitOp hp ho; have := np_timesliceOp ho; have := np_totalOp ho
  have := np_whereOp hp
  unfold inlineOpers; np_auto

theorem np_pctTag : NP pctTag := by unfold pctTag; np_auto
theorem np_pctFn (ho : NP env.optE) : NP (pctFn env) := by
  have := np_reqSingleArg ho; have := np_pctTag
  unfold pctFn; np_auto
theorem np_aggFn (ho : NP env.optE) : NP (aggFn env) := by
  have := np_reqSingleArg ho; have := np_singleArg ho; have := np_argList ho; have := np_pctFn ho
  unfold aggFn; np_auto
theorem np_aggOper (ho : NP env.optE) : NP (aggOper env) := by
  have := np_aggFn ho
  unfold aggOper; np_auto
theorem np_byClause (hp : NP env.pe) : NP (byClause env) := by
  have := np_sourcedExprList hp
  unfold byClause; np_auto
theorem np_multiAgg (hp : NP env.pe) (ho : NP env.optE) : NP (multiAgg env) := by
  have := np_aggOper ho; have := np_byClause hp
  unfold multiAgg; np_auto
theorem np_fieldExpr (hp : NP env.pe) : NP (fieldExpr env) := by unfold fieldExpr; np_auto

theorem np_aliasOp : NP (aliasOp env) := by
  intro i e
  unfold aliasOp
  have h := np_recognize np_ident i e
  generalize recognize ident i e = x at h
  cases x with
  | ok txt r e1 => simp only; split <;> simp
  | _ => simp [Res.castErr] at h ⊢

theorem np_skipToEndOfQuery : NP skipToEndOfQuery := by
  intro i e
  unfold skipToEndOfQuery
  split
  · exact np_pmap _ (np_manyTill np_anychar np_endOfQuery) i e
  · simp

theorem np_didYouMean (hp : NP env.pe) (ho : NP env.optE) : NP (didYouMean env) := by
  have := np_argList ho; have := np_byClause hp
  unfold didYouMean; np_auto
theorem np_garbage : NP garbage := by unfold garbage; np_auto

theorem np_oper (hp : NP env.pe) (ho : NP env.optE) : NP (oper env) := by
  have := np_inlineOpers hp ho; have := np_multiAgg hp ho; have := np_sortOp hp
  have := np_fieldExpr hp; have := np_aliasOp (env := env); have := np_skipToEndOfQuery
  have := np_didYouMean hp ho; have := np_garbage
  unfold oper; np_auto

theorem np_parseOperators (hp : NP env.pe) (ho : NP env.optE) : NP (parseOperators env) := by
  have := np_oper hp ho
  unfold parseOperators; np_auto

end operators

/-! ### the query -/

theorem np_queryTail (cs : List Char) : NP (queryTail cs) := by
  have := np_parseOperators (env := queryEnv cs) (np_exprN _) (np_optExprN _)
  unfold queryTail; np_auto

/-- **C04 (no crash).** For EVERY input the parser model does not answer `panic`: none of the places
where src/lang.rs slices a string at a computed byte offset (`expect`, `expect_fn`,
`req_quoted_string`, `expr`) is reached with an offset off a char boundary.  No side conditions. -/
theorem C04_parse_never_panics (s : List Char) : ∀ site, parseChars s ≠ .panic site := by
  intro site
  have hs := np_parseSearch (s.length + 2) s 0
  show (match parseSearch (s.length + 2) s 0 with
    | .ok search r1 e1 =>
      match queryTail s r1 e1 with
      | .ok ops rest e2 =>
        if e2 > 0 || !rest.isEmpty then ParseResult.reject
        else .accept { search := search, ops := ops.getD [] }
      | .fail _ _ => .reject
      | .failure _ _ => .reject
      | .panic s => .panic s
      | .unmod w => .unmodelled w
    | .fail _ _ => .reject
    | .failure _ _ => .reject
    | .panic s => .panic s
    | .unmod w => .unmodelled w) ≠ .panic site
  generalize parseSearch (s.length + 2) s 0 = x at hs
  cases x with
  | ok search r1 e1 =>
    have ht := np_queryTail s r1 e1
    simp only
    generalize queryTail s r1 e1 = y at ht
    cases y with
    | ok ops rest e2 => simp only; split <;> simp
    | _ => simp at ht ⊢
  | _ => simp at hs ⊢

theorem C04_parseQuery_never_panics (s : String) : ∀ site, parseQuery s ≠ .panic site :=
  C04_parse_never_panics s.toList

/-- **C04 (outcomes of the parser model).** accept, reject, or outside the modelled fragment for a
reason other than the fuel — nothing else, for every input (`C04_parse_never_out_of_fuel` +
`C04_parse_never_panics`) -/
theorem C04_parse_outcomes_no_panic (s : List Char) :
    (∃ q, parseChars s = .accept q) ∨ parseChars s = .reject ∨
    (∃ w, w ≠ "fuel" ∧ parseChars s = .unmodelled w) := by
  rcases C04_parse_outcomes s with h | h | ⟨site, h⟩ | h
  · exact Or.inl h
  · exact Or.inr (Or.inl h)
  · exact absurd h (C04_parse_never_panics s site)
  · exact Or.inr (Or.inr h)

/-- the alias templates: `renderAlias`'s `| _ => []` is not reached through a panic -/
theorem C04_alias_never_panics (tpl : String) (site : String) :
    parseOperators { pe := exprN (tpl.toList.length + 2), optE := optExprN (tpl.toList.length + 2),
                     aliases := [] } tpl.toList 0 ≠ .panic site := by
  have h := np_parseOperators
    (env := { pe := exprN (tpl.toList.length + 2), optE := optExprN (tpl.toList.length + 2), aliases := [] })
    (np_exprN _) (np_optExprN _) tpl.toList 0
  intro hc; rw [hc] at h; simp at h

/-! ### non-vacuity: the panic answer exists in the model and the guard matters -/

/-- with the OLD offset (`syncIdxOld`, a char index used as a byte offset; before repo 8ce3d1f) the
same `resumeAt` does answer `panic` on `é|` -/
theorem resumeAt_old_offset_panics :
    (resumeAt "262" q!"é|" (syncIdxOld q!"é|") 1 (none : Option Unit)) = .panic (panicSlice "262") := by
  have h := C04_char_boundary_counterexample.1
  simp [resumeAt, h]

end Ag.C04
