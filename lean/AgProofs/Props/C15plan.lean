/-
C15 (the scheduler theorems, instantiated with the pipeline)

AgProofs/Props/C15.lean is about an abstract configuration `Sched.Cfg σ ρ` (per-line step, drain,
printer).  Here the configuration is the reader side of a compiled plan WITHOUT aggregation:

* `planCfg ext p body cap` — operator state `Option (List OpState)` (`none` once a step has panicked
  or left the model), per-line step = lossy decode, filter, `procPreagg` through `p.pre` carrying the
  operator states (limit, total included), end of input = `drainLoop`;
* `planCfg_seqRows` — its sequential reference rows are exactly `(runPre ext p lines).rows`;
* `C15_plan_written` — hence, for EVERY fault-free schedule (any chunking of the input, any
  interleaving of reader and renderer, any channel capacity), when the run has finished the bytes
  written are the rendering of the rows of `runPre` for this query on the lines of the input,
  each once, in order (`C15_final`); `C15_plan_chunking_independent` likewise.
-/
import AgProofs.Props.C15
import AgProofs.Props.C03stage

namespace Ag.C15
open Ag.Sched

/-- the record the reader builds from a line -/
def lineRec (l : Line) : Record := { data := [], raw := Utf8.lossy l }

/-- the reader side of a plan as a scheduler configuration -/
def planCfg (ext : Ext) (p : Plan) (body : Record → Bytes) (cap : Nat) :
    Cfg (Option (List OpState)) Record :=
  { init := some (p.pre.map RowOp.init),
    step := fun st l =>
      match st with
      | none => (none, none)
      | some sts =>
        if Search.sem p.filter (Utf8.lossy l).toList then
          match procPreagg ext p.pre sts (lineRec l) with
          | .ok (sts', out, _) => (some sts', out)
          | _ => (none, none)
        else (some sts, none),
    drain := fun st =>
      match st with
      | some sts =>
        match drainLoop ext p.pre sts [] 0 with
        | .ok (rows, _) => rows
        | _ => []
      | none => [],
    body := body,
    agg := false,
    aggFinal := fun _ => [],
    cap := cap }

/-- the records of the lines that pass the filter (what `runPre` feeds) -/
def passing (p : Plan) (ls : List Line) : List Record :=
  ((ls.map Utf8.lossy).filter (fun s => Search.sem p.filter s.toList)).map
    (fun s => ({ data := [], raw := s } : Record))

/-- the configuration's sequential line loop is `feed` over the passing lines -/
theorem runLines_feed (ext : Ext) (p : Plan) (body : Record → Bytes) (cap : Nat) :
    ∀ (ls : List Line) (sts sts' : List OpState) (outs : List Record) (e : Nat),
      feed ext p.pre sts (passing p ls) [] 0 = .ok (sts', outs, e) →
      (planCfg ext p body cap).runLines (some sts) ls = (some sts', outs) := by
  intro ls
  induction ls with
  | nil =>
    intro sts sts' outs e h
    simp only [passing, List.map_nil, List.filter_nil, C03.feed_nil, RunR.ok.injEq,
      Prod.mk.injEq] at h
    obtain ⟨rfl, rfl, _⟩ := h
    rfl
  | cons l ls ih =>
    intro sts sts' outs e h
    by_cases hs : Search.sem p.filter (Utf8.lossy l).toList = true
    · have hp : passing p (l :: ls) = lineRec l :: passing p ls := by
        simp [passing, hs, lineRec]
      rw [hp, C03.feed_cons] at h
      cases hq : procPreagg ext p.pre sts (lineRec l) with
      | ok t =>
        obtain ⟨sts1, o, e1⟩ := t
        rw [hq] at h
        simp only at h
        cases hf : feed ext p.pre sts1 (passing p ls) [] 0 with
        | ok q =>
          obtain ⟨s2, o2, e2⟩ := q
          rw [hf] at h
          simp only [C03.pre, RunR.ok.injEq, Prod.mk.injEq] at h
          obtain ⟨rfl, rfl, _⟩ := h
          have := ih sts1 s2 o2 e2 hf
          simp only [Cfg.runLines, planCfg, hs, if_true, hq] at this ⊢
          rw [this]
        | panic s => rw [hf] at h; simp [C03.pre] at h
        | unmodelled w => rw [hf] at h; simp [C03.pre] at h
      | panic s => rw [hq] at h; cases h
      | unmodelled w => rw [hq] at h; cases h
    · have hp : passing p (l :: ls) = passing p ls := by simp [passing, hs]
      rw [hp] at h
      have := ih sts sts' outs e h
      simp only [Cfg.runLines, planCfg, hs, Bool.false_eq_true, if_false] at this ⊢
      rw [this]
      simp

/-- **the configuration's sequential reference is `runPre`** -/
theorem planCfg_seqRows (ext : Ext) (p : Plan) (body : Record → Bytes) (cap : Nat) (ls : List Line)
    (pre : PreOut) (h : runPre ext p (ls.map Utf8.lossy) = .ok pre) :
    (planCfg ext p body cap).seqRows ls = pre.rows := by
  unfold runPre at h
  simp only at h
  split at h
  · cases h
  · have hrecs : ((ls.map Utf8.lossy).filter (fun l => Search.sem p.filter l.toList)).map
        (fun l => ({ data := [], raw := l } : Record)) = passing p ls := rfl
    rw [hrecs] at h
    cases hf : feed ext p.pre (p.pre.map RowOp.init) (passing p ls) [] 0 with
    | ok t =>
      obtain ⟨sts', outs, e⟩ := t
      rw [hf] at h
      simp only at h
      cases hdl : drainLoop ext p.pre sts' [] 0 with
      | ok q =>
        obtain ⟨dr, e'⟩ := q
        rw [hdl] at h
        simp only [RunR.ok.injEq] at h
        subst h
        have hr := runLines_feed ext p body cap ls _ sts' outs e hf
        have hinit : (planCfg ext p body cap).init = some (p.pre.map RowOp.init) := rfl
        simp only [Cfg.seqRows, hinit, hr]
        simp [planCfg, hdl]
      | panic s => rw [hdl] at h; cases h
      | unmodelled w => rw [hdl] at h; cases h
    | panic s => rw [hf] at h; cases h
    | unmodelled w => rw [hf] at h; cases h

/-- **C15 for this query.**  Any fault-free schedule of reader and renderer over any chunking of
the input: when the reader has returned, the bytes written are the rows `runPre` computes for the
lines of the bytes fed, each rendered once, in order. -/
theorem C15_plan_written (ext : Ext) (p : Plan) (body : Record → Bytes) (cap : Nat)
    (s : State (Option (List OpState)) Record)
    (h : ReachableFF (planCfg ext p body cap) s) (hd : s.reader = .done)
    (pre : PreOut) (hpre : runPre ext p ((lines s.fed).map Utf8.lossy) = .ok pre) :
    s.written = pre.rows.flatMap (fun r => body r ++ [10]) := by
  rw [C15_final _ s h hd]
  simp only [Cfg.seqOut, planCfg_seqRows ext p body cap _ pre hpre]
  rfl

/-- two complete fault-free runs of this query over the same bytes, chunked and scheduled in any
two ways, write the same bytes -/
theorem C15_plan_chunking_independent (ext : Ext) (p : Plan) (body : Record → Bytes) (cap : Nat)
    (ls₁ ls₂ : List Label) (s₁ s₂ : State (Option (List OpState)) Record)
    (hf₁ : ∀ l ∈ ls₁, l.fault = false) (hf₂ : ∀ l ∈ ls₂, l.fault = false)
    (h₁ : run (planCfg ext p body cap) ls₁ (init (planCfg ext p body cap)) = some s₁)
    (h₂ : run (planCfg ext p body cap) ls₂ (init (planCfg ext p body cap)) = some s₂)
    (hd₁ : s₁.reader = .done) (hd₂ : s₂.reader = .done)
    (hbytes : (ls₁.map chunkOf).flatten = (ls₂.map chunkOf).flatten) : s₁.written = s₂.written :=
  C15_chunking_independent _ ls₁ ls₂ s₁ s₂ hf₁ hf₂ h₁ h₂ hd₁ hd₂ hbytes

end Ag.C15

#print axioms Ag.C15.runLines_feed
#print axioms Ag.C15.planCfg_seqRows
#print axioms Ag.C15.C15_plan_written
#print axioms Ag.C15.C15_plan_chunking_independent
