/-
C15 (the scheduler theorems, instantiated with a plan WITH aggregation, non-terminal output)

`planCfgAgg` is `planCfg` (C15plan.lean: the reader side of the plan) with `agg := true` and
`aggFinal` = the aggregate chain of the plan (`headStage` on the rows the reader side produced,
then `foldStages`, C03table.lean) rendered by an arbitrary table printer.  `Cfg.aggFinal` receives
ALL rows, so nothing in the `Cfg` structure is in the way.

`C15_plan_table_written`: for every fault-free schedule, when the run has finished, the bytes
written — the single write at end of input — are the rendering of the table `runPlan` computes for
this query on the lines of the bytes fed.
-/
import AgProofs.Props.C15plan
import AgProofs.Props.C03table

namespace Ag.C15
open Ag.Sched

/-- the table the aggregate chain makes of the rows that reached the channel, rendered -/
def aggBytes (ext : Ext) (post : List AggStage) (render : Table → Bytes) (rows : List Record) : Bytes :=
  match post with
  | [] => []
  | head :: rest =>
    match (headStage ext head rows).bind (C03.foldStages ext rest) with
    | .ok t => render t
    | _ => []

def planCfgAgg (ext : Ext) (p : Plan) (render : Table → Bytes) (cap : Nat) :
    Cfg (Option (List OpState)) Record :=
  { planCfg ext p (fun _ => []) cap with agg := true, aggFinal := aggBytes ext p.post render }

theorem planCfgAgg_seqRows (ext : Ext) (p : Plan) (render : Table → Bytes) (cap : Nat)
    (ls : List Line) (pre : PreOut) (h : runPre ext p (ls.map Utf8.lossy) = .ok pre) :
    (planCfgAgg ext p render cap).seqRows ls = pre.rows := by
  have hrl : ∀ (ls : List Line) (st : Option (List OpState)),
      (planCfgAgg ext p render cap).runLines st ls =
        (planCfg ext p (fun _ => []) cap).runLines st ls := by
    intro ls
    induction ls with
    | nil => intro st; rfl
    | cons l ls ih =>
      intro st
      simp only [Cfg.runLines]
      rw [show (planCfgAgg ext p render cap).step st l =
        (planCfg ext p (fun _ => []) cap).step st l from rfl, ih]
  have : (planCfgAgg ext p render cap).seqRows ls =
      (planCfg ext p (fun _ => []) cap).seqRows ls := by
    simp only [Cfg.seqRows]
    rw [show (planCfgAgg ext p render cap).init = (planCfg ext p (fun _ => []) cap).init from rfl,
      hrl]
    rfl
  rw [this]
  exact planCfg_seqRows ext p (fun _ => []) cap ls pre h

/-- **C15 for a query with aggregation, non-terminal output.**  Any fault-free schedule, any
chunking: when the run has finished, what has been written is the rendering of the table of
`runPlan` for this query on the lines of the input. -/
theorem C15_plan_table_written (ext : Ext) (p : Plan) (render : Table → Bytes) (cap : Nat)
    (s : State (Option (List OpState)) Record)
    (h : ReachableFF (planCfgAgg ext p render cap) s) (hd : s.reader = .done)
    (t : Table) (e : Nat)
    (hrun : runPlan ext p ((lines s.fed).map Utf8.lossy) = .ok (.table t e)) :
    s.written = render t := by
  rw [C15_final _ s h hd]
  rw [C03.C03_post_is_fold] at hrun
  cases hpre : runPre ext p ((lines s.fed).map Utf8.lossy) with
  | ok pre =>
    rw [hpre] at hrun
    simp only [RunR.bind] at hrun
    have hseq := planCfgAgg_seqRows ext p render cap (lines s.fed) pre hpre
    have hagg : (planCfgAgg ext p render cap).agg = true := rfl
    simp only [Cfg.seqOut, hagg, if_true, hseq]
    show aggBytes ext p.post render pre.rows = render t
    cases hpost : p.post with
    | nil => rw [hpost] at hrun; cases hrun
    | cons head rest =>
      rw [hpost] at hrun
      simp only [aggBytes, RunR.bind]
      cases hh : headStage ext head pre.rows with
      | ok t0 =>
        simp only [hh] at hrun ⊢
        cases hf : C03.foldStages ext rest t0 with
        | ok t' =>
          simp only [hf, RunR.map, RunR.bind, RunR.ok.injEq, Output.table.injEq] at hrun ⊢
          rw [hrun.1]
        | panic q => simp [hf, RunR.map, RunR.bind] at hrun
        | unmodelled w => simp [hf, RunR.map, RunR.bind] at hrun
      | panic q => simp [hh, RunR.map, RunR.bind] at hrun
      | unmodelled w => simp [hh, RunR.map, RunR.bind] at hrun
  | panic q => rw [hpre] at hrun; cases hrun
  | unmodelled w => rw [hpre] at hrun; cases hrun

end Ag.C15

#print axioms Ag.C15.planCfgAgg_seqRows
#print axioms Ag.C15.C15_plan_table_written
