/-
C05, first clause (grammar): "In where, field expressions, keys and aggregate arguments, `*` `/`
bind tighter than `+` `-`, then comparisons, then `and`, then `or`, left-associatively."

About the parser model AgModel/Lang/Parser.lean (`unary`, `term`, `arithExpr`, `cmpExpr`,
`logicalAnd`, `logicalOr`, `exprN`), as it is:

 1. ASSOCIATIVITY, every chain length.  `foldMany0_left_fold`: `fold_many0` answers the LEFT fold
    over any run of its element parser (`Steps`).  Instantiated per level on the characters
    (`OpChain` = operator token with its blanks, then the operand parser of the level, repeated):
    `term_left_fold`, `arithExpr_left_fold`, `logicalAnd_left_fold`, `logicalOr_left_fold`.
    The comparison level does not chain (`opt`, at most one operator): `cmpExpr_operands`,
    `cmpExpr_no_operator`.
    A right-recursive `term` (`unary (op term)?`, i.e. `a / b / c = a / (b / c)`) contradicts
    `term_left_fold` and `inst_div_div`.
 2. PRECEDENCE = nesting of the levels: the operand parser of `arithExpr` is `term`, of `cmpExpr`
    `arithExpr`, of `logicalAnd` `cmpExpr`, of `logicalOr` `logicalAnd` — this is what the
    `operand` argument of `OpChain` in each level theorem says.  Spelled out for two operators:
    `add_then_mul`, `mul_then_add`, `or_then_and`, `and_then_or`.
 3. Evaluated instances through the real `expr` (`inst_*`) and through whole queries (`q_*`).

The level theorems need that operand parsers never return a longer rest than their input
(`Mono`, because `fold_many0` runs on fuel = remaining length + 1); `mono_exprN` /
`mono_optExprN` prove it for the real expression parser, so no side condition remains.
-/
import AgProofs.Lemmas.LangEq

namespace Ag.C05prec
open Ag Ag.Lang Ag.LangEq

/-! ### `fold_many0`: a run of the element parser -/

/-- `Steps f i e bs iF eF`: started on input `i` (error count `e`) the element parser `f` succeeds
`bs.length` times in a row, yielding `bs` (each time consuming something), and then answers a
recoverable error on the input `iF`, with error count `eF`. -/
inductive Steps {β : Type} (f : P β) : List Char → Nat → List β → List Char → Nat → Prop
  | done {i : List Char} {e : Nat} {pos : List Char} {e' : Nat} :
      f i e = .fail pos e' → Steps f i e [] i e'
  | step {i : List Char} {e : Nat} {b : β} {i1 : List Char} {e1 : Nat} {bs : List β}
      {iF : List Char} {eF : Nat} :
      f i e = .ok b i1 e1 → i1.length < i.length → Steps f i1 e1 bs iF eF →
      Steps f i e (b :: bs) iF eF

theorem foldLoop_steps {α β : Type} (f : P β) (g : α → β → α) {i : List Char} {e : Nat}
    {bs : List β} {iF : List Char} {eF : Nat} (h : Steps f i e bs iF eF) :
    ∀ (n : Nat) (acc : α), i.length < n → foldLoop f g n acc i e = .ok (bs.foldl g acc) iF eF := by
  induction h with
  | done hf =>
    intro n acc hn
    cases n with
    | zero => omega
    | succ n => simp [foldLoop, hf]
  | @step i e b i1 e1 bs iF eF hf hl _ ih =>
    intro n acc hn
    cases n with
    | zero => omega
    | succ n =>
      have hne : (i1.length == i.length) = false := by
        rw [beq_eq_false_iff_ne]; omega
      simp only [foldLoop, hf, hne, List.foldl_cons]
      exact ih n (g acc b) (by omega)

/-- **`fold_many0` is the LEFT fold over the run of its element parser**, for every run length. -/
theorem foldMany0_left_fold {α β : Type} (f : P β) (init : α) (g : α → β → α) {i : List Char}
    {e : Nat} {bs : List β} {iF : List Char} {eF : Nat} (h : Steps f i e bs iF eF) :
    foldMany0 f init g i e = .ok (bs.foldl g init) iF eF :=
  foldLoop_steps f g h (i.length + 1) init (Nat.lt_succ_self _)

/-! ### blanks and tags -/

/-- the input after `multispace0` -/
abbrev skipWs (i : List Char) : List Char := i.dropWhile Text.isMultispace

theorem skipWs_length (i : List Char) : (skipWs i).length ≤ i.length :=
  (List.dropWhile_sublist _).length_le

theorem skipWs_cons_ws {c : Char} (t : List Char) (h : Text.isMultispace c = true) :
    skipWs (c :: t) = skipWs t := by
  simp [skipWs, h]

theorem stripPrefix_some {p i r : List Char} (h : Text.stripPrefix? p i = some r) : i = p ++ r := by
  induction p generalizing i with
  | nil => simp [Text.stripPrefix?] at h; simp [h]
  | cons c cs ih =>
    cases i with
    | nil => simp [Text.stripPrefix?] at h
    | cons d ds =>
      simp only [Text.stripPrefix?] at h
      split at h
      · rename_i hcd
        have := ih h
        simp at hcd
        simp [hcd, this]
      · cases h

theorem tag_hit (s : String) (p r : List Char) (e : Nat) (hs : s.toList = p) :
    tag s (p ++ r) e = .ok () r e := tag_append s p r hs e

theorem tag_miss (s : String) (p i : List Char) (e : Nat) (hs : s.toList = p)
    (h : ∀ r, i ≠ p ++ r) : tag s i e = .fail i e := by
  unfold tag
  cases hh : Text.stripPrefix? s.toList i with
  | none => rfl
  | some r => rw [hs] at hh; exact absurd (stripPrefix_some hh) (h r)

theorem bind_ok {α β : Type} {p : P α} {f : α → P β} {i : List Char} {e : Nat} {a : α}
    {r : List Char} {e1 : Nat} (h : p i e = .ok a r e1) : P.bind' p f i e = f a r e1 := by
  simp [P.bind', h]

theorem bind_fail {α β : Type} {p : P α} {f : α → P β} {i : List Char} {e : Nat}
    {pos : List Char} {e1 : Nat} (h : p i e = .fail pos e1) : P.bind' p f i e = .fail pos e1 := by
  simp [P.bind', h]

theorem alt_fail {α : Type} {p q : P α} {i : List Char} {e : Nat} {pos : List Char} {e1 : Nat}
    (h : p i e = .fail pos e1) : alt p q i e = q i e1 := by
  simp [alt, h]

/-- `ws0 *> p <* ws0` -/
def wsTok {τ : Type} (p : P τ) : P τ :=
  P.bind' (P.bind' ws0 fun _ => p) fun a => P.bind' ws0 fun _ => P.pure' a

theorem wsTok_ok {τ : Type} (p : P τ) {i : List Char} {e : Nat} {t : τ} {r : List Char} {e' : Nat}
    (h : p (skipWs i) e = .ok t r e') : wsTok p i e = .ok t (skipWs r) e' := by
  simp only [skipWs] at h
  simp [wsTok, P.bind', ws0, P.pure', h]

theorem wsTok_fail {τ : Type} (p : P τ) {i : List Char} {e : Nat} {pos : List Char} {e' : Nat}
    (h : p (skipWs i) e = .fail pos e') : wsTok p i e = .fail pos e' := by
  simp only [skipWs] at h
  simp [wsTok, P.bind', ws0, h]

theorem isIdentCh_of_ws {c : Char} (h : Text.isMultispace c = true) : isIdentCh c = false := by
  simp only [Text.isMultispace, Bool.or_eq_true, beq_iff_eq] at h
  rcases h with ((rfl | rfl) | rfl) | rfl <;> decide

/-! ### the operator tokens of each level, on characters -/

/-- `i` continues with optional blanks, `*` or `/`, optional blanks; `j` is what follows -/
inductive MulDivAt : List Char → ArithOp → List Char → Prop
  | mul {i r : List Char} : skipWs i = '*' :: r → MulDivAt i .mul (skipWs r)
  | div {i r : List Char} : skipWs i = '/' :: r → MulDivAt i .div (skipWs r)

/-- after optional blanks neither `*` nor `/` follows -/
def NoMulDiv (i : List Char) : Prop := ∀ r, skipWs i ≠ '*' :: r ∧ skipWs i ≠ '/' :: r

inductive AddSubAt : List Char → ArithOp → List Char → Prop
  | add {i r : List Char} : skipWs i = '+' :: r → AddSubAt i .add (skipWs r)
  | sub {i r : List Char} : skipWs i = '-' :: r → AddSubAt i .sub (skipWs r)

def NoAddSub (i : List Char) : Prop := ∀ r, skipWs i ≠ '+' :: r ∧ skipWs i ≠ '-' :: r

/-- the comparison operators, longest spelling first as in `comp_op` -/
inductive CmpAt : List Char → CmpOp → List Char → Prop
  | eq {i r : List Char} : skipWs i = '=' :: '=' :: r → CmpAt i .eq (skipWs r)
  | neq {i r : List Char} : skipWs i = '!' :: '=' :: r → CmpAt i .neq (skipWs r)
  | neq' {i r : List Char} : skipWs i = '<' :: '>' :: r → CmpAt i .neq (skipWs r)
  | gte {i r : List Char} : skipWs i = '>' :: '=' :: r → CmpAt i .gte (skipWs r)
  | lte {i r : List Char} : skipWs i = '<' :: '=' :: r → CmpAt i .lte (skipWs r)
  | gt {i r : List Char} : skipWs i = '>' :: r → (∀ r', r ≠ '=' :: r') → CmpAt i .gt (skipWs r)
  | lt {i r : List Char} : skipWs i = '<' :: r → (∀ r', r ≠ '=' :: r' ∧ r ≠ '>' :: r') →
      CmpAt i .lt (skipWs r)

def NoCmp (i : List Char) : Prop :=
  ∀ r, skipWs i ≠ '<' :: r ∧ skipWs i ≠ '>' :: r ∧ skipWs i ≠ '=' :: '=' :: r ∧
    skipWs i ≠ '!' :: '=' :: r

/-- `and` / `or` (word `w`: at least one blank on each side) or `&&` / `||` (symbol `s`: optional
blanks) -/
inductive LogicAt (w s : List Char) : List Char → Unit → List Char → Prop
  | word {c0 : Char} {t : List Char} {c1 : Char} {t1 : List Char} :
      Text.isMultispace c0 = true → skipWs t = w ++ c1 :: t1 → Text.isMultispace c1 = true →
      LogicAt w s (c0 :: t) () (skipWs t1)
  | sym {i r : List Char} : skipWs i = s ++ r → LogicAt w s i () (skipWs r)

/-- neither spelling follows: no symbol after optional blanks, and if blanks and then the word
follow, the word goes on with an identifier character (`a android`) -/
def NoLogic (w s : List Char) (i : List Char) : Prop :=
  (∀ r, skipWs i ≠ s ++ r) ∧
  (∀ c t r, i = c :: t → Text.isMultispace c = true → skipWs i = w ++ r →
    ∃ d r', r = d :: r' ∧ isIdentCh d = true)

abbrev AndAt := LogicAt ['a', 'n', 'd'] ['&', '&']
abbrev NoAnd := NoLogic ['a', 'n', 'd'] ['&', '&']
abbrev OrAt := LogicAt ['o', 'r'] ['|', '|']
abbrev NoOr := NoLogic ['o', 'r'] ['|', '|']

theorem skip_lt {i : List Char} {c : Char} {r : List Char} (h : skipWs i = c :: r) :
    r.length < i.length := by
  have h1 := skipWs_length i
  rw [h] at h1
  simp only [List.length_cons] at h1
  omega

theorem MulDivAt.length_lt {i : List Char} {op : ArithOp} {j : List Char} (h : MulDivAt i op j) :
    j.length < i.length := by
  cases h <;> (rename_i r h; have := skip_lt h; have := skipWs_length r; omega)

theorem AddSubAt.length_lt {i : List Char} {op : ArithOp} {j : List Char} (h : AddSubAt i op j) :
    j.length < i.length := by
  cases h <;> (rename_i r h; have := skip_lt h; have := skipWs_length r; omega)

theorem CmpAt.length_lt {i : List Char} {op : CmpOp} {j : List Char} (h : CmpAt i op j) :
    j.length < i.length := by
  cases h with
  | @eq r h | @neq r h | @neq' r h | @gte r h | @lte r h =>
    have h1 := skip_lt h; have h2 := skipWs_length r
    simp only [List.length_cons] at h1; omega
  | @gt r h _ | @lt r h _ =>
    have := skip_lt h; have := skipWs_length r; omega

theorem LogicAt.length_lt {w s : List Char} (hs : s ≠ []) {i : List Char} {u : Unit}
    {j : List Char} (h : LogicAt w s i u j) : j.length < i.length := by
  cases h with
  | @word c0 t c1 t1 _ h _ =>
    have h1 := skipWs_length t
    have h2 := skipWs_length t1
    rw [h] at h1
    simp only [List.length_cons, List.length_append] at h1 ⊢
    omega
  | @sym _ r h =>
    have h1 := skipWs_length i
    have h2 := skipWs_length r
    rw [h] at h1
    have : 0 < s.length := List.length_pos_iff.2 hs
    simp only [List.length_append] at h1
    omega

/-! ### what the operator parsers do on these tokens -/

theorem muldivOp_mul (r : List Char) (e : Nat) : muldivOp ('*' :: r) e = .ok .mul r e := by
  have := tag_hit "*" ['*'] r e rfl
  simp only [List.cons_append, List.nil_append] at this
  simp [muldivOp, alt, pmap, this]

theorem muldivOp_div (r : List Char) (e : Nat) : muldivOp ('/' :: r) e = .ok .div r e := by
  have h1 := tag_miss "*" ['*'] ('/' :: r) e rfl (by simp)
  have h2 := tag_hit "/" ['/'] r e rfl
  simp only [List.cons_append, List.nil_append] at h2
  simp [muldivOp, alt, pmap, h1, h2, Res.castErr]

theorem muldivOp_none (i : List Char) (e : Nat) (h1 : ∀ r, i ≠ '*' :: r) (h2 : ∀ r, i ≠ '/' :: r) :
    muldivOp i e = .fail i e := by
  have t1 := tag_miss "*" ['*'] i e rfl (by simpa using h1)
  have t2 := tag_miss "/" ['/'] i e rfl (by simpa using h2)
  simp [muldivOp, alt, pmap, t1, t2, Res.castErr]

theorem addsubOp_add (r : List Char) (e : Nat) : addsubOp ('+' :: r) e = .ok .add r e := by
  have := tag_hit "+" ['+'] r e rfl
  simp only [List.cons_append, List.nil_append] at this
  simp [addsubOp, alt, pmap, this]

theorem addsubOp_sub (r : List Char) (e : Nat) : addsubOp ('-' :: r) e = .ok .sub r e := by
  have h1 := tag_miss "+" ['+'] ('-' :: r) e rfl (by simp)
  have h2 := tag_hit "-" ['-'] r e rfl
  simp only [List.cons_append, List.nil_append] at h2
  simp [addsubOp, alt, pmap, h1, h2, Res.castErr]

theorem addsubOp_none (i : List Char) (e : Nat) (h1 : ∀ r, i ≠ '+' :: r) (h2 : ∀ r, i ≠ '-' :: r) :
    addsubOp i e = .fail i e := by
  have t1 := tag_miss "+" ['+'] i e rfl (by simpa using h1)
  have t2 := tag_miss "-" ['-'] i e rfl (by simpa using h2)
  simp [addsubOp, alt, pmap, t1, t2, Res.castErr]

theorem mdTok_at {i : List Char} {op : ArithOp} {j : List Char} (h : MulDivAt i op j) (e : Nat) :
    wsTok muldivOp i e = .ok op j e := by
  cases h with
  | mul h => exact wsTok_ok _ (by rw [h]; exact muldivOp_mul _ _)
  | div h => exact wsTok_ok _ (by rw [h]; exact muldivOp_div _ _)

theorem mdTok_none {i : List Char} (h : NoMulDiv i) (e : Nat) :
    wsTok muldivOp i e = .fail (skipWs i) e :=
  wsTok_fail _ (muldivOp_none _ _ (fun r => (h r).1) (fun r => (h r).2))

theorem asTok_at {i : List Char} {op : ArithOp} {j : List Char} (h : AddSubAt i op j) (e : Nat) :
    wsTok addsubOp i e = .ok op j e := by
  cases h with
  | add h => exact wsTok_ok _ (by rw [h]; exact addsubOp_add _ _)
  | sub h => exact wsTok_ok _ (by rw [h]; exact addsubOp_sub _ _)

theorem asTok_none {i : List Char} (h : NoAddSub i) (e : Nat) :
    wsTok addsubOp i e = .fail (skipWs i) e :=
  wsTok_fail _ (addsubOp_none _ _ (fun r => (h r).1) (fun r => (h r).2))

/-! `comp_op` -/

theorem tag2 (s : String) (a b : Char) (hs : s.toList = [a, b]) (r : List Char) (e : Nat) :
    tag s (a :: b :: r) e = .ok () r e := tag_hit s [a, b] r e hs

theorem compOp_at {i : List Char} {op : CmpOp} {j : List Char} (h : CmpAt i op j) (e : Nat) :
    wsTok compOp i e = .ok op j e := by
  have teq := fun i h => tag_miss "==" ['=', '='] i e rfl h
  have tne := fun i h => tag_miss "!=" ['!', '='] i e rfl h
  have tlg := fun i h => tag_miss "<>" ['<', '>'] i e rfl h
  have tge := fun i h => tag_miss ">=" ['>', '='] i e rfl h
  have tle := fun i h => tag_miss "<=" ['<', '='] i e rfl h
  have tgt := fun i h => tag_miss ">" ['>'] i e rfl h
  cases h with
  | @eq r h =>
    refine wsTok_ok _ ?_
    rw [h]
    simp [compOp, altL, alt, pmap, tag2 "==" '=' '=' rfl]
  | @neq r h =>
    refine wsTok_ok _ ?_
    rw [h]
    simp [compOp, altL, alt, pmap, Res.castErr, tag2 "!=" '!' '=' rfl, teq ('!' :: '=' :: r) (by simp)]
  | @neq' r h =>
    refine wsTok_ok _ ?_
    rw [h]
    simp [compOp, altL, alt, pmap, Res.castErr, tag2 "<>" '<' '>' rfl, teq ('<' :: '>' :: r) (by simp),
      tne ('<' :: '>' :: r) (by simp)]
  | @gte r h =>
    refine wsTok_ok _ ?_
    rw [h]
    simp [compOp, altL, alt, pmap, Res.castErr, tag2 ">=" '>' '=' rfl, teq ('>' :: '=' :: r) (by simp),
      tne ('>' :: '=' :: r) (by simp), tlg ('>' :: '=' :: r) (by simp)]
  | @lte r h =>
    refine wsTok_ok _ ?_
    rw [h]
    simp [compOp, altL, alt, pmap, Res.castErr, tag2 "<=" '<' '=' rfl, teq ('<' :: '=' :: r) (by simp),
      tne ('<' :: '=' :: r) (by simp), tlg ('<' :: '=' :: r) (by simp), tge ('<' :: '=' :: r) (by simp)]
  | @gt r h hr =>
    refine wsTok_ok _ ?_
    rw [h]
    have hit := tag_hit ">" ['>'] r e rfl
    simp only [List.cons_append, List.nil_append] at hit
    simp [compOp, altL, alt, pmap, Res.castErr, hit, teq ('>' :: r) (by simp),
      tne ('>' :: r) (by simp), tlg ('>' :: r) (by simp), tge ('>' :: r) (by simpa using hr),
      tle ('>' :: r) (by simp)]
  | @lt r h hr =>
    refine wsTok_ok _ ?_
    rw [h]
    have hit := tag_hit "<" ['<'] r e rfl
    simp only [List.cons_append, List.nil_append] at hit
    simp [compOp, altL, alt, pmap, Res.castErr, hit, teq ('<' :: r) (by simp),
      tne ('<' :: r) (by simp), tlg ('<' :: r) (by simpa using fun r' => (hr r').2),
      tge ('<' :: r) (by simp), tle ('<' :: r) (by simpa using fun r' => (hr r').1),
      tgt ('<' :: r) (by simp)]

theorem compOp_none {i : List Char} (h : NoCmp i) (e : Nat) :
    wsTok compOp i e = .fail (skipWs i) e := by
  refine wsTok_fail _ ?_
  unfold NoCmp at h
  generalize skipWs i = k at h ⊢
  have h1 : ∀ r, k ≠ '<' :: r := fun r => (h r).1
  have h2 : ∀ r, k ≠ '>' :: r := fun r => (h r).2.1
  have h3 : ∀ r, k ≠ '=' :: '=' :: r := fun r => (h r).2.2.1
  have h4 : ∀ r, k ≠ '!' :: '=' :: r := fun r => (h r).2.2.2
  simp [compOp, altL, alt, pmap, Res.castErr,
    tag_miss "==" ['=', '='] k e rfl (by simpa using h3),
    tag_miss "!=" ['!', '='] k e rfl (by simpa using h4),
    tag_miss "<>" ['<', '>'] k e rfl (by simpa using fun r => h1 ('>' :: r)),
    tag_miss ">=" ['>', '='] k e rfl (by simpa using fun r => h2 ('=' :: r)),
    tag_miss "<=" ['<', '='] k e rfl (by simpa using fun r => h1 ('=' :: r)),
    tag_miss ">" ['>'] k e rfl (by simpa using h2),
    tag_miss "<" ['<'] k e rfl (by simpa using h1)]

/-! `and` / `&&`, `or` / `||` -/

/-- the element parser of `logical_and` / `logical_or` (see `logicalAnd_unfold`) -/
def logicElem (word sym : String) (operand : P Expr) : P Expr :=
  P.bind' (alt (P.bind' ws1 fun _ => P.bind' (kw word) fun _ =>
                  opt (P.bind' ws1 fun _ => operand))
               (P.bind' ws0 fun _ => P.bind' (tag sym) fun _ => P.bind' ws0 fun _ =>
                  opt operand)) fun r =>
    match r with
    | some x => P.pure' x
    | none => P.bind' report fun _ => P.pure' Expr.error

theorem ws1_cons_ws {c : Char} (t : List Char) (e : Nat) (h : Text.isMultispace c = true) :
    ws1 (c :: t) e = .ok () (skipWs t) e := by
  simp [ws1, h, skipWs]

theorem wordAlt_fail {α : Type} (word : String) (w : List Char) (hw : word.toList = w) (q : P α)
    (i : List Char) (e : Nat)
    (h : ∀ c t r, i = c :: t → Text.isMultispace c = true → skipWs i = w ++ r →
      ∃ d r', r = d :: r' ∧ isIdentCh d = true) :
    ∃ pos, (P.bind' ws1 fun _ => P.bind' (kw word) fun _ => q) i e = .fail pos e := by
  cases i with
  | nil => exact ⟨[], by simp [P.bind', ws1]⟩
  | cons c t =>
    by_cases hc : Text.isMultispace c = true
    · have h1 := ws1_cons_ws t e hc
      have hsk : skipWs (c :: t) = skipWs t := skipWs_cons_ws t hc
      cases hsp : Text.stripPrefix? word.toList (skipWs t) with
      | none =>
        exact ⟨skipWs t, by simp [P.bind', h1, kw_mismatch word _ e hsp]⟩
      | some r =>
        have heq := stripPrefix_some hsp
        rw [hw] at heq
        obtain ⟨d, r', rfl, hd⟩ := h c t r rfl hc (by rw [hsk, heq])
        refine ⟨d :: r', ?_⟩
        simp [P.bind', h1, heq, kw_glued word w hw d r' e hd]
    · exact ⟨c :: t, by simp [P.bind', ws1, hc]⟩

theorem logicElem_at (word sym : String) (w s : List Char) (hw : word.toList = w)
    (hs : sym.toList = s) (hdis : ∀ r r', w ++ r ≠ s ++ r') (operand : P Expr)
    {i j : List Char} {u : Unit} (h : LogicAt w s i u j) {e : Nat} {x : Expr} {k : List Char}
    {e' : Nat} (hx : operand j e = .ok x k e') : logicElem word sym operand i e = .ok x k e' := by
  cases h with
  | @word c0 t c1 t1 h0 ht h1 =>
    have hb : Boundary (c1 :: t1) := by
      intro c r hcr
      cases hcr
      exact isIdentCh_of_ws h1
    have hk := kw_boundary word w (c1 :: t1) hw e hb
    simp only [skipWs] at ht hx
    simp [logicElem, P.bind', alt, opt, P.pure', ws1_cons_ws t e h0, skipWs, ht, hk,
      ws1_cons_ws t1 e h1, hx]
  | @sym _ r h =>
    obtain ⟨pos, hf⟩ := wordAlt_fail word w hw (opt (P.bind' ws1 fun _ => operand)) i e (by
      intro c t r' _ _ hr'
      rw [h] at hr'
      exact absurd hr'.symm (hdis _ _))
    simp only [skipWs] at h hx
    have hsym : (P.bind' ws0 fun _ => P.bind' (tag sym) fun _ => P.bind' ws0 fun _ =>
        opt operand) i e = .ok (some x) k e' := by
      simp [P.bind', ws0, h, tag_hit sym s r e hs, opt, hx]
    unfold logicElem
    rw [bind_ok (by rw [alt_fail hf]; exact hsym)]
    rfl

theorem logicElem_stop (word sym : String) (w s : List Char) (hw : word.toList = w)
    (hs : sym.toList = s) (operand : P Expr) {i : List Char} (h : NoLogic w s i) (e : Nat) :
    ∃ pos, logicElem word sym operand i e = .fail pos e := by
  obtain ⟨pos, hf⟩ := wordAlt_fail word w hw (opt (P.bind' ws1 fun _ => operand)) i e h.2
  have hm := tag_miss sym s (skipWs i) e hs h.1
  simp only [skipWs] at hm
  have hsym : (P.bind' ws0 fun _ => P.bind' (tag sym) fun _ => P.bind' ws0 fun _ =>
      opt operand) i e = .fail (skipWs i) e := by
    simp [P.bind', ws0, hm]
  refine ⟨skipWs i, ?_⟩
  unfold logicElem
  exact bind_fail (by rw [alt_fail hf]; exact hsym)

theorem opt_ok {α : Type} {p : P α} {i : List Char} {e : Nat} {v : α} {r : List Char} {e1 : Nat}
    (h : p i e = .ok v r e1) : opt p i e = .ok (some v) r e1 := by
  simp [opt, h]

theorem opt_fail {α : Type} {p : P α} {i : List Char} {e : Nat} {pos : List Char} {e1 : Nat}
    (h : p i e = .fail pos e1) : opt p i e = .ok none i e1 := by
  simp [opt, h]

theorem expectAt_ok {α : Type} (line : String) {p : P α} {i : List Char} {e : Nat} {v : α}
    {r : List Char} {e1 : Nat} (h : p i e = .ok v r e1) :
    expectAt line p i e = .ok (some v) r e1 := by
  simp [expectAt, h]

theorem expectFn_ok {α : Type} {p : P α} {i : List Char} {e : Nat} {v : α}
    {r : List Char} {e1 : Nat} (h : p i e = .ok v r e1) : expectFn p i e = .ok (some v) r e1 :=
  expectAt_ok _ h

theorem expect_ok {α : Type} {p : P α} {i : List Char} {e : Nat} {v : α}
    {r : List Char} {e1 : Nat} (h : p i e = .ok v r e1) : expect p i e = .ok (some v) r e1 :=
  expectAt_ok _ h

/-! ### the levels of the expression grammar, as the model defines them -/

/-- element parser of `term`: `(ws0 *> ("*"|"/") <* ws0) opt(unary)` -/
def termElem (pe optE : P Expr) : P (ArithOp × Expr) :=
  P.bind' (wsTok muldivOp) fun op => P.bind' (opt (unary pe optE)) fun r =>
    match r with
    | some x => P.pure' (op, x)
    | none => P.bind' report fun _ => P.pure' (op, Expr.error)

theorem term_unfold (pe optE : P Expr) : term pe optE =
    P.bind' (unary pe optE) fun init =>
      foldMany0 (termElem pe optE) init (fun l (p : ArithOp × Expr) => Expr.arith p.1 l p.2) := rfl

/-- element parser of `arith_expr`: `(ws0 *> ("+"|"-") <* ws0) expect_fn(term)` -/
def addElem (pe optE : P Expr) : P (ArithOp × Expr) :=
  P.bind' (wsTok addsubOp) fun op => P.bind' (expectFn (term pe optE)) fun r =>
    P.pure' (op, r.getD Expr.error)

theorem arithExpr_unfold (pe optE : P Expr) : arithExpr pe optE =
    P.bind' (term pe optE) fun init =>
      foldMany0 (addElem pe optE) init (fun l (p : ArithOp × Expr) => Expr.arith p.1 l p.2) := rfl

/-- the optional right half of a comparison -/
def cmpTail (pe optE : P Expr) : P (CmpOp × Expr) :=
  P.bind' (wsTok compOp) fun op => P.bind' (expect (arithExpr pe optE)) fun rhs =>
    P.pure' (op, rhs.getD Expr.error)

theorem cmpExpr_unfold (pe optE : P Expr) : cmpExpr pe optE =
    P.bind' ws0 fun _ => P.bind' (arithExpr pe optE) fun l =>
      P.bind' (opt (cmpTail pe optE)) fun r =>
        match r with
        | none => P.pure' l
        | some (op, rhs) => P.pure' (.cmp op l rhs) := rfl

theorem logicalAnd_unfold (pe optE : P Expr) : logicalAnd pe optE =
    P.bind' (cmpExpr pe optE) fun init =>
      foldMany0 (logicElem "and" "&&" (cmpExpr pe optE)) init (fun l r => Expr.logic .and l r) :=
  rfl

theorem logicalOr_unfold (pe optE : P Expr) : logicalOr pe optE =
    P.bind' (logicalAnd pe optE) fun init =>
      foldMany0 (logicElem "or" "||" (logicalAnd pe optE)) init (fun l r => Expr.logic .or l r) :=
  rfl

/-! ### parsers never hand back more than they got

Needed because `fold_many0` runs on fuel = remaining length + 1: an operand parser that returned a
LONGER rest than its input could exhaust it.  No parser of the expression grammar does. -/

/-- the input carried by a result (rest of an `ok`, position of an error) has at most `n` chars -/
def ResLe {α : Type} (r : Res α) (n : Nat) : Prop :=
  match r with
  | .ok _ r _ => r.length ≤ n
  | .fail p _ => p.length ≤ n
  | .failure p _ => p.length ≤ n
  | .panic _ => True
  | .unmod _ => True

/-- `Mono p`: what `p` leaves (or where it reports its error) is never longer than its input -/
def Mono {α : Type} (p : P α) : Prop := ∀ i e, ResLe (p i e) i.length

theorem ResLe.trans {α : Type} {r : Res α} {n m : Nat} (h : ResLe r n) (hnm : n ≤ m) : ResLe r m := by
  cases r <;> simp_all [ResLe] <;> omega

theorem ResLe.castErr {α β : Type} {r : Res α} {n : Nat} (h : ResLe r n) :
    ResLe (r.castErr : Res β) n := by
  cases r <;> simp_all [ResLe, Res.castErr]

theorem Mono.ok {α : Type} {p : P α} (h : Mono p) {i : List Char} {e : Nat} {v : α} {r : List Char}
    {e1 : Nat} (hp : p i e = .ok v r e1) : r.length ≤ i.length := by
  have := h i e; rw [hp] at this; exact this

theorem Mono.fail {α : Type} {p : P α} (h : Mono p) {i : List Char} {e : Nat} {pos : List Char}
    {e1 : Nat} (hp : p i e = .fail pos e1) : pos.length ≤ i.length := by
  have := h i e; rw [hp] at this; exact this

theorem Mono.failure {α : Type} {p : P α} (h : Mono p) {i : List Char} {e : Nat} {pos : List Char}
    {e1 : Nat} (hp : p i e = .failure pos e1) : pos.length ≤ i.length := by
  have := h i e; rw [hp] at this; exact this

theorem dropWhile_le (f : Char → Bool) (l : List Char) : (l.dropWhile f).length ≤ l.length :=
  (List.dropWhile_sublist _).length_le

theorem mono_pure {α : Type} (a : α) : Mono (P.pure' a) := by
  intro i e; simp [P.pure', ResLe]

theorem mono_bind {α β : Type} {p : P α} {f : α → P β} (hp : Mono p) (hf : ∀ a, Mono (f a)) :
    Mono (P.bind' p f) := by
  intro i e
  have h1 := hp i e
  unfold P.bind'
  cases h : p i e with
  | ok a r e1 =>
    rw [h] at h1
    exact (hf a r e1).trans h1
  | _ => rw [h] at h1; simp [ResLe] at h1 ⊢; try exact h1

theorem mono_bind_m {α β : Type} {p : P α} {f : α → P β} (hp : Mono p) (hf : ∀ a, Mono (f a)) :
    Mono (p >>= f) := mono_bind hp hf

theorem mono_pure_m {α : Type} (a : α) : Mono (pure a : P α) := mono_pure a

theorem mono_seqRight {α β : Type} {p : P α} {q : P β} (hp : Mono p) (hq : Mono q) :
    Mono (p *> q) := mono_bind (f := fun _ => q) hp (fun _ => hq)

theorem mono_seqLeft {α β : Type} {p : P α} {q : P β} (hp : Mono p) (hq : Mono q) :
    Mono (p <* q) :=
  mono_bind (f := fun a => P.bind' q fun _ => P.pure' a) hp
    (fun a => mono_bind hq (fun _ => mono_pure a))

theorem mono_tag (s : String) : Mono (tag s) := by
  intro i e
  unfold tag
  cases h : Text.stripPrefix? s.toList i with
  | none => simp [ResLe]
  | some r =>
    have := stripPrefix_some h
    simp only [ResLe]
    rw [this]; simp

theorem mono_satisfy (f : Char → Bool) : Mono (satisfy f) := by
  intro i e
  unfold satisfy
  cases i with
  | nil => simp [ResLe]
  | cons c cs => by_cases hc : f c = true <;> simp [hc, ResLe]

theorem mono_takeWhile1 (f : Char → Bool) : Mono (takeWhile1 f) := by
  intro i e
  unfold takeWhile1
  cases i with
  | nil => simp [ResLe]
  | cons c cs =>
    by_cases hc : f c = true
    · simp only [hc, if_true, ResLe]; exact dropWhile_le _ _
    · simp [hc, ResLe]

theorem mono_ws0 : Mono ws0 := by
  intro i e; simp only [ws0, ResLe]; exact dropWhile_le _ _

theorem mono_ws1 : Mono ws1 := by
  intro i e
  unfold ws1
  cases i with
  | nil => simp [ResLe]
  | cons c cs =>
    by_cases hc : Text.isMultispace c = true
    · simp only [hc, if_true, ResLe]; exact dropWhile_le _ _
    · simp [hc, ResLe]

theorem mono_digit1 : Mono digit1 := mono_takeWhile1 _

theorem mono_failHere {α : Type} : Mono (failHere : P α) := by
  intro i e; simp [failHere, ResLe]

theorem mono_report : Mono report := by
  intro i e; simp [report, ResLe]

theorem mono_alt {α : Type} {p q : P α} (hp : Mono p) (hq : Mono q) : Mono (alt p q) := by
  intro i e
  have h1 := hp i e
  unfold alt
  cases h : p i e with
  | fail pos e1 => exact hq i e1
  | _ => rw [h] at h1; simp [ResLe] at h1 ⊢; try exact h1

theorem mono_altL {α : Type} : ∀ (l : List (P α)), (∀ p ∈ l, Mono p) → Mono (altL l)
  | [], _ => mono_failHere
  | [p], h => h p (by simp)
  | p :: q :: ps, h =>
    mono_alt (h p (by simp)) (mono_altL (q :: ps) (fun x hx => h x (by simp [hx])))

theorem mono_opt {α : Type} {p : P α} (hp : Mono p) : Mono (opt p) := by
  intro i e
  have h1 := hp i e
  unfold opt
  cases h : p i e <;> rw [h] at h1 <;> simp_all [ResLe]

theorem mono_notP {α : Type} {p : P α} (hp : Mono p) : Mono (notP p) := by
  intro i e
  have h1 := hp i e
  unfold notP
  cases h : p i e <;> rw [h] at h1 <;> simp_all [ResLe]

theorem mono_recognize {α : Type} {p : P α} (hp : Mono p) : Mono (recognize p) := by
  intro i e
  have h1 := hp i e
  unfold recognize
  cases h : p i e <;> rw [h] at h1 <;> simp_all [ResLe, Res.castErr]

theorem mono_pmap {α β : Type} (f : α → β) {p : P α} (hp : Mono p) : Mono (pmap f p) := by
  intro i e
  have h1 := hp i e
  unfold pmap
  cases h : p i e <;> rw [h] at h1 <;> simp_all [ResLe, Res.castErr]

theorem mono_kw (s : String) : Mono (kw s) :=
  mono_seqLeft (mono_tag s) (mono_notP (mono_satisfy _))

theorem many0Loop_le {α : Type} {f : P α} (hf : Mono f) :
    ∀ (n : Nat) (acc : List α) (i : List Char) (e : Nat), ResLe (many0Loop f n acc i e) i.length := by
  intro n
  induction n with
  | zero => intro acc i e; simp [many0Loop, ResLe]
  | succ n ih =>
    intro acc i e
    have h1 := hf i e
    unfold many0Loop
    cases h : f i e with
    | ok o i1 e1 =>
      rw [h] at h1
      by_cases hl : (i1.length == i.length) = true
      · simp [hl, ResLe]
      · simp only [hl]
        exact (ih _ i1 e1).trans h1
    | fail pos e1 => simp [ResLe]
    | _ => rw [h] at h1; simp [ResLe, Res.castErr] at h1 ⊢; try exact h1

theorem mono_many0 {α : Type} {f : P α} (hf : Mono f) : Mono (many0 f) :=
  fun i e => many0Loop_le hf _ _ i e

theorem foldLoop_le {α β : Type} {f : P β} (g : α → β → α) (hf : Mono f) :
    ∀ (n : Nat) (acc : α) (i : List Char) (e : Nat), ResLe (foldLoop f g n acc i e) i.length := by
  intro n
  induction n with
  | zero => intro acc i e; simp [foldLoop, ResLe]
  | succ n ih =>
    intro acc i e
    have h1 := hf i e
    unfold foldLoop
    cases h : f i e with
    | ok o i1 e1 =>
      rw [h] at h1
      by_cases hl : (i1.length == i.length) = true
      · simp [hl, ResLe]
      · simp only [hl]
        exact (ih _ i1 e1).trans h1
    | fail pos e1 => simp [ResLe]
    | _ => rw [h] at h1; simp [ResLe, Res.castErr] at h1 ⊢; try exact h1

theorem mono_foldMany0 {α β : Type} {f : P β} (init : α) (g : α → β → α) (hf : Mono f) :
    Mono (foldMany0 f init g) :=
  fun i e => foldLoop_le g hf _ _ i e

theorem sepLoop_le {α β : Type} {sep : P β} {f : P α} (hs : Mono sep) (hf : Mono f) :
    ∀ (n : Nat) (acc : List α) (i : List Char) (e : Nat), ResLe (sepLoop sep f n acc i e) i.length := by
  intro n
  induction n with
  | zero => intro acc i e; simp [sepLoop, ResLe]
  | succ n ih =>
    intro acc i e
    unfold sepLoop
    split
    · simp [ResLe]
    · rename_i o i1 e1 h
      have h1 := hs.ok h
      split
      · simp [ResLe, h1]
      · split
        · simp [ResLe]
        · rename_i o2 i2 e2 h'
          have h2 := hf.ok h'
          exact (ih _ i2 e2).trans (by omega)
        · exact ((hf i1 e1).castErr).trans h1
    · exact (hs i e).castErr

theorem mono_sepList0 {α β : Type} {sep : P β} {f : P α} (hs : Mono sep) (hf : Mono f) :
    Mono (sepList0 sep f) := by
  intro i e
  have h1 := hf i e
  unfold sepList0
  cases h : f i e with
  | ok o i1 e1 =>
    rw [h] at h1
    exact (sepLoop_le hs hf _ _ i1 e1).trans h1
  | fail pos e1 => simp [ResLe]
  | _ => rw [h] at h1; simp [ResLe, Res.castErr] at h1 ⊢; try exact h1

theorem sliceBytes_le : ∀ (s : List Char) (n : Nat) (r : List Char),
    sliceBytes s n = some r → r.length ≤ s.length
  | s, 0, r, h => by simp [sliceBytes] at h; simp [h]
  | [], _ + 1, r, h => by simp [sliceBytes] at h
  | c :: cs, n + 1, r, h => by
    simp only [sliceBytes] at h
    split at h
    · have := sliceBytes_le cs _ r h
      simp only [List.length_cons]; omega
    · cases h

theorem resumeAt_le {α : Type} (line : String) (pos : List Char) (n errs : Nat) (v : α) :
    ResLe (resumeAt line pos n errs v) pos.length := by
  unfold resumeAt
  cases h : sliceBytes pos n with
  | none => simp [ResLe]
  | some r => simp only [ResLe]; exact sliceBytes_le _ _ _ h

theorem mono_expectAt {α : Type} (line : String) {p : P α} (hp : Mono p) :
    Mono (expectAt line p) := by
  intro i e
  have h1 := hp i e
  unfold expectAt
  cases h : p i e with
  | ok v r e1 => rw [h] at h1; simp [ResLe] at h1 ⊢; try exact h1
  | fail pos e1 => rw [h] at h1; exact (resumeAt_le _ _ _ _ _).trans h1
  | failure pos e1 => rw [h] at h1; exact (resumeAt_le _ _ _ _ _).trans h1
  | _ => simp [ResLe]

theorem mono_expect {α : Type} {p : P α} (hp : Mono p) : Mono (expect p) := mono_expectAt _ hp
theorem mono_expectFn {α : Type} {p : P α} (hp : Mono p) : Mono (expectFn p) := mono_expectAt _ hp

theorem skipLoop_le {α : Type} {third : P Unit} (ht : Mono third) (o2 : α) :
    ∀ (l : List Char) (e : Nat), ResLe (skipLoop third o2 l e) l.length
  | [], e => by simp [skipLoop, ResLe]
  | c :: cs, e => by
    have h1 := ht cs e
    unfold skipLoop
    cases h : third cs e with
    | ok u r e1 => rw [h] at h1; simp only [ResLe, List.length_cons] at h1 ⊢; omega
    | fail pos e1 => exact (skipLoop_le ht o2 cs e1).trans (by simp)
    | failure pos e1 => exact (skipLoop_le ht o2 cs e1).trans (by simp)
    | _ => simp [ResLe]

theorem mono_expectDelimited {α β : Type} {first : P β} {second : P α} {third : P Unit}
    (h1 : Mono first) (h2 : Mono second) (h3 : Mono third) :
    Mono (expectDelimited first second third) := by
  intro i e
  unfold expectDelimited
  split
  · rename_i u r1 e1 f1
    have a1 := h1.ok f1
    split
    · rename_i o2 r2 e2 f2
      have a2 := h2.ok f2
      split
      · rename_i u3 r3 e3 f3
        have a3 := h3.ok f3
        simp only [ResLe]; omega
      · exact (skipLoop_le h3 o2 r2 _).trans (by omega)
      · exact (skipLoop_le h3 o2 r2 _).trans (by omega)
      · simp [ResLe]
      · simp [ResLe]
    · exact ((h2 r1 e1).castErr).trans a1
  · exact (h1 i e).castErr

/-! strings, identifiers, literals -/

theorem escScan_le (q : Char) :
    ∀ (l a r : List Char), escScan q l = some (a, r) → r.length ≤ l.length
  | [], a, r, h => by simp [escScan] at h; simp [h]
  | c :: cs, a, r, h => by
    unfold escScan at h
    split at h
    · cases cs with
      | nil => simp at h
      | cons d ds =>
        simp only at h
        cases hrec : escScan q ds with
        | none => simp [hrec] at h
        | some ar =>
          obtain ⟨a', r'⟩ := ar
          simp [hrec] at h
          have := escScan_le q ds a' r' hrec
          rw [← h.2]
          simp only [List.length_cons]; omega
    · split at h
      · simp at h; simp [← h.2]
      · cases hrec : escScan q cs with
        | none => simp [hrec] at h
        | some ar =>
          obtain ⟨a', r'⟩ := ar
          simp [hrec] at h
          have := escScan_le q cs a' r' hrec
          rw [← h.2]
          simp only [List.length_cons]; omega
termination_by l => l.length

theorem mono_escBody (q : Char) : Mono (escBody q) := by
  intro i e
  unfold escBody
  cases h : escScan q i with
  | none => simp [ResLe]
  | some ar =>
    obtain ⟨a, r⟩ := ar
    simp only [ResLe]
    exact escScan_le q i a r h

theorem mono_quotedString : Mono quotedString :=
  mono_pmap _ (mono_alt (mono_expectDelimited (mono_tag _) (mono_escBody _) (mono_tag _))
    (mono_expectDelimited (mono_tag _) (mono_escBody _) (mono_tag _)))

theorem mono_bareIdent : Mono bareIdent := by
  intro i e
  unfold bareIdent
  cases i with
  | nil => simp [ResLe]
  | cons c cs =>
    by_cases hc : startsIdentCh c = true
    · simp only [hc, if_true, ResLe, List.length_cons]
      have := dropWhile_le isIdentCh cs
      omega
    · simp [hc, ResLe]

theorem mono_ident : Mono ident :=
  mono_alt mono_bareIdent (mono_expectDelimited (mono_tag _) mono_quotedString (mono_tag _))

theorem mono_i64Parse : Mono i64Parse := by
  intro i e
  have hr : Mono (recognize (opt (tag "-") *> digit1)) :=
    mono_recognize (mono_seqRight (mono_opt (mono_tag _)) mono_digit1)
  unfold i64Parse
  split
  · rename_i txt r e1 h
    have := hr.ok h
    split <;> simp [ResLe, this]
  · exact (hr i e).castErr

theorem mono_unitTag : ∀ (l : List (String × Int)), Mono (unitTag l)
  | [] => mono_failHere
  | [(u, _)] => mono_pmap _ (mono_tag u)
  | (u, _) :: x :: rest => mono_alt (mono_pmap _ (mono_tag u)) (mono_unitTag (x :: rest))

theorem mono_durationFragment : Mono durationFragment := by
  intro i e
  unfold durationFragment
  split
  · rename_i amount r e1 h
    have h1 := mono_i64Parse.ok h
    split
    · rename_i u k r2 e2 h2
      have := (mono_unitTag unitNs).ok h2
      split <;> simp only [ResLe] <;> omega
    · exact ((mono_unitTag unitNs r e1).castErr).trans h1
  · exact (mono_i64Parse i e).castErr

theorem durLoop_le : ∀ (n : Nat) (acc : Option Int) (i : List Char) (e : Nat),
    ResLe (durLoop n acc i e) i.length := by
  intro n
  induction n with
  | zero => intro acc i e; simp [durLoop, ResLe]
  | succ n ih =>
    intro acc i e
    unfold durLoop
    split
    · simp [ResLe]
    · rename_i d i1 e1 h
      exact (ih _ i1 e1).trans (mono_durationFragment.ok h)
    · exact (mono_durationFragment i e).castErr

theorem mono_duration : Mono duration := by
  intro i e
  unfold duration
  split
  · rename_i d i1 e1 h
    have h1 := mono_durationFragment.ok h
    have h2 := durLoop_le (i1.length + 1) (some d) i1 e1
    split
    · rename_i total r e2 h3
      rw [h3] at h2
      simp only [ResLe] at h2 ⊢; omega
    · simp [ResLe]
    · exact (h2.castErr).trans h1
  · simp [ResLe]
  · exact mono_durationFragment i e

theorem mono_valueP : Mono valueP := by
  unfold valueP
  apply mono_altL
  intro p hp
  simp only [List.mem_cons, List.not_mem_nil, or_false] at hp
  rcases hp with rfl | rfl | rfl | rfl | rfl | rfl
  · exact mono_pmap _ mono_quotedString
  · exact mono_pmap _ mono_duration
  · exact mono_pmap _ mono_digit1
  · exact mono_pmap _ (mono_kw _)
  · exact mono_pmap _ (mono_kw _)
  · exact mono_pmap _ (mono_kw _)

theorem mono_dotProperty : Mono dotProperty :=
  mono_pmap _ (mono_seqRight (mono_tag _) mono_ident)

theorem mono_indexAccess : Mono indexAccess :=
  mono_pmap _ (mono_seqLeft (mono_seqRight (mono_tag _) mono_i64Parse) (mono_tag _))

theorem mono_columnRef : Mono columnRef :=
  mono_bind_m mono_ident (fun _ =>
    mono_bind_m (mono_many0 (mono_alt mono_dotProperty mono_indexAccess)) (fun _ => mono_pure_m _))

/-! the expression grammar -/

theorem mono_argList {optE : P Expr} (h : Mono optE) : Mono (argList optE) :=
  mono_expectDelimited (mono_seqRight (mono_tag _) mono_ws0)
    (mono_sepList0 (mono_tag _) (mono_seqLeft (mono_seqRight mono_ws0 h) mono_ws0)) (mono_tag _)

theorem mono_fcall {optE : P Expr} (h : Mono optE) : Mono (fcall optE) :=
  mono_bind_m mono_ident (fun _ => mono_bind_m (mono_argList h) (fun _ => mono_pure_m _))

theorem mono_ifOp {optE : P Expr} (h : Mono optE) : Mono (ifOp optE) := by
  unfold ifOp
  refine mono_bind_m (mono_tag _) (fun _ => mono_bind_m (mono_argList h) (fun args => ?_))
  split
  · exact mono_pure_m _
  · exact mono_bind_m mono_report (fun _ => mono_pure_m _)

theorem mono_atomic {pe optE : P Expr} (hpe : Mono pe) (h : Mono optE) : Mono (atomic pe optE) := by
  unfold atomic
  apply mono_altL
  intro p hp
  simp only [List.mem_cons, List.not_mem_nil, or_false] at hp
  rcases hp with rfl | rfl | rfl | rfl | rfl
  · exact mono_ifOp h
  · exact mono_fcall h
  · exact mono_pmap _ mono_valueP
  · exact mono_columnRef
  · exact mono_expectDelimited (mono_tag _) hpe (mono_seqRight mono_ws0 (mono_tag _))

theorem mono_unary {pe optE : P Expr} (hpe : Mono pe) (h : Mono optE) : Mono (unary pe optE) := by
  unfold unary
  refine mono_bind_m (mono_opt (mono_tag _)) (fun op => ?_)
  cases op with
  | none => exact mono_atomic hpe h
  | some _ => exact mono_pmap _ (mono_expectFn (mono_atomic hpe h))

theorem mono_wsTok {τ : Type} {p : P τ} (hp : Mono p) : Mono (wsTok p) :=
  mono_bind (mono_bind mono_ws0 (fun _ => hp)) (fun a => mono_bind mono_ws0 (fun _ => mono_pure a))

theorem mono_muldivOp : Mono muldivOp :=
  mono_alt (mono_pmap _ (mono_tag _)) (mono_pmap _ (mono_tag _))

theorem mono_addsubOp : Mono addsubOp :=
  mono_alt (mono_pmap _ (mono_tag _)) (mono_pmap _ (mono_tag _))

theorem mono_term {pe optE : P Expr} (hpe : Mono pe) (h : Mono optE) : Mono (term pe optE) := by
  rw [term_unfold]
  refine mono_bind (mono_unary hpe h) (fun init => mono_foldMany0 _ _ ?_)
  refine mono_bind (mono_wsTok mono_muldivOp) (fun op => mono_bind (mono_opt (mono_unary hpe h))
    (fun r => ?_))
  cases r with
  | none => exact mono_bind mono_report (fun _ => mono_pure _)
  | some x => exact mono_pure _

theorem mono_arithExpr {pe optE : P Expr} (hpe : Mono pe) (h : Mono optE) :
    Mono (arithExpr pe optE) := by
  rw [arithExpr_unfold]
  exact mono_bind (mono_term hpe h) (fun init => mono_foldMany0 _ _
    (mono_bind (mono_wsTok mono_addsubOp) (fun op =>
      mono_bind (mono_expectFn (mono_term hpe h)) (fun r => mono_pure _))))

theorem mono_compOp : Mono compOp := by
  unfold compOp
  apply mono_altL
  intro p hp
  simp only [List.mem_cons, List.not_mem_nil, or_false] at hp
  rcases hp with rfl | rfl | rfl | rfl | rfl | rfl | rfl <;> exact mono_pmap _ (mono_tag _)

theorem mono_cmpExpr {pe optE : P Expr} (hpe : Mono pe) (h : Mono optE) :
    Mono (cmpExpr pe optE) := by
  rw [cmpExpr_unfold]
  refine mono_bind mono_ws0 (fun _ => mono_bind (mono_arithExpr hpe h) (fun l =>
    mono_bind (mono_opt (mono_bind (mono_wsTok mono_compOp) (fun op =>
      mono_bind (mono_expect (mono_arithExpr hpe h)) (fun rhs => mono_pure _)))) (fun r => ?_)))
  cases r with
  | none => exact mono_pure _
  | some p => obtain ⟨op, rhs⟩ := p; exact mono_pure _

theorem mono_logicElem (word sym : String) {operand : P Expr} (hop : Mono operand) :
    Mono (logicElem word sym operand) := by
  refine mono_bind (mono_alt
    (mono_bind mono_ws1 (fun _ => mono_bind (mono_kw _) (fun _ =>
      mono_opt (mono_bind mono_ws1 (fun _ => hop)))))
    (mono_bind mono_ws0 (fun _ => mono_bind (mono_tag _) (fun _ => mono_bind mono_ws0 (fun _ =>
      mono_opt hop))))) (fun r => ?_)
  cases r with
  | none => exact mono_bind mono_report (fun _ => mono_pure _)
  | some x => exact mono_pure _

theorem mono_logicalAnd {pe optE : P Expr} (hpe : Mono pe) (h : Mono optE) :
    Mono (logicalAnd pe optE) := by
  rw [logicalAnd_unfold]
  exact mono_bind (mono_cmpExpr hpe h) (fun _ => mono_foldMany0 _ _
    (mono_logicElem _ _ (mono_cmpExpr hpe h)))

theorem mono_logicalOr {pe optE : P Expr} (hpe : Mono pe) (h : Mono optE) :
    Mono (logicalOr pe optE) := by
  rw [logicalOr_unfold]
  exact mono_bind (mono_logicalAnd hpe h) (fun _ => mono_foldMany0 _ _
    (mono_logicElem _ _ (mono_logicalAnd hpe h)))

theorem mono_exprOf {optE : P Expr} (h : Mono optE) : Mono (exprOf optE) := by
  intro i e
  unfold exprOf
  split
  · rename_i v r e1 hp
    simp only [ResLe]; exact h.ok hp
  · exact resumeAt_le _ _ _ _ _
  · exact resumeAt_le _ _ _ _ _
  · simp [ResLe]
  · simp [ResLe]

/-- the real expression parsers are monotone, at every nesting fuel -/
theorem mono_optExprN : ∀ n, Mono (optExprN n)
  | 0 => by intro i e; simp [optExprN, ResLe]
  | n + 1 =>
    mono_seqRight mono_ws0 (mono_logicalOr (mono_exprOf (mono_optExprN n)) (mono_optExprN n))

theorem mono_exprN (n : Nat) : Mono (exprN n) := mono_exprOf (mono_optExprN n)

/-! ### chains of operators and operands -/

/-- `OpChain tok operand mk i e bs iF eF`: the input `i` is `op₁ x₁ op₂ x₂ … opₙ xₙ iF`, where each
`opₖ` is an operator token of the level (`tok`, with its blanks), each `xₖ` is what the operand
parser of the level returns right after it, and `bs = [mk op₁ x₁, …, mk opₙ xₙ]`.  The error count
goes from `e` to `eF` (operands may report). -/
inductive OpChain {τ β : Type} (tok : List Char → τ → List Char → Prop) (operand : P Expr)
    (mk : τ → Expr → β) : List Char → Nat → List β → List Char → Nat → Prop
  | nil (i : List Char) (e : Nat) : OpChain tok operand mk i e [] i e
  | cons {i : List Char} {e : Nat} {op : τ} {j : List Char} {x : Expr} {k : List Char} {e' : Nat}
      {bs : List β} {iF : List Char} {eF : Nat} :
      tok i op j → operand j e = .ok x k e' →
      OpChain tok operand mk k e' bs iF eF → OpChain tok operand mk i e (mk op x :: bs) iF eF

theorem chain_steps {τ β : Type} (tok : List Char → τ → List Char → Prop) (operand : P Expr)
    (mk : τ → Expr → β) (f : P β) (stop : List Char → Prop) (hm : Mono operand)
    (hlen : ∀ i op j, tok i op j → j.length < i.length)
    (hstep : ∀ i e op j x k e', tok i op j → operand j e = .ok x k e' →
      f i e = .ok (mk op x) k e')
    (hstop : ∀ i e, stop i → ∃ pos, f i e = .fail pos e)
    {i : List Char} {e : Nat} {bs : List β} {iF : List Char} {eF : Nat}
    (h : OpChain tok operand mk i e bs iF eF) (hs : stop iF) : Steps f i e bs iF eF := by
  induction h with
  | nil i e =>
    obtain ⟨pos, hf⟩ := hstop i e hs
    exact Steps.done hf
  | cons ht hx _ ih =>
    have := hlen _ _ _ ht
    have := hm.ok hx
    exact Steps.step (hstep _ _ _ _ _ _ _ ht hx) (by omega) (ih hs)

/-! ### C05, first clause: every level is a LEFT fold over operands of the next tighter level

`pe` / `optE` are the parsers used inside parentheses and argument lists (`expr` / `opt_expr` of the
enclosing nesting level); the real ones are `exprN n` / `optExprN n`, for which `mono_exprN` /
`mono_optExprN` discharge the two `Mono` hypotheses. -/

/-- **`*` `/` chains associate to the left** (every length): if `unary` reads `e₀` and what follows
is `op₁ u₁ … opₙ uₙ` with `opₖ ∈ {*, /}` (blanks allowed around) and `uₖ` read by `unary`, and then
neither `*` nor `/` follows, `term` answers `(((e₀ op₁ u₁) op₂ u₂) … opₙ uₙ)` and leaves the rest. -/
theorem term_left_fold (pe optE : P Expr) (hpe : Mono pe) (hoptE : Mono optE)
    {i : List Char} {e : Nat} {e0 : Expr} {i1 : List Char}
    {e1 : Nat} {ps : List (ArithOp × Expr)} {iF : List Char} {eF : Nat}
    (h0 : unary pe optE i e = .ok e0 i1 e1)
    (hc : OpChain MulDivAt (unary pe optE) Prod.mk i1 e1 ps iF eF) (hend : NoMulDiv iF) :
    term pe optE i e = .ok (ps.foldl (fun l p => Expr.arith p.1 l p.2) e0) iF eF := by
  rw [term_unfold, bind_ok h0]
  refine foldMany0_left_fold _ _ _ (chain_steps MulDivAt _ Prod.mk (termElem pe optE) NoMulDiv
    (mono_unary hpe hoptE) (fun _ _ _ h => h.length_lt) ?_ ?_ hc hend)
  · intro i e op j x k e' ht hx
    unfold termElem
    rw [bind_ok (mdTok_at ht e), bind_ok (opt_ok hx)]
    rfl
  · intro i e hs
    exact ⟨_, bind_fail (mdTok_none hs e)⟩

/-- **`+` `-` chains associate to the left, and their operands are whole `term`s** (so `*` `/`
bind tighter). -/
theorem arithExpr_left_fold (pe optE : P Expr) (hpe : Mono pe) (hoptE : Mono optE)
    {i : List Char} {e : Nat} {e0 : Expr}
    {i1 : List Char} {e1 : Nat} {ps : List (ArithOp × Expr)} {iF : List Char} {eF : Nat}
    (h0 : term pe optE i e = .ok e0 i1 e1)
    (hc : OpChain AddSubAt (term pe optE) Prod.mk i1 e1 ps iF eF) (hend : NoAddSub iF) :
    arithExpr pe optE i e = .ok (ps.foldl (fun l p => Expr.arith p.1 l p.2) e0) iF eF := by
  rw [arithExpr_unfold, bind_ok h0]
  refine foldMany0_left_fold _ _ _ (chain_steps AddSubAt _ Prod.mk (addElem pe optE) NoAddSub
    (mono_term hpe hoptE) (fun _ _ _ h => h.length_lt) ?_ ?_ hc hend)
  · intro i e op j x k e' ht hx
    unfold addElem
    rw [bind_ok (asTok_at ht e), bind_ok (expectFn_ok hx)]
    rfl
  · intro i e hs
    exact ⟨_, bind_fail (asTok_none hs e)⟩

/-- **the operands of a comparison are whole arithmetic expressions** (`+ - * /` bind tighter).
The comparison level does not chain: there is at most one operator. -/
theorem cmpExpr_operands (pe optE : P Expr) {i : List Char} {e : Nat} {l : Expr} {i1 : List Char}
    {e1 : Nat} {op : CmpOp} {j : List Char} {r : Expr} {k : List Char} {e2 : Nat}
    (hl : arithExpr pe optE (skipWs i) e = .ok l i1 e1) (ht : CmpAt i1 op j)
    (hr : arithExpr pe optE j e1 = .ok r k e2) :
    cmpExpr pe optE i e = .ok (.cmp op l r) k e2 := by
  have h0 : ws0 i e = .ok () (skipWs i) e := rfl
  have ht' : cmpTail pe optE i1 e1 = .ok (op, r) k e2 := by
    unfold cmpTail
    rw [bind_ok (compOp_at ht e1), bind_ok (expect_ok hr)]
    rfl
  rw [cmpExpr_unfold, bind_ok h0, bind_ok hl, bind_ok (opt_ok ht')]
  rfl

/-- without a comparison operator the comparison level is the arithmetic expression itself -/
theorem cmpExpr_no_operator (pe optE : P Expr) {i : List Char} {e : Nat} {l : Expr}
    {i1 : List Char} {e1 : Nat}
    (hl : arithExpr pe optE (skipWs i) e = .ok l i1 e1) (hn : NoCmp i1) :
    cmpExpr pe optE i e = .ok l i1 e1 := by
  have h0 : ws0 i e = .ok () (skipWs i) e := rfl
  have ht' : cmpTail pe optE i1 e1 = .fail (skipWs i1) e1 := by
    unfold cmpTail
    exact bind_fail (compOp_none hn e1)
  rw [cmpExpr_unfold, bind_ok h0, bind_ok hl, bind_ok (opt_fail ht')]
  rfl

/-- **`and` / `&&` chains associate to the left, and their operands are whole comparisons.** -/
theorem logicalAnd_left_fold (pe optE : P Expr) (hpe : Mono pe) (hoptE : Mono optE)
    {i : List Char} {e : Nat} {e0 : Expr}
    {i1 : List Char} {e1 : Nat} {xs : List Expr} {iF : List Char} {eF : Nat}
    (h0 : cmpExpr pe optE i e = .ok e0 i1 e1)
    (hc : OpChain AndAt (cmpExpr pe optE) (fun _ x => x) i1 e1 xs iF eF) (hend : NoAnd iF) :
    logicalAnd pe optE i e = .ok (xs.foldl (Expr.logic .and) e0) iF eF := by
  rw [logicalAnd_unfold, bind_ok h0]
  refine foldMany0_left_fold _ _ _ (chain_steps AndAt _ (fun _ x => x)
    (logicElem "and" "&&" (cmpExpr pe optE)) NoAnd (mono_cmpExpr hpe hoptE)
    (fun _ _ _ h => h.length_lt (by simp)) ?_ ?_ hc hend)
  · intro i e op j x k e' ht hx
    exact logicElem_at "and" "&&" _ _ rfl rfl (by simp) _ ht hx
  · intro i e hs
    exact logicElem_stop "and" "&&" _ _ rfl rfl _ hs e

/-- **`or` / `||` chains associate to the left, and their operands are whole conjunctions.** -/
theorem logicalOr_left_fold (pe optE : P Expr) (hpe : Mono pe) (hoptE : Mono optE)
    {i : List Char} {e : Nat} {e0 : Expr}
    {i1 : List Char} {e1 : Nat} {xs : List Expr} {iF : List Char} {eF : Nat}
    (h0 : logicalAnd pe optE i e = .ok e0 i1 e1)
    (hc : OpChain OrAt (logicalAnd pe optE) (fun _ x => x) i1 e1 xs iF eF) (hend : NoOr iF) :
    logicalOr pe optE i e = .ok (xs.foldl (Expr.logic .or) e0) iF eF := by
  rw [logicalOr_unfold, bind_ok h0]
  refine foldMany0_left_fold _ _ _ (chain_steps OrAt _ (fun _ x => x)
    (logicElem "or" "||" (logicalAnd pe optE)) NoOr (mono_logicalAnd hpe hoptE)
    (fun _ _ _ h => h.length_lt (by simp)) ?_ ?_ hc hend)
  · intro i e op j x k e' ht hx
    exact logicElem_at "or" "||" _ _ rfl rfl (by simp) _ ht hx
  · intro i e hs
    exact logicElem_stop "or" "||" _ _ rfl rfl _ hs e

/-- the top of the expression grammar is `logical_or` (after optional blanks) -/
theorem optExprN_succ (n : Nat) (i : List Char) (e : Nat) :
    optExprN (n + 1) i e = logicalOr (exprN n) (optExprN n) (skipWs i) e := rfl

/-- … and `expr` is `opt_expr` whenever that succeeds -/
theorem exprN_of_logicalOr (n : Nat) {i : List Char} {e : Nat} {v : Expr} {r : List Char}
    {e1 : Nat} (h : logicalOr (exprN n) (optExprN n) (skipWs i) e = .ok v r e1) :
    exprN (n + 1) i e = .ok v r e1 := by
  rw [← optExprN_succ] at h
  simp [exprN, exprOf, h]

/-! ### precedence as a consequence of the nesting (abstract operands) -/

/-- **`a + b * c` is `a + (b * c)`**: the right operand of `+`/`-` is the whole `*`/`/` chain. -/
theorem add_then_mul (pe optE : P Expr) (hpe : Mono pe) (hoptE : Mono optE)
    {i : List Char} {e : Nat} {a b c : Expr}
    {i1 j j1 k k1 : List Char} {e1 e2 e3 : Nat} {op1 op2 : ArithOp}
    (ha : unary pe optE i e = .ok a i1 e1) (n1 : NoMulDiv i1) (t1 : AddSubAt i1 op1 j)
    (hb : unary pe optE j e1 = .ok b j1 e2) (t2 : MulDivAt j1 op2 k)
    (hc : unary pe optE k e2 = .ok c k1 e3) (n2 : NoMulDiv k1) (n3 : NoAddSub k1) :
    arithExpr pe optE i e = .ok (.arith op1 a (.arith op2 b c)) k1 e3 := by
  have hA : term pe optE i e = .ok a i1 e1 :=
    term_left_fold pe optE hpe hoptE ha (.nil _ _) n1
  have hB : term pe optE j e1 = .ok (.arith op2 b c) k1 e3 :=
    term_left_fold pe optE hpe hoptE hb (.cons t2 hc (.nil _ _)) n2
  exact arithExpr_left_fold pe optE hpe hoptE hA (.cons t1 hB (.nil _ _)) n3

/-- **`a * b + c` is `(a * b) + c`**: the left operand of `+`/`-` is the whole `*`/`/` chain. -/
theorem mul_then_add (pe optE : P Expr) (hpe : Mono pe) (hoptE : Mono optE)
    {i : List Char} {e : Nat} {a b c : Expr}
    {i1 j j1 k k1 : List Char} {e1 e2 e3 : Nat} {op1 op2 : ArithOp}
    (ha : unary pe optE i e = .ok a i1 e1) (t1 : MulDivAt i1 op1 j)
    (hb : unary pe optE j e1 = .ok b j1 e2) (n1 : NoMulDiv j1) (t2 : AddSubAt j1 op2 k)
    (hc : unary pe optE k e2 = .ok c k1 e3) (n2 : NoMulDiv k1) (n3 : NoAddSub k1) :
    arithExpr pe optE i e = .ok (.arith op2 (.arith op1 a b) c) k1 e3 := by
  have hA : term pe optE i e = .ok (.arith op1 a b) j1 e2 :=
    term_left_fold pe optE hpe hoptE ha (.cons t1 hb (.nil _ _)) n1
  have hC : term pe optE k e2 = .ok c k1 e3 :=
    term_left_fold pe optE hpe hoptE hc (.nil _ _) n2
  exact arithExpr_left_fold pe optE hpe hoptE hA (.cons t2 hC (.nil _ _)) n3

/-- **`x or y and z` is `x or (y and z)`** (operands `x y z` = comparisons). -/
theorem or_then_and (pe optE : P Expr) (hpe : Mono pe) (hoptE : Mono optE)
    {i : List Char} {e : Nat} {x y z : Expr}
    {i1 j j1 k k1 : List Char} {e1 e2 e3 : Nat} {u1 u2 : Unit}
    (hx : cmpExpr pe optE i e = .ok x i1 e1) (n1 : NoAnd i1) (t1 : OrAt i1 u1 j)
    (hy : cmpExpr pe optE j e1 = .ok y j1 e2) (t2 : AndAt j1 u2 k)
    (hz : cmpExpr pe optE k e2 = .ok z k1 e3) (n2 : NoAnd k1) (n3 : NoOr k1) :
    logicalOr pe optE i e = .ok (.logic .or x (.logic .and y z)) k1 e3 := by
  have hA : logicalAnd pe optE i e = .ok x i1 e1 :=
    logicalAnd_left_fold pe optE hpe hoptE hx (.nil _ _) n1
  have hB : logicalAnd pe optE j e1 = .ok (.logic .and y z) k1 e3 :=
    logicalAnd_left_fold pe optE hpe hoptE hy (.cons t2 hz (.nil _ _)) n2
  exact logicalOr_left_fold pe optE hpe hoptE hA (.cons t1 hB (.nil _ _)) n3

/-- **`x and y or z` is `(x and y) or z`**. -/
theorem and_then_or (pe optE : P Expr) (hpe : Mono pe) (hoptE : Mono optE)
    {i : List Char} {e : Nat} {x y z : Expr}
    {i1 j j1 k k1 : List Char} {e1 e2 e3 : Nat} {u1 u2 : Unit}
    (hx : cmpExpr pe optE i e = .ok x i1 e1) (t1 : AndAt i1 u1 j)
    (hy : cmpExpr pe optE j e1 = .ok y j1 e2) (n1 : NoAnd j1) (t2 : OrAt j1 u2 k)
    (hz : logicalAnd pe optE k e2 = .ok z k1 e3) (n3 : NoOr k1) :
    logicalOr pe optE i e = .ok (.logic .or (.logic .and x y) z) k1 e3 := by
  have hA : logicalAnd pe optE i e = .ok (.logic .and x y) j1 e2 :=
    logicalAnd_left_fold pe optE hpe hoptE hx (.cons t1 hy (.nil _ _)) n1
  exact logicalOr_left_fold pe optE hpe hoptE hA (.cons t2 hz (.nil _ _)) n3

/-! ### the hypotheses are satisfiable: the general theorems applied to the real parser -/

/-- rest and error count of a successful result -/
def restOf {α : Type} : Res α → Option (List Char × Nat)
  | .ok _ r e => some (r, e)
  | _ => none

theorem ok_of_restOf {α : Type} {r : Res α} {i : List Char} {e : Nat}
    (h : restOf r = some (i, e)) : ∃ v, r = .ok v i e := by
  cases r <;> simp [restOf] at h
  obtain ⟨rfl, rfl⟩ := h
  exact ⟨_, rfl⟩

theorem MulDivAt.mul' {i r j : List Char} (h : skipWs i = '*' :: r) (hj : skipWs r = j) :
    MulDivAt i .mul j := hj ▸ MulDivAt.mul h
theorem MulDivAt.div' {i r j : List Char} (h : skipWs i = '/' :: r) (hj : skipWs r = j) :
    MulDivAt i .div j := hj ▸ MulDivAt.div h
theorem AddSubAt.add' {i r j : List Char} (h : skipWs i = '+' :: r) (hj : skipWs r = j) :
    AddSubAt i .add j := hj ▸ AddSubAt.add h
theorem AddSubAt.sub' {i r j : List Char} (h : skipWs i = '-' :: r) (hj : skipWs r = j) :
    AddSubAt i .sub j := hj ▸ AddSubAt.sub h
theorem LogicAt.word' {w s : List Char} {c0 : Char} {t : List Char} {c1 : Char} {t1 j : List Char}
    (h0 : Text.isMultispace c0 = true) (h : skipWs t = w ++ c1 :: t1)
    (h1 : Text.isMultispace c1 = true) (hj : skipWs t1 = j) : LogicAt w s (c0 :: t) () j :=
  hj ▸ LogicAt.word h0 h h1
theorem LogicAt.sym' {w s : List Char} {i r j : List Char} (h : skipWs i = s ++ r)
    (hj : skipWs r = j) : LogicAt w s i () j := hj ▸ LogicAt.sym h

/-- at the end of the text no operator of any level follows -/
theorem no_operator_at_end : NoMulDiv [] ∧ NoAddSub [] ∧ NoCmp [] ∧ NoAnd [] ∧ NoOr [] := by
  refine ⟨?_, ?_, ?_, ?_, ?_⟩
  · intro r; simp [skipWs]
  · intro r; simp [skipWs]
  · intro r; simp [skipWs]
  · exact ⟨by intro r; simp [skipWs], by intro c t r h; cases h⟩
  · exact ⟨by intro r; simp [skipWs], by intro c t r h; cases h⟩

/-- `term_left_fold` on `a / b * c + d`: two steps, stops before ` + d` -/
example : ∃ a b c, term (exprN 2) (optExprN 2) q!"a / b * c + d" 0 =
    .ok (.arith .mul (.arith .div a b) c) q!" + d" 0 := by
  obtain ⟨a, ha⟩ := ok_of_restOf (r := unary (exprN 2) (optExprN 2) q!"a / b * c + d" 0)
    (i := q!" / b * c + d") (e := 0) (by decide)
  obtain ⟨b, hb⟩ := ok_of_restOf (r := unary (exprN 2) (optExprN 2) q!"b * c + d" 0)
    (i := q!" * c + d") (e := 0) (by decide)
  obtain ⟨c, hc⟩ := ok_of_restOf (r := unary (exprN 2) (optExprN 2) q!"c + d" 0)
    (i := q!" + d") (e := 0) (by decide)
  have t1 : MulDivAt q!" / b * c + d" .div q!"b * c + d" :=
    MulDivAt.div' (r := q!" b * c + d") (by decide) (by decide)
  have t2 : MulDivAt q!" * c + d" .mul q!"c + d" :=
    MulDivAt.mul' (r := q!" c + d") (by decide) (by decide)
  have n : NoMulDiv q!" + d" := by
    intro r
    rw [show skipWs q!" + d" = q!"+ d" by decide]
    simp
  exact ⟨a, b, c, term_left_fold _ _ (mono_exprN 2) (mono_optExprN 2) ha
    (.cons t1 hb (.cons t2 hc (.nil _ _))) n⟩

/-- `or_then_and` through the top-level parser on `a or b && c` -/
example : ∃ a b c, exprN 3 q!"a or b && c" 0 = .ok (.logic .or a (.logic .and b c)) [] 0 := by
  obtain ⟨a, ha⟩ := ok_of_restOf (r := cmpExpr (exprN 2) (optExprN 2) q!"a or b && c" 0)
    (i := q!" or b && c") (e := 0) (by decide)
  obtain ⟨b, hb⟩ := ok_of_restOf (r := cmpExpr (exprN 2) (optExprN 2) q!"b && c" 0)
    (i := q!" && c") (e := 0) (by decide)
  obtain ⟨c, hc⟩ := ok_of_restOf (r := cmpExpr (exprN 2) (optExprN 2) q!"c" 0)
    (i := []) (e := 0) (by decide)
  have t1 : OrAt q!" or b && c" () q!"b && c" :=
    LogicAt.word' (c1 := ' ') (t1 := q!"b && c") (by decide) (by decide) (by decide) (by decide)
  have t2 : AndAt q!" && c" () q!"c" := LogicAt.sym' (r := q!" c") (by decide) (by decide)
  have n1 : NoAnd q!" or b && c" := by
    refine ⟨?_, ?_⟩
    · intro r; rw [show skipWs q!" or b && c" = q!"or b && c" by decide]; simp
    · intro c t r _ _ h
      rw [show skipWs q!" or b && c" = q!"or b && c" by decide] at h
      simp at h
  obtain ⟨_, _, _, n2, n3⟩ := no_operator_at_end
  exact ⟨a, b, c, exprN_of_logicalOr 2
    (or_then_and _ _ (mono_exprN 2) (mono_optExprN 2) ha n1 t1 hb t2 hc n2 n3)⟩

/-- `cmpExpr_operands` on `a + b < c * d` -/
example : ∃ l r, cmpExpr (exprN 2) (optExprN 2) q!"a + b < c * d" 0 = .ok (.cmp .lt l r) [] 0 := by
  obtain ⟨l, hl⟩ := ok_of_restOf (r := arithExpr (exprN 2) (optExprN 2) (skipWs q!"a + b < c * d") 0)
    (i := q!" < c * d") (e := 0) (by decide)
  obtain ⟨r, hr⟩ := ok_of_restOf (r := arithExpr (exprN 2) (optExprN 2) q!"c * d" 0)
    (i := []) (e := 0) (by decide)
  have t : CmpAt q!" < c * d" .lt q!"c * d" := by
    have := CmpAt.lt (i := q!" < c * d") (r := q!" c * d") (by decide) (by intro r'; simp)
    rwa [show skipWs q!" c * d" = q!"c * d" by decide] at this
  exact ⟨l, r, cmpExpr_operands _ _ hl t hr⟩

/-! ### evaluated instances through the real expression parser `expr` (`exprN`) -/

/-- `expr` accepts exactly the whole text, without diagnostics, and answers the AST `x` -/
def parsesTo (txt : List Char) (x : Expr) : Bool :=
  match exprN (txt.length + 2) txt 0 with
  | .ok v [] 0 => exprEq v x
  | _ => false

/-- both texts are accepted entirely and without diagnostics; are the ASTs equal? -/
def sameExpr (t1 t2 : List Char) : Option Bool :=
  match exprN (t1.length + 2) t1 0, exprN (t2.length + 2) t2 0 with
  | .ok v1 [] 0, .ok v2 [] 0 => some (exprEq v1 v2)
  | _, _ => none

def v (n : String) : Expr := .col n []
def bin (o : ArithOp) (l r : Expr) : Expr := .arith o l r

theorem inst_div_div : parsesTo q!"a / b / c" (bin .div (bin .div (v "a") (v "b")) (v "c")) = true := by
  decide
theorem inst_div_mul : parsesTo q!"a / b * c" (bin .mul (bin .div (v "a") (v "b")) (v "c")) = true := by
  decide
theorem inst_sub_sub : parsesTo q!"a - b - c" (bin .sub (bin .sub (v "a") (v "b")) (v "c")) = true := by
  decide
theorem inst_sub_add : parsesTo q!"a - b + c" (bin .add (bin .sub (v "a") (v "b")) (v "c")) = true := by
  decide
theorem inst_add_mul : parsesTo q!"a + b * c" (bin .add (v "a") (bin .mul (v "b") (v "c"))) = true := by
  decide
theorem inst_mul_add : parsesTo q!"a * b + c" (bin .add (bin .mul (v "a") (v "b")) (v "c")) = true := by
  decide
theorem inst_cmp_arith : parsesTo q!"a + b < c * d"
    (.cmp .lt (bin .add (v "a") (v "b")) (bin .mul (v "c") (v "d"))) = true := by
  decide
theorem inst_or_and_cmp : parsesTo q!"a < b and c < d or e"
    (.logic .or (.logic .and (.cmp .lt (v "a") (v "b")) (.cmp .lt (v "c") (v "d"))) (v "e")) = true := by
  decide
theorem inst_or_and : parsesTo q!"a or b and c"
    (.logic .or (v "a") (.logic .and (v "b") (v "c"))) = true := by
  decide
theorem inst_and_and : parsesTo q!"a and b && c"
    (.logic .and (.logic .and (v "a") (v "b")) (v "c")) = true := by
  decide
theorem inst_or_or : parsesTo q!"a or b || c"
    (.logic .or (.logic .or (v "a") (v "b")) (v "c")) = true := by
  decide
theorem inst_chain5 : parsesTo q!"a/b*c/d*e"
    (bin .mul (bin .div (bin .mul (bin .div (v "a") (v "b")) (v "c")) (v "d")) (v "e")) = true := by
  decide
/-- comparisons do not chain: after `a < b` the text ` < c` is left over -/
theorem inst_cmp_no_chain : restOf (optExprN 11 q!"a < b < c" 0) = some (q!" < c", 0) := by decide
theorem inst_paren_left : sameExpr q!"(a / b) / c" q!"a / b / c" = some true := by decide
theorem inst_paren_right : sameExpr q!"a / (b / c)" q!"a / b / c" = some false := by decide
theorem inst_paren_right_ast : parsesTo q!"a / (b / c)"
    (bin .div (v "a") (bin .div (v "b") (v "c"))) = true := by
  decide
theorem inst_sub_paren : sameExpr q!"a - (b - c)" q!"a - b - c" = some false := by decide
theorem inst_mul_paren_add : sameExpr q!"(a + b) * c" q!"a + b * c" = some false := by decide

/-! the same through whole queries (`parseChars`), in the four places an expression can stand -/

/-- both queries are accepted and their ASTs differ -/
def diffAst (a b : List Char) : Bool :=
  match parseChars a, parseChars b with
  | .accept q1, .accept q2 => !queryEq q1 q2
  | _, _ => false

theorem q_where_left : sameAst q!"* | json | where a / b / c > 1" q!"* | json | where (a / b) / c > 1" = true := by
  decide
theorem q_where_right : diffAst q!"* | json | where a / b / c > 1" q!"* | json | where a / (b / c) > 1" = true := by
  decide
theorem q_field_left : sameAst q!"* | json | a - b - c as x" q!"* | json | (a - b) - c as x" = true := by
  decide
theorem q_field_right : diffAst q!"* | json | a - b - c as x" q!"* | json | a - (b - c) as x" = true := by
  decide
/-- the key expressions of `* | json | <aggregates> by <keys>` (the key HEADERS are the source
text of the keys, so they differ when parentheses are added; the key expressions decide grouping) -/
def keysOf (q : List Char) : Option (List Expr) :=
  match opsOf q with
  | some [_, .agg m] => some m.keyCols
  | _ => none

def sameKeys (a b : List Char) : Option Bool :=
  match keysOf a, keysOf b with
  | some k1, some k2 => some (exprsEq k1 k2)
  | _, _ => none

theorem q_key_left : sameKeys q!"* | json | count by a / b / c" q!"* | json | count by (a / b) / c" = some true := by
  decide
theorem q_key_right : sameKeys q!"* | json | count by a / b / c" q!"* | json | count by a / (b / c)" = some false := by
  decide
theorem q_sort_left : sameAst q!"* | json | sort by a - b - c" q!"* | json | sort by (a - b) - c" = true := by
  decide
theorem q_sort_right : diffAst q!"* | json | sort by a - b - c" q!"* | json | sort by a - (b - c)" = true := by
  decide
theorem q_agg_left : sameAst q!"* | json | sum(a / b / c)" q!"* | json | sum((a / b) / c)" = true := by
  decide
theorem q_agg_right : diffAst q!"* | json | sum(a / b / c)" q!"* | json | sum(a / (b / c))" = true := by
  decide
theorem q_where_prec : sameAst q!"* | json | where a + b * c < d or e and f"
    q!"* | json | where ((a + (b * c)) < d) or (e and f)" = true := by
  decide

end Ag.C05prec
