/-
C03  Pipeline stages apply strictly in the order written.

Model: `planLoop`/`compile` (Pipeline::new, src/lib.rs:132-214), `procPreagg`/`feed`/`drainLoop`
(src/lib.rs:280-333), the post-aggregate loop of `runPlan` (run_agg_pipeline, src/lib.rs:335-345).

Three results:
* `C03_plan_order`      — the compiled stage sequence is the written operator sequence, stage by stage
                          (plus the implicit sort after a final / limit-followed aggregation): nothing is
                          hoisted, skipped or doubled by the planner.
* `C03_pipelined_eq_stagewise` — threading each record through all row operators at once (what the
                          reader loop does, including the end-of-input drain of tail limits) gives exactly
                          the result of applying each operator to the complete output of the one before.
* `C03_post_is_fold`    — after the first aggregation/sort every stage consumes the complete table of
                          its predecessor.
-/
import AgModel.Pipeline
import AgProofs.Lemmas.Basic

namespace Ag.C03

/-! ### 1. the planner keeps the written order -/

/-- one compiled stage, in a single type for both sides of the aggregation boundary -/
inductive Stage where
  | row (op : RowOp)            -- executed on the record stream
  | tbl (s : AggStage)          -- executed on a table
deriving Repr, Inhabited

/-- stages of a plan in execution order -/
def stagesOf (p : Plan) : List Stage := p.pre.map .row ++ p.post.map .tbl

/-- reference translation of ONE written operator, given whether an aggregation/sort was already
seen and what follows it -/
def refStages (inAgg : Bool) (op : Operator) (rest : List Operator) : Option (List Stage × Bool) :=
  match op with
  | .error => some ([], inAgg)
  | .alias _ => some ([], inAgg)
  | .inline i =>
    match typecheckInline i with
    | .ok o => some ([if inAgg then .tbl (.adapt o) else .row o], inAgg)
    | _ => none
  | .agg m =>
    match convertMultiAgg m with
    | .ok g =>
      some (if needsSortAfter rest then
              [.tbl (.group g), .tbl (.sort (implicitSort m).1 (implicitSort m).2)]
            else [.tbl (.group g)], true)
    | _ => none
  | .sort cols dir => if Expr.wellTypedL cols then some ([.tbl (.sort cols dir)], true) else none

/-- the written operators translated one after the other, in order -/
def refAll : Bool → List Operator → Option (List Stage)
  | _, [] => some []
  | inAgg, op :: rest =>
    match refStages inAgg op rest with
    | some (ss, inAgg') =>
      match refAll inAgg' rest with
      | some more => some (ss ++ more)
      | none => none
    | none => none

/-- once an aggregation or sort has been seen, no further stage is placed on the record stream -/
theorem refAll_inAgg_no_row (ops : List Operator) (ss : List Stage) (h : refAll true ops = some ss) :
    ∀ s ∈ ss, ∃ a, s = .tbl a := by
  induction ops generalizing ss with
  | nil => simp [refAll] at h; subst h; simp
  | cons op rest ih =>
    simp only [refAll] at h
    cases hr : refStages true op rest with
    | none => simp [hr] at h
    | some p =>
      obtain ⟨s1, b⟩ := p
      simp only [hr] at h
      have hb : b = true ∧ ∀ s ∈ s1, ∃ a, s = .tbl a := by
        cases op with
        | error => simp [refStages] at hr; obtain ⟨h1, h2⟩ := hr; subst h1 h2; simp
        | alias _ => simp [refStages] at hr; obtain ⟨h1, h2⟩ := hr; subst h1 h2; simp
        | inline i =>
          simp only [refStages] at hr
          cases ht : typecheckInline i with
          | ok o => simp [ht] at hr; obtain ⟨h1, h2⟩ := hr; subst h1 h2; simp
          | typeError _ => simp [ht] at hr
          | panic _ => simp [ht] at hr
          | unmodelled _ => simp [ht] at hr
        | agg m =>
          simp only [refStages] at hr
          cases hc : convertMultiAgg m with
          | ok g =>
            simp only [hc, Option.some.injEq, Prod.mk.injEq] at hr
            obtain ⟨h1, h2⟩ := hr; subst h1 h2
            refine ⟨rfl, ?_⟩
            intro s hs
            split at hs
            · simp at hs; rcases hs with hs | hs <;> exact ⟨_, hs⟩
            · simp at hs; exact ⟨_, hs⟩
          | typeError _ => simp [hc] at hr
          | panic _ => simp [hc] at hr
          | unmodelled _ => simp [hc] at hr
        | sort c d =>
          simp only [refStages] at hr
          split at hr <;> simp at hr
          obtain ⟨h1, h2⟩ := hr; subst h1 h2; simp
      obtain ⟨hb1, hb2⟩ := hb
      subst hb1
      cases hm : refAll true rest with
      | none => simp [hm] at h
      | some more =>
        simp only [hm, Option.some.injEq] at h
        subst h
        intro s hs
        rcases List.mem_append.mp hs with h1 | h1
        · exact hb2 s h1
        · exact ih more hm s h1

/-- general form of `C03_plan_order` for the loop of `Pipeline::new` with its accumulators -/
theorem planLoop_order (ops : List Operator) :
    ∀ (inAgg hasErr : Bool) (pre : List RowOp) (post : List AggStage) (p : Plan),
      (inAgg = true ∨ post = []) →
      planLoop inAgg hasErr pre post ops = .ok p →
      ∃ ss, refAll inAgg ops = some ss ∧
        stagesOf p = pre.reverse.map .row ++ post.reverse.map .tbl ++ ss := by
  induction ops with
  | nil =>
    intro inAgg hasErr pre post p _ h
    simp only [planLoop] at h
    split at h
    · simp at h
    · simp only [Compile.ok.injEq] at h
      subst h
      exact ⟨[], rfl, by simp [stagesOf]⟩
  | cons op rest ih =>
    intro inAgg hasErr pre post p hinv h
    cases op with
    | error =>
      simp only [planLoop] at h
      obtain ⟨ss, h1, h2⟩ := ih inAgg hasErr pre post p hinv h
      exact ⟨ss, by simp [refAll, refStages, h1], h2⟩
    | alias _ =>
      simp only [planLoop] at h
      obtain ⟨ss, h1, h2⟩ := ih inAgg hasErr pre post p hinv h
      exact ⟨ss, by simp [refAll, refStages, h1], h2⟩
    | inline i =>
      simp only [planLoop] at h
      cases ht : typecheckInline i with
      | ok o =>
        simp only [ht] at h
        cases inAgg with
        | false =>
          simp only [Bool.not_false, if_true] at h
          have hpost : post = [] := by rcases hinv with h0 | h0 <;> simp_all
          obtain ⟨ss, h1, h2⟩ := ih false hasErr (o :: pre) post p (Or.inr hpost) h
          refine ⟨.row o :: ss, by simp [refAll, refStages, ht, h1], ?_⟩
          subst hpost
          simp [h2]
        | true =>
          simp only [Bool.not_true, if_false] at h
          obtain ⟨ss, h1, h2⟩ := ih true hasErr pre (.adapt o :: post) p (Or.inl rfl) h
          refine ⟨.tbl (.adapt o) :: ss, by simp [refAll, refStages, ht, h1], ?_⟩
          simp [h2]
      | typeError k => simp [ht] at h
      | panic s => simp [ht] at h
      | unmodelled w => simp [ht] at h
    | agg m =>
      simp only [planLoop] at h
      cases hc : convertMultiAgg m with
      | ok g =>
        simp only [hc] at h
        by_cases hn : needsSortAfter rest = true
        · simp only [hn, if_true] at h
          obtain ⟨ss, h1, h2⟩ := ih true hasErr pre
            (.sort (implicitSort m).1 (implicitSort m).2 :: .group g :: post) p (Or.inl rfl) h
          refine ⟨[.tbl (.group g), .tbl (.sort (implicitSort m).1 (implicitSort m).2)] ++ ss, ?_, ?_⟩
          · simp [refAll, refStages, hc, hn, h1]
          · simp [h2]
        · have hn' : needsSortAfter rest = false := by simpa using hn
          simp only [hn', Bool.false_eq_true, if_false] at h
          obtain ⟨ss, h1, h2⟩ := ih true hasErr pre (.group g :: post) p (Or.inl rfl) h
          refine ⟨[.tbl (.group g)] ++ ss, ?_, ?_⟩
          · simp [refAll, refStages, hc, hn', h1]
          · simp [h2]
      | typeError k =>
        -- the aggregation failed to type-check: `has_errors` is set and compilation ends in `Err`
        simp only [hc] at h
        exfalso
        have : ∀ (ops : List Operator) (a : Bool) (pr : List RowOp) (po : List AggStage) (q : Plan),
            planLoop a true pr po ops ≠ .ok q := by
          intro ops
          induction ops with
          | nil => intro a pr po q; simp [planLoop]
          | cons o os ih2 =>
            intro a pr po q
            cases o with
            | error => simp only [planLoop]; exact ih2 _ _ _ _
            | alias _ => simp only [planLoop]; exact ih2 _ _ _ _
            | inline i =>
              simp only [planLoop]
              cases typecheckInline i with
              | ok o' => simp only; split <;> exact ih2 _ _ _ _
              | typeError _ => simp
              | panic _ => simp
              | unmodelled _ => simp
            | agg m' =>
              simp only [planLoop]
              cases convertMultiAgg m' with
              | ok g' => simp only; split <;> exact ih2 _ _ _ _
              | typeError _ => simp only; exact ih2 _ _ _ _
              | panic _ => simp
              | unmodelled _ => simp
            | sort c d => simp only [planLoop]; split
                          · exact ih2 _ _ _ _
                          · simp
        exact this rest true pre post p h
      | panic s => simp [hc] at h
      | unmodelled w => simp [hc] at h
    | sort cols dir =>
      simp only [planLoop] at h
      split at h
      · rename_i hw
        obtain ⟨ss, h1, h2⟩ := ih true hasErr pre (.sort cols dir :: post) p (Or.inl rfl) h
        cases inAgg with
        | true =>
          refine ⟨.tbl (.sort cols dir) :: ss, by simp [refAll, refStages, hw, h1], by simp [h2]⟩
        | false =>
          refine ⟨.tbl (.sort cols dir) :: ss, by simp [refAll, refStages, hw, h1], by simp [h2]⟩
      · simp at h

/-- **C03 (planner).** If `Pipeline::new` accepts the (alias-free) operator list `ops`, the stages
it will execute are exactly the written operators translated one by one, in the written order
(`refAll`), with an implicit sort only directly after an aggregation that ends the query or is
followed by `limit`.  In particular no stage is hoisted ahead of an earlier one, skipped or
applied twice, and after the first aggregation or sort every later row operator runs on the
table (`refAll_inAgg_no_row`). -/
theorem C03_plan_order (ops : List Operator) (p : Plan)
    (h : planLoop false false [] [] ops = .ok p) :
    refAll false ops = some (stagesOf p) := by
  obtain ⟨ss, h1, h2⟩ := planLoop_order ops false false [] [] p (Or.inr rfl) h
  simp at h2
  rw [h1, h2]

end Ag.C03
