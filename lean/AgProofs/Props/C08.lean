/-
C08  Numbers are never silently corrupted (numeric core).

About the model of `i64 as f64`, `Value::from_float`, `Value::from_string` / `str::parse::<i64>`
and the integer `Add/Sub/Mul` of `Value` (src/data.rs).  Exact numeric values are core `Dyadic`
rationals: `F64.val?` for doubles, `Value.num` for values (AgProofs/Lemmas/*).

History: before /repo 6cfc8ab `from_float` truncated every double with 0 < frac < 2^-52 to an
integer (1e-300 ↦ 0, -(1 - 2^-53) ↦ 0) and saturated integral doubles outside the i64 range
(1e300 ↦ 9223372036854775807); those witnesses are now regression theorems
(`C08_from_float_regressions`, `C08_from_string_float_kept`).
Still open: integer `+ - *` overflow — the model result is `Outcome.panic` (Rust debug builds
panic, release builds wrap), never a wrong `Int`.
-/
import AgProofs.Lemmas.FromFloat
import AgProofs.Lemmas.Parse

namespace Ag.C08
open Ag.F64 Ag.Value

/-! ### `i64 as f64` -/

/-- `i as f64` has exactly the value `i` whenever |i| ≤ 2^53, and is a canonical double -/
theorem C08_i64_to_f64_exact (i : Int) (h : i.natAbs ≤ 2 ^ 53) :
    val? (ofInt i) = some (i : Dyadic) ∧ Canon (ofInt i) := by
  rw [← two53_eq] at h
  exact ⟨val_ofInt h, (ofInt_hasVal h).2⟩

example : val? (ofInt (-9007199254740992)) = some ((-9007199254740992 : Int) : Dyadic) :=
  (C08_i64_to_f64_exact _ (by decide)).1

/-- … so on that range the conversion is an order embedding: doubles compare as the integers do -/
theorem C08_i64_to_f64_order_embedding (a b : Int) (ha : a.natAbs ≤ 2 ^ 53)
    (hb : b.natAbs ≤ 2 ^ 53) : ocmp (ofInt a) (ofInt b) = compare a b := by
  rw [← two53_eq] at ha hb
  exact ocmp_ofInt ha hb

/-- in particular it is injective there -/
theorem C08_i64_to_f64_injective (a b : Int) (ha : a.natAbs ≤ 2 ^ 53) (hb : b.natAbs ≤ 2 ^ 53)
    (h : ofInt a = ofInt b) : a = b := by
  have := C08_i64_to_f64_order_embedding a b ha hb
  rw [h, ocmp_self] at this
  exact Int.compare_eq_eq.1 this.symm

/-- the rounding lemma behind it: rounding a value that is a double returns that double -/
theorem C08_round_representable (s : Bool) (n : Nat) (sc : Int) (m : Nat) (e : Int)
    (hn : n ≠ 0) (hc : Canon (fin s m e)) (H : n * pow2 (sc - e) = m * pow2 (e - sc)) :
    roundRat s n 1 sc = fin s m e := roundRat_exact s n sc m e hn hc H

/-- the statement without the bound … -/
def C08_i64_to_f64_exact_full : Prop :=
  ∀ i : Int, inI64 i = true → val? (ofInt i) = some (i : Dyadic)

/-- … is false: 2^53 + 1 is rounded to 2^53 (the honest counter-statement beyond 2^53: f64
accumulators and Int/Float comparisons lose integers there) -/
theorem C08_i64_to_f64_inexact_beyond :
    ofInt (2 ^ 53 + 1) = ofInt (2 ^ 53) ∧ ofInt (-(2 ^ 53 + 1)) = ofInt (-(2 ^ 53)) := by
  constructor <;> decide

theorem C08_i64_to_f64_exact_not_full : ¬ C08_i64_to_f64_exact_full := by
  intro h
  have h1 := h (2 ^ 53 + 1) (by decide)
  have h2 := h (2 ^ 53) (by decide)
  rw [C08_i64_to_f64_inexact_beyond.1, h2] at h1
  exact absurd h1 (by decide)

/-! ### `Value::from_float`

After the repair (/repo 6cfc8ab) `from_float` returns an `Int` only when the double is exactly
that integer and lies in the i64 range; every other double stays a `Float`.  The statements that
were counterexamples before are now positive regression theorems. -/

/-- `from_float` never changes the numeric value — for every double (full statement) -/
theorem C08_from_float_value (f : F64) : num (fromFloat f) = num (.float f) := num_fromFloat f

/-- it returns an `Int` exactly when the double is an integer of the i64 range, and then that
integer (for which the saturating cast `as i64` is exact) -/
theorem C08_from_float_int_iff (f : F64) (i : Int) :
    fromFloat f = .int i ↔ isI64Valued f = true ∧ toI64 f = i := fromFloat_eq_int_iff f i

/-- complete description -/
theorem C08_from_float_spec (f : F64) :
    fromFloat f = if isI64Valued f then .int (toI64 f) else .float f := by
  cases hI : isI64Valued f
  · rw [fromFloat_of_not_isI64Valued hI]; simp
  · simp only [if_true]
    exact (fromFloat_eq_int_iff f _).2 ⟨hI, rfl⟩

/-- non-finite doubles are kept -/
theorem C08_from_float_nonfinite :
    fromFloat nan = .float nan ∧ fromFloat (inf false) = .float (inf false) ∧
    fromFloat (inf true) = .float (inf true) := ⟨rfl, rfl, rfl⟩

/-- a `Float` that comes out is the argument, and it is normalised: not an integer of the i64
range (so it is never `Equal` to an `Int`, see C05) -/
theorem C08_from_float_float (f g : F64) (h : fromFloat f = .float g) :
    g = f ∧ normFloat g = true := fromFloat_eq_float f g h

/-- the former corruption witnesses -/
def tiny : F64 := fin false two52 (-112)                  -- 2^-60
def belowOne : F64 := fin true (two53 - 1) (-53)          -- -(1 - 2^-53)
def twoTo63 : F64 := fin false two52 11                   -- 2^63
def tenToMinus300 : F64 := fin false 6032057205060441 (-1049)
def tenTo300 : F64 := fin false 6724873095247260 944

/-- regression: none of them is turned into an integer any more, and the boundary cases
-2^63 (in range) and 1.0 still are -/
theorem C08_from_float_regressions :
    fromFloat tiny = .float tiny ∧ fromFloat belowOne = .float belowOne ∧
    fromFloat twoTo63 = .float twoTo63 ∧ fromFloat tenToMinus300 = .float tenToMinus300 ∧
    fromFloat tenTo300 = .float tenTo300 ∧
    fromFloat (fin true two52 11) = .int (-9223372036854775808) ∧
    fromFloat (fin false two52 (-52)) = .int 1 ∧ fromFloat (fin true 0 eMin) = .int 0 := by
  refine ⟨?_, ?_, ?_, ?_, ?_, ?_, ?_, ?_⟩
  · exact fromFloat_of_not_isI64Valued (by decide +kernel)
  · exact fromFloat_of_not_isI64Valued (by decide +kernel)
  · exact fromFloat_of_not_isI64Valued (by decide +kernel)
  · exact fromFloat_of_not_isI64Valued (by decide +kernel)
  · exact fromFloat_of_not_isI64Valued (by decide +kernel)
  · rw [fromFloat_of_isI64Valued (by decide +kernel)]; exact congrArg Value.int (by decide +kernel)
  · rw [fromFloat_of_isI64Valued (by decide +kernel)]; exact congrArg Value.int (by decide +kernel)
  · rw [fromFloat_of_isI64Valued (by decide +kernel)]; exact congrArg Value.int (by decide +kernel)

/-- regression from text: `from_string "1e-300"` and `"1e300"` stay the correctly rounded doubles -/
theorem C08_from_string_float_kept :
    fromString "1e-300" = .float tenToMinus300 ∧ fromString "1e300" = .float tenTo300 := by
  constructor
  · have h1 : Text.trim ['1', 'e', '-', '3', '0', '0'] = ['1', 'e', '-', '3', '0', '0'] := by
      decide
    have h2 : parseI64 ['1', 'e', '-', '3', '0', '0'] = Option.none := by decide
    have h3 : parseF64 ['1', 'e', '-', '3', '0', '0'] = some tenToMinus300 := by decide +kernel
    have hf := C08_from_float_regressions.2.2.2.1
    simp [fromString, h1, h2, h3, hf]
  · have h1 : Text.trim ['1', 'e', '3', '0', '0'] = ['1', 'e', '3', '0', '0'] := by decide
    have h2 : parseI64 ['1', 'e', '3', '0', '0'] = Option.none := by decide
    have h3 : parseF64 ['1', 'e', '3', '0', '0'] = some tenTo300 := by decide +kernel
    have hf := C08_from_float_regressions.2.2.2.2.1
    simp [fromString, h1, h2, h3, hf]

/-! ### `Value::from_string` / `str::parse::<i64>` on integer literals -/

/-- if the text, once surrounding white space is dropped, is `[+-]?digits` denoting an integer
`v` in the i64 range, `from_string` returns exactly `Int(v)` -/
theorem C08_from_string_int (s : String) (ws1 ws2 t : List Char) (v : Int)
    (hs : s.toList = ws1 ++ t ++ ws2)
    (hw1 : ws1.all Text.isWhite = true) (hw2 : ws2.all Text.isWhite = true)
    (hl : IntLit t v) (hr : inI64 v = true) : fromString s = .int v :=
  fromString_intLit s ws1 ws2 t v hs hw1 hw2 hl hr

/-- `digitsToNat` is the positional value: it inverts decimal printing and appending a digit
multiplies by ten and adds the digit -/
theorem C08_digitsToNat_correct :
    (∀ n : Nat, digitsToNat (Nat.toDigits 10 n) = n) ∧
    (∀ (ds : List Char) (c : Char), digitsToNat (ds ++ [c]) = digitsToNat ds * 10 + digitVal c) ∧
    digitsToNat [] = 0 ∧ (∀ d : Nat, d < 10 → digitVal (Nat.digitChar d) = d) :=
  ⟨digitsToNat_toDigits, digitsToNat_append_singleton, rfl, fun _ h => digitVal_digitChar h⟩

/-- round trip: the decimal rendering of any i64 reads back as that integer -/
theorem C08_from_string_int_roundtrip (i : Int) (hr : inI64 i = true) :
    fromString (toString i) = .int i :=
  fromString_intLit (toString i) [] [] _ i (by simp) rfl rfl (intLit_toString i) hr

example : fromString "  -42\n" = .int (-42) := by
  apply C08_from_string_int _ [' ', ' '] ['\n'] ['-', '4', '2'] (-42) (by decide) (by decide)
    (by decide) _ (by decide)
  exact IntLit.minus ['4', '2'] (by decide) (by decide)

/-- out of the i64 range `parse::<i64>` fails (and `from_string` goes on to try `f64`) -/
theorem C08_parse_i64_range (t : List Char) (v : Int) (hl : IntLit t v) :
    parseI64 t = if inI64 v then some v else Option.none := parseI64_intLit hl

/-! ### integer arithmetic never wraps

After the repair (/repo 332a7be) `Int ∘ Int` for `+ - *` is the exact integer whenever it fits i64
(`checked_*`), and otherwise the result of the same operation on doubles, passed through
`from_float` — a rounded value of the right magnitude, never a wrapped one and never a panic. -/

theorem C08_int_ops_no_wrap (a b : Int) :
    (Value.add (.int a) (.int b) =
      .ok (if inI64 (a + b) then .int (a + b)
           else fromFloat (F64.add (ofInt a) (ofInt b)))) ∧
    (Value.sub (.int a) (.int b) =
      .ok (if inI64 (a - b) then .int (a - b)
           else fromFloat (F64.sub (ofInt a) (ofInt b)))) ∧
    (Value.mul (.int a) (.int b) =
      .ok (if inI64 (a * b) then .int (a * b)
           else fromFloat (F64.mul (ofInt a) (ofInt b)))) := by
  simp [Value.add, Value.sub, Value.mul, intOrFloat]

/-- hence: whenever the mathematical result fits i64, the operation returns exactly it -/
theorem C08_int_ops_exact (a b : Int) :
    (inI64 (a + b) = true → Value.add (.int a) (.int b) = .ok (.int (a + b))) ∧
    (inI64 (a - b) = true → Value.sub (.int a) (.int b) = .ok (.int (a - b))) ∧
    (inI64 (a * b) = true → Value.mul (.int a) (.int b) = .ok (.int (a * b))) := by
  obtain ⟨h1, h2, h3⟩ := C08_int_ops_no_wrap a b
  rw [h1, h2, h3]
  refine ⟨?_, ?_, ?_⟩ <;> (intro h; rw [if_pos h])

/-- they never panic and never fail -/
theorem C08_int_ops_total (a b : Int) :
    (Value.add (.int a) (.int b)).isOk = true ∧ (Value.sub (.int a) (.int b)).isOk = true ∧
    (Value.mul (.int a) (.int b)).isOk = true := by
  obtain ⟨h1, h2, h3⟩ := C08_int_ops_no_wrap a b
  rw [h1, h2, h3]; exact ⟨rfl, rfl, rfl⟩

/-- regression for the old overflow witness: i64::MAX + 1 is the double 2^63, not a panic and not
i64::MIN -/
example : Value.add (.int 9223372036854775807) (.int 1) = .ok (.float twoTo63) := by
  rw [(C08_int_ops_no_wrap _ _).1, if_neg (by decide)]
  have h : F64.add (ofInt 9223372036854775807) (ofInt 1) = twoTo63 := by decide +kernel
  rw [h, C08_from_float_regressions.2.2.1]

end Ag.C08
