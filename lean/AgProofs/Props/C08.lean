/-
C08  Numbers are never silently corrupted (numeric core).

About the model of `i64 as f64`, `Value::from_float`, `Value::from_string` / `str::parse::<i64>`
and the integer `Add/Sub/Mul` of `Value` (src/data.rs).  Exact numeric values are core `Dyadic`
rationals: `F64.val?` for doubles, `Value.num` for values (AgProofs/Lemmas/*).

Findings recorded here as theorems (the full statements are false of the code as it stands):
* `from_float` turns every double with 0 < frac < 2^-52 into the integer obtained by truncation
  (1e-300 ↦ 0, -(1 - 2^-53) ↦ 0) and saturates integral doubles outside the i64 range
  (1e300 ↦ 9223372036854775807);
* integer `+ - *` overflow: the model result is `Outcome.panic` (Rust debug builds panic, release
  builds wrap) — never a wrong `Int`.
-/
import AgProofs.Lemmas.FromFloat
import AgProofs.Lemmas.Parse

namespace Ag.C08
open Ag.F64 Ag.Value

/-! ### `i64 as f64` -/

/-- `i as f64` has exactly the value `i` whenever |i| ≤ 2^53, and is a canonical double -/
theorem C08_i64_to_f64_exact (i : Int) (h : i.natAbs ≤ 2 ^ 53) :
    val? (ofInt i) = some (i : Dyadic) ∧ Canon (ofInt i) := by
  rw [← two53_eq] at h
  exact ⟨val_ofInt h, (ofInt_hasVal h).2⟩

example : val? (ofInt (-9007199254740992)) = some ((-9007199254740992 : Int) : Dyadic) :=
  (C08_i64_to_f64_exact _ (by decide)).1

/-- … so on that range the conversion is an order embedding: doubles compare as the integers do -/
theorem C08_i64_to_f64_order_embedding (a b : Int) (ha : a.natAbs ≤ 2 ^ 53)
    (hb : b.natAbs ≤ 2 ^ 53) : ocmp (ofInt a) (ofInt b) = compare a b := by
  rw [← two53_eq] at ha hb
  exact ocmp_ofInt ha hb

/-- in particular it is injective there -/
theorem C08_i64_to_f64_injective (a b : Int) (ha : a.natAbs ≤ 2 ^ 53) (hb : b.natAbs ≤ 2 ^ 53)
    (h : ofInt a = ofInt b) : a = b := by
  have := C08_i64_to_f64_order_embedding a b ha hb
  rw [h, ocmp_self] at this
  exact Int.compare_eq_eq.1 this.symm

/-- the rounding lemma behind it: rounding a value that is a double returns that double -/
theorem C08_round_representable (s : Bool) (n : Nat) (sc : Int) (m : Nat) (e : Int)
    (hn : n ≠ 0) (hc : Canon (fin s m e)) (H : n * pow2 (sc - e) = m * pow2 (e - sc)) :
    roundRat s n 1 sc = fin s m e := roundRat_exact s n sc m e hn hc H

/-- the statement without the bound … -/
def C08_i64_to_f64_exact_full : Prop :=
  ∀ i : Int, inI64 i = true → val? (ofInt i) = some (i : Dyadic)

/-- … is false: 2^53 + 1 is rounded to 2^53 (the honest counter-statement beyond 2^53: f64
accumulators and Int/Float comparisons lose integers there) -/
theorem C08_i64_to_f64_inexact_beyond :
    ofInt (2 ^ 53 + 1) = ofInt (2 ^ 53) ∧ ofInt (-(2 ^ 53 + 1)) = ofInt (-(2 ^ 53)) := by
  constructor <;> decide

theorem C08_i64_to_f64_exact_not_full : ¬ C08_i64_to_f64_exact_full := by
  intro h
  have h1 := h (2 ^ 53 + 1) (by decide)
  have h2 := h (2 ^ 53) (by decide)
  rw [C08_i64_to_f64_inexact_beyond.1, h2] at h1
  exact absurd h1 (by decide)

/-! ### `Value::from_float` -/

/-- complete description on canonical finite doubles: the result is the (saturating, truncating)
`as i64` cast exactly when the exponent is non-negative or the fractional part is below 2^-52 -/
theorem C08_from_float_spec {s : Bool} {m : Nat} {e : Int} (hc : Canon (fin s m e)) :
    fromFloat (fin s m e) =
      if returnsInt s m e then .int (toI64 (fin s m e)) else .float (fin s m e) :=
  fromFloat_fin hc

/-- non-finite doubles are kept -/
theorem C08_from_float_nonfinite :
    fromFloat nan = .float nan ∧ fromFloat (inf false) = .float (inf false) ∧
    fromFloat (inf true) = .float (inf true) := by
  refine ⟨?_, ?_, ?_⟩ <;> simp [fromFloat, F64.floor, F64.sub, F64.neg, F64.add, F64.abs, F64.lt, pcmp]

/-- the full statement: `from_float` preserves the numeric value of every finite double -/
def C08_from_float_value_full : Prop :=
  ∀ f : F64, Canon f → f.isFinite = true → num (fromFloat f) = num (.float f)

/-- the decidable condition under which it does: `f` is an integer inside the i64 range, or it is
not an integer and its fractional part `f - floor f` is at least 2^-52 -/
def fromFloatOk : F64 → Bool
  | fin s m e => if fractNonzero (fin s m e) then !fracSmall s m e else inI64 (truncInt s m e)
  | _ => true

/-- the exact condition (both directions) -/
theorem C08_from_float_value_iff {s : Bool} {m : Nat} {e : Int} (hc : Canon (fin s m e)) :
    num (fromFloat (fin s m e)) = num (.float (fin s m e)) ↔ fromFloatOk (fin s m e) = true := by
  rw [fromFloat_value_iff hc]
  unfold fromFloatOk
  by_cases h : fractNonzero (fin s m e) = true <;> simp [h]

theorem C08_from_float_value_partial (f : F64) (hc : Canon f) (hok : fromFloatOk f = true) :
    num (fromFloat f) = num (.float f) := by
  cases f with
  | nan => rw [C08_from_float_nonfinite.1]
  | inf b => cases b <;> simp [C08_from_float_nonfinite]
  | fin s m e => exact (C08_from_float_value_iff hc).2 hok

/-- non-vacuity: integers, halves, values just above 2^-52, -2^63, negative tiny values -/
example : fromFloatOk (fin false two52 (-52)) ∧ fromFloatOk (fin false two52 (-53)) ∧
    fromFloatOk (fin false 6755399441055744 (-51)) ∧ fromFloatOk epsilon ∧
    fromFloatOk (fin true two52 11) ∧ fromFloatOk (fin true two52 (-112)) ∧
    fromFloatOk (fin false 0 eMin) := by decide +kernel

/-- counterexamples, each a canonical finite double -/
def tiny : F64 := fin false two52 (-112)                  -- 2^-60
def belowOne : F64 := fin true (two53 - 1) (-53)          -- -(1 - 2^-53)
def twoTo63 : F64 := fin false two52 11                   -- 2^63
def tenToMinus300 : F64 := fin false 6032057205060441 (-1049)
def tenTo300 : F64 := fin false 6724873095247260 944

theorem C08_from_float_counterexamples :
    fromFloat tiny = .int 0 ∧ fromFloat belowOne = .int 0 ∧
    fromFloat twoTo63 = .int 9223372036854775807 ∧
    fromFloat tenToMinus300 = .int 0 ∧ fromFloat tenTo300 = .int 9223372036854775807 := by
  have c1 : Canon tiny := by unfold tiny; rw [canon_fin]; decide
  have c2 : Canon belowOne := by unfold belowOne; rw [canon_fin]; decide
  have c3 : Canon twoTo63 := by unfold twoTo63; rw [canon_fin]; decide
  have c4 : Canon tenToMinus300 := by unfold tenToMinus300; rw [canon_fin]; decide
  have c5 : Canon tenTo300 := by unfold tenTo300; rw [canon_fin]; decide
  refine ⟨?_, ?_, ?_, ?_, ?_⟩
  · have h : returnsInt false two52 (-112) = true := by decide +kernel
    have t : toI64 tiny = 0 := by decide +kernel
    unfold tiny at c1 t ⊢; rw [fromFloat_fin c1, h, if_pos rfl, t]
  · have h : returnsInt true (two53 - 1) (-53) = true := by decide +kernel
    have t : toI64 belowOne = 0 := by decide +kernel
    unfold belowOne at c2 t ⊢; rw [fromFloat_fin c2, h, if_pos rfl, t]
  · have h : returnsInt false two52 11 = true := by decide +kernel
    have t : toI64 twoTo63 = 9223372036854775807 := by decide +kernel
    unfold twoTo63 at c3 t ⊢; rw [fromFloat_fin c3, h, if_pos rfl, t]
  · have h : returnsInt false 6032057205060441 (-1049) = true := by decide +kernel
    have t : toI64 tenToMinus300 = 0 := by decide +kernel
    unfold tenToMinus300 at c4 t ⊢; rw [fromFloat_fin c4, h, if_pos rfl, t]
  · have h : returnsInt false 6724873095247260 944 = true := by decide +kernel
    have t : toI64 tenTo300 = 9223372036854775807 := by decide +kernel
    unfold tenTo300 at c5 t ⊢; rw [fromFloat_fin c5, h, if_pos rfl, t]

theorem C08_from_float_value_not_full : ¬ C08_from_float_value_full := by
  intro h
  have := h tiny (by unfold tiny; rw [canon_fin]; decide) rfl
  rw [C08_from_float_counterexamples.1] at this
  revert this
  unfold tiny
  decide +kernel

/-- the corrupting inputs are reachable from text: `from_string "1e-300"` is the integer 0 and
`from_string "1e300"` is i64::MAX -/
theorem C08_from_string_float_corrupted :
    fromString "1e-300" = .int 0 ∧ fromString "1e300" = .int 9223372036854775807 := by
  constructor
  · have h1 : Text.trim ['1', 'e', '-', '3', '0', '0'] = ['1', 'e', '-', '3', '0', '0'] := by
      decide
    have h2 : parseI64 ['1', 'e', '-', '3', '0', '0'] = Option.none := by decide
    have h3 : parseF64 ['1', 'e', '-', '3', '0', '0'] = some tenToMinus300 := by decide +kernel
    have hf := C08_from_float_counterexamples.2.2.2.1
    simp [fromString, h1, h2, h3, hf]
  · have h1 : Text.trim ['1', 'e', '3', '0', '0'] = ['1', 'e', '3', '0', '0'] := by decide
    have h2 : parseI64 ['1', 'e', '3', '0', '0'] = Option.none := by decide
    have h3 : parseF64 ['1', 'e', '3', '0', '0'] = some tenTo300 := by decide +kernel
    have hf := C08_from_float_counterexamples.2.2.2.2
    simp [fromString, h1, h2, h3, hf]

/-! ### `Value::from_string` / `str::parse::<i64>` on integer literals -/

/-- if the text, once surrounding white space is dropped, is `[+-]?digits` denoting an integer
`v` in the i64 range, `from_string` returns exactly `Int(v)` -/
theorem C08_from_string_int (s : String) (ws1 ws2 t : List Char) (v : Int)
    (hs : s.toList = ws1 ++ t ++ ws2)
    (hw1 : ws1.all Text.isWhite = true) (hw2 : ws2.all Text.isWhite = true)
    (hl : IntLit t v) (hr : inI64 v = true) : fromString s = .int v :=
  fromString_intLit s ws1 ws2 t v hs hw1 hw2 hl hr

/-- `digitsToNat` is the positional value: it inverts decimal printing and appending a digit
multiplies by ten and adds the digit -/
theorem C08_digitsToNat_correct :
    (∀ n : Nat, digitsToNat (Nat.toDigits 10 n) = n) ∧
    (∀ (ds : List Char) (c : Char), digitsToNat (ds ++ [c]) = digitsToNat ds * 10 + digitVal c) ∧
    digitsToNat [] = 0 ∧ (∀ d : Nat, d < 10 → digitVal (Nat.digitChar d) = d) :=
  ⟨digitsToNat_toDigits, digitsToNat_append_singleton, rfl, fun _ h => digitVal_digitChar h⟩

/-- round trip: the decimal rendering of any i64 reads back as that integer -/
theorem C08_from_string_int_roundtrip (i : Int) (hr : inI64 i = true) :
    fromString (toString i) = .int i :=
  fromString_intLit (toString i) [] [] _ i (by simp) rfl rfl (intLit_toString i) hr

example : fromString "  -42\n" = .int (-42) := by
  apply C08_from_string_int _ [' ', ' '] ['\n'] ['-', '4', '2'] (-42) (by decide) (by decide)
    (by decide) _ (by decide)
  exact IntLit.minus ['4', '2'] (by decide) (by decide)

/-- out of the i64 range `parse::<i64>` fails (and `from_string` goes on to try `f64`) -/
theorem C08_parse_i64_range (t : List Char) (v : Int) (hl : IntLit t v) :
    parseI64 t = if inI64 v then some v else Option.none := parseI64_intLit hl

/-! ### integer arithmetic never wraps

`Int ∘ Int` for `+ - *` is the exact result when it fits i64 and `Outcome.panic` otherwise —
never a wrong integer.  The panic outcome IS the finding: the Rust code uses unchecked `+ - *`
(src/data.rs:182/197/211): debug builds panic, release builds wrap silently. -/

theorem C08_int_ops_no_wrap (a b : Int) :
    (Value.add (.int a) (.int b) =
      if inI64 (a + b) then .ok (.int (a + b)) else .panic "data.rs:182 i64 add") ∧
    (Value.sub (.int a) (.int b) =
      if inI64 (a - b) then .ok (.int (a - b)) else .panic "data.rs:197 i64 sub") ∧
    (Value.mul (.int a) (.int b) =
      if inI64 (a * b) then .ok (.int (a * b)) else .panic "data.rs:211 i64 mul") := by
  simp [Value.add, Value.sub, Value.mul, mkInt]

/-- hence: whenever an integer operation returns a value, it is the exact mathematical result -/
theorem C08_int_ops_exact (a b : Int) (v : Value) :
    (Value.add (.int a) (.int b) = .ok v → v = .int (a + b)) ∧
    (Value.sub (.int a) (.int b) = .ok v → v = .int (a - b)) ∧
    (Value.mul (.int a) (.int b) = .ok v → v = .int (a * b)) := by
  obtain ⟨h1, h2, h3⟩ := C08_int_ops_no_wrap a b
  rw [h1, h2, h3]
  refine ⟨?_, ?_, ?_⟩ <;> (split <;> simp_all)

example : Value.add (.int 9223372036854775807) (.int 1) = .panic "data.rs:182 i64 add" := by
  rw [(C08_int_ops_no_wrap _ _).1, if_neg (by decide)]

end Ag.C08
