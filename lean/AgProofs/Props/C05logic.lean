/-
C05 (precedence, the inversion — the two parts C05inv.lean left weaker)

(1) the ELEMENT parser of the `and` / `or` loops unpacked (`andElem_ok_inv`, `orElem_ok_inv`): an
    accepted element consumed the operator token (`and` keyword after whitespace, or `&&`) and its
    value is a value of the next tighter level (`cmpExpr`, resp. `logicalAnd`) — or the error node
    when the operand is missing;
(2) BOTH sides of a comparison are `arithExpr` values (`C05_comparison_sides`);
and all four levels in one statement (`C05_precedence_full`).
-/
import AgProofs.Props.C05inv

namespace Ag.C05prec
open Ag Ag.Lang Ag.LangEq

/-! ### inversion of `alt`, `opt`, `expect` -/

theorem alt_ok_inv {α : Type} {p q : P α} {i : List Char} {e : Nat} {v : α} {r : List Char}
    {e' : Nat} (h : alt p q i e = .ok v r e') :
    p i e = .ok v r e' ∨ ∃ pos e1, p i e = .fail pos e1 ∧ q i e1 = .ok v r e' := by
  simp only [alt] at h
  cases hp : p i e with
  | ok a j ej => rw [hp] at h; exact .inl h
  | fail pos e1 => rw [hp] at h; exact .inr ⟨pos, e1, rfl, h⟩
  | failure pos e1 => rw [hp] at h; simp at h
  | panic s => rw [hp] at h; simp at h
  | unmod w => rw [hp] at h; simp at h

theorem opt_ok_inv {α : Type} {p : P α} {i : List Char} {e : Nat} {o : Option α} {r : List Char}
    {e' : Nat} (h : opt p i e = .ok o r e') :
    (∃ v, o = some v ∧ p i e = .ok v r e') ∨ (o = none ∧ ∃ pos, p i e = .fail pos e') := by
  simp only [opt] at h
  cases hp : p i e with
  | ok a j ej =>
    rw [hp] at h
    simp only [Res.ok.injEq] at h
    obtain ⟨rfl, rfl, rfl⟩ := h
    exact .inl ⟨a, rfl, rfl⟩
  | fail pos e1 =>
    rw [hp] at h
    simp only [Res.ok.injEq] at h
    obtain ⟨rfl, -, rfl⟩ := h
    exact .inr ⟨rfl, pos, rfl⟩
  | failure pos e1 => rw [hp] at h; simp at h
  | panic s => rw [hp] at h; simp at h
  | unmod w => rw [hp] at h; simp at h

/-- `expect p` accepted with `some v` only if `p` accepted with `v` (at the same place) -/
theorem expect_some_inv {α : Type} {p : P α} {i : List Char} {e : Nat} {v : α} {r : List Char}
    {e' : Nat} (h : expect p i e = .ok (some v) r e') : p i e = .ok v r e' := by
  simp only [expect, expectAt] at h
  cases hp : p i e <;> rw [hp] at h
  · simp only [Res.ok.injEq, Option.some.injEq] at h
    obtain ⟨rfl, rfl, rfl⟩ := h
    rfl
  all_goals (first | (simp only [resumeAt] at h; split at h <;> simp at h) | simp at h)

/-! ### (1) the element parser of the `and` / `or` loops -/

/-- the operator token of the `and` / `or` level is at `i`: at least one whitespace then the
keyword `word` (`kw` = the word not followed by an identifier character), or — after optional
whitespace — the symbol `sym` -/
def LogicTok (word sym : String) (i : List Char) : Prop :=
  (∃ e j ej k ek, ws1 i e = .ok () j ej ∧ kw word j ej = .ok () k ek) ∨
  (∃ e k ek, tag sym (skipWs i) e = .ok () k ek)

/-- an accepted loop element consumed the operator token, and its value is a value the OPERAND
parser returned — or the error node (operand missing; one error reported) -/
theorem logicElem_ok_inv (word sym : String) (operand : P Expr) {i : List Char} {e : Nat}
    {x : Expr} {k : List Char} {e' : Nat} (h : logicElem word sym operand i e = .ok x k e') :
    LogicTok word sym i ∧ ((∃ a ea b eb, operand a ea = .ok x b eb) ∨ x = Expr.error) := by
  unfold logicElem at h
  obtain ⟨o, j, ej, h1, h2⟩ := bind_ok_inv h
  have htok : LogicTok word sym i ∧
      ∀ y, o = some y → ∃ a ea b eb, operand a ea = .ok y b eb := by
    rcases alt_ok_inv h1 with hw | ⟨pos, e1, _, hs⟩
    · obtain ⟨u, a, ea, hws, h3⟩ := bind_ok_inv hw
      obtain ⟨u', b, eb, hkw, h4⟩ := bind_ok_inv h3
      refine ⟨.inl ⟨e, a, ea, b, eb, hws, hkw⟩, ?_⟩
      intro y hy
      subst hy
      rcases opt_ok_inv h4 with ⟨v, hv, hp⟩ | ⟨hn, _⟩
      · cases hv
        obtain ⟨_, c, ec, _, h5⟩ := bind_ok_inv hp
        exact ⟨_, _, _, _, h5⟩
      · cases hn
    · obtain ⟨u, a, ea, hws, h3⟩ := bind_ok_inv hs
      simp only [ws0, Res.ok.injEq] at hws
      obtain ⟨-, rfl, rfl⟩ := hws
      obtain ⟨u', b, eb, htag, h4⟩ := bind_ok_inv h3
      obtain ⟨u'', c, ec, _, h5⟩ := bind_ok_inv h4
      refine ⟨.inr ⟨e1, b, eb, htag⟩, ?_⟩
      intro y hy
      subst hy
      rcases opt_ok_inv h5 with ⟨v, hv, hp⟩ | ⟨hn, _⟩
      · cases hv
        exact ⟨_, _, _, _, hp⟩
      · cases hn
  refine ⟨htok.1, ?_⟩
  cases o with
  | some y =>
    simp only [P.pure', Res.ok.injEq] at h2
    obtain ⟨rfl, -, -⟩ := h2
    exact .inl (htok.2 _ rfl)
  | none =>
    obtain ⟨_, j3, e3, _, h5⟩ := bind_ok_inv h2
    simp only [P.pure', Res.ok.injEq] at h5
    obtain ⟨rfl, -, -⟩ := h5
    exact .inr rfl

/-- a value `cmpExpr` returned somewhere -/
def CmpExprVal (pe optE : P Expr) (x : Expr) : Prop :=
  ∃ j ej k ek, cmpExpr pe optE j ej = .ok x k ek

/-- a value `logicalAnd` returned somewhere -/
def LogicalAndVal (pe optE : P Expr) (x : Expr) : Prop :=
  ∃ j ej k ek, logicalAnd pe optE j ej = .ok x k ek

/-- one `and c` / `&& c` step: the `and` token was consumed, the operand is a `cmpExpr` value (the
error node when it is missing) -/
theorem andElem_ok_inv (pe optE : P Expr) {i : List Char} {e : Nat} {x : Expr} {k : List Char}
    {e' : Nat} (h : logicElem "and" "&&" (cmpExpr pe optE) i e = .ok x k e') :
    LogicTok "and" "&&" i ∧ (CmpExprVal pe optE x ∨ x = Expr.error) :=
  logicElem_ok_inv "and" "&&" (cmpExpr pe optE) h

/-- one `or d` / `|| d` step: the `or` token was consumed, the operand is a `logicalAnd` value (the
error node when it is missing) -/
theorem orElem_ok_inv (pe optE : P Expr) {i : List Char} {e : Nat} {x : Expr} {k : List Char}
    {e' : Nat} (h : logicElem "or" "||" (logicalAnd pe optE) i e = .ok x k e') :
    LogicTok "or" "||" i ∧ (LogicalAndVal pe optE x ∨ x = Expr.error) :=
  logicElem_ok_inv "or" "||" (logicalAnd pe optE) h

/-! ### (2) both sides of a comparison -/

/-- a value `arithExpr` returned somewhere -/
def ArithVal (pe optE : P Expr) (x : Expr) : Prop :=
  ∃ j ej k ek, arithExpr pe optE j ej = .ok x k ek

/-- **both sides of a comparison are `arithExpr` values.**  An accepted `cmpExpr` is the value `l`
of `arithExpr` (run after the leading whitespace) alone; or `cmp op l rhs` where `op` is what
`compOp` returned right after `l` (whitespace skipped) and `rhs` is an `arithExpr` value — the SAME
level as the left side — or the error node when `arithExpr` did not accept what follows the
operator. -/
theorem C05_comparison_sides (pe optE : P Expr) {i : List Char} {e : Nat} {v : Expr}
    {r : List Char} {e' : Nat} (h : cmpExpr pe optE i e = .ok v r e') :
    ∃ l i1 e1, arithExpr pe optE (skipWs i) e = .ok l i1 e1 ∧
      (v = l ∨ ∃ op rhs, v = .cmp op l rhs ∧
        (∃ k ek, compOp (skipWs i1) e1 = .ok op k ek) ∧
        (ArithVal pe optE rhs ∨ rhs = Expr.error)) := by
  rw [cmpExpr_unfold] at h
  obtain ⟨_, j, ej, hws, h1⟩ := bind_ok_inv h
  simp only [ws0, Res.ok.injEq] at hws
  obtain ⟨-, rfl, rfl⟩ := hws
  obtain ⟨l, i1, e1, hl, h2⟩ := bind_ok_inv h1
  obtain ⟨o, i2, e2, ho, h3⟩ := bind_ok_inv h2
  refine ⟨l, i1, e1, hl, ?_⟩
  cases o with
  | none => simp only [P.pure', Res.ok.injEq] at h3; exact .inl h3.1.symm
  | some p =>
    obtain ⟨op, rhs⟩ := p
    simp only [P.pure', Res.ok.injEq] at h3
    refine .inr ⟨op, rhs, h3.1.symm, ?_⟩
    rcases opt_ok_inv ho with ⟨q, hq, ht⟩ | ⟨hn, _⟩
    · cases hq
      unfold cmpTail at ht
      obtain ⟨op', j1, ej1, hop, h4⟩ := bind_ok_inv ht
      obtain ⟨k0, hop'⟩ := wsTok_ok_inv _ hop
      obtain ⟨orhs, j2, ej2, hex, h5⟩ := bind_ok_inv h4
      simp only [P.pure', Res.ok.injEq, Prod.mk.injEq] at h5
      obtain ⟨⟨rfl, rfl⟩, -, -⟩ := h5
      refine ⟨⟨k0, _, hop'⟩, ?_⟩
      cases orhs with
      | none => exact .inr rfl
      | some y => exact .inl ⟨_, _, _, _, expect_some_inv hex⟩
    · cases hn

/-! ### the four levels, composed -/

/-- a sum: a left fold of `+` `-` over products -/
def SumVal (pe optE : P Expr) (x : Expr) : Prop :=
  ∃ (t0 : Expr) (ts : List (ArithOp × Expr)), ProdVal pe optE t0 ∧
    x = ts.foldl (fun l (p : ArithOp × Expr) => Expr.arith p.1 l p.2) t0 ∧
    ∀ p ∈ ts, (p.1 = .add ∨ p.1 = .sub) ∧ (ProdVal pe optE p.2 ∨ p.2 = Expr.error)

/-- a comparison-level value: a sum, or ONE comparison of two sums (the right one the error node
when it is missing) -/
def CmpVal (pe optE : P Expr) (x : Expr) : Prop :=
  SumVal pe optE x ∨
  ∃ (op : CmpOp) (l r : Expr), x = .cmp op l r ∧ (∃ j ej k ek, compOp j ej = .ok op k ek) ∧
    SumVal pe optE l ∧ (SumVal pe optE r ∨ r = Expr.error)

/-- a conjunction: a left fold of `and` over comparison-level values -/
def AndVal (pe optE : P Expr) (x : Expr) : Prop :=
  ∃ (c0 : Expr) (cs : List Expr), CmpVal pe optE c0 ∧
    x = cs.foldl (fun l y => Expr.logic .and l y) c0 ∧
    ∀ c ∈ cs, CmpVal pe optE c ∨ c = Expr.error

theorem arithVal_sumVal (pe optE : P Expr) {x : Expr} (h : ArithVal pe optE x) :
    SumVal pe optE x := by
  obtain ⟨j, ej, k, ek, hx⟩ := h
  exact C05_precedence_arith pe optE hx

theorem cmpExpr_cmpVal (pe optE : P Expr) {x : Expr} (h : CmpExprVal pe optE x) :
    CmpVal pe optE x := by
  obtain ⟨j, ej, k, ek, hx⟩ := h
  obtain ⟨l, i1, e1, hl, hv | ⟨op, rhs, hv, ⟨k0, ek0, hop⟩, hr⟩⟩ := C05_comparison_sides pe optE hx
  · subst hv
    exact .inl (C05_precedence_arith pe optE hl)
  · refine .inr ⟨op, l, rhs, hv, ⟨_, _, _, _, hop⟩, C05_precedence_arith pe optE hl, ?_⟩
    rcases hr with hr | hr
    · exact .inl (arithVal_sumVal pe optE hr)
    · exact .inr hr

theorem logicalAnd_andVal (pe optE : P Expr) {x : Expr} (h : LogicalAndVal pe optE x) :
    AndVal pe optE x := by
  obtain ⟨j, ej, k, ek, hx⟩ := h
  obtain ⟨c0, i1, e1, cs, hc, hr, hv⟩ := logicalAnd_ok_inv pe optE hx
  refine ⟨c0, cs, cmpExpr_cmpVal pe optE ⟨_, _, _, _, hc⟩, hv, ?_⟩
  intro c hcm
  obtain ⟨a, ea, b, eb, hf⟩ := hr.mem c hcm
  rcases (andElem_ok_inv pe optE hf).2 with h1 | h1
  · exact .inl (cmpExpr_cmpVal pe optE h1)
  · exact .inr h1

/-- **C05, all four levels, for every accepted input and every nesting fuel.**  Whatever
`logicalOr` accepts is a left fold of `or` over conjunctions; each conjunction a left fold of `and`
over comparison-level values; each of those a sum or ONE comparison of two sums; each sum a left
fold of `+` `-` over products; each product a left fold of `*` `/` over `unary` values (an operand
that is missing in the text is the error node).  So `a + 1 == b * 2` is `(a + 1) == (b * 2)`,
`a == b and c == d` is `(a == b) and (c == d)`, `a or b and c` is `a or (b and c)` — a looser
operator can be an operand of a tighter one only inside a `unary` value, i.e. when the text has
the parentheses (or a function call's argument list). -/
theorem C05_precedence_full (pe optE : P Expr) {i : List Char} {e : Nat} {v : Expr}
    {r : List Char} {e' : Nat} (h : logicalOr pe optE i e = .ok v r e') :
    ∃ (d0 : Expr) (ds : List Expr), AndVal pe optE d0 ∧
      v = ds.foldl (fun l y => Expr.logic .or l y) d0 ∧
      ∀ d ∈ ds, AndVal pe optE d ∨ d = Expr.error := by
  obtain ⟨a0, i1, e1, as, h0, hr, hv⟩ := logicalOr_ok_inv pe optE h
  refine ⟨a0, as, logicalAnd_andVal pe optE ⟨_, _, _, _, h0⟩, hv, ?_⟩
  intro d hd
  obtain ⟨a, ea, b, eb, hf⟩ := hr.mem d hd
  rcases (orElem_ok_inv pe optE hf).2 with h1 | h1
  · exact .inl (logicalAnd_andVal pe optE h1)
  · exact .inr h1

/-! ### non-vacuity: real texts through the general theorem -/

theorem ex_full_accepts :
    isOk (logicalOr (exprN 2) (optExprN 2) q!"a + 1 == b * 2 and c == d or e" 0) = true := by
  decide

theorem ex_cmp_accepts :
    isOk (cmpExpr (exprN 2) (optExprN 2) q!"a + 1 == b * 2" 0) = true := by decide

/-- … hence (by inversion, not evaluation) the four-level shape holds of its value -/
example : ∃ v r e', logicalOr (exprN 2) (optExprN 2) q!"a + 1 == b * 2 and c == d or e" 0
      = .ok v r e' ∧
    ∃ (d0 : Expr) (ds : List Expr), AndVal (exprN 2) (optExprN 2) d0 ∧
      v = ds.foldl (fun l y => Expr.logic .or l y) d0 ∧
      ∀ d ∈ ds, AndVal (exprN 2) (optExprN 2) d ∨ d = Expr.error := by
  have h := ex_full_accepts
  cases hr : logicalOr (exprN 2) (optExprN 2) q!"a + 1 == b * 2 and c == d or e" 0 with
  | ok v r e' => exact ⟨v, r, e', rfl, C05_precedence_full _ _ hr⟩
  | fail _ _ => rw [hr] at h; cases h
  | failure _ _ => rw [hr] at h; cases h
  | panic _ => rw [hr] at h; cases h
  | unmod _ => rw [hr] at h; cases h

/-! ### the operator token, in terms of the text -/

theorem tag_ok_inv {s : String} {i : List Char} {e : Nat} {u : Unit} {k : List Char} {ek : Nat}
    (h : tag s i e = .ok u k ek) : i = s.toList ++ k := by
  unfold tag at h
  cases hh : Text.stripPrefix? s.toList i with
  | none => rw [hh] at h; simp at h
  | some r =>
    rw [hh] at h
    simp only [Res.ok.injEq] at h
    obtain ⟨-, rfl, -⟩ := h
    exact stripPrefix_some hh

theorem kw_ok_inv {s : String} {i : List Char} {e : Nat} {u : Unit} {k : List Char} {ek : Nat}
    (h : kw s i e = .ok u k ek) :
    i = s.toList ++ k ∧ ∀ c t, k = c :: t → isIdentCh c = false := by
  have h' : P.bind' (tag s) (fun a => P.bind' (notP (satisfy isIdentCh)) fun _ => P.pure' a) i e
      = .ok u k ek := h
  obtain ⟨_, j, ej, ht, h2⟩ := bind_ok_inv h'
  obtain ⟨_, j2, ej2, hn, h3⟩ := bind_ok_inv h2
  simp only [P.pure', Res.ok.injEq] at h3
  obtain ⟨-, rfl, rfl⟩ := h3
  have hj := tag_ok_inv ht
  cases j with
  | nil =>
    simp [notP, satisfy] at hn
    obtain ⟨rfl, -⟩ := hn
    exact ⟨hj, by intro c t hc; cases hc⟩
  | cons c t =>
    by_cases hc : isIdentCh c = true
    · simp [notP, satisfy, hc] at hn
    · simp [notP, satisfy, hc] at hn
      obtain ⟨rfl, -⟩ := hn
      refine ⟨hj, ?_⟩
      intro c' t' hct
      cases hct
      simpa using hc

/-- `LogicTok` read off the text: a whitespace character, then (after the whitespace) the word, not
followed by an identifier character; or (after optional whitespace) the symbol -/
theorem LogicTok.text {word sym : String} {i : List Char} (h : LogicTok word sym i) :
    (∃ c t r, i = c :: t ∧ Text.isMultispace c = true ∧ skipWs i = word.toList ++ r ∧
      ∀ d r', r = d :: r' → isIdentCh d = false) ∨
    (∃ r, skipWs i = sym.toList ++ r) := by
  rcases h with ⟨e, j, ej, k, ek, hws, hkw⟩ | ⟨e, k, ek, ht⟩
  · left
    obtain ⟨hk1, hk2⟩ := kw_ok_inv hkw
    cases i with
    | nil => simp [ws1] at hws
    | cons c t =>
      by_cases hc : Text.isMultispace c = true
      · simp only [ws1, hc, if_true, Res.ok.injEq] at hws
        obtain ⟨-, rfl, -⟩ := hws
        exact ⟨c, t, k, rfl, hc, hk1, hk2⟩
      · simp [ws1, hc] at hws
  · exact .inr ⟨k, tag_ok_inv ht⟩

/-! ### at the parser's real entry point

`optExprN (n+1) = ws0 *> logicalOr (exprN n) (optExprN n)` and `exprN n = exprOf (optExprN n)`:
`expr` passes an accepted `opt_expr` through, and otherwise RECOVERS with the error node.
`where <expr>` calls `env.pe`, which `parseChars` sets to `exprN (query length + 2)`. -/

/-- the four-level shape -/
def OrVal (pe optE : P Expr) (v : Expr) : Prop :=
  ∃ (d0 : Expr) (ds : List Expr), AndVal pe optE d0 ∧
    v = ds.foldl (fun l y => Expr.logic .or l y) d0 ∧
    ∀ d ∈ ds, AndVal pe optE d ∨ d = Expr.error

theorem C05_precedence_optEntry (n : Nat) {i : List Char} {e : Nat} {v : Expr} {r : List Char}
    {e' : Nat} (h : optExprN (n + 1) i e = .ok v r e') :
    logicalOr (exprN n) (optExprN n) (skipWs i) e = .ok v r e' ∧
      OrVal (exprN n) (optExprN n) v := by
  have h' : P.bind' ws0 (fun _ => logicalOr (exprOf (optExprN n)) (optExprN n)) i e
      = .ok v r e' := h
  obtain ⟨_, j, ej, hws, h1⟩ := bind_ok_inv h'
  simp only [ws0, Res.ok.injEq] at hws
  obtain ⟨-, rfl, rfl⟩ := hws
  exact ⟨h1, C05_precedence_full _ _ h1⟩

/-- **C05 at `expr`** (what `where`, function arguments, parentheses … call): an accepted `expr`
is an accepted `opt_expr` — of the four-level shape over the next fuel level — or the error node
(`opt_expr` failed, one error reported, input resumed at the sync point). -/
theorem C05_precedence_entry (n : Nat) {i : List Char} {e : Nat} {v : Expr} {r : List Char}
    {e' : Nat} (h : exprN (n + 1) i e = .ok v r e') :
    (optExprN (n + 1) i e = .ok v r e' ∧ OrVal (exprN n) (optExprN n) v) ∨
    (v = Expr.error ∧ ∃ pos e1, optExprN (n + 1) i e = .fail pos e1 ∨
      optExprN (n + 1) i e = .failure pos e1) := by
  simp only [exprN, exprOf] at h
  cases ho : optExprN (n + 1) i e with
  | ok a j ej =>
    rw [ho] at h
    simp only [Res.ok.injEq] at h
    obtain ⟨rfl, rfl, rfl⟩ := h
    exact .inl ⟨rfl, (C05_precedence_optEntry n ho).2⟩
  | fail pos e1 =>
    rw [ho] at h
    refine .inr ⟨?_, pos, e1, .inl rfl⟩
    simp only [resumeAt] at h
    split at h <;> simp at h
    exact h.1.symm
  | failure pos e1 =>
    rw [ho] at h
    refine .inr ⟨?_, pos, e1, .inr rfl⟩
    simp only [resumeAt] at h
    split at h <;> simp at h
    exact h.1.symm
  | panic s => rw [ho] at h; simp at h
  | unmod w => rw [ho] at h; simp at h

/-- with the concrete fuel `parseChars` gives `where`'s `env.pe` (query length + 2) -/
theorem C05_precedence_where (cs : List Char) {i : List Char} {e : Nat} {v : Expr}
    {r : List Char} {e' : Nat} (h : exprN (cs.length + 2) i e = .ok v r e') :
    OrVal (exprN (cs.length + 1)) (optExprN (cs.length + 1)) v ∨ v = Expr.error := by
  rcases C05_precedence_entry (cs.length + 1) h with ⟨_, h1⟩ | ⟨h1, _⟩
  · exact .inl h1
  · exact .inr h1

end Ag.C05prec

#print axioms Ag.C05prec.C05_precedence_entry
#print axioms Ag.C05prec.C05_precedence_where
#print axioms Ag.C05prec.logicElem_ok_inv
#print axioms Ag.C05prec.andElem_ok_inv
#print axioms Ag.C05prec.orElem_ok_inv
#print axioms Ag.C05prec.C05_comparison_sides
#print axioms Ag.C05prec.C05_precedence_full
