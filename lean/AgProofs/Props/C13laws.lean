/-
C13 (row-order laws)  The hypothesis of `C13_emit_order_independent`, discharged.

`C13_emit_order_independent` (C13.lean) says that `MultiGrouper::emit` produces the same table
whatever order the groups are stored in (HashMap iteration order), provided the comparison of the
emitted rows by the key columns (`orderingRef g.headers`) is transitive, total and antisymmetric
on those rows (`RowOrderLaws`).  Here:

* `rowOrder_trans` / `rowOrder_total` — transitivity and totality hold for every header list and
  all rows (`C09.C09_orderingRef_total_preorder`);
* `emitRow_get_header` — an emitted row holds the i-th key under the i-th header (headers without
  duplicates, no aggregate column named like a header);
* `rowOrderLaws_of_state` — antisymmetry: two emitted rows that compare `Equal` on the key columns
  come from entries with `==` key tuples, and the state holds one entry per key tuple
  (`C01.KeysDistinct`, the MultiGrouper invariant `C01.C01_one_row_per_key`);
* `C13_emit_order_independent_unconditional` — the emitted table does not depend on the storage
  order; corollaries for compiled groupers and for states reached from the empty state.
-/
import AgProofs.Props.C13
import AgProofs.Props.C09laws
import AgProofs.Props.C01laws
import AgProofs.Props.C01dup
import AgProofs.Lemmas.Fields

namespace Ag.C13
open Ag.Value

/-! ### transitivity and totality: every header list, all rows -/

theorem rowOrder_trans (headers : List String) (a b c : Fields)
    (h1 : (orderingRef headers a b != .gt) = true) (h2 : (orderingRef headers b c != .gt) = true) :
    (orderingRef headers a c != .gt) = true := by
  rw [C09.ne_gt_iff_isLE] at h1 h2 ⊢
  exact (C09.orderingRef_transOK headers a b c).isLE h1 h2

theorem rowOrder_total (headers : List String) (a b : Fields) :
    ((orderingRef headers a b != .gt) || (orderingRef headers b a != .gt)) = true := by
  rw [← C09.orderingRef_swap headers a b]
  cases orderingRef headers a b <;> rfl

/-- both `a ≤ b` and `b ≤ a`: `Equal` -/
theorem rowOrder_eq_of_le_le (headers : List String) (a b : Fields)
    (hab : (orderingRef headers a b != .gt) = true) (hba : (orderingRef headers b a != .gt) = true) :
    orderingRef headers a b = .eq := by
  rw [← C09.orderingRef_swap headers a b] at hba
  cases h : orderingRef headers a b <;> rw [h] at hab hba <;> simp at hab hba ⊢

/-! ### what an emitted row holds under the key headers -/

theorem mapM_ok_mem {α β} (f : α → Outcome β) : ∀ (l : List α) (out : List β),
    l.mapM f = .ok out → ∀ b ∈ out, ∃ a ∈ l, f a = .ok b := by
  intro l
  induction l with
  | nil => intro out h b hb; simp [List.mapM_nil] at h; subst h; simp at hb
  | cons a as ih =>
    intro out h b hb
    rw [List.mapM_cons] at h
    cases hf : f a <;> simp [hf] at h
    cases hm : as.mapM f <;> simp [hm] at h
    subst h
    rcases List.mem_cons.1 hb with rfl | hb
    · exact ⟨a, List.mem_cons_self, hf⟩
    · obtain ⟨a', ha', hfa'⟩ := ih _ hm b hb
      exact ⟨a', List.mem_cons_of_mem _ ha', hfa'⟩

theorem mapM_ok_length {α β} (f : α → Outcome β) : ∀ (l : List α) (out : List β),
    l.mapM f = .ok out → out.length = l.length := by
  intro l
  induction l with
  | nil => intro out h; simp [List.mapM_nil] at h; subst h; rfl
  | cons a as ih =>
    intro out h
    rw [List.mapM_cons] at h
    cases hf : f a <;> simp [hf] at h
    cases hm : as.mapM f <;> simp [hm] at h
    subst h
    simp [ih _ hm]

/-- inserting pairs with pairwise different names: each name ends up with its value -/
theorem get_foldl_put_mem (kvs : List (String × Value)) (hnd : (kvs.map Prod.fst).Nodup) :
    ∀ (f : Fields), ∀ kv ∈ kvs,
      Fields.get kv.1 (kvs.foldl (fun d kv => Fields.put kv.1 kv.2 d) f) = some kv.2 := by
  induction kvs with
  | nil => intro f kv h; simp at h
  | cons x rest ih =>
    intro f kv hkv
    simp only [List.map_cons, List.nodup_cons] at hnd
    simp only [List.foldl_cons]
    rcases List.mem_cons.1 hkv with rfl | hkv
    · rw [Fields.get_foldl_put_ne]
      · exact Fields.get_put_eq _ _ _
      · intro y hy heq
        exact hnd.1 (heq ▸ List.mem_map_of_mem hy)
    · exact ih hnd.2 _ kv hkv

/-- **the row emitted for a group holds the group's i-th key under the i-th header** — headers
pairwise different, no aggregate column named like a header, as many keys as headers -/
theorem emitRow_get_header (g : Grouper) (e : List Value × List (String × Acc)) (row : Fields)
    (h : emitRow g e = .ok row) (hhead : g.headers.Nodup)
    (hnames : ∀ n ∈ g.accNames.map Prod.fst, n ∉ g.headers)
    (hlen : e.1.length = g.headers.length) :
    ∀ hv ∈ g.headers.zip e.1, Fields.get hv.1 row = some hv.2 := by
  intro hv hhv
  unfold emitRow at h
  dsimp only at h
  generalize hm : List.mapM (m := Outcome) _ (g.accNames.zip e.2) = m at h
  cases m <;> simp at h
  rename_i cells
  subst h
  have hfst : (g.headers.zip e.1).map Prod.fst = g.headers :=
    List.map_fst_zip (by omega)
  rw [Fields.get_foldl_put_ne]
  · exact get_foldl_put_mem _ (by rw [hfst]; exact hhead) [] hv hhv
  · intro c hc heq
    obtain ⟨da, hda, hfa⟩ := mapM_ok_mem _ _ _ hm c hc
    have hc1 : c.1 = da.1.1 := by
      cases he : da.1.2.emit da.2.2 <;> simp [he] at hfa
      rw [← hfa]
    have hmem : da.1.1 ∈ g.accNames.map Prod.fst :=
      List.mem_map_of_mem (List.of_mem_zip hda).1
    have hin : hv.1 ∈ g.headers := by
      rw [← hfst]; exact List.mem_map_of_mem hhv
    exact hnames _ hmem (hc1 ▸ heq ▸ hin)

/-! ### `Equal` on the key columns means `==` key tuples -/

/-- two rows that hold their (normalised) key tuples under the headers and compare `Equal` on
every header have `==` key tuples -/
theorem keyEq_of_rows (a b : Fields) : ∀ (hs : List String) (ka kb : List Value),
    ka.length = hs.length → kb.length = hs.length →
    (∀ hv ∈ hs.zip ka, Fields.get hv.1 a = some hv.2) →
    (∀ hv ∈ hs.zip kb, Fields.get hv.1 b = some hv.2) →
    (∀ h ∈ hs, cmpOpt (Fields.get h a) (Fields.get h b) = .eq) →
    (∀ v ∈ ka, inS v = true) → (∀ v ∈ kb, inS v = true) → keyEq ka kb = true := by
  intro hs
  induction hs with
  | nil =>
    intro ka kb la lb _ _ _ _ _
    rw [List.length_eq_zero_iff.1 la, List.length_eq_zero_iff.1 lb]
    simp [keyEq, beqL]
  | cons h hs ih =>
    intro ka kb la lb ga gb hc na nb
    cases ka with
    | nil => simp at la
    | cons x ka' =>
    cases kb with
    | nil => simp at lb
    | cons y kb' =>
    simp only [List.length_cons, Nat.add_right_cancel_iff] at la lb
    have hx := ga (h, x) (by simp)
    have hy := gb (h, y) (by simp)
    have hxy := hc h List.mem_cons_self
    simp only at hx hy
    rw [hx, hy] at hxy
    simp only [cmpOpt] at hxy
    have hb : beq x y = true :=
      (beq_iff_cmp_eq x y (na x List.mem_cons_self) (nb y List.mem_cons_self)).2 hxy
    have hrest : keyEq ka' kb' = true :=
      ih ka' kb' la lb
        (fun hv hhv => ga hv (by simp only [List.zip_cons_cons]; exact List.mem_cons_of_mem _ hhv))
        (fun hv hhv => gb hv (by simp only [List.zip_cons_cons]; exact List.mem_cons_of_mem _ hhv))
        (fun k hk => hc k (List.mem_cons_of_mem _ hk))
        (fun v hv => na v (List.mem_cons_of_mem _ hv))
        (fun v hv => nb v (List.mem_cons_of_mem _ hv))
    simp only [keyEq] at hrest ⊢
    simp [beqL, hb, hrest]

/-- in a state with one entry per key tuple (`C01.KeysDistinct`), two entries with `==` keys are
the same entry -/
theorem entry_eq_of_keyEq : ∀ (st : GroupState), C01.KeysDistinct st →
    ∀ ea ∈ st, ∀ eb ∈ st, keyEq ea.1 eb.1 = true → ea = eb := by
  intro st
  induction st with
  | nil => intro _ ea ha; simp at ha
  | cons hd rest ih =>
    intro hdist ea ha eb hb hk
    obtain ⟨k, accs⟩ := hd
    obtain ⟨h1, h2⟩ := hdist
    rcases List.mem_cons.1 ha with rfl | ha <;> rcases List.mem_cons.1 hb with rfl | hb
    · rfl
    · rw [h1 eb hb] at hk; exact absurd hk (by decide)
    · have := C01.keyLaws.symm _ _ hk
      rw [h1 ea ha] at this; exact absurd this (by decide)
    · exact ih h2 ea ha eb hb hk

/-! ### the laws -/

/-- **`RowOrderLaws` for the rows emitted from a grouper state.**  `trans` / `total` hold outright;
`anti` because `Equal` key columns mean `==` key tuples, of which the state holds one each. -/
theorem rowOrderLaws_of_state (g : Grouper) (st : GroupState)
    (frow : List Value × List (String × Acc) → Fields)
    (h : ∀ e ∈ st, emitRow g e = .ok (frow e))
    (hhead : g.headers.Nodup)
    (hnames : ∀ n ∈ g.accNames.map Prod.fst, n ∉ g.headers)
    (hlen : ∀ e ∈ st, e.1.length = g.headers.length)
    (hkeys : C01.KeysDistinct st)
    (hnorm : ∀ e ∈ st, ∀ v ∈ e.1, inS v = true) :
    RowOrderLaws g.headers (st.map frow) where
  trans := rowOrder_trans g.headers
  total := rowOrder_total g.headers
  anti := by
    intro a b ha hb hab hba
    obtain ⟨ea, hea, rfl⟩ := List.mem_map.1 ha
    obtain ⟨eb, heb, rfl⟩ := List.mem_map.1 hb
    have heq := rowOrder_eq_of_le_le g.headers _ _ hab hba
    have hk : keyEq ea.1 eb.1 = true :=
      keyEq_of_rows (frow ea) (frow eb) g.headers ea.1 eb.1 (hlen ea hea) (hlen eb heb)
        (emitRow_get_header g ea _ (h ea hea) hhead hnames (hlen ea hea))
        (emitRow_get_header g eb _ (h eb heb) hhead hnames (hlen eb heb))
        (C09.orderingRef_eq_get heq) (hnorm ea hea) (hnorm eb heb)
    rw [entry_eq_of_keyEq st hkeys ea hea eb heb hk]

/-- **C13 (aggregation rows), without hypotheses on the comparator.**  Two states holding the same
groups in different (hash) orders emit the same table.  The hypotheses:

* `h` — every group can be emitted (`frow` names the rows); when emission fails, *which* failure
  is reported first does depend on the order;
* `hhead` — the key headers are pairwise different (a property of the query: `count by a, a` would
  write both keys to the one field `a`);
* `hnames` — no aggregate column is named like a key header: guaranteed by compilation
  (`C01_compiled_names_nodup`, see `C13_emit_order_independent_compiled`);
* `hlen` — every key tuple has one value per header: an invariant of `process_map`
  (`reachable_keys`, given `keyCols.length = headers.length`);
* `hkeys` — one state entry per key tuple: the HashMap invariant, `C01.C01_one_row_per_key`;
* `hnorm` — the key values have normalised numbers (`inS`: a `Float` never holds an integer of
  the i64 range, which `from_float` guarantees).  This is the normal-form condition of the value
  model under which `Ord`'s `Equal` and `==` coincide; without it `Int 1` and `Float 1.0` are two
  HashMap keys that sort as `Equal` (`C13_emit_needs_normal_keys_counterexample`).
  (`inC` is *not* needed: keys only have to be `==`, not identical.) -/
theorem C13_emit_order_independent_unconditional (g : Grouper) (st st' : GroupState)
    (frow : List Value × List (String × Acc) → Fields)
    (hp : st.Perm st') (h : ∀ e ∈ st, emitRow g e = .ok (frow e))
    (hhead : g.headers.Nodup)
    (hnames : ∀ n ∈ g.accNames.map Prod.fst, n ∉ g.headers)
    (hlen : ∀ e ∈ st, e.1.length = g.headers.length)
    (hkeys : C01.KeysDistinct st)
    (hnorm : ∀ e ∈ st, ∀ v ∈ e.1, inS v = true) :
    g.emit st = g.emit st' :=
  C13_emit_order_independent g st st' frow hp h
    (rowOrderLaws_of_state g st frow h hhead hnames hlen hkeys hnorm)

/-- the row of a group when it can be emitted -/
def emitRowD (g : Grouper) (e : List Value × List (String × Acc)) : Fields :=
  match emitRow g e with
  | .ok r => r
  | _ => []

/-- the same with "every group can be emitted" stated without naming the rows -/
theorem C13_emit_order_independent_of_ok (g : Grouper) (st st' : GroupState)
    (hp : st.Perm st') (hok : ∀ e ∈ st, (emitRow g e).isOk = true)
    (hhead : g.headers.Nodup)
    (hnames : ∀ n ∈ g.accNames.map Prod.fst, n ∉ g.headers)
    (hlen : ∀ e ∈ st, e.1.length = g.headers.length)
    (hkeys : C01.KeysDistinct st)
    (hnorm : ∀ e ∈ st, ∀ v ∈ e.1, inS v = true) :
    g.emit st = g.emit st' := by
  apply C13_emit_order_independent_unconditional g st st' (emitRowD g) hp _ hhead hnames hlen
    hkeys hnorm
  intro e he
  have := hok e he
  unfold emitRowD
  cases hr : emitRow g e <;> simp [hr, Outcome.isOk] at this ⊢

/-! ### compiled groupers, reachable states -/

/-- a compiled aggregation has no aggregate column named like a key header -/
theorem compiled_names (m : MultiAgg) (g : Grouper) (hc : convertMultiAgg m = .ok g) :
    ∀ n ∈ g.accNames.map Prod.fst, n ∉ g.headers := by
  rw [C01dup.C01_own_column m g hc]
  exact (C01dup.C01_compiled_names_nodup m g hc).2.1

/-- the state reached from the empty state holds one entry per key tuple, and every key tuple
has one value per key column -/
theorem reachable_keys (ext : Ext) (g : Grouper) (rows : List Fields) :
    ∀ (st st' : GroupState), C01.KeysDistinct st → (∀ e ∈ st, e.1.length = g.keyCols.length) →
      C01.foldRows ext g st rows = .ok st' →
      C01.KeysDistinct st' ∧ ∀ e ∈ st', e.1.length = g.keyCols.length := by
  induction rows with
  | nil => intro st st' hd hl h; simp [C01.foldRows] at h; subst h; exact ⟨hd, hl⟩
  | cons r rs ih =>
    intro st st' hd hl h
    simp only [C01.foldRows] at h
    cases hp : g.processRow ext st r <;> simp only [hp] at h <;> try (exact absurd h (by simp))
    rename_i st1
    simp only [Grouper.processRow] at hp
    cases hkey : g.keyOf ext r <;> simp only [hkey] at hp <;> try (exact absurd hp (by simp))
    rename_i key
    have hkl : key.length = g.keyCols.length := mapM_ok_length _ _ _ hkey
    obtain ⟨d1, d2⟩ := C01.upd_keys_distinct ext g C01.keyLaws key r st st1 hd hp
    apply ih st1 st' d1 _ h
    intro e he
    rcases d2 e he with ⟨e0, he0, heq⟩ | heq
    · rw [← heq]; exact hl e0 he0
    · rw [heq]; exact hkl

/-- **C13 (aggregation rows), for a compiled aggregation and the state it reaches.**  What is left:
the query's key headers are pairwise different, every group can be emitted, and the key values
are normalised. -/
theorem C13_emit_order_independent_compiled (ext : Ext) (m : MultiAgg) (g : Grouper)
    (hc : convertMultiAgg m = .ok g) (rows : List Fields) (st st' : GroupState)
    (hreach : C01.foldRows ext g [] rows = .ok st) (hp : st.Perm st')
    (hok : ∀ e ∈ st, (emitRow g e).isOk = true)
    (hhead : g.headers.Nodup) (hkl : g.keyCols.length = g.headers.length)
    (hnorm : ∀ e ∈ st, ∀ v ∈ e.1, inS v = true) :
    g.emit st = g.emit st' := by
  obtain ⟨hd, hl⟩ := reachable_keys ext g rows [] st trivial (by intro e he; simp at he) hreach
  exact C13_emit_order_independent_of_ok g st st' hp hok hhead (compiled_names m g hc)
    (fun e he => (hl e he).trans hkl) hd hnorm

/-! ### the hypotheses are needed -/

/-- two groups whose rows differ but tie on the key columns are emitted in storage order -/
theorem emit_two_tied (g : Grouper) (ea eb : List Value × List (String × Acc)) (ra rb : Fields)
    (ha : emitRow g ea = .ok ra) (hb : emitRow g eb = .ok rb)
    (ht : orderingRef g.headers ra rb = .eq) (hne : ra ≠ rb) :
    g.emit [ea, eb] ≠ g.emit [eb, ea] := by
  have fa : emitRowD g ea = ra := by simp [emitRowD, ha]
  have fb : emitRowD g eb = rb := by simp [emitRowD, hb]
  have ht' : orderingRef g.headers rb ra = .eq := by
    rw [← C09.orderingRef_swap, ht]; rfl
  have h1 : ∀ e ∈ [ea, eb], emitRow g e = .ok (emitRowD g e) := by
    intro e he; simp at he; rcases he with rfl | rfl <;> simp [*]
  have h2 : ∀ e ∈ [eb, ea], emitRow g e = .ok (emitRowD g e) := by
    intro e he; simp at he; rcases he with rfl | rfl <;> simp [*]
  rw [emit_eq g _ _ h1, emit_eq g _ _ h2]
  simp only [List.map_cons, List.map_nil, fa, fb]
  rw [List.mergeSort_of_pairwise (le := fun l r => orderingRef g.headers l r != .gt)
      (l := [ra, rb]) (by simp [ht]),
    List.mergeSort_of_pairwise (le := fun l r => orderingRef g.headers l r != .gt)
      (l := [rb, ra]) (by simp [ht'])]
  intro h
  simp only [Outcome.ok.injEq, Table.mk.injEq, List.cons.injEq, true_and] at h
  exact hne h.1

/-- `count by k` -/
def gCount : Grouper :=
  { keyCols := [Expr.col "k" []], headers := ["k"], fns := [("_count", .count none)] }

/-- the double 1.0 = 2^52·2^-52, which `from_float` would have turned into `Int 1` -/
def fOne : F64 := .fin false F64.two52 (-52)

/-- **`hnorm` is needed.**  `Int 1` and a (non-normalised) `Float 1.0` are different HashMap keys
(`==` is false) that `Ord` calls `Equal`: the two groups are emitted in storage order, although
every other hypothesis of `C13_emit_order_independent_unconditional` holds. -/
theorem C13_emit_needs_normal_keys_counterexample :
    let st : GroupState := [([.int 1], [("_count", .count 2)]), ([.float fOne], [("_count", .count 3)])]
    gCount.emit st ≠ gCount.emit st.reverse ∧
      gCount.headers.Nodup ∧ (∀ n ∈ gCount.accNames.map Prod.fst, n ∉ gCount.headers) ∧
      (∀ e ∈ st, e.1.length = gCount.headers.length) ∧ C01.KeysDistinct st ∧
      cmp (.int 1) (.float fOne) = .eq ∧ inS (.float fOne) = false := by
  have hc : cmp (.int 1) (.float fOne) = .eq := by simp only [cmp]; decide
  refine ⟨?_, by simp [gCount], by simp [gCount, Grouper.accNames], by simp [gCount],
    by simp [C01.KeysDistinct, keyEq, beqL, beq], hc, by simp only [inS]; decide⟩
  apply emit_two_tied gCount _ _ [("_count", .int 2), ("k", .int 1)]
    [("_count", .int 3), ("k", .float fOne)]
  · simp [emitRow, gCount, Grouper.accNames, AggDef.emit, Fields.put]
  · simp [emitRow, gCount, Grouper.accNames, AggDef.emit, Fields.put]
  · simp [gCount, orderingRef, Fields.get, cmpOpt, hc]
  · simp

/-- `count by a, a`: the same header twice -/
def gDupHeader : Grouper :=
  { keyCols := [Expr.col "a" [], Expr.col "a" []], headers := ["a", "a"],
    fns := [("_count", .count none)] }

/-- **`hhead` is needed.**  With a header listed twice both keys are written to one field, so two
different key tuples can produce rows that tie. -/
theorem C13_emit_needs_distinct_headers_counterexample :
    let st : GroupState :=
      [([.int 1, .int 2], [("_count", .count 1)]), ([.int 3, .int 2], [("_count", .count 5)])]
    gDupHeader.emit st ≠ gDupHeader.emit st.reverse ∧ C01.KeysDistinct st ∧
      (∀ e ∈ st, ∀ v ∈ e.1, inS v = true) := by
  refine ⟨?_, by simp [C01.KeysDistinct, keyEq, beqL, beq],
    by simp [inS, inI64, F64.i64Min, F64.i64Max]⟩
  apply emit_two_tied gDupHeader _ _ [("_count", .int 1), ("a", .int 2)]
    [("_count", .int 5), ("a", .int 2)]
  · simp [emitRow, gDupHeader, Grouper.accNames, AggDef.emit, Fields.put]
  · simp [emitRow, gDupHeader, Grouper.accNames, AggDef.emit, Fields.put]
  · simp [gDupHeader, orderingRef, Fields.get, cmpOpt, cmp]
  · simp

/-! ### non-vacuity -/

/-- `count by a, b` -/
def gTwoKeys : Grouper :=
  { keyCols := [Expr.col "a" [], Expr.col "b" []], headers := ["a", "b"],
    fns := [("_count", .count none)] }

/-- three groups: an `Int` key, a key that could not be evaluated (`None`), a `Float` key -/
def stThree : GroupState :=
  [([.int 1, .str "x"], [("_count", .count 2)]),
   ([.none, .str "x"], [("_count", .count 1)]),
   ([.float C09.f1_5, .none], [("_count", .count 7)])]

/-- all hypotheses of the unconditional theorem hold of this grouper and state -/
theorem stThree_ok :
    (∀ e ∈ stThree, (emitRow gTwoKeys e).isOk = true) ∧ gTwoKeys.headers.Nodup ∧
    (∀ n ∈ gTwoKeys.accNames.map Prod.fst, n ∉ gTwoKeys.headers) ∧
    (∀ e ∈ stThree, e.1.length = gTwoKeys.headers.length) ∧ C01.KeysDistinct stThree ∧
    (∀ e ∈ stThree, ∀ v ∈ e.1, inS v = true) := by
  refine ⟨?_, by simp [gTwoKeys], by simp [gTwoKeys, Grouper.accNames],
    by simp [stThree, gTwoKeys], by simp [stThree, C01.KeysDistinct, keyEq, beqL, beq],
    by simp [stThree, inS, inI64, F64.i64Min, F64.i64Max, C09.f1_5_ok]⟩
  simp [stThree, emitRow, gTwoKeys, Grouper.accNames, AggDef.emit, Outcome.isOk]

/-- so every storage order of the three groups emits the same table -/
example (st' : GroupState) (hp : stThree.Perm st') : gTwoKeys.emit stThree = gTwoKeys.emit st' :=
  C13_emit_order_independent_of_ok gTwoKeys stThree st' hp stThree_ok.1 stThree_ok.2.1
    stThree_ok.2.2.1 stThree_ok.2.2.2.1 stThree_ok.2.2.2.2.1 stThree_ok.2.2.2.2.2

example : gTwoKeys.emit stThree = gTwoKeys.emit stThree.reverse :=
  C13_emit_order_independent_of_ok gTwoKeys stThree _ (List.reverse_perm _).symm stThree_ok.1
    stThree_ok.2.1 stThree_ok.2.2.1 stThree_ok.2.2.2.1 stThree_ok.2.2.2.2.1 stThree_ok.2.2.2.2.2

end Ag.C13

#print axioms Ag.C13.rowOrder_trans
#print axioms Ag.C13.rowOrder_total
#print axioms Ag.C13.emitRow_get_header
#print axioms Ag.C13.rowOrderLaws_of_state
#print axioms Ag.C13.C13_emit_order_independent_unconditional
#print axioms Ag.C13.C13_emit_order_independent_of_ok
#print axioms Ag.C13.reachable_keys
#print axioms Ag.C13.C13_emit_order_independent_compiled
#print axioms Ag.C13.C13_emit_needs_normal_keys_counterexample
#print axioms Ag.C13.C13_emit_needs_distinct_headers_counterexample
#print axioms Ag.C13.stThree_ok
