/-
C20 (aliases)  A built-in alias means exactly its operators, in its place.

Model: `flattenOps` / `opsDepth` / `planLoop` / `compile` (AgModel/Pipeline.lean) for
`Pipeline::new` (src/lib.rs:132-214): an `Operator::RenderedAlias` is spliced by pushing its
operators onto the FRONT of the queue of remaining operators, so whatever the alias sets up
(in particular `in_agg` after an aggregate inside the alias) is still in force for the stages
written after it.

* `flat`                      — the specification: every `.alias inner` replaced by `flat inner`
* `flattenOps_eq_flat`        — the fuelled queue loop computes `flat` for every fuel ≥ `opsDepth ops`
* `compile_uses_enough_fuel`  — … and `compile` gives it `opsDepth ops + 1`
* `C20_alias_splice`          — alias ≡ expansion, anywhere in the pipeline, whatever follows
* `C20_nested_alias`          — … also for an alias inside an alias
* `C20_alias_stage_after_agg` — `testmultioperator`-shaped alias (`json | <agg>`) followed by a row
                                operator: the operator is an adapted POST-aggregate stage
* `C20_alias_agg_freezes_pre` — in general: what is written after an alias that contains an
                                aggregate/sort never reaches the pre-aggregate operator list
-/
import AgModel.Pipeline

namespace Ag.C20alias
open Ag

/-! ### 1. the specification `flat` and the fuelled loop -/

mutual
/-- the operators one written operator stands for -/
def flatOp : Operator → List Operator
  | .alias inner => flat inner
  | .inline i => [.inline i]
  | .agg m => [.agg m]
  | .sort c d => [.sort c d]
  | .error => [.error]
/-- every alias replaced, recursively, by its operators; everything else kept, in order -/
def flat : List Operator → List Operator
  | [] => []
  | op :: rest => flatOp op ++ flat rest
end

def isAlias : Operator → Bool
  | .alias _ => true
  | _ => false

@[simp] theorem flat_nil : flat [] = [] := by simp [flat]
theorem flat_cons (op : Operator) (rest : List Operator) :
    flat (op :: rest) = flatOp op ++ flat rest := by simp [flat]
@[simp] theorem flat_alias_cons (inner rest : List Operator) :
    flat (.alias inner :: rest) = flat inner ++ flat rest := by simp [flat, flatOp]
theorem flat_cons_of_not_alias (op : Operator) (rest : List Operator) (h : isAlias op = false) :
    flat (op :: rest) = op :: flat rest := by
  cases op <;> simp [flat, flatOp, isAlias] at h ⊢

/-- `flat` distributes over concatenation -/
theorem flat_append (a b : List Operator) : flat (a ++ b) = flat a ++ flat b := by
  induction a with
  | nil => simp
  | cons op a ih => simp [flat_cons, ih]

theorem opsDepth_append (a b : List Operator) : opsDepth (a ++ b) = opsDepth a + opsDepth b := by
  induction a with
  | nil => simp [opsDepth]
  | cons op a ih => cases op <;> simp [opsDepth, ih] <;> omega

theorem opsDepth_eq_zero (ops : List Operator) (h : opsDepth ops = 0) : ops = [] := by
  cases ops with
  | nil => rfl
  | cons op rest => cases op <;> simp [opsDepth] at h

/-- **the queue loop computes the specification**: `flattenOps` with any fuel of at least
`opsDepth ops` (one unit per operator, aliases counted with their contents) is `flat`. -/
theorem flattenOps_eq_flat (fuel : Nat) (ops : List Operator) (h : opsDepth ops ≤ fuel) :
    flattenOps fuel ops = flat ops := by
  induction fuel generalizing ops with
  | zero =>
    have := opsDepth_eq_zero ops (by omega)
    subst this
    simp [flattenOps]
  | succ n ih =>
    cases ops with
    | nil => simp [flattenOps]
    | cons op rest =>
      cases op with
      | alias inner =>
        have hd : opsDepth (inner ++ rest) ≤ n := by
          rw [opsDepth_append]; simp [opsDepth] at h; omega
        simp [flattenOps, ih _ hd, flat_append]
      | inline i =>
        have hd : opsDepth rest ≤ n := by simp [opsDepth] at h; omega
        simp [flattenOps, ih _ hd, flat_cons, flatOp]
      | agg m =>
        have hd : opsDepth rest ≤ n := by simp [opsDepth] at h; omega
        simp [flattenOps, ih _ hd, flat_cons, flatOp]
      | sort c d =>
        have hd : opsDepth rest ≤ n := by simp [opsDepth] at h; omega
        simp [flattenOps, ih _ hd, flat_cons, flatOp]
      | error =>
        have hd : opsDepth rest ≤ n := by simp [opsDepth] at h; omega
        simp [flattenOps, ih _ hd, flat_cons, flatOp]

/-- the fuel `compile` passes is enough -/
theorem compile_uses_enough_fuel (ops : List Operator) :
    flattenOps (opsDepth ops + 1) ops = flat ops :=
  flattenOps_eq_flat _ _ (Nat.le_succ _)

/-- the bound is sharp in the sense that less fuel than operators leaves aliases unspliced -/
example : flattenOps 1 [.error, .alias [.error]] = [.error, .alias [.error]] := by
  simp [flattenOps]
example : opsDepth [.error, .alias [.error]] = 3 := by simp [opsDepth]

/-- the last step of `compile`: the search part of the query becomes the plan's filter -/
def withFilter (s : Search) : Compile → Compile
  | .ok p => .ok { p with filter := s }
  | o => o

/-- `compile` in terms of the specification -/
theorem compile_eq (q : Query) :
    compile q = withFilter q.search (planLoop false false [] [] (flat q.ops)) := by
  unfold compile
  rw [compile_uses_enough_fuel]
  cases planLoop false false [] [] (flat q.ops) <;> rfl

/-- two operator lists with the same flattening compile to the same thing -/
theorem compile_congr (s : Search) (ops1 ops2 : List Operator) (h : flat ops1 = flat ops2) :
    compile { search := s, ops := ops1 } = compile { search := s, ops := ops2 } := by
  rw [compile_eq, compile_eq]
  simp only [h]

/-! ### 4. supporting lemmas: no alias survives, idempotence -/

mutual
theorem flatOp_no_alias : ∀ (op : Operator), ∀ x ∈ flatOp op, isAlias x = false
  | .alias inner => by
    intro x hx
    simp only [flatOp] at hx
    exact flat_no_alias inner x hx
  | .inline i => by intro x hx; simp [flatOp] at hx; subst hx; rfl
  | .agg m => by intro x hx; simp [flatOp] at hx; subst hx; rfl
  | .sort c d => by intro x hx; simp [flatOp] at hx; subst hx; rfl
  | .error => by intro x hx; simp [flatOp] at hx; subst hx; rfl
/-- the flattening contains no alias -/
theorem flat_no_alias : ∀ (ops : List Operator), ∀ x ∈ flat ops, isAlias x = false
  | [] => by intro x hx; simp at hx
  | op :: rest => by
    intro x hx
    rw [flat_cons] at hx
    rcases List.mem_append.mp hx with h | h
    · exact flatOp_no_alias op x h
    · exact flat_no_alias rest x h
end

/-- the same, stated with the constructor -/
theorem flat_no_alias' (ops inner : List Operator) : Operator.alias inner ∉ flat ops := by
  intro h
  have := flat_no_alias ops _ h
  simp [isAlias] at this

/-- an alias-free list is its own flattening -/
theorem flat_of_no_alias (ops : List Operator) (h : ∀ x ∈ ops, isAlias x = false) :
    flat ops = ops := by
  induction ops with
  | nil => simp
  | cons op rest ih =>
    rw [flat_cons_of_not_alias op rest (h op (by simp)), ih (fun x hx => h x (by simp [hx]))]

theorem flat_idempotent (ops : List Operator) : flat (flat ops) = flat ops :=
  flat_of_no_alias _ (flat_no_alias ops)

/-- the `.alias` arm of `planLoop` is dead code behind `flattenOps`: on what `compile` feeds it,
the loop never sees an alias -/
theorem compile_planLoop_input_no_alias (q : Query) :
    ∀ x ∈ flattenOps (opsDepth q.ops + 1) q.ops, isAlias x = false := by
  rw [compile_uses_enough_fuel]
  exact flat_no_alias q.ops

/-! ### 2. alias ≡ expansion -/

theorem flat_splice (pre inner post : List Operator) :
    flat (pre ++ [.alias inner] ++ post) = flat (pre ++ inner ++ post) := by
  simp [flat_append]

/-- **C20 (alias splice).** An alias anywhere in the pipeline compiles to exactly what its
operators written out in that place compile to — same plan, same error, same panic — whatever
stands before and AFTER it. -/
theorem C20_alias_splice (pre inner post : List Operator) (q : Query) :
    compile { q with ops := pre ++ [.alias inner] ++ post } =
    compile { q with ops := pre ++ inner ++ post } :=
  compile_congr _ _ _ (flat_splice pre inner post)

/-- **C20 (nested alias).** An alias whose template itself uses an alias: both levels are spliced
in place. -/
theorem C20_nested_alias (pre a b c post : List Operator) (q : Query) :
    compile { q with ops := pre ++ [.alias (a ++ [.alias b] ++ c)] ++ post } =
    compile { q with ops := pre ++ a ++ b ++ c ++ post } :=
  compile_congr _ _ _ (by simp [flat_append])

/-- all aliases at once: a query and its full expansion compile alike -/
theorem C20_alias_full_expansion (q : Query) : compile q = compile { q with ops := flat q.ops } := by
  cases q with
  | mk s ops => exact compile_congr s ops (flat ops) (flat_idempotent ops).symm

/-! ### 3. the stage after an alias that aggregates -/

/-- once `in_agg` is set the pre-aggregate list is frozen -/
theorem planLoop_inAgg_pre (ops : List Operator) :
    ∀ (he : Bool) (pre : List RowOp) (post : List AggStage) (p : Plan),
      planLoop true he pre post ops = .ok p → p.pre = pre.reverse := by
  induction ops with
  | nil =>
    intro he pre post p h
    simp only [planLoop] at h
    split at h
    · simp at h
    · simp only [Compile.ok.injEq] at h; subst h; rfl
  | cons op rest ih =>
    intro he pre post p h
    cases op with
    | error => simp only [planLoop] at h; exact ih _ _ _ _ h
    | alias _ => simp only [planLoop] at h; exact ih _ _ _ _ h
    | inline i =>
      simp only [planLoop] at h
      cases ht : typecheckInline i with
      | ok o => simp only [ht, Bool.not_true, Bool.false_eq_true, if_false] at h; exact ih _ _ _ _ h
      | typeError k => simp [ht] at h
      | panic s => simp [ht] at h
      | unmodelled w => simp [ht] at h
    | agg m =>
      simp only [planLoop] at h
      cases hc : convertMultiAgg m with
      | ok g =>
        simp only [hc] at h
        split at h <;> exact ih _ _ _ _ h
      | typeError k => simp only [hc] at h; exact ih _ _ _ _ h
      | panic s => simp [hc] at h
      | unmodelled w => simp [hc] at h
    | sort cols dir =>
      simp only [planLoop] at h
      split at h
      · exact ih _ _ _ _ h
      · simp at h

/-- an operator that sets `in_agg` -/
def setsInAgg : Operator → Bool
  | .agg _ => true
  | .sort _ _ => true
  | _ => false

/-- general form: after a segment `a` that contains an aggregate or sort, the continuation has no
influence on the pre-aggregate list -/
theorem planLoop_pre_indep (a : List Operator) (ha : ∃ x ∈ a, setsInAgg x = true) :
    ∀ (inAgg he : Bool) (pre : List RowOp) (post1 post2 : List AggStage) (b1 b2 : List Operator)
      (p1 p2 : Plan),
      planLoop inAgg he pre post1 (a ++ b1) = .ok p1 →
      planLoop inAgg he pre post2 (a ++ b2) = .ok p2 → p1.pre = p2.pre := by
  induction a with
  | nil => simp at ha
  | cons op a ih =>
    intro inAgg he pre post1 post2 b1 b2 p1 p2 h1 h2
    cases inAgg with
    | true => rw [planLoop_inAgg_pre _ _ _ _ _ h1, planLoop_inAgg_pre _ _ _ _ _ h2]
    | false =>
      have ha' : setsInAgg op = false → ∃ x ∈ a, setsInAgg x = true := by
        intro hop
        obtain ⟨x, hx, hs⟩ := ha
        rcases List.mem_cons.mp hx with rfl | hx
        · simp [hop] at hs
        · exact ⟨x, hx, hs⟩
      simp only [List.cons_append] at h1 h2
      cases op with
      | error =>
        simp only [planLoop] at h1 h2
        exact ih (ha' rfl) _ _ _ _ _ _ _ _ _ h1 h2
      | alias _ =>
        simp only [planLoop] at h1 h2
        exact ih (ha' rfl) _ _ _ _ _ _ _ _ _ h1 h2
      | inline i =>
        simp only [planLoop] at h1 h2
        cases ht : typecheckInline i with
        | ok o =>
          simp only [ht, Bool.not_false, if_true] at h1 h2
          exact ih (ha' rfl) _ _ _ _ _ _ _ _ _ h1 h2
        | typeError k => simp [ht] at h1
        | panic s => simp [ht] at h1
        | unmodelled w => simp [ht] at h1
      | agg m =>
        simp only [planLoop] at h1 h2
        cases hc : convertMultiAgg m with
        | ok g =>
          simp only [hc] at h1 h2
          have e1 : p1.pre = pre.reverse := by
            split at h1 <;> exact planLoop_inAgg_pre _ _ _ _ _ h1
          have e2 : p2.pre = pre.reverse := by
            split at h2 <;> exact planLoop_inAgg_pre _ _ _ _ _ h2
          rw [e1, e2]
        | typeError k =>
          simp only [hc] at h1 h2
          rw [planLoop_inAgg_pre _ _ _ _ _ h1, planLoop_inAgg_pre _ _ _ _ _ h2]
        | panic s => simp [hc] at h1
        | unmodelled w => simp [hc] at h1
      | sort cols dir =>
        simp only [planLoop] at h1 h2
        split at h1
        · simp only [*, if_true] at h2
          rw [planLoop_inAgg_pre _ _ _ _ _ h1, planLoop_inAgg_pre _ _ _ _ _ h2]
        · simp at h1

/-- `compile` succeeded: the loop succeeded with the same `pre`/`post` -/
theorem compile_ok (q : Query) (p : Plan) (h : compile q = .ok p) :
    ∃ p0, planLoop false false [] [] (flat q.ops) = .ok p0 ∧ p.pre = p0.pre ∧ p.post = p0.post := by
  rw [compile_eq] at h
  cases hp : planLoop false false [] [] (flat q.ops) with
  | ok p0 =>
    simp only [hp, withFilter, Compile.ok.injEq] at h
    subst h
    exact ⟨p0, rfl, rfl, rfl⟩
  | error k => simp [hp, withFilter] at h
  | panic k => simp [hp, withFilter] at h
  | unmodelled k => simp [hp, withFilter] at h

/-- **C20 (nothing written after an aggregating alias runs before the aggregation).** If the
operators of an alias contain an aggregate or a sort (at any alias depth), the pre-aggregate
operator list of the compiled plan does not depend on what is written after the alias: no later
stage is ever put in front of the aggregation. -/
theorem C20_alias_agg_freezes_pre (pre inner post1 post2 : List Operator) (q : Query) (p1 p2 : Plan)
    (hagg : ∃ x ∈ flat inner, setsInAgg x = true)
    (h1 : compile { q with ops := pre ++ [.alias inner] ++ post1 } = .ok p1)
    (h2 : compile { q with ops := pre ++ [.alias inner] ++ post2 } = .ok p2) :
    p1.pre = p2.pre := by
  obtain ⟨a1, l1, e1, _⟩ := compile_ok _ _ h1
  obtain ⟨a2, l2, e2, _⟩ := compile_ok _ _ h2
  simp only [flat_append, flat_alias_cons, flat_nil, List.append_nil, List.append_assoc] at l1 l2
  rw [← List.append_assoc] at l1 l2
  rw [e1, e2]
  refine planLoop_pre_indep (flat pre ++ flat inner) ?_ _ _ _ _ _ _ _ _ _ l1 l2
  obtain ⟨x, hx, hs⟩ := hagg
  exact ⟨x, List.mem_append.mpr (Or.inr hx), hs⟩

/-- **C20 (the `json | count`-shaped alias followed by a stage).** With the built-in test alias
`testmultioperator` = `json | <agg>` and one row operator `i` written after it, the compiled plan
is: `json` before the aggregation, then the group stage (and its implicit sort iff `i` is a
`limit`), then `i` as an adapted POST-aggregate stage.  `i` is not in the pre-aggregate list. -/
theorem C20_alias_stage_after_agg (s : Search) (m : MultiAgg) (g : Grouper) (i : Inline) (o : RowOp)
    (hm : convertMultiAgg m = .ok g) (hi : typecheckInline i = .ok o) :
    compile { search := s, ops := [.alias [.inline (.json none), .agg m], .inline i] } =
      .ok { filter := s,
            pre := [.json none],
            post := if needsSortAfter [.inline i] then
                      [.group g, .sort (implicitSort m).1 (implicitSort m).2, .adapt o]
                    else [.group g, .adapt o] } := by
  have hs := C20_alias_splice [] [.inline (.json none), .agg m] [.inline i] { search := s, ops := [] }
  simp only [List.nil_append, List.cons_append] at hs
  rw [hs, compile_eq]
  have hj : typecheckInline (.json none) = .ok (.json none) := by simp [typecheckInline, optWellTyped]
  by_cases hn : needsSortAfter [.inline i] = true
  · simp [flat_cons, flatOp, planLoop, withFilter, hj, hm, hi, hn]
  · simp [flat_cons, flatOp, planLoop, withFilter, hj, hm, hi, hn]

/-- the same read off the plan's fields -/
theorem C20_alias_stage_after_agg_fields (s : Search) (m : MultiAgg) (g : Grouper) (i : Inline)
    (o : RowOp) (p : Plan) (hm : convertMultiAgg m = .ok g) (hi : typecheckInline i = .ok o)
    (hp : compile { search := s, ops := [.alias [.inline (.json none), .agg m], .inline i] } = .ok p) :
    p.pre = [.json none] ∧ p.post.head? = some (.group g) ∧ p.post.getLast? = some (.adapt o) := by
  rw [C20_alias_stage_after_agg s m g i o hm hi] at hp
  simp only [Compile.ok.injEq] at hp
  subst hp
  refine ⟨rfl, ?_, ?_⟩ <;> split <;> simp

/-! ### non-vacuity and closed instances -/

/-- `count` -/
def countAgg : MultiAgg := { keyCols := [], headers := [], fns := [("_count", .count none)] }

theorem countAgg_ok :
    convertMultiAgg countAgg = .ok { keyCols := [], headers := [], fns := [("_count", .count none)] } := by
  simp [convertMultiAgg, convertMultiAgg.fns, countAgg, dupColumn, typecheckAgg, optWellTyped,
    Expr.wellTypedL]

/-- `* | testmultioperator | limit`: the limit applies to the aggregated table (after the implicit
sort), it does not cut the input to 10 lines before counting -/
example :
    compile { search := .and [], ops := [.alias [.inline (.json none), .agg countAgg], .inline (.limit none)] } =
      .ok { filter := .and [], pre := [.json none],
            post := [.group { keyCols := [], headers := [], fns := [("_count", .count none)] },
                     .sort [.col "_count" []] .desc, .adapt (.limit 10)] } := by
  rw [C20_alias_stage_after_agg _ _ _ _ (.limit 10) countAgg_ok (by simp [typecheckInline])]
  simp [needsSortAfter, implicitSort, countAgg]

/-- `* | testmultioperator | fields k`: no implicit sort, `fields` runs on the table -/
example :
    compile { search := .and [], ops := [.alias [.inline (.json none), .agg countAgg], .inline (.fields .only ["k"])] } =
      .ok { filter := .and [], pre := [.json none],
            post := [.group { keyCols := [], headers := [], fns := [("_count", .count none)] },
                     .adapt (.fields .only ["k"])] } := by
  rw [C20_alias_stage_after_agg _ _ _ _ (.fields .only ["k"]) countAgg_ok (by simp [typecheckInline])]
  simp [needsSortAfter]

/-- `* | testmultioperator | limit 5` (5 = 5·2⁰) -/
example :
    compile { search := .and [], ops := [.alias [.inline (.json none), .agg countAgg],
                                         .inline (.limit (some (F64.fin false 5 0)))] } =
      .ok { filter := .and [], pre := [.json none],
            post := [.group { keyCols := [], headers := [], fns := [("_count", .count none)] },
                     .sort [.col "_count" []] .desc, .adapt (.limit 5)] } := by
  have h5 : (F64.feq (F64.trunc (F64.fin false 5 0)) F64.zero || F64.fractNonzero (F64.fin false 5 0)) = false ∧
      F64.toI64 (F64.fin false 5 0) = 5 := by decide +kernel
  rw [C20_alias_stage_after_agg _ _ _ _ (.limit 5) countAgg_ok (by simp [typecheckInline, h5.1, h5.2])]
  simp [needsSortAfter, implicitSort, countAgg]

/-- the alias form and the written-out form of the same query, closed -/
example :
    compile { search := .and [], ops := [.alias [.inline (.json none), .agg countAgg], .inline (.limit none)] } =
    compile { search := .and [], ops := [.inline (.json none), .agg countAgg, .inline (.limit none)] } :=
  C20_alias_splice [] _ [.inline (.limit none)] { search := .and [], ops := [] }

/-- non-vacuity of `C20_alias_agg_freezes_pre`: the alias above, followed by nothing / by `limit` -/
example :
    compile { search := .and [], ops := [] ++ [.alias [.inline (.json none), .agg countAgg]] ++ [] } =
      .ok { filter := .and [], pre := [.json none],
            post := [.group { keyCols := [], headers := [], fns := [("_count", .count none)] },
                     .sort [.col "_count" []] .desc] } ∧
    compile { search := .and [], ops := [] ++ [.alias [.inline (.json none), .agg countAgg]] ++ [.inline (.limit none)] } =
      .ok { filter := .and [], pre := [.json none],
            post := [.group { keyCols := [], headers := [], fns := [("_count", .count none)] },
                     .sort [.col "_count" []] .desc, .adapt (.limit 10)] } ∧
    (∃ x ∈ flat [.inline (.json none), .agg countAgg], setsInAgg x = true) := by
  refine ⟨?_, ?_, ⟨.agg countAgg, by simp [flat_cons, flatOp], rfl⟩⟩
  · simp [compile_eq, flat_cons, flatOp, planLoop, withFilter, typecheckInline, optWellTyped,
      countAgg_ok, needsSortAfter]
    simp [implicitSort, countAgg]
  · simp [compile_eq, flat_cons, flatOp, planLoop, withFilter, typecheckInline, optWellTyped,
      countAgg_ok, needsSortAfter]
    simp [implicitSort, countAgg]

/-- nested aliases, closed -/
example : flat [.error, .alias [.inline (.limit none), .alias [.alias [], .error], .sort [] .asc], .error] =
    [.error, .inline (.limit none), .error, .sort [] .asc, .error] := by
  simp [flat_cons, flatOp]

end Ag.C20alias
